//! C01: every safe public function of the anchored files that returns a slice or a str is called on
//! structured inputs; for every returned slice/str the harness records where it points
//! (`v:<off>:<len>` relative to the argument it was derived from, `v:OUTSIDE:<len>` if a non-empty
//! result is not inside it) and the flags the property demands:
//!   in:<t|f>    every non-empty returned slice/str lies inside the argument
//!   utf8:<t|f>  `core::str::from_utf8` of the bytes of every returned str succeeds
//!   bnd:<t|f>   both ends of every returned str are char boundaries of the argument
//!               (`str::is_char_boundary`)
//!   sc:<t|f>    every yielded `char` is a Unicode scalar value (`char::from_u32(c as u32)`)
//! request:  `ub.<request of C02/C03/C04/C05/C07>` or one of the C01-only forms below
//! impl:     `<payload>,in:..[,utf8:..,bnd:..[,sc:..]]`
//! oracle:   the SAME payload with every flag `t` (the property: whatever is returned must be inside,
//!           valid, on boundaries); the driver answers the MODEL's payload and the flags the model's
//!           own definitions give for it.
//! Tiers: quick | thorough | miri (a much smaller input set for the ~100x slower interpreter).
use crate::c04::{as_char, with_bpat, with_spat, Kind};
use crate::util::*;
use konst::slice as ks;
use konst::string as kst;

pub struct Fl {
    inb: bool,
    utf8: bool,
    bnd: bool,
    sc: bool,
}

impl Fl {
    fn new() -> Self {
        Fl { inb: true, utf8: true, bnd: true, sc: true }
    }
    /// a returned slice: view token; updates `in`
    fn sl_raw<T>(&mut self, bp: *const T, bl: usize, sp: *const T, sl: usize) -> String {
        let v = view_raw(bp, bl, sp, sl);
        if v.starts_with("v:OUTSIDE") {
            self.inb = false;
        }
        if std::mem::size_of::<T>() == 0 && sl > bl {
            self.inb = false;
        }
        v
    }
    fn sl<T>(&mut self, base: &[T], sub: &[T]) -> String {
        self.sl_raw(base.as_ptr(), base.len(), sub.as_ptr(), sub.len())
    }
    fn osl<T>(&mut self, base: &[T], sub: Option<&[T]>) -> String {
        match sub {
            None => "none".into(),
            Some(s) => self.sl(base, s),
        }
    }
    /// a returned str: view token; updates `in`, `utf8`, `bnd`
    fn st(&mut self, base: &str, sub: &str) -> String {
        let v = self.sl(base.as_bytes(), sub.as_bytes());
        if core::str::from_utf8(sub.as_bytes()).is_err() {
            self.utf8 = false;
        }
        let (b, s) = (base.as_ptr() as usize, sub.as_ptr() as usize);
        if s >= b && s - b + sub.len() <= base.len() {
            // inside (an empty result may point anywhere; if it points into the argument it must
            // sit on a boundary too)
            let off = s - b;
            if !(base.is_char_boundary(off) && base.is_char_boundary(off + sub.len())) {
                self.bnd = false;
            }
        }
        v
    }
    fn ost(&mut self, base: &str, sub: Option<&str>) -> String {
        match sub {
            None => "none".into(),
            Some(s) => self.st(base, s),
        }
    }
    fn ch(&mut self, c: char) -> u32 {
        let n = c as u32;
        if char::from_u32(n).is_none() {
            self.sc = false;
        }
        n
    }
    fn render(&self, payload: &str, cols: u8) -> String {
        // a result without any non-empty view (and with nothing to object to) is rendered bare, so that
        // the runner's "non-trivial case" count means "returned at least one non-empty view / char"
        if self.inb && self.utf8 && self.bnd && self.sc && matches!(payload, "none" | "panic" | "v:_:0" | "err") {
            return payload.to_string();
        }
        match cols {
            1 => format!("{},in:{}", payload, b(self.inb)),
            3 => format!("{},in:{},utf8:{},bnd:{}", payload, b(self.inb), b(self.utf8), b(self.bnd)),
            _ => format!("{},in:{},utf8:{},bnd:{},sc:{}", payload, b(self.inb), b(self.utf8), b(self.bnd), b(self.sc)),
        }
    }
}

fn all_t(payload: &str, cols: u8) -> String {
    Fl::new().render(payload, cols)
}

/// run `f` (which calls konst and renders the payload, recording flags), emit impl and oracle
fn emit<F: FnOnce(&mut Fl) -> String>(out: &mut Out, req: &str, cols: u8, f: F) {
    let mut fl = Fl::new();
    let payload = catch(|| f(&mut fl));
    out.emit(req, &fl.render(&payload, cols), &all_t(&payload, cols), true);
}

static MIRI: std::sync::atomic::AtomicBool = std::sync::atomic::AtomicBool::new(false);

fn indices(len: usize) -> Vec<usize> {
    if MIRI.load(std::sync::atomic::Ordering::Relaxed) {
        // the interpreter is ~1000x slower: one in-range, the two ends, one past, two huge
        let mut v = vec![0, len / 2, len, len + 1, isize::MAX as usize + 1, usize::MAX];
        v.dedup();
        return v;
    }
    let mut v: Vec<usize> = (0..=len + 2).collect();
    v.extend_from_slice(&[isize::MAX as usize, isize::MAX as usize + 1, usize::MAX - 1, usize::MAX]);
    v
}

// ------------------------------------------------------------------------------------------------
// slices
// ------------------------------------------------------------------------------------------------

macro_rules! with_n {
    ($n:expr, $f:ident, $($args:expr),*) => {
        match $n {
            0 => $f::<_, 0>($($args),*),
            1 => $f::<_, 1>($($args),*),
            2 => $f::<_, 2>($($args),*),
            3 => $f::<_, 3>($($args),*),
            4 => $f::<_, 4>($($args),*),
            _ => unreachable!(),
        }
    };
}

fn flat<T, const N: usize>(fl: &mut Fl, base: &[T], arrs: &[[T; N]]) -> String {
    fl.sl_raw(base.as_ptr(), base.len(), arrs.as_ptr() as *const T, arrs.len() * N)
}

fn arrays_n<T: Clone + std::panic::RefUnwindSafe, const N: usize>(s: &[T], out: &mut Out, elem: &str) {
    let len = s.len();
    emit(out, &format!("ub.s.try_into_array {} {} {}", elem, len, N), 1, |fl| match ks::try_into_array::<T, N>(s) {
        Ok(a) => fl.sl(s, &a[..]),
        Err(_) => "none".into(),
    });
    {
        let mut m = s.to_vec();
        let (bp, bl) = (m.as_ptr(), m.len());
        emit(out, &format!("ub.s.try_into_array.mut {} {} {}", elem, len, N), 1, |fl| match ks::try_into_array_mut::<T, N>(&mut m) {
            Ok(a) => fl.sl_raw(bp, bl, a.as_ptr(), a.len()),
            Err(_) => "none".into(),
        });
    }
    emit(out, &format!("ub.s.as_chunks {} {} {}", elem, len, N), 1, |fl| {
        let (a, r) = ks::as_chunks::<T, N>(s);
        format!("{}|{}|{}", flat(fl, s, a), a.len(), fl.sl(s, r))
    });
    emit(out, &format!("ub.s.as_rchunks {} {} {}", elem, len, N), 1, |fl| {
        let (r, a) = ks::as_rchunks::<T, N>(s);
        format!("{}|{}|{}", fl.sl(s, r), flat(fl, s, a), a.len())
    });
    // array_chunks: every item (forward), then the remainder; and backwards
    emit(out, &format!("ub.array_chunks {} {} {}", elem, len, N), 1, |fl| {
        let mut it = ks::array_chunks::<T, N>(s);
        let rem = fl.sl(s, it.remainder());
        let mut v = Vec::new();
        while let Some((a, n)) = it.next() {
            v.push(fl.sl(s, &a[..]));
            it = n;
        }
        format!("[{}]|{}", v.join(";"), rem)
    });
    emit(out, &format!("ub.array_chunks.back {} {} {}", elem, len, N), 1, |fl| {
        let mut it = ks::array_chunks::<T, N>(s);
        let rem = fl.sl(s, it.remainder());
        let mut v = Vec::new();
        while let Some((a, n)) = it.next_back() {
            v.push(fl.sl(s, &a[..]));
            it = n;
        }
        format!("[{}]|{}", v.join(";"), rem)
    });
}

fn run_slices<T: Clone + std::panic::RefUnwindSafe>(elem: &str, mk: &dyn Fn(usize) -> T, max_len: usize, ranges: bool, out: &mut Out) {
    for len in 0..=max_len {
        let v: Vec<T> = (0..len).map(|i| mk(i)).collect();
        let s: &[T] = &v;
        let idx = indices(len);
        for &i in &idx {
            emit(out, &format!("ub.s.get {} {} {}", elem, len, i), 1, |fl| match ks::get(s, i) {
                None => "none".into(),
                Some(r) => fl.sl(s, core::slice::from_ref(r)),
            });
            emit(out, &format!("ub.s.get_from {} {} {}", elem, len, i), 1, |fl| fl.osl(s, ks::get_from(s, i)));
            emit(out, &format!("ub.s.get_up_to {} {} {}", elem, len, i), 1, |fl| fl.osl(s, ks::get_up_to(s, i)));
            emit(out, &format!("ub.s.slice_from {} {} {}", elem, len, i), 1, |fl| fl.sl(s, ks::slice_from(s, i)));
            emit(out, &format!("ub.s.slice_up_to {} {} {}", elem, len, i), 1, |fl| fl.sl(s, ks::slice_up_to(s, i)));
            emit(out, &format!("ub.s.split_at {} {} {}", elem, len, i), 1, |fl| {
                let (a, b) = ks::split_at(s, i);
                format!("{}|{}", fl.sl(s, a), fl.sl(s, b))
            });
            // `_mut` twins
            macro_rules! mut_case {
                ($name:expr, |$m:ident, $fl:ident, $bp:ident, $bl:ident| $body:expr) => {{
                    let mut m__ = v.clone();
                    let ($bp, $bl) = (m__.as_ptr(), m__.len());
                    let $m: &mut [T] = &mut m__;
                    emit(out, &format!("ub.s.{}.mut {} {} {}", $name, elem, len, i), 1, |$fl| $body);
                }};
            }
            mut_case!("get", |m, fl, bp, bl| match ks::get_mut(m, i) {
                None => "none".to_string(),
                Some(r) => fl.sl_raw(bp, bl, r as *const T, 1),
            });
            mut_case!("get_from", |m, fl, bp, bl| match ks::get_from_mut(m, i) {
                None => "none".to_string(),
                Some(r) => fl.sl_raw(bp, bl, r.as_ptr(), r.len()),
            });
            mut_case!("get_up_to", |m, fl, bp, bl| match ks::get_up_to_mut(m, i) {
                None => "none".to_string(),
                Some(r) => fl.sl_raw(bp, bl, r.as_ptr(), r.len()),
            });
            mut_case!("slice_from", |m, fl, bp, bl| {
                let r = ks::slice_from_mut(m, i);
                fl.sl_raw(bp, bl, r.as_ptr(), r.len())
            });
            mut_case!("slice_up_to", |m, fl, bp, bl| {
                let r = ks::slice_up_to_mut(m, i);
                fl.sl_raw(bp, bl, r.as_ptr(), r.len())
            });
            mut_case!("split_at", |m, fl, bp, bl| {
                let (a, b) = ks::split_at_mut(m, i);
                // the two `&mut` halves must not overlap
                let (ap, al, bp2, bl2) = (a.as_ptr() as usize, a.len(), b.as_ptr() as usize, b.len());
                let sz = std::mem::size_of::<T>();
                if al > 0 && bl2 > 0 && sz > 0 && !(ap + al * sz <= bp2 || bp2 + bl2 * sz <= ap) {
                    fl.inb = false;
                }
                format!("{}|{}", fl.sl_raw(bp, bl, a.as_ptr(), a.len()), fl.sl_raw(bp, bl, b.as_ptr(), b.len()))
            });
            if ranges {
                for &j in &idx {
                    emit(out, &format!("ub.s.get_range {} {} {} {}", elem, len, i, j), 1, |fl| fl.osl(s, ks::get_range(s, i, j)));
                    emit(out, &format!("ub.s.slice_range {} {} {} {}", elem, len, i, j), 1, |fl| fl.sl(s, ks::slice_range(s, i, j)));
                    let mut m = v.clone();
                    let (bp, bl) = (m.as_ptr(), m.len());
                    emit(out, &format!("ub.s.get_range.mut {} {} {} {}", elem, len, i, j), 1, |fl| match ks::get_range_mut(&mut m, i, j) {
                        None => "none".to_string(),
                        Some(r) => fl.sl_raw(bp, bl, r.as_ptr(), r.len()),
                    });
                    let mut m = v.clone();
                    let (bp, bl) = (m.as_ptr(), m.len());
                    emit(out, &format!("ub.s.slice_range.mut {} {} {} {}", elem, len, i, j), 1, |fl| {
                        let r = ks::slice_range_mut(&mut m, i, j);
                        fl.sl_raw(bp, bl, r.as_ptr(), r.len())
                    });
                }
            }
        }
        {
            let mut m = v.clone();
            let (bp, bl) = (m.as_ptr(), m.len());
            emit(out, &format!("ub.s.first.mut {} {}", elem, len), 1, |fl| match ks::first_mut(&mut m) {
                None => "none".to_string(),
                Some(r) => fl.sl_raw(bp, bl, r as *const T, 1),
            });
            let mut m = v.clone();
            let (bp, bl) = (m.as_ptr(), m.len());
            emit(out, &format!("ub.s.last.mut {} {}", elem, len), 1, |fl| match ks::last_mut(&mut m) {
                None => "none".to_string(),
                Some(r) => fl.sl_raw(bp, bl, r as *const T, 1),
            });
            let mut m = v.clone();
            let (bp, bl) = (m.as_ptr(), m.len());
            emit(out, &format!("ub.s.split_first.mut {} {}", elem, len), 1, |fl| match ks::split_first_mut(&mut m) {
                None => "none".to_string(),
                Some((f, r)) => format!("{}|{}", fl.sl_raw(bp, bl, f as *const T, 1), fl.sl_raw(bp, bl, r.as_ptr(), r.len())),
            });
            let mut m = v.clone();
            let (bp, bl) = (m.as_ptr(), m.len());
            emit(out, &format!("ub.s.split_last.mut {} {}", elem, len), 1, |fl| match ks::split_last_mut(&mut m) {
                None => "none".to_string(),
                Some((f, r)) => format!("{}|{}", fl.sl_raw(bp, bl, f as *const T, 1), fl.sl_raw(bp, bl, r.as_ptr(), r.len())),
            });
        }
        for n in 0..=4usize {
            with_n!(n, arrays_n, s, out, elem);
        }
    }
}

// ------------------------------------------------------------------------------------------------
// strings
// ------------------------------------------------------------------------------------------------

const LETTERS: [&str; 4] = ["a", "ñ", "€", "😀"];

fn words(alphabet: &[&str], max: usize) -> Vec<String> {
    let a: Vec<&[u8]> = alphabet.iter().map(|s| s.as_bytes()).collect();
    all_words(&a, max).into_iter().map(|w| String::from_utf8(w).unwrap()).collect()
}

fn slicing(s: &str, ranges: bool, out: &mut Out) {
    let h = hex(s.as_bytes());
    let idx = indices(s.len());
    for &i in &idx {
        emit(out, &format!("ub.str.get_from {} {}", h, i), 3, |fl| fl.ost(s, kst::get_from(s, i)));
        emit(out, &format!("ub.str.get_up_to {} {}", h, i), 3, |fl| fl.ost(s, kst::get_up_to(s, i)));
        emit(out, &format!("ub.str.str_from {} {}", h, i), 3, |fl| fl.st(s, kst::str_from(s, i)));
        emit(out, &format!("ub.str.str_up_to {} {}", h, i), 3, |fl| fl.st(s, kst::str_up_to(s, i)));
        emit(out, &format!("ub.str.split_at {} {}", h, i), 3, |fl| {
            let (a, b) = kst::split_at(s, i);
            format!("{}|{}", fl.st(s, a), fl.st(s, b))
        });
        if ranges {
            for &j in &idx {
                emit(out, &format!("ub.str.get_range {} {} {}", h, i, j), 3, |fl| fl.ost(s, kst::get_range(s, i, j)));
                emit(out, &format!("ub.str.str_range {} {} {}", h, i, j), 3, |fl| fl.st(s, kst::str_range(s, i, j)));
            }
        }
    }
}

fn str_pair(fl: &mut Fl, h: &str, r: Option<(&str, &str)>) -> String {
    match r {
        None => "none".into(),
        Some((a, b)) => format!("{}|{}", fl.st(h, a), fl.st(h, b)),
    }
}

/// all pattern functions of `konst::string` for one (haystack, needle, kind ∈ {str, char})
fn str_patterns(h: &str, n: &str, kind: Kind, out: &mut Out) {
    let k = kind.name();
    let (hh, nh) = (hex(h.as_bytes()), hex(n.as_bytes()));
    let nb = n.as_bytes();
    let req = |f: &str| format!("ub.st.{} {} {} {}", f, k, hh, nh);
    emit(out, &req("find_skip"), 3, |fl| fl.ost(h, with_spat!(kind, nb, |p| kst::find_skip(h, p))));
    emit(out, &req("find_keep"), 3, |fl| fl.ost(h, with_spat!(kind, nb, |p| kst::find_keep(h, p))));
    emit(out, &req("rfind_skip"), 3, |fl| fl.ost(h, with_spat!(kind, nb, |p| kst::rfind_skip(h, p))));
    emit(out, &req("rfind_keep"), 3, |fl| fl.ost(h, with_spat!(kind, nb, |p| kst::rfind_keep(h, p))));
    emit(out, &req("strip_prefix"), 3, |fl| fl.ost(h, with_spat!(kind, nb, |p| kst::strip_prefix(h, p))));
    emit(out, &req("strip_suffix"), 3, |fl| fl.ost(h, with_spat!(kind, nb, |p| kst::strip_suffix(h, p))));
    emit(out, &req("trim_matches"), 3, |fl| fl.st(h, with_spat!(kind, nb, |p| kst::trim_matches(h, p))));
    emit(out, &req("trim_start_matches"), 3, |fl| fl.st(h, with_spat!(kind, nb, |p| kst::trim_start_matches(h, p))));
    emit(out, &req("trim_end_matches"), 3, |fl| fl.st(h, with_spat!(kind, nb, |p| kst::trim_end_matches(h, p))));
    emit(out, &req("split_once"), 3, |fl| str_pair(fl, h, with_spat!(kind, nb, |p| kst::split_once(h, p))));
    emit(out, &req("rsplit_once"), 3, |fl| str_pair(fl, h, with_spat!(kind, nb, |p| kst::rsplit_once(h, p))));
    // split iterators: every item and every intermediate remainder (bounded number of steps)
    let cap = h.len() + 3;
    macro_rules! drive {
        ($name:expr, $ctor:ident, $step:ident) => {
            emit(out, &format!("ub.{} {} {} {}", $name, k, hh, nh), 3, |fl| {
                with_spat!(kind, nb, |p| {
                    let mut it = kst::$ctor(h, p);
                    let mut v = Vec::new();
                    let mut steps = 0;
                    while let Some((item, nx)) = it.$step() {
                        it = nx;
                        v.push(format!("{}@{}", fl.st(h, item), fl.st(h, it.remainder())));
                        steps += 1;
                        if steps > cap {
                            v.push("runaway".into());
                            break;
                        }
                    }
                    format!("[{}]", v.join(";"))
                })
            });
        };
    }
    drive!("split", split, next);
    drive!("split.back", split, next_back);
    drive!("rsplit", rsplit, next);
    drive!("rsplit.back", rsplit, next_back);
    drive!("split_terminator", split_terminator, next);
    drive!("rsplit_terminator", rsplit_terminator, next);
}

/// the slice-returning `konst::slice::bytes_*` functions, all four pattern kinds
fn bytes_patterns(h: &[u8], n: &[u8], kind: Kind, out: &mut Out) {
    let k = kind.name();
    let (hh, nh) = (hex(h), hex(n));
    let req = |f: &str| format!("ub.b.{} {} {} {}", f, k, hh, nh);
    emit(out, &req("find_skip"), 1, |fl| fl.osl(h, with_bpat!(kind, n, |p| ks::bytes_find_skip(h, p))));
    emit(out, &req("find_keep"), 1, |fl| fl.osl(h, with_bpat!(kind, n, |p| ks::bytes_find_keep(h, p))));
    emit(out, &req("rfind_skip"), 1, |fl| fl.osl(h, with_bpat!(kind, n, |p| ks::bytes_rfind_skip(h, p))));
    emit(out, &req("rfind_keep"), 1, |fl| fl.osl(h, with_bpat!(kind, n, |p| ks::bytes_rfind_keep(h, p))));
    emit(out, &req("strip_prefix"), 1, |fl| fl.osl(h, with_bpat!(kind, n, |p| ks::bytes_strip_prefix(h, p))));
    emit(out, &req("strip_suffix"), 1, |fl| fl.osl(h, with_bpat!(kind, n, |p| ks::bytes_strip_suffix(h, p))));
    emit(out, &req("trim_matches"), 1, |fl| fl.sl(h, with_bpat!(kind, n, |p| ks::bytes_trim_matches(h, p))));
    emit(out, &req("trim_start_matches"), 1, |fl| fl.sl(h, with_bpat!(kind, n, |p| ks::bytes_trim_start_matches(h, p))));
    emit(out, &req("trim_end_matches"), 1, |fl| fl.sl(h, with_bpat!(kind, n, |p| ks::bytes_trim_end_matches(h, p))));
}

fn ascii_trims(s: &str, out: &mut Out) {
    let h = hex(s.as_bytes());
    emit(out, &format!("ub.st.trim {}", h), 3, |fl| fl.st(s, kst::trim(s)));
    emit(out, &format!("ub.st.trim_start {}", h), 3, |fl| fl.st(s, kst::trim_start(s)));
    emit(out, &format!("ub.st.trim_end {}", h), 3, |fl| fl.st(s, kst::trim_end(s)));
    let bts = s.as_bytes();
    emit(out, &format!("ub.b.trim {}", h), 1, |fl| fl.sl(bts, ks::bytes_trim(bts)));
    emit(out, &format!("ub.b.trim_start {}", h), 1, |fl| fl.sl(bts, ks::bytes_trim_start(bts)));
    emit(out, &format!("ub.b.trim_end {}", h), 1, |fl| fl.sl(bts, ks::bytes_trim_end(bts)));
}

// ---- chars / char_indices ----------------------------------------------------------------------

fn run_chars(s: &str, hist: &str, out: &mut Out) {
    let hs = hex(s.as_bytes());
    emit(out, &format!("ub.chars.chars {} {}", hs, hist), 4, |fl| {
        let mut it = kst::chars(s);
        let first = fl.st(s, it.as_str());
        let mut v = Vec::new();
        for d in hist.bytes() {
            let r = if d == b'f' { it.copy().next() } else { it.copy().next_back() };
            let x = match r {
                Some((c, n)) => {
                    it = n;
                    format!("c:{}", fl.ch(c))
                }
                None => "none".into(),
            };
            v.push(format!("{}@{}", x, fl.st(s, it.as_str())));
        }
        format!("{}|[{}]", first, v.join(";"))
    });
    emit(out, &format!("ub.chars.char_indices {} {}", hs, hist), 4, |fl| {
        let mut it = kst::char_indices(s);
        let first = fl.st(s, it.as_str());
        let mut v = Vec::new();
        for d in hist.bytes() {
            let r = if d == b'f' { it.copy().next() } else { it.copy().next_back() };
            let x = match r {
                Some(((o, c), n)) => {
                    it = n;
                    format!("ci:{}:{}", o, fl.ch(c))
                }
                None => "none".into(),
            };
            v.push(format!("{}@{}", x, fl.st(s, it.as_str())));
        }
        format!("{}|[{}]", first, v.join(";"))
    });
    emit(out, &format!("ub.chars.rchars {} {}", hs, hist), 4, |fl| {
        let mut it = kst::chars(s).rev();
        let first = fl.st(s, it.copy().rev().as_str());
        let mut v = Vec::new();
        for d in hist.bytes() {
            let r = if d == b'f' { it.copy().next() } else { it.copy().next_back() };
            let x = match r {
                Some((c, n)) => {
                    it = n;
                    format!("c:{}", fl.ch(c))
                }
                None => "none".into(),
            };
            v.push(format!("{}@{}", x, fl.st(s, it.copy().rev().as_str())));
        }
        format!("{}|[{}]", first, v.join(";"))
    });
}

fn histories(depth: usize) -> Vec<String> {
    // all-front, all-back, alternating (both phases): enough to reach every block of the iterators
    let f: String = "f".repeat(depth);
    let bk: String = "b".repeat(depth);
    let fb: String = (0..depth).map(|i| if i % 2 == 0 { 'f' } else { 'b' }).collect();
    let bf: String = (0..depth).map(|i| if i % 2 == 0 { 'b' } else { 'f' }).collect();
    vec![f, bk, fb, bf]
}

// ---- chr -----------------------------------------------------------------------------------------

fn run_chr(full: bool, rng: &mut Rng, out: &mut Out) {
    let mut cs: Vec<u32> = vec![
        0, 0x41, 0x7F, 0x80, 0xF1, 0x7FF, 0x800, 0x20AC, 0xD7FF, 0xE000, 0xFFFD, 0xFFFF, 0x10000, 0x1F600, 0x10FFFF,
    ];
    let extra = if full { 400 } else { 12 };
    for _ in 0..extra {
        cs.push(rng.below(0x110000) as u32);
    }
    for &n in &cs {
        if let Some(c) = char::from_u32(n) {
            emit(out, &format!("ub.chr.enc {}", n), 3, |fl| {
                let e = konst::chr::encode_utf8(c);
                let base = &e as *const konst::chr::Utf8Encoded as *const u8;
                let bl = std::mem::size_of::<konst::chr::Utf8Encoded>();
                let by = e.as_bytes();
                let st = e.as_str();
                // both accessors must hand out memory of the `Utf8Encoded` value itself
                fl.sl_raw(base, bl, by.as_ptr(), by.len());
                fl.sl_raw(base, bl, st.as_ptr(), st.len());
                if core::str::from_utf8(st.as_bytes()).is_err() {
                    fl.utf8 = false;
                }
                let mut buf = [0u8; 4];
                if st.as_bytes() != c.encode_utf8(&mut buf).as_bytes() || st.len() > 4 || st.chars().count() != 1 {
                    fl.bnd = false; // not exactly one whole character
                }
                format!("{}|{}", hex(by), by.len())
            });
        }
    }
    let mut ns: Vec<u32> = vec![0, 0x7F, 0xD7FF, 0xD800, 0xDBFF, 0xDC00, 0xDFFF, 0xE000, 0x10FFFF, 0x110000, 0x7FFF_FFFF, 0x8000_0000, u32::MAX];
    for _ in 0..extra {
        ns.push(rng.next() as u32);
        ns.push(rng.below(0x120000) as u32);
    }
    for &n in &ns {
        emit(out, &format!("ub.chr.from_u32 {}", n), 4, |fl| match konst::chr::from_u32(n) {
            None => "none".into(),
            Some(c) => format!("some:{}", fl.ch(c)),
        });
    }
}

// ---- cstr / from_utf8 ------------------------------------------------------------------------------

fn run_cstr(max: usize, out: &mut Out) {
    use konst::ffi::cstr;
    let alpha: [&[u8]; 4] = [b"a", &[0xC3, 0xB1], &[0xFF], &[0]];
    for w in all_words(&alpha, max) {
        let hw = hex(&w);
        emit(out, &format!("ub.cstr.with_nul {}", hw), 3, |fl| match cstr::from_bytes_with_nul(&w) {
            Err(_) => "err".into(),
            Ok(c) => {
                let tb = cstr::to_bytes(c);
                let tbn = cstr::to_bytes_with_nul(c);
                let ts = match cstr::to_str(c) {
                    Ok(s) => {
                        let v = fl.sl(&w, s.as_bytes());
                        if core::str::from_utf8(s.as_bytes()).is_err() {
                            fl.utf8 = false;
                        }
                        v
                    }
                    Err(_) => "err".into(),
                };
                format!("{}|{}|{}", fl.sl(&w, tb), fl.sl(&w, tbn), ts)
            }
        });
        emit(out, &format!("ub.cstr.until_nul {}", hw), 3, |fl| match cstr::from_bytes_until_nul(&w) {
            Err(_) => "err".into(),
            Ok(c) => {
                let tb = cstr::to_bytes(c);
                let tbn = cstr::to_bytes_with_nul(c);
                format!("{}|{}", fl.sl(&w, tb), fl.sl(&w, tbn))
            }
        });
        emit(out, &format!("ub.from_utf8 {}", hw), 3, |fl| match kst::from_utf8(&w) {
            Err(_) => "err".into(),
            Ok(s) => {
                let v = fl.sl(&w, s.as_bytes());
                if core::str::from_utf8(s.as_bytes()).is_err() {
                    fl.utf8 = false;
                }
                v
            }
        });
    }
}

// ------------------------------------------------------------------------------------------------

pub fn run(tier: &str, seed: u64, out: &mut Out) {
    let mut rng = Rng(seed ^ 0xC01);
    // (slice max len, ranges, string chars, needle chars, slicing chars, chars-iter chars, cstr len)
    let (slen, schars, nchars, rchars, cchars, clen) = match tier {
        "thorough" => (10usize, 5usize, 2usize, 4usize, 5usize, 5usize),
        "miri" => (2, 2, 1, 1, 3, 2),
        _ => (6, 4, 2, 3, 4, 4),
    };
    let miri = tier == "miri";
    MIRI.store(miri, std::sync::atomic::Ordering::Relaxed);

    // ---- slices: u8, u32, (), String
    run_slices::<u8>("u8", &|i| i as u8, slen, true, out);
    run_slices::<u32>("u32", &|i| i as u32 * 1000, if miri { 2 } else { slen }, !miri, out);
    run_slices::<()>("zst", &|_| (), if miri { 2 } else { slen }, !miri, out);
    run_slices::<String>("string", &|i| format!("s{}", i), if miri { 2 } else { slen.min(8) }, !miri, out);

    // ---- strings
    let (hays, needles) = if miri {
        (
            ["", "a", "ñ", "añ", "€a€", "ñ😀ñ"].iter().map(|s| s.to_string()).collect::<Vec<_>>(),
            ["", "a", "ñ", "€a"].iter().map(|s| s.to_string()).collect::<Vec<_>>(),
        )
    } else {
        (words(&LETTERS, schars), words(&LETTERS, nchars))
    };
    for h in &hays {
        let n_chars = h.chars().count();
        slicing(h, n_chars <= rchars, out);
        for n in &needles {
            str_patterns(h, n, Kind::Str, out);
            if as_char(n.as_bytes()).is_some() {
                str_patterns(h, n, Kind::Char, out);
            }
        }
        if n_chars <= cchars {
            for hist in histories(n_chars + 1) {
                run_chars(h, &hist, out);
            }
        }
    }
    // byte-slice pattern functions: whole characters and PARTIAL characters as needles, all kinds
    let bhays = if miri { vec!["ñ€".to_string(), "a😀a".to_string()] } else { words(&LETTERS, schars.min(3)) };
    let mut bneedles: Vec<Vec<u8>> = words(&LETTERS, 1).into_iter().map(|s| s.into_bytes()).collect();
    bneedles.extend(vec![vec![0xC3], vec![0xB1], vec![0xB1, 0xE2], vec![0x82, 0xAC], vec![0xF0, 0x9F], vec![0x61, 0x61]]);
    if miri {
        bneedles = vec![vec![0x61], "ñ".as_bytes().to_vec(), vec![0xB1, 0xE2], vec![0xF0, 0x9F]];
    }
    for h in &bhays {
        for n in &bneedles {
            for kind in crate::c04::kinds_for(n) {
                if miri && kind == Kind::Arr && n.len() > 1 {
                    continue;
                }
                bytes_patterns(h.as_bytes(), n, kind, out);
            }
        }
    }
    // ASCII trimming: whitespace (all five, plus vertical tab which is NOT whitespace) around multi-byte chars
    let tw = words(&[" ", "\t", "\u{c}", "\u{b}", "x", "ñ", "😀"], if miri { 1 } else if tier == "thorough" { 5 } else { 4 });
    for s in &tw {
        ascii_trims(s, out);
    }
    // every char up to U+00FF at either end (the last byte of these 2-byte chars takes every continuation value
    // 0x80..=0xBF, the lead bytes 0xC2/0xC3): a trimmed &str must still end and start on a char boundary
    // (added after seeded change C01-r4-2: a whitespace test that also accepted some continuation bytes)
    if !miri {
        for c in (0u32..=0xff).filter_map(char::from_u32) {
            for s in [format!("{c}"), format!("x{c}"), format!("{c}x"), format!(" {c} ")] {
                ascii_trims(&s, out);
            }
        }
    }
    // needles repeated at both ends (trim_matches family), longer structured haystacks
    let reps = if miri { 3 } else if tier == "thorough" { 4000 } else { 600 };
    for _ in 0..reps {
        let n: String = (0..1 + rng.below(2)).map(|_| LETTERS[rng.below(4) as usize]).collect();
        let mid: String = (0..rng.below(4)).map(|_| LETTERS[rng.below(4) as usize]).collect();
        let h = format!("{}{}{}", n.repeat(rng.below(3) as usize), mid, n.repeat(rng.below(3) as usize));
        str_patterns(&h, &n, Kind::Str, out);
        if as_char(n.as_bytes()).is_some() {
            str_patterns(&h, &n, Kind::Char, out);
        }
    }

    run_chr(!miri, &mut rng, out);
    run_cstr(clen, out);
}
