//! C08: konst's by-value double-ended slice iterators vs core::slice's, under every interleaving of
//! front and back steps (plus `.rev()` between steps and `.copy()`).
//!
//! requests (see lean/Driver/C08.lean):
//!   it.<kind>[.rev] <elem> <len> <n> <hist>                 hist over f (next), b (next_back), r (rev)
//!   it.copy.<kind>[.rev] <elem> <len> <n> <h1> <h2> <h3>    h1, then c = it.copy(), h2 on it, h3 on c
//! result: `<obs>;<item>[/<obs>];…` (segments joined by `|`), `panic` if anything panics.
use crate::util::*;
use konst::slice as ks;
use std::panic::AssertUnwindSafe;

/// element types of the run: the slice is `[0, 1, .., len-1]`, so a copied element names its position
pub trait Elem: Copy + 'static {
    fn mk(i: usize) -> Self;
    fn show_val(self) -> String;
}
impl Elem for u8 {
    fn mk(i: usize) -> u8 {
        i as u8
    }
    fn show_val(self) -> String {
        format!("v:{}:1", self)
    }
}
impl Elem for () {
    fn mk(_: usize) {}
    fn show_val(self) -> String {
        "v:_:1".to_string()
    }
}

/// a konst by-value double-ended iterator over `&'a [T]`; items rendered relative to `base`
trait K<'a, T: 'a>: Sized {
    type Rev: K<'a, T, Rev = Self>;
    fn next_(self, base: &'a [T]) -> Option<(String, Self)>;
    fn next_back_(self, base: &'a [T]) -> Option<(String, Self)>;
    fn rev_(self) -> Self::Rev;
    fn copy_(&self) -> Self;
    /// `as_slice()` / `remainder()` where the type has one, else ""
    fn obs(&self, base: &'a [T]) -> String;
}

macro_rules! impl_k_one {
    ([$($gen:tt)*] $F:ty, $R:ty, |$b:ident, $x:ident| $item:expr, |$b1:ident, $s1:ident| $obs:expr) => {
        impl<'a, $($gen)*> K<'a, T> for $F {
            type Rev = $R;
            fn next_(self, $b: &'a [T]) -> Option<(String, Self)> {
                match self.next() {
                    Some(($x, s)) => Some(($item, s)),
                    None => None,
                }
            }
            fn next_back_(self, $b: &'a [T]) -> Option<(String, Self)> {
                match self.next_back() {
                    Some(($x, s)) => Some(($item, s)),
                    None => None,
                }
            }
            fn rev_(self) -> $R {
                self.rev()
            }
            fn copy_(&self) -> Self {
                self.copy()
            }
            #[allow(unused_variables)]
            fn obs(&self, $b1: &'a [T]) -> String {
                let $s1 = self;
                $obs
            }
        }
    };
}
macro_rules! impl_k {
    ([$($gen:tt)*] $F:ty, $R:ty, |$b:ident, $x:ident| $item:expr,
     fwd_obs = |$b1:ident, $s1:ident| $fo:expr, rev_obs = |$b2:ident, $s2:ident| $ro:expr) => {
        impl_k_one!([$($gen)*] $F, $R, |$b, $x| $item, |$b1, $s1| $fo);
        impl_k_one!([$($gen)*] $R, $F, |$b, $x| $item, |$b2, $s2| $ro);
    };
}

impl_k!([T: Elem] ks::Iter<'a, T>, ks::IterRev<'a, T>, |b, x| view(b, core::slice::from_ref(x)),
    fwd_obs = |b, s| view(b, s.as_slice()), rev_obs = |b, s| view(b, s.as_slice()));
impl_k!([T: Elem] ks::IterCopied<'a, T>, ks::IterCopiedRev<'a, T>, |b, x| { let _ = b; x.show_val() },
    fwd_obs = |b, s| view(b, s.as_slice()), rev_obs = |b, s| view(b, s.as_slice()));
impl_k!([T: Elem] ks::Windows<'a, T>, ks::WindowsRev<'a, T>, |b, x| view(b, x),
    fwd_obs = |b, s| String::new(), rev_obs = |b, s| String::new());
impl_k!([T: Elem] ks::Chunks<'a, T>, ks::ChunksRev<'a, T>, |b, x| view(b, x),
    fwd_obs = |b, s| String::new(), rev_obs = |b, s| String::new());
impl_k!([T: Elem] ks::RChunks<'a, T>, ks::RChunksRev<'a, T>, |b, x| view(b, x),
    fwd_obs = |b, s| String::new(), rev_obs = |b, s| String::new());
impl_k!([T: Elem] ks::ChunksExact<'a, T>, ks::ChunksExactRev<'a, T>, |b, x| view(b, x),
    fwd_obs = |b, s| view(b, s.remainder()), rev_obs = |b, s| view(b, s.remainder()));
impl_k!([T: Elem] ks::RChunksExact<'a, T>, ks::RChunksExactRev<'a, T>, |b, x| view(b, x),
    fwd_obs = |b, s| view(b, s.remainder()), rev_obs = |b, s| view(b, s.remainder()));
// `remainder()` exists on ArrayChunks only
impl_k!([T: Elem, const N: usize] ks::ArrayChunks<'a, T, N>, ks::ArrayChunksRev<'a, T, N>, |b, x| view(b, &x[..]),
    fwd_obs = |b, s| view(b, s.remainder()), rev_obs = |b, s| String::new());

/// the iterator in either of its two types
enum E<'a, T: 'a, I: K<'a, T>> {
    F(I),
    R(I::Rev),
}

fn step_one<'a, T: 'a, J: K<'a, T>>(i: J, d: u8, base: &'a [T]) -> (String, J) {
    // `next` takes `self`: keep a copy to continue with after a `None`
    let c = i.copy_();
    let r = if d == b'f' { c.next_(base) } else { c.next_back_(base) };
    match r {
        Some((s, n)) => (s, n),
        None => ("none".to_string(), i),
    }
}

impl<'a, T: 'a, I: K<'a, T>> E<'a, T, I> {
    fn step(self, d: u8, base: &'a [T]) -> (String, Self) {
        match self {
            E::F(i) => {
                let (s, n) = step_one(i, d, base);
                (s, E::F(n))
            }
            E::R(i) => {
                let (s, n) = step_one(i, d, base);
                (s, E::R(n))
            }
        }
    }
    fn rev(self) -> Self {
        match self {
            E::F(i) => E::R(i.rev_()),
            E::R(i) => E::F(i.rev_()),
        }
    }
    fn copy(&self) -> Self {
        match self {
            E::F(i) => E::F(i.copy_()),
            E::R(i) => E::R(i.copy_()),
        }
    }
    fn obs(&self, base: &'a [T]) -> String {
        match self {
            E::F(i) => i.obs(base),
            E::R(i) => i.obs(base),
        }
    }
}

fn with_obs(item: &str, obs: &str) -> String {
    if obs.is_empty() {
        item.to_string()
    } else {
        format!("{}/{}", item, obs)
    }
}

fn start_obs(obs: String) -> String {
    if obs.is_empty() {
        "-".to_string()
    } else {
        obs
    }
}

/// one segment on the konst side
fn kseg<'a, T: 'a, I: K<'a, T>>(mut e: E<'a, T, I>, base: &'a [T], hist: &[u8]) -> (String, E<'a, T, I>) {
    let mut toks = vec![start_obs(e.obs(base))];
    for &d in hist {
        if d == b'r' {
            e = e.rev();
            toks.push(with_obs("r", &e.obs(base)));
        } else {
            let (s, n) = e.step(d, base);
            e = n;
            toks.push(with_obs(&s, &e.obs(base)));
        }
    }
    (toks.join(";"), e)
}

// ------------------------------------------------------------------------------------------------
// std side
// ------------------------------------------------------------------------------------------------

trait OI<'a>: DoubleEndedIterator<Item = String> {
    fn box_clone(&self) -> Box<dyn OI<'a> + 'a>;
}
impl<'a, I: DoubleEndedIterator<Item = String> + Clone + 'a> OI<'a> for I {
    fn box_clone(&self) -> Box<dyn OI<'a> + 'a> {
        Box::new(self.clone())
    }
}
impl<'a> Clone for Box<dyn OI<'a> + 'a> {
    fn clone(&self) -> Self {
        (**self).box_clone()
    }
}

/// the un-reversed std iterator whose observer method the request logs; it is stepped at the
/// opposite end while the item iterator is reversed (std's `Rev` has no accessor for its inner iterator)
#[derive(Clone)]
enum Mirror<'a, T> {
    NoObs,
    Iter(core::slice::Iter<'a, T>),
    CE(core::slice::ChunksExact<'a, T>),
    RCE(core::slice::RChunksExact<'a, T>),
    /// array_chunks: `remainder()` only on the forward type
    CEFwdOnly(core::slice::ChunksExact<'a, T>),
}

#[derive(Clone)]
struct Ora<'a, T> {
    it: Box<dyn OI<'a> + 'a>,
    flipped: bool,
    mirror: Mirror<'a, T>,
    base: &'a [T],
}

impl<'a, T> Ora<'a, T> {
    fn obs(&self) -> String {
        match &self.mirror {
            Mirror::NoObs => String::new(),
            Mirror::Iter(i) => view(self.base, i.as_slice()),
            Mirror::CE(i) => view(self.base, i.remainder()),
            Mirror::RCE(i) => view(self.base, i.remainder()),
            Mirror::CEFwdOnly(i) => {
                if self.flipped {
                    String::new()
                } else {
                    view(self.base, i.remainder())
                }
            }
        }
    }
    fn step(&mut self, d: u8) -> String {
        let front = d == b'f';
        let r = if front { self.it.next() } else { self.it.next_back() };
        let mfront = front != self.flipped;
        match &mut self.mirror {
            Mirror::NoObs => {}
            Mirror::Iter(i) => {
                if mfront { i.next(); } else { i.next_back(); }
            }
            Mirror::CE(i) | Mirror::CEFwdOnly(i) => {
                if mfront { i.next(); } else { i.next_back(); }
            }
            Mirror::RCE(i) => {
                if mfront { i.next(); } else { i.next_back(); }
            }
        }
        r.unwrap_or_else(|| "none".to_string())
    }
    fn rev(self) -> Self {
        let Ora { it, flipped, mirror, base } = self;
        Ora { it: Box::new(it.rev()), flipped: !flipped, mirror, base }
    }
}

fn oseg<'a, T>(mut o: Ora<'a, T>, hist: &[u8]) -> (String, Ora<'a, T>) {
    let mut toks = vec![start_obs(o.obs())];
    for &d in hist {
        if d == b'r' {
            o = o.rev();
            toks.push(with_obs("r", &o.obs()));
        } else {
            let s = o.step(d);
            toks.push(with_obs(&s, &o.obs()));
        }
    }
    (toks.join(";"), o)
}

// ------------------------------------------------------------------------------------------------
// generators
// ------------------------------------------------------------------------------------------------

struct Plan {
    /// f/b histories (all of one depth: their per-step observations contain every shorter history) + empty
    fb: Vec<Vec<u8>>,
    /// histories over f/b/r with at least one r
    fbr: Vec<Vec<u8>>,
    /// (h1, h2, h3) for copy requests
    copy: Vec<(Vec<u8>, Vec<u8>, Vec<u8>)>,
    copy_max_len: usize,
}

fn words(alpha: &[u8], depth: usize) -> Vec<Vec<u8>> {
    let letters: Vec<&[u8]> = alpha.iter().map(core::slice::from_ref).collect();
    all_words(&letters, depth)
}

fn plan(tier: &str) -> Plan {
    let (d, dr, dc1, dc2) = if tier == "thorough" { (10, 6, 2, 3) } else { (7, 4, 2, 2) };
    let mut fb: Vec<Vec<u8>> = vec![vec![]];
    fb.extend(words(b"fb", d).into_iter().filter(|w| w.len() == d));
    let fbr: Vec<Vec<u8>> = words(b"fbr", dr).into_iter().filter(|w| w.len() == dr && w.contains(&b'r')).collect();
    let h1s = words(b"fbr", dc1);
    let h2s: Vec<Vec<u8>> = words(b"fb", dc2).into_iter().filter(|w| w.len() == dc2).collect();
    let mut copy = Vec::new();
    for h1 in &h1s {
        for h2 in &h2s {
            for h3 in &h2s {
                copy.push((h1.clone(), h2.clone(), h3.clone()));
            }
        }
    }
    Plan { fb, fbr, copy, copy_max_len: if tier == "thorough" { 7 } else { 5 } }
}

fn hs(h: &[u8]) -> String {
    if h.is_empty() {
        "-".to_string()
    } else {
        String::from_utf8_lossy(h).into_owned()
    }
}

fn do_kind<'a, T: Elem, I: K<'a, T>>(
    out: &mut Out, kind: &str, elem: &str, base: &'a [T], n: usize, p: &Plan,
    mk: &dyn Fn() -> I, mko: &dyn Fn() -> Ora<'a, T>,
) {
    let len = base.len();
    let in_scope = n >= 1;
    let line = |out: &mut Out, rev0: bool, h: &[u8]| {
        let req = format!("it.{}{} {} {} {} {}", kind, if rev0 { ".rev" } else { "" }, elem, len, n, hs(h));
        let imp = catch(AssertUnwindSafe(|| {
            let it = mk();
            let e = if rev0 { E::R(it.rev_()) } else { E::F(it) };
            kseg(e, base, h).0
        }));
        let ora = catch(AssertUnwindSafe(|| {
            let o = mko();
            let o = if rev0 { o.rev() } else { o };
            oseg(o, h).0
        }));
        out.emit(&req, &imp, &ora, in_scope);
    };
    if n == 0 {
        // the constructors must panic (as std's do); not constrained by the property (sizes >= 1)
        for rev0 in [false, true] {
            for h in [&b""[..], b"f", b"b"] {
                line(out, rev0, h);
            }
        }
        return;
    }
    for rev0 in [false, true] {
        for h in &p.fb {
            line(out, rev0, h);
        }
    }
    for h in &p.fbr {
        line(out, false, h);
    }
    if len <= p.copy_max_len {
        for (h1, h2, h3) in &p.copy {
            let req = format!("it.copy.{} {} {} {} {} {} {}", kind, elem, len, n, hs(h1), hs(h2), hs(h3));
            let imp = catch(AssertUnwindSafe(|| {
                let (s1, e) = kseg(E::F(mk()), base, h1);
                let c = e.copy();
                // advance the original first, then the copy: neither may see the other's steps
                let (s2, _) = kseg(e, base, h2);
                let (s3, _) = kseg(c, base, h3);
                format!("{}|{}|{}", s1, s2, s3)
            }));
            let ora = catch(AssertUnwindSafe(|| {
                let (s1, o) = oseg(mko(), h1);
                let c = o.clone();
                let (s2, _) = oseg(o, h2);
                let (s3, _) = oseg(c, h3);
                format!("{}|{}|{}", s1, s2, s3)
            }));
            out.emit(&req, &imp, &ora, in_scope);
        }
    }
}

fn array_chunks_n<T: Elem, const N: usize>(out: &mut Out, elem: &str, base: &[T], p: &Plan) {
    do_kind(out, "array_chunks", elem, base, N, p, &|| ks::array_chunks::<T, N>(base), &|| Ora {
        it: Box::new(base.chunks_exact(N).map(move |c| {
            let a: &[T; N] = c.try_into().unwrap();
            view(base, &a[..])
        })),
        flipped: false,
        mirror: Mirror::CEFwdOnly(base.chunks_exact(N)),
        base,
    });
}

/// `Iter` obtained through `into_iter!` from `&[T; N]` and `&&[T; N]` (the array impls of
/// `IntoIterWrapper::const_into_iter`)
fn into_iter_arr_n<T: Elem, const N: usize>(out: &mut Out, elem: &str, p: &Plan) {
    let arr: [T; N] = core::array::from_fn(T::mk);
    let arr_ref: &[T; N] = &arr;
    let base: &[T] = &arr_ref[..];
    let ora = || Ora {
        it: Box::new(base.iter().map(move |x| view(base, core::slice::from_ref(x)))),
        flipped: false,
        mirror: Mirror::Iter(base.iter()),
        base,
    };
    do_kind(out, "into_iter_arr", elem, base, 1, p, &|| konst::iter::into_iter!(arr_ref), &ora);
    do_kind(out, "into_iter_arr_ref", elem, base, 1, p, &|| konst::iter::into_iter!(&arr_ref), &ora);
}

/// the six iterator kinds that take a size, on one slice with one size
fn sized_kinds<T: Elem>(out: &mut Out, elem: &str, base: &[T], n: usize, p: &Plan) {
    do_kind(out, "windows", elem, base, n, p, &|| ks::windows(base, n), &|| Ora {
        it: Box::new(base.windows(n).map(move |c| view(base, c))),
        flipped: false,
        mirror: Mirror::NoObs,
        base,
    });
    do_kind(out, "chunks", elem, base, n, p, &|| ks::chunks(base, n), &|| Ora {
        it: Box::new(base.chunks(n).map(move |c| view(base, c))),
        flipped: false,
        mirror: Mirror::NoObs,
        base,
    });
    do_kind(out, "rchunks", elem, base, n, p, &|| ks::rchunks(base, n), &|| Ora {
        it: Box::new(base.rchunks(n).map(move |c| view(base, c))),
        flipped: false,
        mirror: Mirror::NoObs,
        base,
    });
    do_kind(out, "chunks_exact", elem, base, n, p, &|| ks::chunks_exact(base, n), &|| Ora {
        it: Box::new(base.chunks_exact(n).map(move |c| view(base, c))),
        flipped: false,
        mirror: Mirror::CE(base.chunks_exact(n)),
        base,
    });
    do_kind(out, "rchunks_exact", elem, base, n, p, &|| ks::rchunks_exact(base, n), &|| Ora {
        it: Box::new(base.rchunks_exact(n).map(move |c| view(base, c))),
        flipped: false,
        mirror: Mirror::RCE(base.rchunks_exact(n)),
        base,
    });
    match n {
        0 => array_chunks_n::<T, 0>(out, elem, base, p),
        1 => array_chunks_n::<T, 1>(out, elem, base, p),
        2 => array_chunks_n::<T, 2>(out, elem, base, p),
        3 => array_chunks_n::<T, 3>(out, elem, base, p),
        4 => array_chunks_n::<T, 4>(out, elem, base, p),
        5 => array_chunks_n::<T, 5>(out, elem, base, p),
        6 => array_chunks_n::<T, 6>(out, elem, base, p),
        7 => array_chunks_n::<T, 7>(out, elem, base, p),
        8 => array_chunks_n::<T, 8>(out, elem, base, p),
        9 => array_chunks_n::<T, 9>(out, elem, base, p),
        10 => array_chunks_n::<T, 10>(out, elem, base, p),
        16 => array_chunks_n::<T, 16>(out, elem, base, p),
        64 => array_chunks_n::<T, 64>(out, elem, base, p),
        _ => {}
    }
}

fn run_type<T: Elem>(elem: &str, max_len: usize, p: &Plan, out: &mut Out) {
    for len in 0..=max_len {
        let v: Vec<T> = (0..len).map(T::mk).collect();
        let base: &[T] = &v;
        // element iterators (no size parameter; the request carries n = 1)
        do_kind(out, "iter", elem, base, 1, p, &|| ks::iter(base), &|| Ora {
            it: Box::new(base.iter().map(move |x| view(base, core::slice::from_ref(x)))),
            flipped: false,
            mirror: Mirror::Iter(base.iter()),
            base,
        });
        // the same `Iter` obtained through `into_iter!` (IntoIterWrapper::const_into_iter for &[T], &&[T])
        {
            let ora = || Ora {
                it: Box::new(base.iter().map(move |x| view(base, core::slice::from_ref(x)))),
                flipped: false,
                mirror: Mirror::Iter(base.iter()),
                base,
            };
            do_kind(out, "into_iter", elem, base, 1, p, &|| konst::iter::into_iter!(base), &ora);
            do_kind(out, "into_iter_ref", elem, base, 1, p, &|| konst::iter::into_iter!(&base), &ora);
            match len {
                0 => into_iter_arr_n::<T, 0>(out, elem, p),
                1 => into_iter_arr_n::<T, 1>(out, elem, p),
                2 => into_iter_arr_n::<T, 2>(out, elem, p),
                3 => into_iter_arr_n::<T, 3>(out, elem, p),
                4 => into_iter_arr_n::<T, 4>(out, elem, p),
                5 => into_iter_arr_n::<T, 5>(out, elem, p),
                6 => into_iter_arr_n::<T, 6>(out, elem, p),
                7 => into_iter_arr_n::<T, 7>(out, elem, p),
                8 => into_iter_arr_n::<T, 8>(out, elem, p),
                9 => into_iter_arr_n::<T, 9>(out, elem, p),
                _ => unreachable!(),
            }
        }
        do_kind(out, "copied", elem, base, 1, p, &|| ks::iter_copied(base), &|| Ora {
            it: Box::new(base.iter().copied().map(|x: T| x.show_val())),
            flipped: false,
            mirror: Mirror::Iter(base.iter()),
            base,
        });
        // sizes: 0..=len+1 and sizes near the top of usize (size arithmetic must not overflow)
        let mut sizes: Vec<usize> = (0..=len + 1).collect();
        sizes.extend_from_slice(&[isize::MAX as usize + 1, usize::MAX - 1, usize::MAX]);
        for n in sizes {
            sized_kinds(out, elem, base, n, p);
        }
    }
}

/// a random history of 10..=80 steps over f/b (`with_r`: also `r`, at least one), with a random
/// bias between the two ends (all front, all back, mostly one end, even)
fn rand_hist(rng: &mut Rng, with_r: bool) -> Vec<u8> {
    let d = 10 + rng.below(71) as usize;
    let pf = [0u64, 8, 1, 7, 4, 4, 3, 5][rng.below(8) as usize];
    let mut h: Vec<u8> = (0..d)
        .map(|_| if with_r && rng.below(9) == 0 { b'r' } else if rng.below(8) < pf { b'f' } else { b'b' })
        .collect();
    if with_r && !h.contains(&b'r') {
        let k = rng.below(d as u64) as usize;
        h[k] = b'r';
    }
    h
}

/// one plan of the random stream: a single f/b history (run forward and `.rev()` first), a single
/// f/b/r history, a single copy triple
fn rand_plan(rng: &mut Rng) -> Plan {
    let h1: Vec<u8> = rand_hist(rng, true)[..rng.below(30) as usize % 10].to_vec();
    let cut = |mut h: Vec<u8>, rng: &mut Rng| {
        h.truncate(10 + rng.below(31) as usize);
        h
    };
    let (h2, h3) = (cut(rand_hist(rng, false), rng), cut(rand_hist(rng, false), rng));
    Plan { fb: vec![rand_hist(rng, false)], fbr: vec![rand_hist(rng, true)], copy: vec![(h1, h2, h3)], copy_max_len: usize::MAX }
}

/// seeded stream of LARGE slices: lengths 13..=120, chunk / window sizes from 1 up to len+3 and the
/// sizes 7, 16, 64, random front/back(/rev) histories of 10..=80 steps (crossing exhaustion for all
/// but the longest element iterators), all 8 iterator kinds
fn run_random<T: Elem>(elem: &str, cases: usize, rng: &mut Rng, out: &mut Out) {
    for c in 0..cases {
        let len = if c % 2 == 0 { 13 + rng.below(28) as usize } else { 13 + rng.below(108) as usize };
        let v: Vec<T> = (0..len).map(T::mk).collect();
        let base: &[T] = &v;
        let p = rand_plan(rng);
        let ora = || Ora {
            it: Box::new(base.iter().map(move |x| view(base, core::slice::from_ref(x)))),
            flipped: false,
            mirror: Mirror::Iter(base.iter()),
            base,
        };
        do_kind(out, "iter", elem, base, 1, &p, &|| ks::iter(base), &ora);
        let p = rand_plan(rng);
        if c % 2 == 0 {
            do_kind(out, "into_iter", elem, base, 1, &p, &|| konst::iter::into_iter!(base), &ora);
        } else {
            do_kind(out, "into_iter_ref", elem, base, 1, &p, &|| konst::iter::into_iter!(&base), &ora);
        }
        let p = rand_plan(rng);
        do_kind(out, "copied", elem, base, 1, &p, &|| ks::iter_copied(base), &|| Ora {
            it: Box::new(base.iter().copied().map(|x: T| x.show_val())),
            flipped: false,
            mirror: Mirror::Iter(base.iter()),
            base,
        });
        // sizes: two anywhere in 1..=len+3, one small (an array_chunks size), one near the length
        // (len-2..=len+3), and 7, 16, 64
        let l = len as u64;
        let sizes = [
            1 + rng.below(l + 3) as usize,
            1 + rng.below(l + 3) as usize,
            1 + rng.below(10) as usize,
            len - 2 + rng.below(6) as usize,
            len / 2 + rng.below(3) as usize,
            7,
            16,
            64,
        ];
        for n in sizes {
            let p = rand_plan(rng);
            sized_kinds(out, elem, base, n, &p);
        }
    }
}

pub fn run(tier: &str, seed: u64, out: &mut Out) {
    let p = plan(tier);
    let max_len = if tier == "thorough" { 9 } else { 7 };
    let mut rng = Rng(seed ^ 0xC08_1A26E);
    let cases = if tier == "thorough" { 200 } else { 20 };
    run_random::<u8>("u8", cases, &mut rng, out);
    run_random::<()>("zst", cases / 2, &mut rng, out);
    run_type::<u8>("u8", max_len, &p, out);
    run_type::<()>("zst", max_len, &p, out);
    // zero-sized elements: a slice can be usize::MAX long, the only place where `len + 1` / `len + size - 1` overflow.
    // The list-based model cannot hold 2^64 elements, so these rows are implementation vs std only
    // (added after seeded change C08-r4-1: Windows::next_back counted windows as `len + 1 - size`)
    {
        let v: Vec<()> = vec![(); usize::MAX];
        let base: &[()] = &v;
        let hp = Plan {
            fb: vec![b"fbbf".to_vec(), b"bbff".to_vec(), b"bfbf".to_vec()],
            fbr: vec![b"rfb".to_vec(), b"brf".to_vec(), b"frbb".to_vec()],
            copy: vec![],
            copy_max_len: 0,
        };
        for n in [1usize, 2, 3, 7, isize::MAX as usize, isize::MAX as usize + 1, usize::MAX - 1, usize::MAX] {
            sized_kinds(out, "zst", base, n, &hp);
        }
    }
}
