#!/usr/bin/env python3
"""merge_kf.py <clone-verif-dir> <Cxx>: take the agent's known_findings.jsonl records of property Cxx
(new ones appended, changed ones replaced, ones the agent dropped removed)"""
import sys, json
clone, prop = sys.argv[1], sys.argv[2]
def load(p):
    return [json.loads(l) for l in open(p) if l.strip()]
main = load('/verif/known_findings.jsonl')
theirs = [r for r in load(f'{clone}/known_findings.jsonl') if r.get('property') == prop]
tid = {r['id']: r for r in theirs}
out = []
seen = set()
for r in main:
    if r.get('property') == prop:
        if r['id'] in tid:
            out.append(tid[r['id']]); seen.add(r['id'])
        else:
            print('dropped', r['id'])
    else:
        out.append(r)
for r in theirs:
    if r['id'] not in seen:
        out.append(r); print('added', r['id'], r['status'])
with open('/verif/known_findings.jsonl', 'w') as f:
    for r in out:
        f.write(json.dumps(r, ensure_ascii=False, separators=(',', ':')) + "\n")
