#!/usr/bin/env python3
"""resolve git conflict markers by keeping both sides (ours first) — for the registry-style shared files"""
import sys, re, subprocess
for p in sys.argv[1:]:
    t = open(p).read()
    pat = re.compile(r"<<<<<<< [^\n]*\n(.*?)=======\n(.*?)>>>>>>> [^\n]*\n", re.S)
    t2 = pat.sub(lambda m: m.group(1) + m.group(2), t)
    open(p, "w").write(t2)
    subprocess.run(["git", "add", p])
    print("resolved", p)
