#!/bin/bash
P=$1
for k in 1 2 3; do
  [ -f /tmp/seed/outH/$P/$k/patch.diff ] || continue
  /verif/notes/harmtest.sh $P $k > /tmp/seed/finalH/$P-$k.txt 2>&1
done
echo "done $P"; for k in 1 2 3; do echo "--- $P-$k $(python3 -c "import json;print(json.load(open('/tmp/seed/outH/$P/$k/meta.json')).get('kind',''))" 2>/dev/null)"; grep -v KNOWN /tmp/seed/finalH/$P-$k.txt 2>/dev/null | cut -c1-230; done
