#!/usr/bin/env python3
"""
Self-test of the replay entries added in session 4 (Parser methods, BytesPub group — translator/replay_map.py) and of the
signature-derived replay entries of the comparison functions (vlib/xsearch.py: cmp_auto_entries;
groups Cmp2 … Cmp7).  Like notes/selftest_probe_replays.py: the search replays only inputs on which the regenerated and
the committed Lean definitions differ, so on the unchanged tree these entries never run.  This script feeds every
entry synthetic "counterexamples" (Lean reprs) and runs the replay program against the konst of KV_REPO (default
/repo): every replayed line must have konst == std, and every entry must have been replayed at least once.
Usage: python3 notes/selftest_cmp_replays.py [samples per entry, default 6]
"""
import os, sys, random
ROOT = os.path.dirname(os.path.dirname(os.path.abspath(__file__)))
sys.path.insert(0, ROOT)
from vlib import core, xsearch   # noqa: E402

rnd = random.Random(20260930)


def val(t):
    if isinstance(t, str):
        if t in xsearch._RANGE:
            lo, hi = xsearch._RANGE[t]
            return str(rnd.choice([lo, hi, 0, 1, hi - 1, lo + 1, rnd.randint(lo, hi), 255, 256]) if True else 0)
        if t == "bool":
            return rnd.choice(["true", "false"])
        if t == "char":
            return str(rnd.choice([0, 97, 0xD7FF, 0xE000, 0x10FFFF, 0x1F600]))
        if t == "str":
            s = "".join(rnd.choice(["a", "b", "é", "→", "😀", "", "ab"]) for _ in range(rnd.choice([0, 1, 2, 3])))
            return "[" + ", ".join(str(b) for b in s.encode()) + "]"
        if t == "Ordering":
            return rnd.choice(["Ordering.lt", "Ordering.eq", "Ordering.gt"])
        return "()"
    k = t[0]
    if k == "nz":
        v = val(t[1])
        return "1" if v == "0" else v
    if k == "opt":
        if rnd.random() < 0.3:
            return "none"
        v = val(t[1])
        return f"some ({v})" if v.startswith("-") or " " in v else f"some {v}"
    if k == "slice":
        return "[" + ", ".join(val(t[1]) for _ in range(rnd.choice([0, 1, 2, 3]))) + "]"
    if k == "range":
        return f"({val(t[1])}, {val(t[1])})"
    if k == "rangeinc":
        return f"({val(t[1])}, {val(t[1])}, false)"
    raise ValueError(t)


def fix(v, t):
    # integer candidates outside the type (255/256 for i8 …) are clamped
    return v


def main():
    n = int(sys.argv[1]) if len(sys.argv) > 1 else 6
    auto = xsearch.cmp_auto_entries()
    cex = []
    for name, (kinds, _, _) in sorted(auto.items()):
        for j in range(n):
            a0 = val(kinds[0][1])
            a1 = a0 if j % 3 == 0 else val(kinds[1][1])     # equal operands a third of the time
            cex.append({"fn": name, "args": [a0, a1], "new": "?", "old": "?"})
    # the entries of group BytesPub in translator/replay_map.py (aliases of the worker entries, `&mut` accessors)
    m = xsearch._load_map()
    extra = {k: v for k, v in m.REPLAY.items() if k.startswith("pub_bytes_") or k in ("get_mut", "first_mut", "last_mut", "split_first_mut", "split_last_mut")}

    def blist():
        return "[" + ", ".join(str(rnd.choice([0, 97, 98, 255])) for _ in range(rnd.choice([0, 1, 2, 3, 5]))) + "]"
    for name, ent in sorted(extra.items()):
        for j in range(n):
            args = [blist() if k in ("bytes", "bytes_mut") else str(rnd.choice([0, 1, 2, 4, 5, 2**64 - 1])) for k in ent[0]]
            cex.append({"fn": name, "args": args, "new": "?", "old": "?"})
    auto = dict(auto, **extra)
    # the Parser-method entries: a parser as Parser::with_start_offset builds it, patterns and remainders from a small
    # alphabet so that matches, misses, multi-byte characters, whitespace, digits and bool words all occur
    pent = {k: v for k, v in m.REPLAY.items() if (k.startswith("Parser.") or k.startswith("ParseError.")) and v[0] and v[0][0] in ("parser", "parser_any")}
    PIECES = ["a", "b", "ab", ",", " ", "\t", "é", "→", "12", "7", "-", "-3", "255", "256", "true", "false", "tru", "x", "99999999999999999999", "\u2003"]

    def ustr(k=None):
        t = "".join(rnd.choice(PIECES) for _ in range(rnd.choice([0, 1, 2, 3, 4, 6]) if k is None else k))
        return "[" + ", ".join(str(b) for b in t.encode()) + "]"

    def parser():
        off = rnd.choice([0, 0, 1, 7, 1000, 4294967000])
        d = rnd.choice(["FromStart", "FromStart", "FromEnd", "FromBoth"])
        return ("{ parse_direction := Extracted.ParseDirection." + d + ", yielded_last_split := " + rnd.choice(["false", "false", "true"]) + ", start_offset := "
                f"{off}, str := {ustr()} }}")
    for name, ent in sorted(pent.items()):
        for j in range(n * 3):
            args = [parser() if k in ("parser", "parser_any") else ustr(rnd.choice([0, 1, 1, 2])) if k == "str" else rnd.choice(["Extracted.ErrorKind.Strip", "Extracted.ErrorKind.Find", "Extracted.ErrorKind.ParseInteger", "Extracted.ErrorKind.Other"]) if k == "errkind" else str(rnd.choice([0, 1, 2, 3, 5, 100, 2**64 - 1])) for k in ent[0]]
            cex.append({"fn": name, "args": args, "new": "?", "old": "?"})
    auto = dict(auto, **pent)
    rep = xsearch.replay_on_implementation(cex, os.path.join(core.BUILD, "selftest_cmp_replays"))
    if rep and "error" in rep[0]:
        print(rep[0]["error"]); sys.exit(2)
    seen = {}
    bad = []
    for r in rep:
        seen[r["fn"]] = seen.get(r["fn"], 0) + 1
        if r["differs"]:
            bad.append(r)
    missing = sorted(set(auto) - set(seen))
    print(f"{len(auto)} entries, {len(cex)} synthetic inputs, {len(rep)} replayed, {len(bad)} differ, {len(missing)} entries never replayed")
    for r in bad[:10]:
        print("DIFFERS", r["fn"], r["args"], r["konst"], r["std"])
    if missing:
        print("never replayed:", " ".join(missing))
    sys.exit(1 if bad or missing else 0)


main()
