-- feasibility probe for C16: index-loop comparators vs lexicographic order (repaired and as-found)

inductive U8Ord | less | greater | equal deriving DecidableEq, Repr

/-- `__priv_ret_if_ne!`: `U8Ordering((l > r) as u8)` -/
def retIfNe (l r : Nat) : Option U8Ord := if l != r then some (if l > r then .greater else .less) else none

/-- repaired `cmp_inner`: elements up to the shorter length, then the lengths -/
def cmpLoop (l r : List Nat) (minLen : Nat) (i : Nat) : U8Ord :=
  if h : i < minLen then
    match retIfNe l[i]! r[i]! with
    | some o => o
    | none => cmpLoop l r minLen (i + 1)
  else
    match retIfNe l.length r.length with
    | some o => o
    | none => .equal
termination_by minLen - i

def cmpInner (l r : List Nat) : U8Ord :=
  cmpLoop l r (if l.length < r.length then l.length else r.length) 0

/-- spec: `Ord::cmp` on slices -/
def lexCmp : List Nat → List Nat → U8Ord
  | [], [] => .equal
  | [], _ :: _ => .less
  | _ :: _, [] => .greater
  | a :: as, b :: bs => if a < b then .less else if a > b then .greater else lexCmp as bs

theorem retIfNe_add (a b k : Nat) : retIfNe (a + k) (b + k) = retIfNe a b := by
  unfold retIfNe
  by_cases h : a = b
  · simp [h]
  · have h1 : a + k ≠ b + k := by omega
    have h2 : (a + k > b + k) ↔ (a > b) := by omega
    simp [h, h1, h2]

theorem retIfNe_sub (a b i : Nat) (ha : i ≤ a) (hb : i ≤ b) : retIfNe (a - i) (b - i) = retIfNe a b := by
  have := retIfNe_add (a - i) (b - i) i
  rw [Nat.sub_add_cancel ha, Nat.sub_add_cancel hb] at this
  exact this.symm

theorem lexCmp_len_of_take_eq : ∀ (l r : List Nat), (∀ j, j < min l.length r.length → l[j]! = r[j]!) →
    lexCmp l r = (match retIfNe l.length r.length with | some o => o | none => .equal) := by
  intro l
  induction l with
  | nil => intro r _; cases r <;> simp [lexCmp, retIfNe]
  | cons a as ih =>
    intro r h
    cases r with
    | nil => simp [lexCmp, retIfNe]
    | cons b bs =>
      have hab : a = b := by simpa using h 0 (by simp)
      subst hab
      have := ih bs (by
        intro j hj
        have := h (j + 1) (by simp at hj ⊢; omega)
        simpa using this)
      simp only [lexCmp, Nat.lt_irrefl, if_false, this, List.length_cons, retIfNe_add]

theorem cmpLoop_eq (l r : List Nat) (minLen : Nat) (hmin : minLen = min l.length r.length) :
    ∀ (n i : Nat), n = minLen - i → i ≤ minLen → cmpLoop l r minLen i = lexCmp (l.drop i) (r.drop i) := by
  intro n
  induction n with
  | zero =>
    intro i hn hi
    have hieq : i = minLen := by omega
    rw [cmpLoop]
    simp only [show ¬ i < minLen by omega, dite_false]
    rw [lexCmp_len_of_take_eq]
    · simp only [List.length_drop]
      rw [retIfNe_sub _ _ i (by omega) (by omega)]
    · intro j hj
      simp only [List.length_drop] at hj
      omega
  | succ n ih =>
    intro i hn hi
    have hlt : i < minLen := by omega
    rw [cmpLoop]
    simp only [hlt, dite_true]
    have hil : i < l.length := by omega
    have hir : i < r.length := by omega
    have hdl : l.drop i = l[i] :: l.drop (i + 1) := (List.drop_eq_getElem_cons hil)
    have hdr : r.drop i = r[i] :: r.drop (i + 1) := (List.drop_eq_getElem_cons hir)
    rw [hdl, hdr]
    simp only [lexCmp, retIfNe, getElem!_pos l i hil, getElem!_pos r i hir]
    by_cases he : l[i] = r[i]
    · simp only [he, bne_self_eq_false, Bool.false_eq_true, if_false, Nat.lt_irrefl]
      exact ih (i + 1) (by omega) (by omega)
    · simp only [bne_iff_ne, ne_eq, he, not_false_eq_true, if_true]
      by_cases hgt : l[i] > r[i]
      · have : ¬ l[i] < r[i] := by omega
        simp [hgt, this]
      · have : l[i] < r[i] := by omega
        simp [hgt, this]

theorem cmpInner_eq_lex (l r : List Nat) : cmpInner l r = lexCmp l r := by
  unfold cmpInner
  have := cmpLoop_eq l r (if l.length < r.length then l.length else r.length)
    (by split <;> omega) _ 0 rfl (by omega)
  simpa using this

#print axioms cmpInner_eq_lex

/-- as found: lengths first -/
def legacyCmp (l r : List Nat) : U8Ord :=
  match retIfNe l.length r.length with
  | some o => o
  | none => cmpLoop l r l.length 0

theorem legacy_ne_lex : legacyCmp [2] [1, 1] = .less ∧ lexCmp [2] [1, 1] = .greater := by decide
