-- feasibility probe for C08/C07/C09: generic "double-ended iterator refines a deque" lemma + Chunks instance
inductive Dir | f | b

structure DE (σ ι : Type) where
  next : σ → Option (ι × σ)
  nextBack : σ → Option (ι × σ)
  abs : σ → List ι
  next_none : ∀ s, next s = none → abs s = []
  next_some : ∀ s x s', next s = some (x, s') → abs s = x :: abs s'
  back_none : ∀ s, nextBack s = none → abs s = []
  back_some : ∀ s x s', nextBack s = some (x, s') → abs s = abs s' ++ [x]

-- running a history on the implementation state
def runImpl {σ ι} (I : DE σ ι) : σ → List Dir → List (Option ι)
  | _, [] => []
  | s, .f :: h => match I.next s with
      | none => none :: runImpl I s h
      | some (x, s') => some x :: runImpl I s' h
  | s, .b :: h => match I.nextBack s with
      | none => none :: runImpl I s h
      | some (x, s') => some x :: runImpl I s' h

-- running the same history on the abstract deque
def runDeque {ι} : List ι → List Dir → List (Option ι)
  | _, [] => []
  | [], _ :: h => none :: runDeque [] h
  | x :: xs, .f :: h => some x :: runDeque xs h
  | x :: xs, .b :: h => some ((x :: xs).getLast (by simp)) :: runDeque ((x :: xs).dropLast) h

theorem refine {σ ι} (I : DE σ ι) : ∀ (h : List Dir) (s : σ), runImpl I s h = runDeque (I.abs s) h := by
  intro h
  induction h with
  | nil => intro s; cases hs : I.abs s <;> simp [runImpl, runDeque]
  | cons d h ih =>
    intro s
    cases d with
    | f =>
      simp only [runImpl]
      cases hn : I.next s with
      | none =>
        have := I.next_none s hn
        simp only [this, runDeque]; rw [ih s, this]
      | some p =>
        obtain ⟨x, s'⟩ := p
        have := I.next_some s x s' hn
        simp only [this, runDeque]; rw [ih s']
    | b =>
      simp only [runImpl]
      cases hn : I.nextBack s with
      | none =>
        have := I.back_none s hn
        simp only [this, runDeque]; rw [ih s, this]
      | some p =>
        obtain ⟨x, s'⟩ := p
        have e := I.back_some s x s' hn
        dsimp only
        rw [ih s']
        cases ha : I.abs s with
        | nil => rw [ha] at e; simp at e
        | cons y ys =>
          simp only [runDeque]
          rw [ha] at e
          have h1 : (y :: ys).getLast (by simp) = x := by simp [e]
          have h2 : (y :: ys).dropLast = I.abs s' := by simp [e]
          rw [h1, h2]

-- Chunks as in konst: state = Option (nonempty slice) + chunk size
structure Chunks where
  slice : Option (List Nat)
  n : Nat

def someIfNonempty (l : List Nat) : Option (List Nat) := if l = [] then none else some l

def Chunks.next (c : Chunks) : Option (List Nat × Chunks) :=
  c.slice.map fun s => (s.take c.n, { c with slice := someIfNonempty (s.drop c.n) })

def Chunks.nextBack (c : Chunks) : Option (List Nat × Chunks) :=
  c.slice.map fun s =>
    let at_ := (s.length - 1) / c.n * c.n
    (s.drop at_, { c with slice := someIfNonempty (s.take at_) })

-- std semantics of `chunks(n)`
def chunksSpec (n : Nat) (l : List Nat) : List (List Nat) :=
  if h : l = [] ∨ n = 0 then [] else l.take n :: chunksSpec n (l.drop n)
termination_by l.length
decreasing_by
  have : l ≠ [] := fun e => h (Or.inl e)
  have : 0 < l.length := List.length_pos_iff.mpr this
  simp only [List.length_drop]; omega


theorem chunksSpec_nil (n : Nat) : chunksSpec n [] = [] := by
  rw [chunksSpec]; simp

theorem chunksSpec_cons (n : Nat) (l : List Nat) (hl : l ≠ []) (hn : 0 < n) :
    chunksSpec n l = l.take n :: chunksSpec n (l.drop n) := by
  rw [chunksSpec]; simp [hl]; omega

/-- the last chunk is `drop ((len-1)/n*n)`, the ones before it are the chunks of `take …` -/
theorem chunksSpec_last (n : Nat) (hn : 0 < n) : ∀ (k : Nat) (l : List Nat), l.length = k → l ≠ [] →
    chunksSpec n l =
      chunksSpec n (l.take ((l.length - 1) / n * n)) ++ [l.drop ((l.length - 1) / n * n)] := by
  intro k
  induction k using Nat.strongRecOn with
  | _ k ih =>
    intro l hk hl
    have hpos : 0 < l.length := List.length_pos_iff.mpr hl
    by_cases hle : l.length ≤ n
    · -- single chunk
      have hdiv : (l.length - 1) / n = 0 := Nat.div_eq_of_lt (by omega)
      rw [hdiv]
      simp only [Nat.zero_mul, List.take_zero, List.drop_zero, chunksSpec_nil, List.nil_append]
      rw [chunksSpec_cons n l hl hn, List.take_of_length_le hle, List.drop_eq_nil_of_le hle, chunksSpec_nil]
    · -- peel the first chunk
      have hgt : n < l.length := by omega
      have hdl : (l.drop n).length = l.length - n := by simp
      have hne : l.drop n ≠ [] := by
        intro e; have := congrArg List.length e; simp at this; omega
      have hdiv : (l.length - 1) / n = (l.length - n - 1) / n + 1 := by
        have : l.length - 1 = (l.length - n - 1) + n := by omega
        rw [this, Nat.add_div_right _ hn]
      have IH := ih (l.length - n) (by omega) (l.drop n) (by simp) hne
      rw [chunksSpec_cons n l hl hn, IH, hdl, hdiv]
      have hmul : ((l.length - n - 1) / n + 1) * n = (l.length - n - 1) / n * n + n := by
        rw [Nat.add_mul, Nat.one_mul]
      rw [hmul]
      have hat : (l.length - n - 1) / n * n ≤ l.length - n := by
        have := Nat.div_mul_le_self (l.length - n - 1) n; omega
      -- take (a + n) l = take n l ++ take a (drop n l);  drop (a + n) l = drop a (drop n l)
      have htake : l.take ((l.length - n - 1) / n * n + n) = l.take n ++ (l.drop n).take ((l.length - n - 1) / n * n) := by
        rw [Nat.add_comm, List.take_add]
      have hdrop : l.drop ((l.length - n - 1) / n * n + n) = (l.drop n).drop ((l.length - n - 1) / n * n) := by
        rw [List.drop_drop, Nat.add_comm]
      rw [htake, hdrop]
      have hlen : (l.take n).length = n := by
        rw [List.length_take]; omega
      have hne2 : l.take n ++ (l.drop n).take ((l.length - n - 1) / n * n) ≠ [] := by
        intro e
        have := congrArg List.length e
        rw [List.length_append, hlen] at this
        simp at this; omega
      rw [chunksSpec_cons n _ hne2 hn]
      have ht1 : (l.take n ++ (l.drop n).take ((l.length - n - 1) / n * n)).take n = l.take n :=
        List.take_left' hlen
      have ht2 : (l.take n ++ (l.drop n).take ((l.length - n - 1) / n * n)).drop n
          = (l.drop n).take ((l.length - n - 1) / n * n) :=
        List.drop_left' hlen
      rw [ht1, ht2]
      simp
