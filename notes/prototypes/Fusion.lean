-- feasibility probe for C10: push-style fused loop vs list semantics (forward fragment)
inductive Ad where
  | map (f : Nat → Nat)
  | filter (p : Nat → Bool)
  | take (n : Nat)
  | skip (n : Nat)
  | flatMap (f : Nat → List Nat)

def applyAd : Ad → List Nat → List Nat
  | .map f, xs => xs.map f
  | .filter p, xs => xs.filter p
  | .take n, xs => xs.take n
  | .skip n, xs => xs.drop n
  | .flatMap f, xs => xs.flatMap f

def stdEval : List Ad → List Nat → List Nat
  | [], xs => xs
  | a :: r, xs => stdEval r (applyAd a xs)

abbrev St := List Nat

def foldItems (step : St → Nat → St × List Nat × Bool) : St → List Nat → St × List Nat × Bool
  | st, [] => (st, [], false)
  | st, y :: ys =>
    match step st y with
    | (st', out, true) => (st', out, true)
    | (st', out, false) =>
      match foldItems step st' ys with
      | (st'', out', b') => (st'', out ++ out', b')

-- one item pushed through the emitted code; hoisted counters live in `St` (one cell per adapter)
def feed : List Ad → St → Nat → St × List Nat × Bool
  | [], st, x => (st, [x], false)
  | _ :: _, [], _ => ([], [], true)
  | .map f :: r, c :: st, x =>
      match feed r st (f x) with | (st', out, b) => (c :: st', out, b)
  | .filter p :: r, c :: st, x =>
      if p x then match feed r st x with | (st', out, b) => (c :: st', out, b)
      else (c :: st, [], false)                          -- `continue`
  | .take _ :: r, k :: st, x =>
      if k = 0 then (k :: st, [], true)                  -- `break 'label`
      else match feed r st x with | (st', out, b) => ((k-1) :: st', out, b)
  | .skip _ :: r, k :: st, x =>
      if k ≠ 0 then ((k-1) :: st, [], false)             -- `continue`
      else match feed r st x with | (st', out, b) => (k :: st', out, b)
  | .flatMap f :: r, c :: st, x =>
      match foldItems (feed r) st (f x) with | (st', out, b) => (c :: st', out, b)

def initSt : List Ad → St
  | [] => []
  | .take n :: r => n :: initSt r
  | .skip n :: r => n :: initSt r
  | _ :: r => 0 :: initSt r

def run (c : List Ad) : St → List Nat → List Nat
  | _, [] => []
  | st, x :: xs =>
    match feed c st x with
    | (_, out, true) => out
    | (st', out, false) => out ++ run c st' xs

def konstEval (c : List Ad) (xs : List Nat) : List Nat := run c (initSt c) xs

-- residual chain: the static chain with its counters replaced by the current state
def residual : List Ad → St → List Ad
  | [], _ => []
  | a :: r, [] => a :: residual r []
  | .take _ :: r, k :: st => .take k :: residual r st
  | .skip _ :: r, k :: st => .skip k :: residual r st
  | a :: r, _ :: st => a :: residual r st

def WF : List Ad → St → Prop
  | [], st => st = []
  | _ :: r, _ :: st => WF r st
  | _ :: _, [] => False

theorem stdEval_nil (c : List Ad) : stdEval c [] = [] := by
  induction c with
  | nil => rfl
  | cons a r ih => cases a <;> simp [stdEval, applyAd, ih]



/-- what one pushed item contributes, relative to the list semantics of the residual chain -/
def StepOK (c : List Ad) : Prop :=
  ∀ st x st' out b, WF c st → feed c st x = (st', out, b) →
    WF c st' ∧ ∀ xs, stdEval (residual c st) (x :: xs) =
      out ++ (if b then [] else stdEval (residual c st') xs)

theorem many_of_step (c : List Ad) (h : StepOK c) :
    ∀ ys st st' out b, WF c st → foldItems (feed c) st ys = (st', out, b) →
      WF c st' ∧ ∀ zs, stdEval (residual c st) (ys ++ zs) =
        out ++ (if b then [] else stdEval (residual c st') zs) := by
  intro ys
  induction ys with
  | nil =>
    intro st st' out b hw he
    simp only [foldItems, Prod.mk.injEq] at he
    obtain ⟨rfl, rfl, rfl⟩ := he
    exact ⟨hw, by intro zs; simp⟩
  | cons y ys ih =>
    intro st st' out b hw he
    simp only [foldItems] at he
    rcases hfe : feed c st y with ⟨s1, o1, b1⟩
    rw [hfe] at he
    obtain ⟨hw1, h1⟩ := h st y s1 o1 b1 hw hfe
    cases b1 with
    | true =>
      dsimp only at he
      simp only [Prod.mk.injEq] at he
      obtain ⟨rfl, rfl, rfl⟩ := he
      exact ⟨hw1, by intro zs; simpa using h1 (ys ++ zs)⟩
    | false =>
      dsimp only at he
      rcases hfo : foldItems (feed c) s1 ys with ⟨s2, o2, b2⟩
      rw [hfo] at he
      simp only [Prod.mk.injEq] at he
      obtain ⟨rfl, rfl, rfl⟩ := he
      obtain ⟨hw2, h2⟩ := ih s1 s2 o2 b2 hw1 hfo
      refine ⟨hw2, ?_⟩
      intro zs
      have e1 := h1 (ys ++ zs)
      simp only [Bool.false_eq_true, if_false] at e1
      simp only [List.cons_append]
      rw [e1, h2 zs, List.append_assoc]

theorem stepOK : ∀ c, StepOK c := by
  intro c
  induction c with
  | nil =>
    intro st x st' out b hw he
    simp only [feed, Prod.mk.injEq] at he
    obtain ⟨rfl, rfl, rfl⟩ := he
    exact ⟨hw, by intro xs; simp [residual, stdEval]⟩
  | cons a r ih =>
    intro st x st' out b hw he
    cases st with
    | nil => cases a <;> simp [WF] at hw
    | cons k st =>
      have hwr : WF r st := by cases a <;> simpa [WF] using hw
      cases a with
      | map f =>
        simp only [feed] at he
        rcases hf : feed r st (f x) with ⟨s1, o1, b1⟩
        rw [hf] at he; simp only [Prod.mk.injEq] at he; obtain ⟨rfl, rfl, rfl⟩ := he
        obtain ⟨hw1, h1⟩ := ih st (f x) s1 o1 b1 hwr hf
        refine ⟨by simpa [WF] using hw1, ?_⟩
        intro xs
        simp only [residual, stdEval, applyAd, List.map_cons]
        exact h1 (xs.map f)
      | filter p =>
        simp only [feed] at he
        by_cases hp : p x = true
        · rw [if_pos hp] at he
          rcases hf : feed r st x with ⟨s1, o1, b1⟩
          rw [hf] at he; simp only [Prod.mk.injEq] at he; obtain ⟨rfl, rfl, rfl⟩ := he
          obtain ⟨hw1, h1⟩ := ih st x s1 o1 b1 hwr hf
          refine ⟨by simpa [WF] using hw1, ?_⟩
          intro xs
          simp only [residual, stdEval, applyAd, List.filter_cons, hp, if_true]
          exact h1 (xs.filter p)
        · rw [if_neg hp] at he
          simp only [Prod.mk.injEq] at he; obtain ⟨rfl, rfl, rfl⟩ := he
          refine ⟨hw, ?_⟩
          intro xs
          simp [residual, stdEval, applyAd, List.filter_cons, hp]
      | take n =>
        simp only [feed] at he
        by_cases hk : k = 0
        · rw [if_pos hk] at he
          simp only [Prod.mk.injEq] at he; obtain ⟨rfl, rfl, rfl⟩ := he
          refine ⟨hw, ?_⟩
          intro xs
          subst hk
          simp [residual, stdEval, applyAd, stdEval_nil]
        · rw [if_neg hk] at he
          rcases hf : feed r st x with ⟨s1, o1, b1⟩
          rw [hf] at he; simp only [Prod.mk.injEq] at he; obtain ⟨rfl, rfl, rfl⟩ := he
          obtain ⟨hw1, h1⟩ := ih st x s1 o1 b1 hwr hf
          refine ⟨by simpa [WF] using hw1, ?_⟩
          intro xs
          obtain ⟨k', rfl⟩ : ∃ k', k = k' + 1 := ⟨k - 1, by omega⟩
          simp only [residual, stdEval, applyAd, List.take_succ_cons, Nat.add_sub_cancel]
          exact h1 (xs.take k')
      | skip n =>
        simp only [feed] at he
        by_cases hk : k ≠ 0
        · rw [if_pos hk] at he
          simp only [Prod.mk.injEq] at he; obtain ⟨rfl, rfl, rfl⟩ := he
          refine ⟨by simpa [WF] using hwr, ?_⟩
          intro xs
          obtain ⟨k', rfl⟩ : ∃ k', k = k' + 1 := ⟨k - 1, by omega⟩
          simp [residual, stdEval, applyAd]
        · rw [if_neg hk] at he
          have hk0 : k = 0 := by omega
          subst hk0
          rcases hf : feed r st x with ⟨s1, o1, b1⟩
          rw [hf] at he; simp only [Prod.mk.injEq] at he; obtain ⟨rfl, rfl, rfl⟩ := he
          obtain ⟨hw1, h1⟩ := ih st x s1 o1 b1 hwr hf
          refine ⟨by simpa [WF] using hw1, ?_⟩
          intro xs
          simp only [residual, stdEval, applyAd, List.drop_zero]
          exact h1 xs
      | flatMap f =>
        simp only [feed] at he
        rcases hf : foldItems (feed r) st (f x) with ⟨s1, o1, b1⟩
        rw [hf] at he; simp only [Prod.mk.injEq] at he; obtain ⟨rfl, rfl, rfl⟩ := he
        obtain ⟨hw1, h1⟩ := many_of_step r ih (f x) st s1 o1 b1 hwr hf
        refine ⟨by simpa [WF] using hw1, ?_⟩
        intro xs
        simp only [residual, stdEval, applyAd, List.flatMap_cons]
        exact h1 (xs.flatMap f)

theorem run_eq (c : List Ad) : ∀ xs st, WF c st → run c st xs = stdEval (residual c st) xs := by
  intro xs
  induction xs with
  | nil => intro st _; simp [run, stdEval_nil]
  | cons x xs ih =>
    intro st hw
    simp only [run]
    rcases hf : feed c st x with ⟨s1, o1, b1⟩
    obtain ⟨hw1, h1⟩ := stepOK c st x s1 o1 b1 hw hf
    cases b1 with
    | true => simpa using (h1 xs).symm
    | false =>
      dsimp only
      rw [ih s1 hw1, h1 xs]; simp

theorem wf_init : ∀ c, WF c (initSt c) := by
  intro c; induction c with
  | nil => simp [WF, initSt]
  | cons a r ih => cases a <;> simpa [WF, initSt] using ih

theorem residual_init : ∀ c, residual c (initSt c) = c := by
  intro c; induction c with
  | nil => simp [residual, initSt]
  | cons a r ih => cases a <;> simp [residual, initSt, ih]

/-- forward fragment: the fused loop computes what the std chain computes, any chain, any input -/
theorem konst_forward_eq_std (c : List Ad) (xs : List Nat) : konstEval c xs = stdEval c xs := by
  unfold konstEval
  rw [run_eq c xs _ (wf_init c), residual_init]

#print axioms konst_forward_eq_std

example : konstEval [.skip 1, .take 2, .map (· + 1)] [1,2,3,4,5] = [3,4] := by decide
example : konstEval [.take 2] ([1,2,3,4,5].reverse) ≠ (stdEval [.take 2] [1,2,3,4,5]).reverse := by decide
