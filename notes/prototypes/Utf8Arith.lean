-- feasibility probe: UTF-8 encode/decode with bit operations, no bv_decide
def enc (c : Nat) : List Nat :=
  if c < 0x80 then [c]
  else if c < 0x800 then [0xC0 ||| (c >>> 6), 0x80 ||| (c &&& 0x3F)]
  else if c < 0x10000 then [0xE0 ||| (c >>> 12), 0x80 ||| ((c >>> 6) &&& 0x3F), 0x80 ||| (c &&& 0x3F)]
  else [0xF0 ||| (c >>> 18), 0x80 ||| ((c >>> 12) &&& 0x3F), 0x80 ||| ((c >>> 6) &&& 0x3F), 0x80 ||| (c &&& 0x3F)]

def dec : List Nat → Nat
  | [a] => a
  | [a, b] => ((a &&& 0x1F) <<< 6) ||| (b &&& 0x7F)
  | [a, b, c] => ((a &&& 0xF) <<< 12) ||| ((b &&& 0x3F) <<< 6) ||| (c &&& 0x3F)
  | [a, b, c, d] => ((a &&& 0x7) <<< 18) ||| ((b &&& 0x3F) <<< 12) ||| ((c &&& 0x3F) <<< 6) ||| (d &&& 0x3F)
  | _ => 0

theorem and_mask (x n : Nat) : x &&& (2^n - 1) = x % 2^n := Nat.and_two_pow_sub_one_eq_mod x n

theorem or_hi (h n y : Nat) (hy : y < 2^n) : (h <<< n) ||| y = h * 2^n + y := by
  rw [← Nat.shiftLeft_add_eq_or_of_lt hy, Nat.shiftLeft_eq]

theorem dec_enc2 (c : Nat) (h1 : 0x80 ≤ c) (h2 : c < 0x800) : dec (enc c) = c := by
  have e1 : (0xC0 : Nat) = 3 <<< 6 := by decide
  have e2 : (0x80 : Nat) = 2 <<< 6 := by decide
  simp only [enc, dec]
  rw [if_neg (by omega), if_pos h2]
  simp only [dec]
  have m1f : (0x1F : Nat) = 2^5 - 1 := by decide
  have m3f : (0x3F : Nat) = 2^6 - 1 := by decide
  have m7f : (0x7F : Nat) = 2^7 - 1 := by decide
  rw [Nat.shiftRight_eq_div_pow, m3f, and_mask]
  have hlo : c % 2^6 < 2^6 := Nat.mod_lt _ (by decide)
  rw [e1, or_hi 3 6 (c / 2^6) (by omega)]
  rw [e2, or_hi 2 6 (c % 2^6) hlo]
  rw [m1f, and_mask, m7f, and_mask]
  rw [or_hi _ 6 _ (by omega)]
  omega
