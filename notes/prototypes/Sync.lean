-- feasibility probe: self-synchronising code ⇒ byte-wise match positions are char boundaries
structure Code where
  enc  : Nat → List Nat
  cont : Nat → Bool
  clen : Nat → Nat
  ok   : ∀ c, ∃ b t, enc c = b :: t ∧ cont b = false ∧ (∀ x ∈ t, cont x = true) ∧ t.length + 1 = clen b

variable (K : Code)

def encs (cs : List Nat) : List Nat := cs.flatMap K.enc

@[simp] theorem encs_nil : encs K [] = [] := rfl
@[simp] theorem encs_cons (c : Nat) (cs : List Nat) : encs K (c :: cs) = K.enc c ++ encs K cs := by
  simp [encs]

/-- `i` is a char boundary of `encs cs` -/
def Boundary (cs : List Nat) (i : Nat) : Prop := ∃ k, i = (encs K (cs.take k)).length

theorem boundary_zero (cs) : Boundary K cs 0 := ⟨0, by simp⟩
theorem boundary_len (cs) : Boundary K cs (encs K cs).length := ⟨cs.length, by simp⟩

/-- the byte test used by konst/std: position is the end, or the byte there is not a continuation byte -/
def ByteTest (s : List Nat) (i : Nat) : Prop := i = s.length ∨ ∃ b, s[i]? = some b ∧ K.cont b = false

theorem boundary_iff : ∀ (cs : List Nat) (i : Nat), i ≤ (encs K cs).length →
    (Boundary K cs i ↔ ByteTest K (encs K cs) i) := by
  intro cs
  induction cs with
  | nil =>
    intro i hi
    simp at hi; subst hi
    exact ⟨fun _ => Or.inl (by simp), fun _ => boundary_zero K []⟩
  | cons c cs ih =>
    intro i hi
    obtain ⟨b, t, he, hb, ht, _⟩ := K.ok c
    by_cases h0 : i = 0
    · subst h0
      refine ⟨fun _ => Or.inr ⟨b, by simp [he], hb⟩, fun _ => boundary_zero K _⟩
    by_cases hlt : i < (K.enc c).length
    · -- strictly inside the first char: continuation byte, not a boundary
      have hpos : 0 < i := Nat.pos_of_ne_zero h0
      have hget : (encs K (c :: cs))[i]? = some (t[i-1]'(by simp [he] at hlt; omega)) := by
        simp only [encs_cons, he]
        rw [List.getElem?_append_left (by simpa [he] using hlt)]
        obtain ⟨j, rfl⟩ : ∃ j, i = j + 1 := ⟨i - 1, by omega⟩
        simp
      constructor
      · rintro ⟨k, hk⟩
        exfalso
        cases k with
        | zero => simp at hk; exact h0 hk
        | succ k => simp only [List.take_succ_cons, encs_cons, List.length_append] at hk; omega
      · rintro (h | ⟨b', hb', hc⟩)
        · exfalso; simp only [encs_cons, List.length_append] at h; omega
        · exfalso
          rw [hget] at hb'
          have hbe : t[i-1]'(by simp [he] at hlt; omega) = b' := by simpa using hb'
          have : K.cont b' = true := by
            have := ht (t[i-1]'(by simp [he] at hlt; omega)) (List.getElem_mem _)
            rwa [hbe] at this
          simp [this] at hc
    · -- at or after the end of the first char: shift
      have hge : (K.enc c).length ≤ i := Nat.le_of_not_lt hlt
      have hi' : i - (K.enc c).length ≤ (encs K cs).length := by
        simp only [encs_cons, List.length_append] at hi; omega
      have IH := ih (i - (K.enc c).length) hi'
      constructor
      · rintro ⟨k, hk⟩
        cases k with
        | zero => simp at hk; exact absurd hk h0
        | succ k =>
          simp only [List.take_succ_cons, encs_cons, List.length_append] at hk
          have hb2 : Boundary K cs (i - (K.enc c).length) := ⟨k, by omega⟩
          rcases IH.mp hb2 with h | ⟨b', hb', hc⟩
          · left; simp only [encs_cons, List.length_append]; omega
          · right; refine ⟨b', ?_, hc⟩
            simp only [encs_cons]
            rw [List.getElem?_append_right hge]; exact hb'
      · intro h
        have : ByteTest K (encs K cs) (i - (K.enc c).length) := by
          rcases h with h | ⟨b', hb', hc⟩
          · left; simp only [encs_cons, List.length_append] at h; omega
          · right; refine ⟨b', ?_, hc⟩
            simp only [encs_cons] at hb'
            rw [List.getElem?_append_right hge] at hb'; exact hb'
        obtain ⟨k, hk⟩ := IH.mpr this
        exact ⟨k + 1, by simp only [List.take_succ_cons, encs_cons, List.length_append]; omega⟩

#print axioms boundary_iff

