-- feasibility probe for C04/C05: strip_prefix loop, windowed find (as in the planned F1 repair) = "least index" spec

/-- `impl_bytes_function!{strip_prefix}`: length pre-check, then element-wise loop -/
def stripPrefixLoop : List Nat → List Nat → Option (List Nat)
  | l, [] => some l                       -- `(rem, _) => { left = rem; break }` with right exhausted
  | [], _ :: _ => some []                 -- same arm, left exhausted (unreachable after the length check)
  | lb :: l, rb :: r => if lb != rb then none else stripPrefixLoop l r

def stripPrefix (left pre : List Nat) : Option (List Nat) :=
  if left.length < pre.length then none else stripPrefixLoop left pre

def startsWith (left pre : List Nat) : Bool := (stripPrefix left pre).isSome

theorem stripPrefixLoop_eq : ∀ (l p : List Nat), p.length ≤ l.length →
    stripPrefixLoop l p = if p.isPrefixOf l then some (l.drop p.length) else none := by
  intro l p
  induction p generalizing l with
  | nil => intro _; simp [stripPrefixLoop]
  | cons b p ih =>
    intro h
    cases l with
    | nil => simp at h
    | cons a l =>
      simp only [List.length_cons, Nat.add_le_add_iff_right] at h
      simp only [stripPrefixLoop, List.isPrefixOf, List.drop_succ_cons]
      by_cases hab : a = b
      · subst hab; simp [ih l h]
      · have hne : b ≠ a := fun e => hab e.symm
        simp [hab, hne]

theorem stripPrefix_eq (l p : List Nat) :
    stripPrefix l p = if p.isPrefixOf l then some (l.drop p.length) else none := by
  unfold stripPrefix
  by_cases h : l.length < p.length
  · have : p.isPrefixOf l = false := by
      cases hp : p.isPrefixOf l with
      | false => rfl
      | true =>
        have := List.IsPrefix.length_le (List.isPrefixOf_iff_prefix.mp hp)
        omega
    simp [h, this]
  · simp [h, stripPrefixLoop_eq l p (by omega)]

theorem startsWith_iff (l p : List Nat) : startsWith l p = p.isPrefixOf l := by
  unfold startsWith; rw [stripPrefix_eq]; cases p.isPrefixOf l <;> simp

/-- the repaired `__bytes_find`: `while i + pattern.len() <= left.len()` over successive suffixes -/
def findFrom (pat : List Nat) : List Nat → Nat → Option Nat
  | rest, i =>
    if pat.length ≤ rest.length then
      if startsWith rest pat then some i
      else match rest with
        | [] => none
        | _ :: t => findFrom pat t (i + 1)
    else none

def bytesFind (left pat : List Nat) : Option Nat := findFrom pat left 0

/-- spec: the least offset at which `pat` is a prefix of the remaining haystack -/
def findSpecFrom (pat : List Nat) : List Nat → Nat → Option Nat
  | [], i => if pat.isPrefixOf [] then some i else none
  | a :: t, i => if pat.isPrefixOf (a :: t) then some i else findSpecFrom pat t (i + 1)

def findSpec (h p : List Nat) : Option Nat := findSpecFrom p h 0

theorem findSpecFrom_none_of_short (pat : List Nat) : ∀ (rest : List Nat) (i : Nat),
    rest.length < pat.length → findSpecFrom pat rest i = none := by
  intro rest
  induction rest with
  | nil =>
    intro i h
    cases pat with
    | nil => simp at h
    | cons => simp [findSpecFrom, List.isPrefixOf]
  | cons a t ih =>
    intro i h
    have hp : pat.isPrefixOf (a :: t) = false := by
      cases hq : pat.isPrefixOf (a :: t) with
      | false => rfl
      | true =>
        have := List.IsPrefix.length_le (List.isPrefixOf_iff_prefix.mp hq)
        omega
    simp only [findSpecFrom, hp]
    exact ih (i + 1) (by simp at h; omega)

theorem findFrom_eq_spec (pat : List Nat) : ∀ (rest : List Nat) (i : Nat),
    findFrom pat rest i = findSpecFrom pat rest i := by
  intro rest
  induction rest with
  | nil =>
    intro i
    unfold findFrom
    cases pat with
    | nil => simp [findSpecFrom, startsWith_iff]
    | cons b p => simp [findSpecFrom, List.isPrefixOf]
  | cons a t ih =>
    intro i
    unfold findFrom
    by_cases hlen : pat.length ≤ (a :: t).length
    · simp only [hlen, if_true, startsWith_iff, findSpecFrom]
      cases pat.isPrefixOf (a :: t) <;> simp [ih]
    · simp only [hlen, if_false]
      exact (findSpecFrom_none_of_short pat (a :: t) i (by omega)).symm

theorem bytesFind_eq_spec (h p : List Nat) : bytesFind h p = findSpec h p :=
  findFrom_eq_spec p h 0

/-- and the spec really is "least index": soundness, and minimality -/
theorem findSpecFrom_sound (pat : List Nat) : ∀ rest i j, findSpecFrom pat rest i = some j →
    i ≤ j ∧ pat.isPrefixOf (rest.drop (j - i)) = true := by
  intro rest
  induction rest with
  | nil =>
    intro i j h
    simp only [findSpecFrom] at h
    split at h
    · cases h; simp_all
    · cases h
  | cons a t ih =>
    intro i j h
    simp only [findSpecFrom] at h
    split at h
    · cases h; simp_all
    · obtain ⟨h1, h2⟩ := ih (i + 1) j h
      refine ⟨by omega, ?_⟩
      have : j - i = (j - (i + 1)) + 1 := by omega
      rw [this, List.drop_succ_cons]; exact h2

#print axioms bytesFind_eq_spec

-- the as-found heuristic matcher (Legacy) and its kernel-checked counterexample
def legacyFindGo (pat : List Nat) : List Nat → List Nat → Nat → Option Nat
  | [], matching, i => if matching.isEmpty then some (i - pat.length) else none
  | b :: rest, matching, i =>
    match matching with
    | [] => some (i - pat.length)
    | mb :: mrem =>
      let matching' :=
        if b == mb then mrem
        else match pat with
          | mb2 :: mrem2 => if b == mb2 then mrem2 else pat
          | [] => pat
      legacyFindGo pat rest matching' (i + 1)

def legacyFind (left pat : List Nat) : Option Nat := legacyFindGo pat left pat 0

theorem legacy_misses : legacyFind [97, 97, 97, 98] [97, 97, 98] = none ∧
    findSpec [97, 97, 97, 98] [97, 97, 98] = some 1 := by decide
