import Lprobe.Sync
-- feasibility probe for C01: a valid needle matching byte-wise inside a valid haystack starts and ends on char boundaries

variable (K : Code)

theorem encs_append (as bs : List Nat) : encs K (as ++ bs) = encs K as ++ encs K bs := by
  simp [encs]

theorem enc_ne_nil (c : Nat) : K.enc c ≠ [] := by
  obtain ⟨b, t, he, _⟩ := K.ok c
  simp [he]

/-- byte-level prefix between two encoded strings is a prefix in whole characters -/
theorem prefix_chars : ∀ (ps ds : List Nat), encs K ps <+: encs K ds →
    ∃ m, encs K ps = encs K (ds.take m) := by
  intro ps
  induction ps with
  | nil => intro ds _; exact ⟨0, by simp⟩
  | cons p ps ih =>
    intro ds h
    obtain ⟨b, t, hep, hb, _, hlen⟩ := K.ok p
    cases ds with
    | nil =>
      exfalso
      have := List.IsPrefix.length_le h
      simp [hep] at this
    | cons d ds =>
      obtain ⟨b', t', hed, _, _, hlen'⟩ := K.ok d
      simp only [encs_cons] at h
      -- same first byte
      have hbb : b = b' := by
        obtain ⟨r, hr⟩ := h
        rw [hep, hed] at hr
        simp only [List.cons_append, List.cons.injEq] at hr
        exact hr.1
      subst hbb
      have hl : (K.enc p).length = (K.enc d).length := by
        rw [hep, hed]; simp only [List.length_cons]; omega
      -- hence the first characters are the same bytes
      have hpd : K.enc p = K.enc d := by
        obtain ⟨r, hr⟩ := h
        have h1 := congrArg (List.take (K.enc p).length) hr
        rw [List.append_assoc, List.take_left' rfl, hl, List.take_left' rfl] at h1
        exact h1
      have hrest : encs K ps <+: encs K ds := by
        rw [hpd] at h
        exact (List.prefix_append_right_inj _).mp h
      obtain ⟨m, hm⟩ := ih ds hrest
      exact ⟨m + 1, by simp [encs_cons, hpd, hm]⟩

theorem drop_encs_take (cs : List Nat) (k : Nat) :
    (encs K cs).drop (encs K (cs.take k)).length = encs K (cs.drop k) := by
  have h : encs K cs = encs K (cs.take k) ++ encs K (cs.drop k) := by
    rw [← encs_append, List.take_append_drop]
  conv => lhs; arg 2; rw [h]
  exact List.drop_left' rfl

theorem match_on_boundaries (cs ps : List Nat) (hps : ps ≠ []) (i : Nat)
    (hm : encs K ps <+: (encs K cs).drop i) :
    Boundary K cs i ∧ Boundary K cs (i + (encs K ps).length) := by
  -- first byte of the needle is a lead byte sitting at position i of the haystack
  obtain ⟨p, ps', rfl⟩ : ∃ p ps', ps = p :: ps' := by
    cases ps with
    | nil => exact absurd rfl hps
    | cons a b => exact ⟨a, b, rfl⟩
  obtain ⟨b, t, hep, hb, _, _⟩ := K.ok p
  have hlt : i < (encs K cs).length := by
    have := List.IsPrefix.length_le hm
    simp only [encs_cons, hep, List.length_append, List.length_cons, List.length_drop] at this
    omega
  have hget : (encs K cs)[i]? = some b := by
    obtain ⟨r, hr⟩ := hm
    have : ((encs K cs).drop i)[0]? = some b := by
      rw [← hr]; simp [encs_cons, hep]
    simpa using this
  have hbi : Boundary K cs i :=
    (boundary_iff K cs i (by omega)).mpr (Or.inr ⟨b, hget, hb⟩)
  refine ⟨hbi, ?_⟩
  obtain ⟨k, hk⟩ := hbi
  subst hk
  rw [drop_encs_take] at hm
  obtain ⟨m, hm'⟩ := prefix_chars K (p :: ps') (cs.drop k) hm
  refine ⟨k + m, ?_⟩
  rw [hm']
  have : cs.take (k + m) = cs.take k ++ (cs.drop k).take m := by
    rw [List.take_add]
  rw [this, encs_append, List.length_append]

#print axioms match_on_boundaries
