-- feasibility probe for C05: the two-level loop of `__bytes_trim_start_matches` = "strip whole repetitions" spec

/-- the `'inner` loop: `none` = `return at_start`, `some rest` = needle fully matched (`break 'inner`) -/
def trimInner : List Nat → List Nat → Option (List Nat)
  | this, [] => some this
  | [], _ :: _ => none
  | b :: rem, bm :: remm => if b == bm then trimInner rem remm else none

/-- outer loop with fuel; one iteration = first-byte arm + inner loop + `matched = needle` -/
def trimStartGo (needle : List Nat) : Nat → List Nat → List Nat
  | 0, this => this
  | fuel + 1, this =>
    match this, needle with
    | b :: rem, bm :: remm =>
      if b == bm then
        match trimInner rem remm with
        | none => this                       -- `return at_start`
        | some this' => trimStartGo needle fuel this'
      else this                               -- `_ => return this`
    | _, _ => this

def trimStartMatches (this needle : List Nat) : List Nat :=
  if needle.isEmpty then this else trimStartGo needle (this.length + 1) this

/-- spec (`str::trim_start_matches`): remove whole repetitions of a non-empty needle while it is a prefix -/
def trimStartSpec (p : List Nat) (h : List Nat) : List Nat :=
  if hp : p ≠ [] ∧ p.isPrefixOf h = true then trimStartSpec p (h.drop p.length) else h
termination_by h.length
decreasing_by
  have hne : 0 < p.length := List.length_pos_iff.mpr hp.1
  have hle := List.IsPrefix.length_le (List.isPrefixOf_iff_prefix.mp hp.2)
  simp only [List.length_drop]; omega

theorem trimInner_eq : ∀ (this m : List Nat),
    trimInner this m = if m.isPrefixOf this then some (this.drop m.length) else none := by
  intro this m
  induction m generalizing this with
  | nil => simp [trimInner]
  | cons bm remm ih =>
    cases this with
    | nil => simp [trimInner, List.isPrefixOf]
    | cons b rem =>
      simp only [trimInner, List.isPrefixOf, List.length_cons, List.drop_succ_cons]
      by_cases hb : b = bm
      · subst hb; simp [ih rem]
      · have : bm ≠ b := fun e => hb e.symm
        simp [hb, this]

theorem trimStartGo_eq (needle : List Nat) (hn : needle ≠ []) : ∀ (fuel : Nat) (this : List Nat),
    this.length < fuel → trimStartGo needle fuel this = trimStartSpec needle this := by
  intro fuel
  induction fuel with
  | zero => intro this h; omega
  | succ fuel ih =>
    intro this hlt
    obtain ⟨bm, remm, rfl⟩ : ∃ bm remm, needle = bm :: remm := by
      cases needle with
      | nil => exact absurd rfl hn
      | cons a b => exact ⟨a, b, rfl⟩
    cases this with
    | nil =>
      rw [trimStartSpec]
      simp [trimStartGo, List.isPrefixOf]
    | cons b rem =>
      rw [trimStartSpec]
      simp only [trimStartGo, List.isPrefixOf]
      by_cases hb : b = bm
      · subst hb
        simp only [beq_self_eq_true, if_true, trimInner_eq, Bool.true_and]
        by_cases hp : remm.isPrefixOf rem = true
        · have hlen := List.IsPrefix.length_le (List.isPrefixOf_iff_prefix.mp hp)
          simp only [hp, if_true, ne_eq, reduceCtorEq, not_false_eq_true, and_self, dite_true,
            List.length_cons, List.drop_succ_cons]
          rw [dif_pos (by simp)]
          apply ih
          simp only [List.length_cons] at hlt
          simp only [List.length_drop]; omega
        · simp [hp]
      · have : bm ≠ b := fun e => hb e.symm
        simp [hb, this]

theorem trimStartMatches_eq_spec (this needle : List Nat) :
    trimStartMatches this needle = trimStartSpec needle this := by
  unfold trimStartMatches
  by_cases he : needle = []
  · subst he; rw [trimStartSpec]; simp
  · have hemp : needle.isEmpty = false := by cases needle <;> simp_all
    simp only [hemp, Bool.false_eq_true, if_false]
    exact trimStartGo_eq needle he _ this (by omega)

#print axioms trimStartMatches_eq_spec
example : trimStartMatches [1,2,1,2,1,3] [1,2] = [1,3] := by decide
