-- feasibility probe for C12: the `overflowing_mul(10) | overflowing_add(d)` accumulation loop in the unsigned twin type

def isDigit (b : Nat) : Bool := 48 ≤ b && b ≤ 57

/-- `while let [byte @ b'0'..=b'9', rem @ ..] = bytes` with wrap-around arithmetic modulo `M = 2^bits`;
    `none` = `throw!(ErrorKind::ParseInteger)` -/
def accLoop (M : Nat) : List Nat → Nat → Option (Nat × List Nat)
  | [], num => some (num, [])
  | b :: rest, num =>
    if isDigit b then
      let nextMul := (num * 10) % M
      let ovMul := decide (num * 10 ≥ M)
      let nextAdd := (nextMul + (b - 48)) % M
      let ovAdd := decide (nextMul + (b - 48) ≥ M)
      if ovMul || ovAdd then none else accLoop M rest nextAdd
    else some (num, b :: rest)

/-- spec: exact value of the maximal digit run, in unbounded arithmetic -/
def digitRun : List Nat → List Nat := List.takeWhile isDigit
def afterRun : List Nat → List Nat := List.dropWhile isDigit
def valFrom (num : Nat) (ds : List Nat) : Nat := ds.foldl (fun a d => a * 10 + (d - 48)) num

theorem valFrom_ge (ds : List Nat) : ∀ num, num ≤ valFrom num ds := by
  induction ds with
  | nil => intro num; simp [valFrom]
  | cons d ds ih =>
    intro num
    have := ih (num * 10 + (d - 48))
    simp only [valFrom, List.foldl_cons] at this ⊢
    omega

theorem accLoop_eq_spec (M : Nat) (hM : 0 < M) : ∀ (bytes : List Nat) (num : Nat), num < M →
    accLoop M bytes num =
      if valFrom num (digitRun bytes) < M then some (valFrom num (digitRun bytes), afterRun bytes) else none := by
  intro bytes
  induction bytes with
  | nil => intro num h; simp [accLoop, digitRun, afterRun, valFrom, h]
  | cons b rest ih =>
    intro num h
    simp only [accLoop]
    by_cases hd : isDigit b = true
    · simp only [hd, if_true, digitRun, afterRun, List.takeWhile_cons, List.dropWhile_cons, valFrom,
        List.foldl_cons]
      by_cases hov : num * 10 + (b - 48) < M
      · -- no flag fires, the wrapped values are the exact ones
        have h1 : num * 10 < M := by omega
        have e1 : (num * 10) % M = num * 10 := Nat.mod_eq_of_lt h1
        have e2 : (num * 10 + (b - 48)) % M = num * 10 + (b - 48) := Nat.mod_eq_of_lt hov
        have f1 : decide (num * 10 ≥ M) = false := by simp; omega
        have f2 : decide (num * 10 + (b - 48) ≥ M) = false := by simp; omega
        simp only [e1, e2, f1, f2, Bool.or_self, Bool.false_eq_true, if_false]
        rw [ih (num * 10 + (b - 48)) hov]
        simp only [digitRun, afterRun, valFrom]
        by_cases hv : List.foldl (fun a d => a * 10 + (d - 48)) (num * 10 + (b - 48)) (List.takeWhile isDigit rest) < M
        · simp [hv]
        · simp [hv]
      · -- some flag fires, and the exact value can only grow
        have hge := valFrom_ge (List.takeWhile isDigit rest) (num * 10 + (b - 48))
        have hflag : (decide (num * 10 ≥ M) || decide ((num * 10) % M + (b - 48) ≥ M)) = true := by
          by_cases h1 : num * 10 ≥ M
          · simp [h1]
          · have e1 : (num * 10) % M = num * 10 := Nat.mod_eq_of_lt (by omega)
            simp only [e1]; simp; omega
        simp only [hflag, if_true]
        simp only [valFrom] at hge
        have : ¬ List.foldl (fun a d => a * 10 + (d - 48)) (num * 10 + (b - 48)) (List.takeWhile isDigit rest) < M := by omega
        simp [this]
    · simp [hd, digitRun, afterRun, valFrom, h]

#print axioms accLoop_eq_spec
example : accLoop 256 [50, 53, 53, 120] 0 = some (255, [120]) := by decide
example : accLoop 256 [50, 53, 54] 0 = none := by decide
