import Lprobe.Deque
-- feasibility probe for C09: RangeInclusiveIter with the (MAX, MIN) exhausted encoding refines a deque, for every MIN < MAX

structure StepRet where
  finishedInclusive : Bool
  overflowed : Bool
  next : Int

def increment (MIN MAX start end_ : Int) : StepRet :=
  { finishedInclusive := decide (start > end_), overflowed := decide (start = MAX),
    next := if start = MAX then MIN else start + 1 }       -- `overflowing_add(1)`

def decrement (MIN MAX start end_ : Int) : StepRet :=
  { finishedInclusive := decide (end_ < start), overflowed := decide (end_ = MIN),
    next := if end_ = MIN then MAX else end_ - 1 }         -- `overflowing_sub(1)`

structure RI where
  start : Int
  end_ : Int

def RI.next (MIN MAX : Int) (s : RI) : Option (Int × RI) :=
  let r := increment MIN MAX s.start s.end_
  if r.finishedInclusive then none
  else some (s.start, if r.overflowed then ⟨MAX, MIN⟩ else ⟨r.next, s.end_⟩)

def RI.nextBack (MIN MAX : Int) (s : RI) : Option (Int × RI) :=
  let r := decrement MIN MAX s.start s.end_
  if r.finishedInclusive then none
  else some (s.end_, if r.overflowed then ⟨MAX, MIN⟩ else ⟨s.start, r.next⟩)

/-- the values of `a..=b` -/
def upto (a : Int) : Nat → List Int
  | 0 => []
  | n + 1 => a :: upto (a + 1) n

def RI.abs (s : RI) : List Int := upto s.start (s.end_ + 1 - s.start).toNat

theorem upto_snoc (a : Int) : ∀ n, upto a (n + 1) = upto a n ++ [a + n] := by
  intro n
  induction n generalizing a with
  | zero => simp [upto]
  | succ n ih =>
    rw [upto, ih (a + 1)]
    simp only [upto, List.cons_append, List.cons.injEq, true_and]
    congr 2
    omega

/-- invariant: bounds stay within the type -/
def RI.Inv (MIN MAX : Int) (s : RI) : Prop := MIN ≤ s.start ∧ s.start ≤ MAX ∧ MIN ≤ s.end_ ∧ s.end_ ≤ MAX

theorem ri_next_none (MIN MAX : Int) (s : RI) (h : RI.next MIN MAX s = none) : s.abs = [] := by
  simp only [RI.next, increment] at h
  by_cases hf : s.start > s.end_
  · have : (s.end_ + 1 - s.start).toNat = 0 := by omega
    simp [RI.abs, this, upto]
  · simp [hf] at h

theorem ri_next_some (MIN MAX : Int) (hmm : MIN < MAX) (s : RI) (hi : s.Inv MIN MAX) (x : Int) (s' : RI)
    (h : RI.next MIN MAX s = some (x, s')) : s.abs = x :: s'.abs ∧ s'.Inv MIN MAX := by
  obtain ⟨h1, h2, h3, h4⟩ := hi
  simp only [RI.next, increment] at h
  by_cases hf : s.start > s.end_
  · simp [hf] at h
  · have hle : s.start ≤ s.end_ := by omega
    simp only [hf, decide_false, Bool.false_eq_true, if_false, Option.some.injEq, Prod.mk.injEq] at h
    obtain ⟨rfl, hs'⟩ := h
    obtain ⟨n, hn⟩ : ∃ n, (s.end_ + 1 - s.start).toNat = n + 1 := ⟨(s.end_ - s.start).toNat, by omega⟩
    by_cases hmax : s.start = MAX
    · -- yielding MAX: the iterator encodes "exhausted" as (MAX, MIN)
      simp only [hmax, decide_true, if_true] at hs'
      subst hs'
      have : s.end_ = MAX := by omega
      simp only [RI.abs, hmax, this, RI.Inv]
      have e1 : (MAX + 1 - MAX).toNat = 1 := by omega
      have e2 : (MIN + 1 - MAX).toNat = 0 := by omega
      simp [e1, e2, upto]; omega
    · simp only [hmax, decide_false, Bool.false_eq_true, if_false] at hs'
      subst hs'
      refine ⟨?_, by simp only [RI.Inv]; omega⟩
      simp only [RI.abs, hn, upto]
      congr 2
      omega

theorem ri_back_none (MIN MAX : Int) (s : RI) (h : RI.nextBack MIN MAX s = none) : s.abs = [] := by
  simp only [RI.nextBack, decrement] at h
  by_cases hf : s.end_ < s.start
  · have : (s.end_ + 1 - s.start).toNat = 0 := by omega
    simp [RI.abs, this, upto]
  · simp [hf] at h

theorem ri_back_some (MIN MAX : Int) (hmm : MIN < MAX) (s : RI) (hi : s.Inv MIN MAX) (x : Int) (s' : RI)
    (h : RI.nextBack MIN MAX s = some (x, s')) : s.abs = s'.abs ++ [x] ∧ s'.Inv MIN MAX := by
  obtain ⟨h1, h2, h3, h4⟩ := hi
  simp only [RI.nextBack, decrement] at h
  by_cases hf : s.end_ < s.start
  · simp [hf] at h
  · have hle : s.start ≤ s.end_ := by omega
    simp only [hf, decide_false, Bool.false_eq_true, if_false, Option.some.injEq, Prod.mk.injEq] at h
    obtain ⟨rfl, hs'⟩ := h
    obtain ⟨n, hn⟩ : ∃ n, (s.end_ + 1 - s.start).toNat = n + 1 := ⟨(s.end_ - s.start).toNat, by omega⟩
    by_cases hmin : s.end_ = MIN
    · simp only [hmin, decide_true, if_true] at hs'
      subst hs'
      have : s.start = MIN := by omega
      simp only [RI.abs, hmin, this, RI.Inv]
      have e1 : (MIN + 1 - MIN).toNat = 1 := by omega
      have e2 : (MIN + 1 - MAX).toNat = 0 := by omega
      simp [e1, e2, upto]; omega
    · simp only [hmin, decide_false, Bool.false_eq_true, if_false] at hs'
      subst hs'
      refine ⟨?_, by simp only [RI.Inv]; omega⟩
      simp only [RI.abs]
      have e : (s.end_ - 1 + 1 - s.start).toNat = n := by omega
      rw [hn, e, upto_snoc]
      congr 2
      omega

#print axioms ri_next_some
#print axioms ri_back_some
