import Lprobe.Fusion
-- feasibility probe for C10, part 2: the direction token and one `rev`

inductive AdR where
  | ad (a : Ad)
  | rev

/-- std semantics with `rev` -/
def stdEvalR : List AdR → List Nat → List Nat
  | [], xs => xs
  | .ad a :: r, xs => stdEvalR r (applyAd a xs)
  | .rev :: r, xs => stdEvalR r xs.reverse

/-- the emitted code with the direction token `d` (true = `next_back`): `rev` flips the token,
    `flat_map` walks its inner iterator in the direction in force -/
def feedD : List AdR → Bool → St → Nat → St × List Nat × Bool
  | [], _, st, x => (st, [x], false)
  | _ :: _, _, [], _ => ([], [], true)
  | .rev :: r, d, c :: st, x =>
      match feedD r (!d) st x with | (st', out, b) => (c :: st', out, b)
  | .ad (.map f) :: r, d, c :: st, x =>
      match feedD r d st (f x) with | (st', out, b) => (c :: st', out, b)
  | .ad (.filter p) :: r, d, c :: st, x =>
      if p x then match feedD r d st x with | (st', out, b) => (c :: st', out, b)
      else (c :: st, [], false)
  | .ad (.take _) :: r, d, k :: st, x =>
      if k = 0 then (k :: st, [], true)
      else match feedD r d st x with | (st', out, b) => ((k-1) :: st', out, b)
  | .ad (.skip _) :: r, d, k :: st, x =>
      if k ≠ 0 then ((k-1) :: st, [], false)
      else match feedD r d st x with | (st', out, b) => (k :: st', out, b)
  | .ad (.flatMap f) :: r, d, c :: st, x =>
      match foldItems (feedD r d) st (if d then (f x).reverse else f x) with
      | (st', out, b) => (c :: st', out, b)

/-- the forward chain that does the same thing: `rev` becomes a no-op (keeps the state aligned),
    `flat_map`s seen while the token is `next_back` get reversed inner iterators -/
def fwd : List AdR → Bool → List Ad
  | [], _ => []
  | .rev :: r, d => .map id :: fwd r (!d)
  | .ad (.flatMap f) :: r, d => .flatMap (fun x => if d then (f x).reverse else f x) :: fwd r d
  | .ad a :: r, d => a :: fwd r d

theorem feedD_eq_feed : ∀ (c : List AdR) (d : Bool) (st : St) (x : Nat),
    feedD c d st x = feed (fwd c d) st x := by
  intro c
  induction c with
  | nil => intro d st x; simp [feedD, fwd, feed]
  | cons a r ih =>
    intro d st x
    cases st with
    | nil => cases a with
      | rev => simp [feedD, fwd, feed]
      | ad a => cases a <;> simp [feedD, fwd, feed]
    | cons k st =>
      cases a with
      | rev => simp [feedD, fwd, feed, ih]
      | ad a =>
        cases a with
        | map f => simp [feedD, fwd, feed, ih]
        | filter p => simp [feedD, fwd, feed, ih]
        | take n => simp [feedD, fwd, feed, ih]
        | skip n => simp [feedD, fwd, feed, ih]
        | flatMap f =>
          have hfun : feedD r d = feed (fwd r d) := by funext st x; exact ih d st x
          simp [feedD, fwd, feed, hfun]

def hasRev : List AdR → Bool
  | [] => false
  | .rev :: _ => true
  | _ :: r => hasRev r

def initStR : List AdR → St
  | [] => []
  | .ad (.take n) :: r => n :: initStR r
  | .ad (.skip n) :: r => n :: initStR r
  | _ :: r => 0 :: initStR r

def runD (c : List AdR) (d : Bool) : St → List Nat → List Nat
  | _, [] => []
  | st, x :: xs =>
    match feedD c d st x with
    | (_, out, true) => out
    | (st', out, false) => out ++ runD c d st' xs

/-- the macro: if any reversing method occurs the *source* is driven by `next_back` -/
def konstEvalR (c : List AdR) (xs : List Nat) : List Nat :=
  runD c (hasRev c) (initStR c) (if hasRev c then xs.reverse else xs)

theorem runD_eq_run (c : List AdR) (d : Bool) : ∀ xs st, runD c d st xs = run (fwd c d) st xs := by
  intro xs
  induction xs with
  | nil => intro st; simp [runD, run]
  | cons x xs ih => intro st; simp only [runD, run, feedD_eq_feed]; split <;> simp_all

theorem initStR_eq (c : List AdR) (d : Bool) : initStR c = initSt (fwd c d) := by
  induction c generalizing d with
  | nil => rfl
  | cons a r ih =>
    cases a with
    | rev => simp only [initStR, fwd, initSt]; rw [ih (!d)]
    | ad a => cases a <;> (simp only [initStR, fwd, initSt]; rw [ih d])

/-- full characterisation: konst = std of the normalised (forward) chain on the possibly reversed source -/
theorem konst_eq_std_normalised (c : List AdR) (xs : List Nat) :
    konstEvalR c xs = stdEval (fwd c (hasRev c)) (if hasRev c then xs.reverse else xs) := by
  unfold konstEvalR
  rw [runD_eq_run, initStR_eq c (hasRev c)]
  exact konst_forward_eq_std _ _

/-- adapters that commute with reversal -/
def Commuting : List AdR → Prop
  | [] => True
  | .ad (.map _) :: r => Commuting r
  | .ad (.filter _) :: r => Commuting r
  | .ad (.flatMap _) :: r => Commuting r
  | _ => False

def NoRev : List AdR → Prop
  | [] => True
  | .rev :: _ => False
  | _ :: r => NoRev r

theorem fwd_norev (post : List AdR) (h : NoRev post) : ∀ xs, stdEval (fwd post false) xs = stdEvalR post xs := by
  induction post with
  | nil => intro xs; rfl
  | cons a r ih =>
    intro xs
    cases a with
    | rev => simp [NoRev] at h
    | ad a =>
      have h' : NoRev r := by simpa [NoRev] using h
      cases a <;> simp [fwd, stdEval, stdEvalR, applyAd, ih h']

/-- std semantics of a rev-free prefix as plain list function -/
theorem commuting_pre (pre : List AdR) (hc : Commuting pre) (post : List AdR) :
    ∀ xs, stdEval (fwd (pre ++ .rev :: post) true) xs.reverse
        = stdEval (fwd post false) (stdEvalR pre xs).reverse := by
  induction pre with
  | nil => intro xs; simp [fwd, stdEval, applyAd, stdEvalR]
  | cons a r ih =>
    intro xs
    cases a with
    | rev => simp [Commuting] at hc
    | ad a =>
      cases a with
      | map f =>
        have := ih (by simpa [Commuting] using hc) (xs.map f)
        simpa [fwd, stdEval, applyAd, stdEvalR, List.map_reverse] using this
      | filter p =>
        have := ih (by simpa [Commuting] using hc) (xs.filter p)
        simpa [fwd, stdEval, applyAd, stdEvalR, List.filter_reverse] using this
      | flatMap f =>
        have := ih (by simpa [Commuting] using hc) (xs.flatMap f)
        have hrev : xs.reverse.flatMap (fun x => (f x).reverse) = (xs.flatMap f).reverse := by
          rw [List.reverse_flatMap]; rfl
        simpa [fwd, stdEval, applyAd, stdEvalR, hrev] using this
      | take n => simp [Commuting] at hc
      | skip n => simp [Commuting] at hc

theorem hasRev_append_rev (pre post : List AdR) : hasRev (pre ++ .rev :: post) = true := by
  induction pre with
  | nil => rfl
  | cons a r ih => cases a <;> simp [hasRev, ih]

theorem stdEvalR_append (pre post : List AdR) : ∀ xs, stdEvalR (pre ++ post) xs = stdEvalR post (stdEvalR pre xs) := by
  induction pre with
  | nil => intro xs; rfl
  | cons a r ih => intro xs; cases a <;> simp [stdEvalR, ih]

/-- on the commuting fragment konst agrees with std -/
theorem konst_eq_std_commuting (pre post : List AdR) (hc : Commuting pre) (hp : NoRev post) (xs : List Nat) :
    konstEvalR (pre ++ .rev :: post) xs = stdEvalR (pre ++ .rev :: post) xs := by
  rw [konst_eq_std_normalised, hasRev_append_rev]
  simp only [if_true]
  rw [commuting_pre pre hc post xs, fwd_norev post hp, stdEvalR_append]
  simp [stdEvalR]

/-- and outside it the property is false of the model exactly as of the code (F7) -/
theorem take_rev_differs :
    konstEvalR [.ad (.take 2), .rev] [1,2,3,4,5] = [5,4] ∧ stdEvalR [.ad (.take 2), .rev] [1,2,3,4,5] = [2,1] := by decide

#print axioms konst_eq_std_normalised
#print axioms konst_eq_std_commuting
