#!/usr/bin/env python3
"""merge_equiv.py <clone-verif-dir> <Module> [<obligations-file-in-clone>]: copy Extracted/Equiv/<Module>.lean from a
proof agent's private clone, write lean/obligations/equiv/<Module>.txt, add the import to KonstVerif.lean"""
import sys, os, re, shutil
clone, mod = sys.argv[1], sys.argv[2]
V = '/verif'
shutil.copy(f'{clone}/lean/KonstVerif/Extracted/Equiv/{mod}.lean', f'{V}/lean/KonstVerif/Extracted/Equiv/{mod}.lean')
names = []
src = sys.argv[3] if len(sys.argv) > 3 else f'{clone}/lean/obligations/equiv/{mod}.txt'
cur = None
for line in open(src):
    l = line.split('#')[0].strip()
    if not l:
        continue
    if l.startswith('import '):
        cur = l[7:].strip().split('.')[-1]
    elif l.startswith('use '):
        continue
    elif cur == mod and l not in names:
        names.append(l)
with open(f'{V}/lean/obligations/equiv/{mod}.txt', 'w') as g:
    g.write(f"# equivalence theorems of lean/KonstVerif/Extracted/Equiv/{mod}.lean (regenerated definition = model definition)\n")
    g.write(f"import KonstVerif.Extracted.Equiv.{mod}\n")
    for n in names:
        g.write(n + "\n")
root = open(f'{V}/lean/KonstVerif.lean').read()
imp = f'import KonstVerif.Extracted.Equiv.{mod}\n'
if imp not in root:
    open(f'{V}/lean/KonstVerif.lean', 'a').write(imp)
print(mod, len(names), 'theorems')
