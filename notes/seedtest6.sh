#!/bin/bash
# usage: seedtest3.sh <P> <k>   -- round 6: run ./check against the scratch worktree /tmp/seed/wt6_<P> with
# change k applied, in a private clone of /verif (so that /repo and /verif stay untouched)
P=$1; K=$2; CID=${3:-$P}
WT=/tmp/seed/wt6_$P
O=/tmp/seed/out6/$P/$K
T=/tmp/kv/seedtest6_$P/verif
if [ ! -d $T ]; then mkdir -p /tmp/kv/seedtest6_$P; git clone -q /verif $T; cp -r /verif/lean/.lake $T/lean/.lake 2>/dev/null; fi
(cd $T && git fetch -q && git reset -q --hard origin/main)
sed -i "s#path = \"[^\"]*\"#path = \"$WT/konst\"#" $T/harness/Cargo.toml
git -C $WT checkout -q -- . && git -C $WT checkout -q --detach $(git -C /repo rev-parse HEAD) && git -C $WT apply $O/patch.diff || { echo "patch failed"; exit 3; }
(cd $T && KV_REPO=$WT ./check $CID 2>&1 | grep -E "VIOLATION|KNOWN|BROKEN|evaluations|obligations" | cut -c1-400)
git -C $WT checkout -q -- .
