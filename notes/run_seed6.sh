#!/bin/bash
# usage: run_seed4.sh <P>  — confirm both round-6 changes of property P and run ./check P against each
P=$1
for k in 1 2; do
  [ -f /tmp/seed/out6/$P/$k/patch.diff ] || continue
  ROUND=6 /verif/notes/confirm_seed.sh $P $k >> /tmp/seed/confirm6/$P.log 2>&1
  /verif/notes/seedtest6.sh $P $k > /tmp/seed/final6/$P-$k.txt 2>&1
done
echo "done $P"; cat /tmp/seed/confirm6/$P.log | grep RESULT; for k in 1 2; do echo "--- $P-$k"; cut -c1-260 /tmp/seed/final6/$P-$k.txt 2>/dev/null; done
