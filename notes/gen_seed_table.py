#!/usr/bin/env python3
"""writes the section-9 table of DESIGN.md from seeded/*/meta.json (between the markers)"""
import json, glob, os, re
rows = []
for d in sorted(glob.glob('/verif/seeded/*')):
    if not os.path.exists(d + '/meta.json'):
        continue   # seeded/harmless/: behaviour-preserving rewrites (section 9.H)
    m = json.load(open(d + '/meta.json'))
    name = os.path.basename(d)
    s = (m.get('summary') or '')[:150].replace('|', '/').replace('\n', ' ')
    det = m.get('detected_by_check', '?')
    how = (m.get('detection') or '')[:260].replace('|', '/').replace('\n', ' ')
    rows.append(f"| {name} | {m['property']} | {s} | {det} | {how} |")
table = "| seeded change | property | what was changed | caught | by which check / after which strengthening |\n|---|---|---|---|---|\n" + "\n".join(rows)
p = '/verif/DESIGN.md'; t = open(p).read()
a = "<!-- SEED-TABLE-BEGIN -->"; b = "<!-- SEED-TABLE-END -->"
t = t[:t.index(a) + len(a)] + "\n" + table + "\n" + t[t.index(b):]
open(p, 'w').write(t)
print(len(rows), "rows")
