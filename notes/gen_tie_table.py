#!/usr/bin/env python3
"""prints the §0.1 table of DESIGN.md: per translator group the number of translated items (status.json), the number
of equivalence theorems (obligations/equiv/*.txt) and the properties that re-check them (Cxx.extracted.txt)"""
import json, os, re, glob
V = '/verif'
st = json.load(open(f'{V}/lean/KonstVerif/Extracted/Gen/status.json'))
groups = {}
for t in st:
    g = groups.setdefault(t['group'], {'fn': 0, 'other': 0, 'failed': 0})
    if not t['ok']:
        g['failed'] += 1
    elif '::' in t['rust'] and t['lean'].split('.')[-1][:1].islower() or t['lean'].startswith('Extracted.') and not t['lean'].split('.')[-1][:1].isupper():
        g['fn'] += 1
    else:
        g['other'] += 1
eq = {}
for f in glob.glob(f'{V}/lean/obligations/equiv/*.txt'):
    m = os.path.basename(f)[:-4]
    eq[m] = len([l for l in open(f) if l.strip() and not l.startswith('#') and not l.startswith('import') and not l.startswith('use')])
uses = {}
for f in sorted(glob.glob(f'{V}/lean/obligations/C*.extracted.txt')):
    p = os.path.basename(f)[:3]
    for l in open(f):
        if l.startswith('use '):
            uses.setdefault(l.split()[1], []).append(p)
# equivalence modules per translator group
EQMOD = {'Slice': ['Slice'], 'SliceFns': ['SliceFns'], 'Chr': ['Chr'], 'Str': ['Str'], 'Bytes': ['Bytes', 'Bytes2', 'BytesTrim'],
         'StrFns': ['StrFns'], 'Cmp': ['Cmp'], 'Cmp2': ['Cmp2'], 'Parser': ['ParserA', 'ParserB'], 'ParseInt': ['ParseInt'],
         'ParsePrim': ['ParsePrim', 'ParseWith'], 'Chars': ['Chars'], 'SliceIter': ['SliceIter'], 'SliceIter2': ['SliceIter2'], 'Split': ['Split'],
         'SplitTerm': ['SplitTerm'], 'Range': ['Range'], 'RangeIter': ['RangeIter'], 'CStr': ['CStr', 'CStr2'], 'Array': ['Array'], 'Cmp3': ['Cmp3'], 'Cmp4': ['Cmp4'], 'Range2': ['Range2'], 'ParseInt2': ['ParseInt2'], 'Concat': ['Concat'], 'SliceConcat': ['SliceConcat'],
         'ProbesOpt': ['ProbesOpt'], 'ProbesIter': ['ProbesIter', 'ProbesIterModel'], 'ProbesPm': ['ProbesPm'], 'ProbesMisc': ['ProbesMisc']}
print('| group (`Gen/<G>.lean`) | translated items (functions + types/consts) | equivalence modules (`Equiv/`) | theorems | re-checked by |')
print('|---|---|---|---|---|')
tf = tt = 0
for g, c in groups.items():
    mods = [m for m in EQMOD.get(g, [g]) if m in eq]
    n = sum(eq[m] for m in mods)
    us = sorted({p for m in mods for p in uses.get(m, [])})
    tf += c['fn'] + c['other']; tt += n
    print(f"| {g} | {c['fn']} + {c['other']}{' (' + str(c['failed']) + ' failed)' if c['failed'] else ''} | {', '.join(mods) or '—'} | {n or '—'} | {' '.join(us) or '—'} |")
print(f'\n({tf} translated items, {tt} equivalence theorems.)')
