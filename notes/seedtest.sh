#!/bin/sh
# usage: seedtest.sh <ID> <patch.diff> [check-id]   -- run ./check against a scratch worktree with the patch applied
# (used while other work is going on against /repo; the final confirmation is done on /repo itself)
ID=$1; PATCH=$2; CID=${3:-$ID}
WT=/tmp/seed/wt_$ID
T=/tmp/kv/seedtest_$ID/verif
if [ ! -d $T ]; then mkdir -p /tmp/kv/seedtest_$ID; git clone -q /verif $T; cp -r /verif/lean/.lake $T/lean/.lake 2>/dev/null; fi
(cd $T && git fetch -q && git reset -q --hard origin/main)
sed -i "s#path = \"[^\"]*\"#path = \"$WT/konst\"#" $T/harness/Cargo.toml
git -C $WT checkout -q -- . && git -C $WT apply $PATCH || { echo "patch failed"; exit 3; }
(cd $T && ./check $CID 2>&1 | grep -E "VIOLATION|KNOWN|BROKEN|evaluations" | cut -c1-400)
git -C $WT checkout -q -- .
(cd $T && git checkout -q -- harness/Cargo.toml)
