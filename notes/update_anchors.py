#!/usr/bin/env python3
"""records the digests of every anchored source file of /repo (properties.jsonl) in anchors.sha256.json — run after a
`fix:` commit in /repo once the models mirror the repaired code"""
import json, hashlib, os
files = set()
for line in open('/verif/properties.jsonl'):
    files.update(json.loads(line)['anchors']['files'])
d = {}
for f in sorted(files):
    p = os.path.join('/repo', f)
    d[f] = hashlib.sha256(open(p, 'rb').read()).hexdigest() if os.path.exists(p) else 'missing'
old = json.load(open('/verif/anchors.sha256.json'))
print('changed:', [f for f in d if old.get(f) != d[f]])
json.dump(d, open('/verif/anchors.sha256.json', 'w'), indent=1, sort_keys=True)
