#!/bin/bash
# usage: harmcheck2.sh <P> <k>  -- second (out-of-sample) harmless round: copy /tmp/seed/outH/<P>/<k> to seeded/harmless/<P>-b<k> and run the check
P=$1; K=$2; D=/verif/seeded/harmless/$P-b$K
[ -f /tmp/seed/outH/$P/$K/patch.diff ] || exit 0
mkdir -p $D; cp /tmp/seed/outH/$P/$K/patch.diff $D/patch.diff; cp /tmp/seed/outH/$P/$K/meta.json $D/meta.json 2>/dev/null
/verif/notes/seedcheck.sh harmless/$P-b$K $P ${3:-H$P} > /tmp/seed/finalB2/$P-b$K.txt 2>&1
