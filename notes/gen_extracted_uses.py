#!/usr/bin/env python3
"""writes lean/obligations/Cxx.extracted.txt: which equivalence modules (obligations/equiv/<M>.txt) each property
re-checks — the modules of the functions the property's behaviour is built from (DESIGN.md section 11)"""
import os
OB = '/verif/lean/obligations'
USES = {
 'C01': ['Slice', 'SliceFns', 'BytesPub', 'Str', 'StrFns', 'Chr', 'Bytes', 'Bytes2', 'BytesTrim', 'Chars', 'SliceIter', 'Split', 'SplitTerm', 'Array', 'CStr', 'CStr2', 'SliceIter2', 'ProbesArr'],
 'C11': ['Array', 'ProbesArr'],
 'C15': ['Array', 'ProbesArr'],
 'C02': ['Slice', 'SliceFns', 'SliceIter', 'BytesPub'],
 'C03': ['Slice', 'Str', 'StrFns', 'Rest'],
 'C04': ['Slice', 'Bytes', 'Bytes2', 'StrFns', 'ParserB', 'BytesPub'],
 'C05': ['Bytes', 'Bytes2', 'BytesTrim', 'StrFns', 'BytesPub'],
 'C06': ['Slice', 'Str', 'Bytes', 'Bytes2', 'StrFns', 'Split', 'SplitTerm', 'ProbesMisc', 'Rest'],
 'C07': ['Chr', 'Str', 'Slice', 'StrFns', 'Chars'],
 'C08': ['Slice', 'SliceFns', 'SliceIter', 'SliceIter2'],
 'C09': ['Range', 'Range2', 'RangeIter'],
 'C12': ['Str', 'ParseInt', 'ParsePrim', 'ParseWith', 'ParseInt2'],
 'C13': ['Str', 'StrFns', 'ParserA', 'ParserB', 'ParseInt', 'ParseWith', 'ParseInt2', 'Rest'],
 'C14': ['Bytes', 'Bytes2', 'BytesTrim', 'StrFns', 'ParserA', 'ParserB', 'ParseInt'],
 'C16': ['Cmp', 'Cmp2', 'Cmp3', 'Cmp4', 'Cmp5', 'Cmp6', 'Cmp7', 'ProbesMisc'],
 'C18': ['StrFns', 'ParserA', 'ProbesPm'],
 'C20': ['Chr', 'Slice', 'Concat', 'SliceConcat', 'CStr', 'CStr2'],
 'C19': ['ProbesOpt', 'ProbesMisc', 'Rest'],
 'C10': ['SliceIter2', 'ProbesIter', 'ProbesIterModel', 'Rest'],
}
for p, ms in USES.items():
    have = [m for m in ms if os.path.exists(f'{OB}/equiv/{m}.txt')]
    with open(f'{OB}/{p}.extracted.txt', 'w') as g:
        g.write("# second tie (DESIGN.md section 11): the equivalence theorems `Extracted.f = Model.f` of the regenerated\n"
                "# definitions this property's functions are built from; `use <M>` = obligations/equiv/<M>.txt\n")
        for m in have:
            g.write(f"use {m}\n")
    print(p, have)
