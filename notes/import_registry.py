#!/usr/bin/env python3
"""import_registry.py <path to an agent's vlib/registry.py (old single-file format)> — write missing entries to vlib/props/"""
import sys, os, pprint, importlib.util
spec = importlib.util.spec_from_file_location("r", sys.argv[1]); m = importlib.util.module_from_spec(spec)
sys.path.insert(0, os.path.dirname(os.path.dirname(os.path.abspath(sys.argv[1]))))
spec.loader.exec_module(m)
for k, v in m.PROPS.items():
    p = f'/verif/vlib/props/{k}.py'
    if not os.path.exists(p):
        open(p, 'w').write(f'"""registry entry of {k} (see vlib/registry.py)"""\nPROP = ' + pprint.pformat(v, width=110, sort_dicts=False) + '\n')
        print("imported", k)
