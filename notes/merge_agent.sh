#!/bin/bash
# usage: merge_agent.sh <clone-dir>   — bring an agent's committed work into /verif
# new/own files are taken as they are; shared files get the agent's diff applied 3-way.
set -e
cd /verif
C=$1
git fetch -q $C main
SHARED="DESIGN.md known_findings.txt harness/src/main.rs lean/Driver/Main.lean lean/KonstVerif.lean harness/src/util.rs lean/Driver/Util.lean vlib/core.py vlib/gen_manifest.py"
SKIP="anchors.sha256.json vlib/registry.py MANIFEST.json known_findings.jsonl harness/Cargo.toml harness/Cargo.lock"
for f in $(git diff --name-only HEAD...FETCH_HEAD); do
  case " $SHARED $SKIP " in *" $f "*) continue;; esac
  case "$f" in evidence/*) continue;; esac
  mkdir -p $(dirname $f)
  git show FETCH_HEAD:$f > $f 2>/dev/null || echo "deleted in agent: $f"
done
for f in $SHARED; do
  if ! git diff --quiet HEAD...FETCH_HEAD -- $f; then
    git diff HEAD...FETCH_HEAD -- $f | git apply --3way - && echo "merged $f" || echo "CONFLICT in $f"
  fi
done
echo "--- known_findings diff:"; git diff HEAD...FETCH_HEAD -- known_findings.jsonl | grep '^[+-]' | grep -v '^+++\|^---' || true
echo "--- harness/Cargo.toml diff:"; git diff HEAD...FETCH_HEAD -- harness/Cargo.toml | grep '^[+-]' | grep -v '^+++\|^---' || true
git show FETCH_HEAD:vlib/registry.py > /tmp/reg_agent.py; grep -q "PROPS = {$" /tmp/reg_agent.py && python3 notes/import_registry.py /tmp/reg_agent.py || true
python3 vlib/gen_manifest.py
