#!/bin/bash
# usage: seedcheck.sh <seeded-dir-name | harmless/<P>-<k>> [check-id] [worktree-tag]
# applies /verif/seeded/<name>/patch.diff to a scratch worktree of /repo (outside /repo and /verif) and runs ./check
# from a private clone of /verif against it; /repo and /verif stay untouched
S=$1; B=$(basename $S); P=${B%%-*}; CID=${2:-$P}; TAG=${3:-$P}
WT=/tmp/seed/wtS_$TAG
T=/tmp/kv/seedchk_$TAG/verif
mkdir -p /tmp/seed /tmp/kv/seedchk_$TAG
[ -d $WT ] || git -C /repo worktree add -q --detach $WT HEAD
if [ ! -d $T ]; then git clone -q /verif $T; cp -r /verif/lean/.lake $T/lean/.lake 2>/dev/null; fi
(cd $T && git fetch -q && git reset -q --hard origin/main)
sed -i "s#path = \"[^\"]*\"#path = \"$WT/konst\"#" $T/harness/Cargo.toml
git -C $WT checkout -q -- . && git -C $WT checkout -q --detach $(git -C /repo rev-parse HEAD) && git -C $WT apply /verif/seeded/$S/patch.diff || { echo "patch failed"; exit 3; }
(cd $T && KV_REPO=$WT ./check $CID 2>&1 | grep -E "VIOLATION|BROKEN|evaluations|obligations" | cut -c1-400)
git -C $WT checkout -q -- .
