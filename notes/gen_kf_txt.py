#!/usr/bin/env python3
"""regenerates known_findings.txt (the human-readable companion) from known_findings.jsonl"""
import json
hdr = [l for l in open('/verif/known_findings.txt') if l.startswith('#')]
out = list(hdr)
for l in open('/verif/known_findings.jsonl'):
    if not l.strip():
        continue
    r = json.loads(l)
    if r['status'] == 'fixed':
        out.append(f"fixed: property={r['property']} {r['commit']} ({r['id']}) {r['what']}\n")
    else:
        out.append(f"known: property={r['property']} {r['id']} {r['what']}\n")
open('/verif/known_findings.txt', 'w').write(''.join(out))
print(len(out) - len(hdr), 'records')
