#!/bin/bash
# usage: run_seed4.sh <P>  — confirm both round-4 changes of property P and run ./check P against each
P=$1
for k in 1 2; do
  [ -f /tmp/seed/out5/$P/$k/patch.diff ] || continue
  ROUND=5 /verif/notes/confirm_seed.sh $P $k >> /tmp/seed/confirm5/$P.log 2>&1
  /verif/notes/seedtest5.sh $P $k > /tmp/seed/final5/$P-$k.txt 2>&1
done
echo "done $P"; cat /tmp/seed/confirm5/$P.log | grep RESULT; for k in 1 2; do echo "--- $P-$k"; cut -c1-260 /tmp/seed/final5/$P-$k.txt 2>/dev/null; done
