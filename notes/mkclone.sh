#!/bin/sh
# usage: mkclone.sh <name>  -> /tmp/kv/<name>/verif (own build dirs), prebuilt Lean objects copied
set -e
n=$1
mkdir -p /tmp/kv/$n
rm -rf /tmp/kv/$n/verif
git clone -q /verif /tmp/kv/$n/verif
cp -r /verif/lean/.lake /tmp/kv/$n/verif/lean/.lake 2>/dev/null || true
mkdir -p /tmp/kv/$n/verif/build
echo /tmp/kv/$n/verif
