#!/usr/bin/env python3
"""resolve_union.py <file>…: resolve 3-way conflict markers by keeping both sides (ours then theirs) — for
append-only tables and lists (DESIGN.md tables, known_findings.txt)"""
import re, sys
for path in sys.argv[1:]:
    s = open(path).read()
    s2 = re.sub(r"<<<<<<< ours\n(.*?)=======\n(.*?)>>>>>>> theirs\n", lambda m: m.group(1) + m.group(2), s, flags=re.S)
    open(path, 'w').write(s2)
    print(path, s.count('<<<<<<< ours'), 'conflicts resolved')
