#!/bin/bash
# final confirmation on /repo ITSELF: apply a seeded patch with `git -C /repo apply`, run the check, undo.
# usage: repo_pass.sh <seeded-dir-name> [check-id]      results appended to /verif/notes/repo_pass.log
S=$1
PID=$(python3 -c "import json;print(json.load(open('/verif/seeded/$S/meta.json'))['property'])")
CID=${2:-$PID}
cd /verif
git -C /repo status --short | grep -q . && { echo "$S: /repo not clean, skipping"; exit 1; }
git -C /repo apply /verif/seeded/$S/patch.diff || { echo "$S: patch does not apply" >> notes/repo_pass.log; exit 1; }
OUT=$(./check $CID 2>&1 | grep -E "^VIOLATION|^KNOWN|^CHECK-BROKEN|evaluations=" | cut -c1-260)
git -C /repo checkout -- .
git checkout -q -- evidence/ 2>/dev/null
echo "== $S (check $CID) on /repo: $(echo "$OUT" | tr '\n' ' ')" >> notes/repo_pass.log
