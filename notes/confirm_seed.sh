#!/bin/bash
# usage: confirm_seed.sh <ID> <k>   — independently confirm a seeded change in its scratch worktree:
#   tests give the baseline result with the change; the demo fails with it and passes without it.
ID=$1; K=$2
R=${ROUND:-1}; if [ "$R" = 6 ]; then WT=/tmp/seed/wt6_$ID; O=/tmp/seed/out6/$ID/$K; elif [ "$R" = 5 ]; then WT=/tmp/seed/wt4_$ID; O=/tmp/seed/out5/$ID/$K; elif [ "$R" = 4 ]; then WT=/tmp/seed/wt4_$ID; O=/tmp/seed/out4/$ID/$K; elif [ "$R" = 3 ]; then WT=/tmp/seed/wt3_$ID; O=/tmp/seed/out3/$ID/$K; elif [ "$R" = 2 ]; then WT=/tmp/seed/wt2_$ID; O=/tmp/seed/out2/$ID/$K; else WT=/tmp/seed/wt_$ID; O=/tmp/seed/out/$ID/$K; fi
export CARGO_NET_OFFLINE=true CARGO_TARGET_DIR=$WT/target
cd $WT && git checkout -q -- . && git apply $O/patch.diff || { echo "RESULT $ID/$K patch-failed"; exit 1; }
T=$(cargo test --workspace --no-fail-fast --offline 2>&1 | grep -E "^test result|^test .* FAILED$" | sed 's/finished in.*//' | sort | md5sum | cut -c1-12)
run_demo() {
  if [ -f $O/demo.sh ]; then (cd $O && CARGO_TARGET_DIR=$O/demo_target bash demo.sh >/dev/null 2>&1); echo $?;
  elif [ -f $O/demo/demo.sh ]; then (cd $O/demo && CARGO_TARGET_DIR=$O/demo_target bash demo.sh >/dev/null 2>&1); echo $?;
  else (cd $O/demo && CARGO_TARGET_DIR=$O/demo_target cargo run --offline -q >/dev/null 2>&1); echo $?; fi
}
D1=$(run_demo)
git checkout -q -- .
D0=$(run_demo)
rm -rf $O/demo_target
echo "RESULT r$R $ID/$K tests_md5=$T demo_with_change=$D1 demo_without=$D0"
