#!/bin/bash
# keep every confirmed round-6 seeded change under /verif/seeded/<P>-r3-<k> with the outcome of the check run against it
for d in /tmp/seed/out6/*/; do P=$(basename $d); for k in 1 2; do
  [ -f $d/$k/patch.diff ] || continue
  f=/tmp/seed/final6/$P-$k.txt; r=/tmp/seed/final6/$P-$k.retest.txt
  summ() { grep -oE "obligations [0-9]+/[0-9]+|VIOLATION property=[^ ]+ replay=[^ ]+( no-failing-input-found)?|evaluations=.*" "$1" 2>/dev/null | tr '\n' ' ' | cut -c1-330; }
  first=$(summ $f)
  if [ -s $r ]; then last=$(summ $r); else last="$first"; fi
  if echo "$last" | grep -q VIOLATION; then det=yes; else det=no; fi
  how="./check $P against the scratch worktree with the change: $last"
  if [ -s $r ] && ! echo "$first" | grep -q VIOLATION; then how="first run MISSED it ($first); after the strengthening recorded in DESIGN.md section 9: $last"; fi
  ROUND=6 python3 /verif/notes/keep_seed.py $P $k $det "$how" >/dev/null
done; done
ls /verif/seeded | grep -c r6
