#!/bin/bash
# usage: harmtest.sh <P> <k>  -- behaviour-preserving refactoring k of /tmp/seed/outH/<P>: the check may stay silent or
# report a broken obligation WITHOUT a failing input; a reported input would be a false alarm of the machinery
P=$1; K=$2
WT=/tmp/seed/wtH_$P
O=/tmp/seed/outH/$P/$K
T=/tmp/kv/harm_$P/verif
if [ ! -d $T ]; then mkdir -p /tmp/kv/harm_$P; git clone -q /verif $T; cp -r /verif/lean/.lake $T/lean/.lake 2>/dev/null; fi
(cd $T && git fetch -q && git reset -q --hard origin/main)
sed -i "s#path = \"[^\"]*\"#path = \"$WT/konst\"#" $T/harness/Cargo.toml
git -C $WT checkout -q -- . && git -C $WT checkout -q --detach $(git -C /repo rev-parse HEAD) && git -C $WT apply $O/patch.diff || { echo "patch failed"; exit 3; }
(cd $T && KV_REPO=$WT ./check $P 2>&1 | grep -E "VIOLATION|BROKEN|evaluations|obligations" | cut -c1-300)
git -C $WT checkout -q -- .
