#!/usr/bin/env python3
"""
Self-test of the probe entries of translator/replay_map.py (DESIGN.md section 11, "Probe replays").

The failing-input search only replays inputs on which the regenerated and the committed Lean definitions differ, so on
the unchanged tree the probe entries never run.  This script feeds every entry of replay_map.PROBES with synthetic
"counterexamples" (Lean reprs written by Python, same generators in spirit as Rs/Search.lean) and runs the replay
program against the konst of KV_REPO (default /repo).  On the unchanged tree every replayed line must have
konst == std: a difference here is a mistake in an entry's std expression (or a defect of konst), not a finding of
the search.  Usage:  python3 notes/selftest_probe_replays.py [samples per entry, default 12]
"""
import os, sys, random, json
ROOT = os.path.dirname(os.path.dirname(os.path.abspath(__file__)))
sys.path.insert(0, ROOT)
from vlib import core, xsearch   # noqa: E402

rnd = random.Random(20260930)
SMALL = [0, 1, 2, 3, 4, 5, 6, 7, 9, 12]
BIG = [0, 1, 255, 256, 65535, 2**31 - 1, 2**31, 2**32 - 2, 2**32 - 1]
CHARS = ["a", "b", "ab", "ba", ",", "1", "25", "7", "é", "bé", "→", "😀", " ", "0", "9", "a,b"]


def u32():
    return rnd.choice(SMALL) if rnd.random() < 0.6 else rnd.choice(BIG)


def u8():
    return rnd.choice([0, 1, 7, 200, 255, rnd.randrange(256)])


def usize():
    return rnd.choice([0, 1, 2, 3, 4, 5, 8, 17, 2**32 - 1, 2**32, 2**32 + 1, 2**64 - 1])


def lst(n=None):
    n = rnd.choice([0, 1, 2, 3, 4, 5, 8, 9]) if n is None else n
    return "[" + ", ".join(str(u32()) for _ in range(n)) + "]"


def opt(f):
    return "none" if rnd.random() < 0.25 else f"some {f()}"


def utf8():
    s = "".join(rnd.choice(CHARS) for _ in range(rnd.choice([0, 1, 2, 3, 5, 8])))
    return "[" + ", ".join(str(b) for b in s.encode()) + "]"


def gen(kind, consts):
    if kind == "u32s":
        return lst()
    if kind == "u32ss":
        return "[" + ", ".join(lst(rnd.choice([0, 1, 2, 3])) for _ in range(rnd.choice([0, 1, 2, 3, 4]))) + "]"
    if kind in ("arr_u32", "arr_ref_u32"):
        return lst(consts["N"])
    if kind == "u32":
        return str(u32())
    if kind == "u8":
        return str(u8())
    if kind == "usize":
        return str(usize())
    if kind == "opt_u32":
        return opt(u32)
    if kind == "opt_u8":
        return opt(u8)
    if kind == "opt_opt_u32":
        return "none" if rnd.random() < 0.25 else ("some none" if rnd.random() < 0.3 else f"some (some {u32()})")
    if kind == "res_u32_u8":
        return f"Except.error {u8()}" if rnd.random() < 0.3 else f"Except.ok {u32()}"
    if kind == "pair_u32":
        return f"({u32()}, {u32()})"
    if kind in ("str", "bytes"):
        return utf8()
    if kind == "parser":
        off = rnd.choice([0, 0, 1, 7, 4294967290])
        return ("{ parse_direction := Extracted.ParseDirection.FromStart, yielded_last_split := false, "
                f"start_offset := {off}, str := {utf8()} }}")
    raise ValueError(kind)


def main():
    n = int(sys.argv[1]) if len(sys.argv) > 1 else 12
    m = xsearch._load_map()
    cex = []
    for fn, ent in m.PROBES.items():
        for _ in range(n):
            consts = {"N": rnd.choice([0, 1, 2, 3, 4, 5, 8])} if fn.startswith("ar_") else {}
            cex.append({"fn": fn, "args": [gen(k, consts) for k in ent[0]], "consts": consts, "new": "", "old": ""})
    rep = xsearch.replay_on_implementation(cex, os.path.join(core.BUILD, "xsearch_selftest"))
    if rep and rep[0].get("error"):
        print(rep[0]["error"])
        return 2
    by = {}
    for r in rep:
        by.setdefault(r["fn"], [0, 0, 0])
        by[r["fn"]][0] += 1
        by[r["fn"]][1] += r["differs"]
        by[r["fn"]][2] += r["konst"] == "panic"
    bad = [r for r in rep if r["differs"]]
    for fn in m.PROBES:
        a = by.get(fn, [0, 0, 0])
        print(f"{fn:34s} replayed={a[0]:4d} differ={a[1]:3d} panics={a[2]:3d}")
    print(f"{len(cex)} synthetic inputs, {len(rep)} replayed, {len(bad)} differ; entries never replayed: "
          f"{[fn for fn in m.PROBES if fn not in by]}")
    for r in bad[:10]:
        print(json.dumps({k: r[k] for k in ("fn", "args", "konst", "std")}))
    return 1 if bad or any(fn not in by for fn in m.PROBES) else 0


if __name__ == "__main__":
    sys.exit(main())
