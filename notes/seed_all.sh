#!/bin/bash
# run every seeded change (round 1 and 2) of one property against its check in the scratch setup; results to /tmp/seed/final/
ID=$1
mkdir -p /tmp/seed/final
for k in 1 2 3; do
  if [ -f /tmp/seed/out/$ID/$k/patch.diff ]; then
    /verif/notes/seedtest.sh $ID /tmp/seed/out/$ID/$k/patch.diff > /tmp/seed/final/$ID-$k.txt 2>&1
  fi
  if [ -f /tmp/seed/out2/$ID/$k/patch.diff ]; then
    /verif/notes/seedtest.sh $ID /tmp/seed/out2/$ID/$k/patch.diff > /tmp/seed/final/$ID-r2-$k.txt 2>&1
  fi
done
