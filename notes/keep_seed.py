#!/usr/bin/env python3
"""keep_seed.py <ID> <k> <detected: yes|no|partial> <how/which check output>  — store a confirmed seeded change under /verif/seeded/"""
import sys, os, json, shutil, re
ID, k, detected, how = sys.argv[1], sys.argv[2], sys.argv[3], sys.argv[4]
R = os.environ.get("ROUND", "1")
src = {"1": f"/tmp/seed/out/{ID}/{k}", "2": f"/tmp/seed/out2/{ID}/{k}", "3": f"/tmp/seed/out3/{ID}/{k}", "4": f"/tmp/seed/out4/{ID}/{k}", "5": f"/tmp/seed/out5/{ID}/{k}", "6": f"/tmp/seed/out6/{ID}/{k}"}[R]
dst = {"1": f"/verif/seeded/{ID}-{k}", "2": f"/verif/seeded/{ID}-r2-{k}", "3": f"/verif/seeded/{ID}-r3-{k}", "4": f"/verif/seeded/{ID}-r4-{k}", "5": f"/verif/seeded/{ID}-r5-{k}", "6": f"/verif/seeded/{ID}-r6-{k}"}[R]
os.makedirs(dst, exist_ok=True)
shutil.copy(src + "/patch.diff", dst + "/patch.diff")
for name in ("demo", "demo.sh"):
    p = os.path.join(src, name)
    if os.path.isdir(p):
        shutil.rmtree(dst + "/demo", ignore_errors=True)
        shutil.copytree(p, dst + "/demo", ignore=shutil.ignore_patterns("target", "Cargo.lock"))
    elif os.path.isfile(p):
        shutil.copy(p, dst + "/" + name)
meta = {}
try:
    meta = json.load(open(src + "/meta.json"))
except Exception as e:
    meta = {"note": "meta.json from the seeding agent unreadable: " + str(e)}
conf = ""
logs = ["/tmp/seed/" + l for l in sorted(os.listdir("/tmp/seed")) if l.startswith("confirm") and l.endswith(".log")]
for cd in ("/tmp/seed/confirm3", "/tmp/seed/confirm4", "/tmp/seed/confirm5", "/tmp/seed/confirm6"):
    if os.path.isdir(cd):
        logs += [cd + "/" + l for l in sorted(os.listdir(cd))]
for log in logs:
    if True:
        for line in open(log):
            if line.startswith(f"RESULT {ID}/{k} ") and R == "1" or line.startswith(f"RESULT r{R} {ID}/{k} "):
                conf = line.strip()
out = {
    "property": ID,
    "summary": meta.get("summary", ""),
    "needs_to_manifest": meta.get("needs_to_manifest", meta.get("needs", "")),
    "failing_input": meta.get("failing_input", ""),
    "origin": "independent sub-agent given only the property text and a scratch git worktree of /repo (nothing from /verif)" + ("; round 2: additionally required to be correct on all small/ordinary inputs and wrong only on large or rare ones" if R == "2" else "")
              + ("; round 3: required to need something specific to manifest (a multi-step history, a large or rare input, two cooperating edits, an unusual macro invocation, a panic at a particular point)" if R == "3" else "")
              + ("; round 4 (on the tree with all repairs up to a6790b3): a change in the code a MACRO expands to at the call site, or in a rarely used corner of the API, that needs something specific to manifest" if R == "4" else "")
              + ("; round 5 (on the tree with all repairs up to a6790b3): an interaction of two features, or a difference between const evaluation and run time / an unusual element type" if R == "5" else "")
              + ("; round 6 (tree b7532cf): aimed at the part of the property's code that the second tie covered last (groups BytesPub, Cmp5-7, Rest) or that only the first tie covers (pattern kinds); needs something specific to manifest" if R == "6" else ""),
    "confirmed_by_me": {
        "command": f"ROUND={R} notes/confirm_seed.sh {ID} {k}  (scratch worktree: apply patch; cargo test --workspace --no-fail-fast --offline; run demo; undo; run demo)",
        "result": conf,
        "baseline_tests_md5": os.environ.get("BASE_MD5", "6cc73c6778be"),
        "meaning": "tests_md5 equal to the baseline = identical pass/fail set (247 pass + the 3 always-failing tests + doctests); demo exit 101/non-zero with the change, 0 without",
    },
    "detected_by_check": detected,
    "detection": how,
    "demo_note": "demo/Cargo.toml points at the scratch worktree path used when the change was made; adjust the konst path to replay",
}
json.dump(out, open(dst + "/meta.json", "w"), indent=1)
print("kept", dst)
