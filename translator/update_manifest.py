#!/usr/bin/env python3
"""record the digests of the generated Lean files as the committed state (run after translator/run.sh on the
unchanged /repo, before committing)"""
import hashlib, json, os
R = os.path.dirname(os.path.abspath(__file__))
G = os.path.join(R, "..", "lean", "KonstVerif", "Extracted", "Gen")
d = {fn: hashlib.sha256(open(os.path.join(G, fn), "rb").read()).hexdigest() for fn in sorted(os.listdir(G)) if fn.endswith(".lean")}
json.dump(d, open(os.path.join(R, "gen.sha256.json"), "w"), indent=1)
print(len(d), "files")

# the committed state of the generated definitions, as namespace Extracted0, for the failing-input search
import subprocess, sys
subprocess.check_call([sys.executable, os.path.join(R, "gen_search.py"), "freeze"])
subprocess.check_call([sys.executable, os.path.join(R, "gen_search.py"), "search"])
