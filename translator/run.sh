#!/bin/sh
# expand /repo's crates with rustc and regenerate lean/KonstVerif/Extracted/Gen/*.lean
set -e
V=$(cd "$(dirname "$0")/.." && pwd)
R=${KV_REPO:-/repo}
export CARGO_NET_OFFLINE=true RUSTC_BOOTSTRAP=1
mkdir -p $V/build/expand
(cd $R && CARGO_TARGET_DIR=$V/build/expand_target cargo rustc --offline -q -p konst_kernel --lib --features rust_1_83,iter,__for_konst,rust_1_64 -- -Zunpretty=expanded > $V/build/expand/konst_kernel.rs.tmp 2>$V/build/expand/konst_kernel.err) || { echo 'rs2lean: macro expansion of konst_kernel failed'; tail -20 $V/build/expand/konst_kernel.err; exit 3; }
mv $V/build/expand/konst_kernel.rs.tmp $V/build/expand/konst_kernel.rs
(cd $R && CARGO_TARGET_DIR=$V/build/expand_target cargo rustc --offline -q -p konst --lib --features rust_1_83 -- -Zunpretty=expanded > $V/build/expand/konst.rs.tmp 2>$V/build/expand/konst.err) || { echo 'rs2lean: macro expansion of konst failed'; tail -20 $V/build/expand/konst.err; exit 3; }
mv $V/build/expand/konst.rs.tmp $V/build/expand/konst.rs
# probe crate: representative call sites of konst's macros, expanded against $R
mkdir -p $V/build/probes
rm -rf $V/build/probes/src && cp -r $V/translator/probes/src $V/build/probes/src
printf '[package]\nname = "probes"\nversion = "0.1.0"\nedition = "2021"\n[dependencies]\nkonst = { path = "%s/konst", features = ["rust_1_83"] }\n[workspace]\n' "$R" > $V/build/probes/Cargo.toml
cp -n $R/Cargo.lock $V/build/probes/Cargo.lock 2>/dev/null || true
(cd $V/build/probes && CARGO_TARGET_DIR=$V/build/expand_target cargo rustc --offline -q --lib -- -Zunpretty=expanded > $V/build/expand/probes.rs.tmp 2>$V/build/expand/probes.err) || { echo 'rs2lean: macro expansion of the probe crate failed'; grep -E "^error" -A 6 $V/build/expand/probes.err | head -30; exit 3; }
mv $V/build/expand/probes.rs.tmp $V/build/expand/probes.rs
# -Zunpretty=expanded stops before type checking: the probes must also be a well-typed program against $R's macros
(cd $V/build/probes && CARGO_TARGET_DIR=$V/build/expand_target cargo check --offline -q --lib 2>$V/build/expand/probes_check.err) || { echo 'rs2lean: the probe crate does not compile against the current macros'; grep -E "^error" -A 6 $V/build/expand/probes_check.err | head -30; exit 3; }
(cd $V/translator && CARGO_TARGET_DIR=$V/build/translator cargo build --offline -q)
$V/build/translator/debug/rs2lean --src konst_kernel=$V/build/expand/konst_kernel.rs --src konst=$V/build/expand/konst.rs --src probes=$V/build/expand/probes.rs --targets $V/translator/targets.txt --out $V/lean/KonstVerif/Extracted/Gen
# the failing-input search program follows the regenerated signatures (built and run only when an obligation breaks)
python3 $V/translator/gen_search.py search > /dev/null 2>&1 || true
