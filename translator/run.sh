#!/bin/sh
# expand /repo's crates with rustc and regenerate lean/KonstVerif/Extracted/Gen/*.lean
set -e
V=$(cd "$(dirname "$0")/.." && pwd)
R=${KV_REPO:-/repo}
export CARGO_NET_OFFLINE=true RUSTC_BOOTSTRAP=1
mkdir -p $V/build/expand
(cd $R && CARGO_TARGET_DIR=$V/build/expand_target cargo rustc --offline -q -p konst_kernel --lib --features rust_1_83,iter,__for_konst,rust_1_64 -- -Zunpretty=expanded > $V/build/expand/konst_kernel.rs.tmp 2>$V/build/expand/konst_kernel.err) || { echo 'rs2lean: macro expansion of konst_kernel failed'; tail -20 $V/build/expand/konst_kernel.err; exit 3; }
mv $V/build/expand/konst_kernel.rs.tmp $V/build/expand/konst_kernel.rs
(cd $R && CARGO_TARGET_DIR=$V/build/expand_target cargo rustc --offline -q -p konst --lib --features rust_1_83 -- -Zunpretty=expanded > $V/build/expand/konst.rs.tmp 2>$V/build/expand/konst.err) || { echo 'rs2lean: macro expansion of konst failed'; tail -20 $V/build/expand/konst.err; exit 3; }
mv $V/build/expand/konst.rs.tmp $V/build/expand/konst.rs
(cd $V/translator && CARGO_TARGET_DIR=$V/build/translator cargo build --offline -q)
$V/build/translator/debug/rs2lean --src konst_kernel=$V/build/expand/konst_kernel.rs --src konst=$V/build/expand/konst.rs --targets $V/translator/targets.txt --out $V/lean/KonstVerif/Extracted/Gen
# the failing-input search program follows the regenerated signatures (built and run only when an obligation breaks)
python3 $V/translator/gen_search.py search > /dev/null 2>&1 || true
