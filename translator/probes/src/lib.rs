//! Probe functions: representative invocations of konst's call-site macros. rustc expands them against /repo's
//! current sources on every run; rs2lean translates the expanded functions (translator/targets.txt, group Probes*)
//! and the equivalence theorems tie the expansion text to the Lean models (DESIGN.md section 11, probes).
#![allow(unused, clippy::all)]
use konst::{iter, option, result};

pub const fn it_fold_filter_map(xs: &[u32]) -> u32 {
    iter::eval!(xs, copied(), filter(|x| *x % 2 == 0), map(|x| x / 2), fold(0u32, |a, b| a ^ b))
}
pub const fn it_take_next(xs: &[u32], n: usize) -> Option<u32> {
    iter::eval!(xs, copied(), take(n), next())
}
pub const fn it_skip_count(xs: &[u32], n: usize) -> usize {
    iter::eval!(xs, skip(n), count())
}
pub const fn it_take_rev_next(xs: &[u32]) -> Option<u32> {
    iter::eval!(xs, copied(), take(2), rev(), next())
}
pub const fn it_rev_find(xs: &[u32], k: u32) -> Option<u32> {
    iter::eval!(xs, copied(), rev(), find(|x| *x == k))
}
pub const fn it_position(xs: &[u32], k: u32) -> Option<usize> {
    iter::eval!(xs, copied(), position(|x| x == k))
}
pub const fn it_rposition(xs: &[u32], k: u32) -> Option<usize> {
    iter::eval!(xs, copied(), rposition(|x| x == k))
}
pub const fn it_all(xs: &[u32], k: u32) -> bool {
    iter::eval!(xs, copied(), all(|x| x < k))
}
pub const fn it_any(xs: &[u32], k: u32) -> bool {
    iter::eval!(xs, copied(), any(|x| x == k))
}
pub const fn it_nth(xs: &[u32], n: usize) -> Option<u32> {
    iter::eval!(xs, copied(), nth(n))
}
pub const fn it_take_while_skip_while_count(xs: &[u32], a: u32, b: u32) -> usize {
    iter::eval!(xs, copied(), skip_while(|x| *x < a), take_while(|x| *x < b), count())
}
pub const fn it_enumerate_find_map(xs: &[u32], k: u32) -> Option<usize> {
    iter::eval!(xs, copied(), enumerate(), find_map(|(i, x)| if x == k { Some(i) } else { None }))
}
pub const fn it_filter_map_rfold(xs: &[u32]) -> u32 {
    iter::eval!(xs, copied(), filter_map(|x| if x % 3 == 0 { None } else { Some(x % 7) }), rfold(1u32, |a, b| (a * 3 + b) % 1000))
}
pub const fn it_zip_count(xs: &[u32], ys: &[u32]) -> usize {
    iter::eval!(xs, zip(ys), filter(|(a, b)| **a == **b), count())
}
pub const fn it_flat_map_count(xss: &[&[u32]], k: u32) -> usize {
    iter::eval!(xss, flat_map(|xs| *xs), copied(), filter(|x| *x == k), count())
}
pub const fn it_flatten_nth(xss: &[&[u32]], n: usize) -> Option<u32> {
    iter::eval!(xss, copied(), flatten(), copied(), nth(n))
}
pub const fn it_for_each_sum(xs: &[u32]) -> u32 {
    let mut s = 0u32;
    iter::for_each! {x in xs, copied(), skip(1) =>
        s = s ^ x;
    }
    s
}

pub const fn op_unwrap_or(o: Option<u32>, d: u32) -> u32 { option::unwrap_or!(o, d) }
pub const fn op_unwrap_or_else(o: Option<u32>, d: u32) -> u32 { option::unwrap_or_else!(o, || d + 1) }
pub const fn op_ok_or(o: Option<u32>, e: u8) -> Result<u32, u8> { option::ok_or!(o, e) }
pub const fn op_ok_or_else(o: Option<u32>, e: u8) -> Result<u32, u8> { option::ok_or_else!(o, || e) }
pub const fn op_map(o: Option<u32>) -> Option<u32> { option::map!(o, |x| x / 2) }
pub const fn op_and_then(o: Option<u32>) -> Option<u32> { option::and_then!(o, |x| if x % 2 == 0 { Some(x / 2) } else { None }) }
pub const fn op_or_else(o: Option<u32>, d: u32) -> Option<u32> { option::or_else!(o, || Some(d)) }
pub const fn op_flatten(o: Option<Option<u32>>) -> Option<u32> { option::flatten!(o) }
pub const fn op_filter(o: Option<u32>) -> Option<u32> { option::filter!(o, |x| *x % 2 == 0) }
pub const fn rs_unwrap_or(r: Result<u32, u8>, d: u32) -> u32 { result::unwrap_or!(r, d) }
pub const fn rs_unwrap_or_else(r: Result<u32, u8>) -> u32 { result::unwrap_or_else!(r, |e| e as u32) }
pub const fn rs_ok(r: Result<u32, u8>) -> Option<u32> { result::ok!(r) }
pub const fn rs_err(r: Result<u32, u8>) -> Option<u8> { result::err!(r) }
pub const fn rs_map(r: Result<u32, u8>) -> Result<u32, u8> { result::map!(r, |x| x / 2) }
pub const fn rs_map_err(r: Result<u32, u8>) -> Result<u32, u32> { result::map_err!(r, |e| e as u32) }
pub const fn rs_and_then(r: Result<u32, u8>) -> Result<u32, u8> { result::and_then!(r, |x| if x % 2 == 0 { Ok(x / 2) } else { Err(7) }) }
pub const fn rs_or_else(r: Result<u32, u8>) -> Result<u32, u32> { result::or_else!(r, |e| if e == 0 { Ok(0) } else { Err(e as u32) }) }
pub const fn rs_unwrap_err_or_else(r: Result<u32, u8>) -> u8 { result::unwrap_err_or_else!(r, |x| (x % 256) as u8) }
pub const fn tr_try(r: Result<u32, u8>) -> Result<u32, u8> { let x = konst::try_!(r); Ok(x / 2) }
pub const fn tr_try_opt(o: Option<u32>) -> Option<u32> { let x = konst::try_opt!(o); Some(x / 2) }
pub const fn mm_min(a: u32, b: u32) -> u32 { konst::min!(a, b) }
pub const fn mm_max(a: u32, b: u32) -> u32 { konst::max!(a, b) }
pub const fn mm_min_by_key(a: (u32, u32), b: (u32, u32)) -> (u32, u32) { konst::min_by_key!(a, b, |p| p.0) }
pub const fn mm_max_by_key(a: (u32, u32), b: (u32, u32)) -> (u32, u32) { konst::max_by_key!(a, b, |p| p.0) }

use konst::{parser_method, Parser};
pub const fn pm_strip_prefix(mut p: Parser<'_>) -> (u32, Parser<'_>) {
    let v = parser_method! {p, strip_prefix;
        "ab" | "a" => 0u32,
        "b" => 1,
        _ => 9
    };
    (v, p)
}
pub const fn pm_strip_suffix(mut p: Parser<'_>) -> (u32, Parser<'_>) {
    let v = parser_method! {p, strip_suffix;
        "ab" | "a" => 0u32,
        "b" => 1,
        _ => 9
    };
    (v, p)
}
pub const fn pm_find_skip(mut p: Parser<'_>) -> (u32, Parser<'_>) {
    let v = parser_method! {p, find_skip;
        "ab" | "a" => 0u32,
        "b" => 1,
        _ => 9
    };
    (v, p)
}
pub const fn pm_rfind_skip(mut p: Parser<'_>) -> (u32, Parser<'_>) {
    let v = parser_method! {p, rfind_skip;
        "ab" | "a" => 0u32,
        "b" => 1,
        _ => 9
    };
    (v, p)
}
pub const fn pm_trim_start_matches(mut p: Parser<'_>) -> Parser<'_> {
    parser_method! {p, trim_start_matches; "ab" | "a" | "b\u{e9}" };
    p
}
pub const fn pm_trim_end_matches(mut p: Parser<'_>) -> Parser<'_> {
    parser_method! {p, trim_end_matches; "ab" | "a" | "b\u{e9}" };
    p
}

pub const fn cm_eq_slices(a: &[u8], b: &[u8]) -> bool { konst::const_eq!(a, b) }
pub const fn cm_cmp_u32(a: u32, b: u32) -> core::cmp::Ordering { konst::const_cmp!(a, b) }
pub const fn cm_eq_str(a: &str, b: &str) -> bool { konst::const_eq!(a, b) }
pub const fn cm_eq_opt(a: Option<u8>, b: Option<u8>) -> bool { konst::const_eq_for!(option; a, b) }
pub const fn cm_cmp_slice_for(a: &[u8], b: &[u8]) -> core::cmp::Ordering { konst::const_cmp_for!(slice; a, b) }
pub const fn rb_try_rebind(mut p: Parser<'_>) -> Result<(u8, Parser<'_>), konst::parsing::ParseError<'_>> {
    let x;
    konst::try_rebind! {(x, p) = p.parse_u8()}
    Ok((x, p))
}
pub const fn rb_rebind_if_ok(mut p: Parser<'_>) -> (u8, Parser<'_>) {
    let mut x = 0u8;
    konst::rebind_if_ok! {(x, p) = p.parse_u8()}
    (x, p)
}
pub const fn it_split_count(s: &str) -> usize { iter::eval!(konst::string::split(s, ","), count()) }
pub const fn it_chars_count(s: &str) -> usize { iter::eval!(konst::string::chars(s), filter(|c| *c == 'a'), count()) }

use konst::array;
pub const fn ar_map<const N: usize>(xs: [u32; N]) -> [u32; N] { array::map!(xs, |x| x / 2) }
pub const fn ar_map_ref<const N: usize>(xs: &[u32; N]) -> [bool; N] { array::map!(xs, |x: u32| x % 2 == 0) }
pub const fn ar_from_fn<const N: usize>() -> [usize; N] { array::from_fn!(|i| i * 2) }
pub const fn ar_from_fn_k<const N: usize>(k: usize) -> [usize; N] { array::from_fn!(|i| i + k) }
pub const fn ar_map_by_val<const N: usize>(xs: [u32; N]) -> [u32; N] { array::map_!(xs, |x| x / 2) }
pub const fn ar_from_fn_by_val<const N: usize>() -> [usize; N] { array::from_fn_!(|i| i * 2) }
