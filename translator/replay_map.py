"""
How a counterexample of the Lean-side search (translator/gen_search.py: regenerated vs committed definition) is
replayed on the REAL implementation through konst's public API, against the std counterpart the property names.
Entry:  <Extracted name> : (argument kinds, konst expression, std expression [, skip condition])
Argument kinds: bytes (&[u8]), str (&str; the bytes must be valid UTF-8, otherwise the input is outside every
property's domain and the counterexample is dropped), usize, u32, u8, char, chars (the `this` field of a Chars state).
Both expressions are evaluated under catch_unwind and compared through `{:?}`.
"""

PRELUDE = r'''
#![allow(unused, clippy::all)]
use std::panic::{catch_unwind, AssertUnwindSafe};
fn show<T: std::fmt::Debug>(r: std::thread::Result<T>) -> String { match r { Ok(v) => format!("{:?}", v), Err(_) => "panic".to_string() } }
fn bfind(h: &[u8], n: &[u8]) -> Option<usize> { if n.is_empty() { return Some(0) } if n.len() > h.len() { return None } (0..=h.len() - n.len()).find(|&i| &h[i..i + n.len()] == n) }
fn brfind(h: &[u8], n: &[u8]) -> Option<usize> { if n.len() > h.len() { return None } (0..=h.len() - n.len()).rev().find(|&i| &h[i..i + n.len()] == n) }
fn btsm<'a>(mut h: &'a [u8], n: &[u8]) -> &'a [u8] { if n.is_empty() { return h } while h.starts_with(n) { h = &h[n.len()..] } h }
fn btem<'a>(mut h: &'a [u8], n: &[u8]) -> &'a [u8] { if n.is_empty() { return h } while h.ends_with(n) { h = &h[..h.len() - n.len()] } h }
fn clamp_from(s: &str, i: usize) -> &str { if i >= s.len() { "" } else { &s[i..] } }
fn clamp_up_to(s: &str, i: usize) -> &str { if i >= s.len() { s } else { &s[..i] } }
fn clamp_range(s: &str, a: usize, b: usize) -> &str { let e = clamp_up_to(s, b); if a >= e.len() { "" } else { &e[a..] } }
'''

B = "bytes"; S = "str"; U = "usize"

REPLAY = {
    # ---- byte-slice search / strip / trim (C04, C05): internal function -> public wrapper
    "bytes_find": ([B, B], "konst::slice::bytes_find(a0, a1)", "bfind(a0, a1)"),
    "bytes_rfind": ([B, B], "konst::slice::bytes_rfind(a0, a1)", "brfind(a0, a1)", "a1.is_empty()"),
    "bytes_contain": ([B, B], "konst::slice::bytes_contain(a0, a1)", "bfind(a0, a1).is_some()"),
    "bytes_rcontain": ([B, B], "konst::slice::bytes_rcontain(a0, a1)", "brfind(a0, a1).is_some()", "a1.is_empty()"),
    "bytes_start_with": ([B, B], "konst::slice::bytes_start_with(a0, a1)", "a0.starts_with(a1)"),
    "bytes_end_with": ([B, B], "konst::slice::bytes_end_with(a0, a1)", "a0.ends_with(a1)"),
    "bytes_strip_prefix": ([B, B], "konst::slice::bytes_strip_prefix(a0, a1)", "a0.strip_prefix(a1)"),
    "bytes_strip_suffix": ([B, B], "konst::slice::bytes_strip_suffix(a0, a1)", "a0.strip_suffix(a1)"),
    "bytes_trim": ([B], "konst::slice::bytes_trim(a0)", "a0.trim_ascii()"),
    "bytes_trim_start": ([B], "konst::slice::bytes_trim_start(a0)", "a0.trim_ascii_start()"),
    "bytes_trim_end": ([B], "konst::slice::bytes_trim_end(a0)", "a0.trim_ascii_end()"),
    "bytes_trim_start_matches": ([B, B], "konst::slice::bytes_trim_start_matches(a0, a1)", "btsm(a0, a1)"),
    "bytes_trim_end_matches": ([B, B], "konst::slice::bytes_trim_end_matches(a0, a1)", "btem(a0, a1)"),
    "bytes_trim_matches": ([B, B], "konst::slice::bytes_trim_matches(a0, a1)", "btem(btsm(a0, a1), a1)"),
    "bytes_find_skip": ([B, B], "konst::slice::bytes_find_skip(a0, a1)", "bfind(a0, a1).map(|i| &a0[i + a1.len()..])"),
    "bytes_find_keep": ([B, B], "konst::slice::bytes_find_keep(a0, a1)", "bfind(a0, a1).map(|i| &a0[i..])"),
    "bytes_rfind_skip": ([B, B], "konst::slice::bytes_rfind_skip(a0, a1)", "brfind(a0, a1).map(|i| &a0[..i])", "a1.is_empty()"),
    "bytes_rfind_keep": ([B, B], "konst::slice::bytes_rfind_keep(a0, a1)", "brfind(a0, a1).map(|i| &a0[..i + a1.len()])", "a1.is_empty()"),
    # ---- konst::string (C03, C04, C05)
    "str_find": ([S, S], "konst::string::find(a0, a1)", "a0.find(a1)"),
    "str_rfind": ([S, S], "konst::string::rfind(a0, a1)", "a0.rfind(a1)", "a1.is_empty()"),
    "str_contains": ([S, S], "konst::string::contains(a0, a1)", "a0.contains(a1)"),
    "str_rcontains": ([S, S], "konst::string::rcontains(a0, a1)", "a0.contains(a1)", "a1.is_empty()"),
    "str_starts_with": ([S, S], "konst::string::starts_with(a0, a1)", "a0.starts_with(a1)"),
    "str_ends_with": ([S, S], "konst::string::ends_with(a0, a1)", "a0.ends_with(a1)"),
    "str_strip_prefix": ([S, S], "konst::string::strip_prefix(a0, a1)", "a0.strip_prefix(a1)"),
    "str_strip_suffix": ([S, S], "konst::string::strip_suffix(a0, a1)", "a0.strip_suffix(a1)"),
    "str_trim": ([S], "konst::string::trim(a0)", "a0.trim_ascii()"),
    "str_trim_start": ([S], "konst::string::trim_start(a0)", "a0.trim_ascii_start()"),
    "str_trim_end": ([S], "konst::string::trim_end(a0)", "a0.trim_ascii_end()"),
    "str_trim_start_matches": ([S, S], "konst::string::trim_start_matches(a0, a1)", "a0.trim_start_matches(a1)", "a1.is_empty()"),
    "str_trim_end_matches": ([S, S], "konst::string::trim_end_matches(a0, a1)", "a0.trim_end_matches(a1)", "a1.is_empty()"),
    "str_trim_matches": ([S, S], "konst::string::trim_matches(a0, a1)", "a0.trim_start_matches(a1).trim_end_matches(a1)", "a1.is_empty()"),
    "str_find_skip": ([S, S], "konst::string::find_skip(a0, a1)", "a0.find(a1).map(|i| &a0[i + a1.len()..])"),
    "str_find_keep": ([S, S], "konst::string::find_keep(a0, a1)", "a0.find(a1).map(|i| &a0[i..])"),
    "str_rfind_skip": ([S, S], "konst::string::rfind_skip(a0, a1)", "a0.rfind(a1).map(|i| &a0[..i])", "a1.is_empty()"),
    "str_rfind_keep": ([S, S], "konst::string::rfind_keep(a0, a1)", "a0.rfind(a1).map(|i| &a0[..i + a1.len()])", "a1.is_empty()"),
    "str_split_once": ([S, S], "konst::string::split_once(a0, a1)", "a0.split_once(a1)", "a1.is_empty()"),
    "str_rsplit_once": ([S, S], "konst::string::rsplit_once(a0, a1)", "a0.rsplit_once(a1)", "a1.is_empty()"),
    "str_get_up_to": ([S, U], "konst::string::get_up_to(a0, a1)", "a0.get(..a1)"),
    "str_get_from": ([S, U], "konst::string::get_from(a0, a1)", "a0.get(a1..)"),
    "str_get_range": ([S, U, U], "konst::string::get_range(a0, a1, a2)", "a0.get(a1..a2)"),
    "str_split_at": ([S, U], "konst::string::split_at(a0, a1)", "(clamp_up_to(a0, a1), clamp_from(a0, a1))"),
    "is_char_boundary_bytes": ([S, U], "konst::string::is_char_boundary(a0, a1)", "a0.is_char_boundary(a1)"),
    "str_up_to": ([S, U], "konst::string::str_up_to(a0, a1)", "clamp_up_to(a0, a1)"),
    "str_from": ([S, U], "konst::string::str_from(a0, a1)", "clamp_from(a0, a1)"),
    "str_range": ([S, U, U], "konst::string::str_range(a0, a1, a2)", "clamp_range(a0, a1, a2)", "a1 > a2"),
    # ---- chars (C07)
    "from_u32": (["u32"], "konst::chr::from_u32(a0)", "char::from_u32(a0)"),
    "encode_utf8": (["char"], "konst::chr::encode_utf8(a0).as_str().as_bytes().to_vec()", "{ let mut b = [0u8; 4]; a0.encode_utf8(&mut b).as_bytes().to_vec() }"),
    "Chars.next": (["chars"], "konst::string::chars(a0).next().map(|(c, it)| (c, it.as_str().to_string()))",
                   "{ let mut it = a0.chars(); it.next().map(|c| (c, it.as_str().to_string())) }"),
    "Chars.next_back": (["chars"], "konst::string::chars(a0).next_back().map(|(c, it)| (c, it.as_str().to_string()))",
                        "{ let mut it = a0.chars(); it.next_back().map(|c| (c, it.as_str().to_string())) }"),
    "RChars.next": (["chars"], "konst::string::chars(a0).rev().next().map(|(c, it)| (c, it.rev().as_str().to_string()))",
                    "{ let mut it = a0.chars(); it.next_back().map(|c| (c, it.as_str().to_string())) }"),
    "RChars.next_back": (["chars"], "konst::string::chars(a0).rev().next_back().map(|(c, it)| (c, it.rev().as_str().to_string()))",
                         "{ let mut it = a0.chars(); it.next().map(|c| (c, it.as_str().to_string())) }"),
    # ---- comparisons (C16)
    "eq_bytes": ([B, B], "konst::slice::eq_bytes(a0, a1)", "a0 == a1"),
    "cmp_bytes": ([B, B], "konst::slice::cmp_bytes(a0, a1)", "a0.cmp(a1)"),
    "eq_str": ([S, S], "konst::string::eq_str(a0, a1)", "a0 == a1"),
    "cmp_str": ([S, S], "konst::string::cmp_str(a0, a1)", "a0.cmp(a1)"),
    # ---- slices (C02), element type u8
    "get": ([B, U], "konst::slice::get(a0, a1)", "a0.get(a1)"),
    "get_from": ([B, U], "konst::slice::get_from(a0, a1)", "a0.get(a1..)"),
    "get_up_to": ([B, U], "konst::slice::get_up_to(a0, a1)", "a0.get(..a1)"),
    "get_range": ([B, U, U], "konst::slice::get_range(a0, a1, a2)", "a0.get(a1..a2)"),
    "split_at": ([B, U], "konst::slice::split_at(a0, a1)", "if a1 <= a0.len() { a0.split_at(a1) } else { (a0, &a0[..0]) }"),
    "slice_from": ([B, U], "konst::slice::slice_from(a0, a1)", "if a1 <= a0.len() { &a0[a1..] } else { &a0[..0] }"),
    "slice_up_to": ([B, U], "konst::slice::slice_up_to(a0, a1)", "if a1 <= a0.len() { &a0[..a1] } else { a0 }"),
    # ---- whole-string parsing (C12): a leading '+' is outside the property
    **{f"prim_parse_{t}": ([S], f"konst::primitive::parse_{t}(a0).ok()", f"a0.parse::<{t}>().ok()", "a0.starts_with('+')")
       for t in ("u8", "i8", "u32", "i64", "u128", "i128", "usize", "bool")},
    # ---- CStr (C20)
    "cstr_from_bytes_until_nul": ([B], "konst::ffi::cstr::from_bytes_until_nul(a0).ok().map(|c| c.to_bytes_with_nul().to_vec())",
                                  "std::ffi::CStr::from_bytes_until_nul(a0).ok().map(|c| c.to_bytes_with_nul().to_vec())"),
    "cstr_from_bytes_with_nul": ([B], "konst::ffi::cstr::from_bytes_with_nul(a0).ok().map(|c| c.to_bytes_with_nul().to_vec())",
                                 "std::ffi::CStr::from_bytes_with_nul(a0).ok().map(|c| c.to_bytes_with_nul().to_vec())"),
}
