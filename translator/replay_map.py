"""
How a counterexample of the Lean-side search (translator/gen_search.py: regenerated vs committed definition) is
replayed on the REAL implementation through konst's public API, against the std counterpart the property names.
Entry:  <Extracted name> : (argument kinds, konst expression, std expression [, skip condition])
Argument kinds: bytes (&[u8]), str (&str; the bytes must be valid UTF-8, otherwise the input is outside every
property's domain and the counterexample is dropped), usize, u32, u8, char, chars (the `this` field of a Chars state);
built from the Lean repr by vlib/xsearch.py (`STRUCTURED`, `parser_binding`):
  opt_u32 / opt_u8 / opt_opt_u32 (`none`, `some n`, `some (some n)` -> Option<…>), res_u32_u8 (`Except.ok n` /
  `Except.error e` -> Result<u32, u8>), u32s (`[1, 2]` -> &[u32]), u32ss (`[[1], []]` -> &[&[u32]]), pair_u32
  (`(1, 2)` -> (u32, u32)), arr_u32 / arr_ref_u32 (a list of exactly N elements -> [u32; N] / &[u32; N]; the const
  generics of the counterexample, `N=3`, are `const N: usize = 3;` in the block), parser (the repr of an
  `Extracted.Parser` structure -> `a<i> = Parser::with_start_offset(a<i>_s, a<i>_off)`; dropped unless the direction
  and the split flag are the ones that constructor sets, the bytes are UTF-8 and start_offset + len < 2^32).
Both expressions are evaluated under catch_unwind and compared through `{:?}`.

PROBE FUNCTIONS (groups Probes*, translator/probes/src/lib.rs).  The replay program is compiled against /repo's
konst only (the probe crate is not linked), so the konst expression of a probe is the MACRO INVOCATION of the probe's
body, textually (parameter names replaced by a0, a1, …), and the std expression is the std chain / method the
`_std` / `_eq` theorem of lean/KonstVerif/Extracted/Equiv/Probes*.lean states.  A probe fixes its closures and
literals: a change of a macro that only shows with other closures changes the regenerated text (the theorem breaks)
but has no counterexample here.
"""

PRELUDE = r'''
#![allow(unused, clippy::all)]
use std::panic::{catch_unwind, AssertUnwindSafe};
fn show<T: std::fmt::Debug>(r: std::thread::Result<T>) -> String { match r { Ok(v) => format!("{:?}", v), Err(_) => "panic".to_string() } }
fn bfind(h: &[u8], n: &[u8]) -> Option<usize> { if n.is_empty() { return Some(0) } if n.len() > h.len() { return None } (0..=h.len() - n.len()).find(|&i| &h[i..i + n.len()] == n) }
fn brfind(h: &[u8], n: &[u8]) -> Option<usize> { if n.len() > h.len() { return None } (0..=h.len() - n.len()).rev().find(|&i| &h[i..i + n.len()] == n) }
fn btsm<'a>(mut h: &'a [u8], n: &[u8]) -> &'a [u8] { if n.is_empty() { return h } while h.starts_with(n) { h = &h[n.len()..] } h }
fn btem<'a>(mut h: &'a [u8], n: &[u8]) -> &'a [u8] { if n.is_empty() { return h } while h.ends_with(n) { h = &h[..h.len() - n.len()] } h }
fn clamp_from(s: &str, i: usize) -> &str { if i >= s.len() { "" } else { &s[i..] } }
fn clamp_up_to(s: &str, i: usize) -> &str { if i >= s.len() { s } else { &s[..i] } }
fn clamp_range(s: &str, a: usize, b: usize) -> &str { let e = clamp_up_to(s, b); if a >= e.len() { "" } else { &e[a..] } }
// ---- std side of the parser_method! probes: str functions on the remainder; (value, remainder, start_offset, direction).
// match-like forms: first listed alternative at the earliest (find) / latest-ending (rfind) position; default 9 leaves
// the parser as it is (direction of Parser::with_start_offset = FromStart)
use konst::parsing::{ParseDirection as PD, ErrorKind as EK};
const PM_ARMS: [(&str, u32); 3] = [("ab", 0), ("a", 0), ("b", 1)];
const PM_TRIM: [&str; 3] = ["ab", "a", "b\u{e9}"];
fn pm_strip_prefix_std(s: &str, off: usize) -> (u32, &str, usize, PD) {
    for (l, v) in PM_ARMS { if let Some(r) = s.strip_prefix(l) { return (v, r, off + l.len(), PD::FromStart) } }
    (9, s, off, PD::FromStart) }
fn pm_strip_suffix_std(s: &str, off: usize) -> (u32, &str, usize, PD) {
    for (l, v) in PM_ARMS { if let Some(r) = s.strip_suffix(l) { return (v, r, off, PD::FromEnd) } }
    (9, s, off, PD::FromStart) }
fn pm_find_skip_std(s: &str, off: usize) -> (u32, &str, usize, PD) {
    for p in 0..=s.len() { if !s.is_char_boundary(p) { continue }
        for (l, v) in PM_ARMS { if s[p..].starts_with(l) { let e = p + l.len(); return (v, &s[e..], off + e, PD::FromStart) } } }
    (9, s, off, PD::FromStart) }
fn pm_rfind_skip_std(s: &str, off: usize) -> (u32, &str, usize, PD) {
    for e in (0..=s.len()).rev() { if !s.is_char_boundary(e) { continue }
        for (l, v) in PM_ARMS { if s[..e].ends_with(l) { return (v, &s[..e - l.len()], off, PD::FromEnd) } } }
    (9, s, off, PD::FromStart) }
fn pm_trim_start_std(mut s: &str, mut off: usize) -> (&str, usize, PD) {
    'o: loop { for l in PM_TRIM { if let Some(r) = s.strip_prefix(l) { off += l.len(); s = r; continue 'o } } break }
    (s, off, PD::FromStart) }
fn pm_trim_end_std(mut s: &str, off: usize) -> (&str, usize, PD) {
    'o: loop { for l in PM_TRIM { if let Some(r) = s.strip_suffix(l) { s = r; continue 'o } } break }
    (s, off, PD::FromEnd) }
// ---- Parser methods (groups Parser, ParseInt, ParseInt2): what is observable of the result through the public getters
type PErr = (usize, PD, EK);
fn pshow1<'a>(p: konst::Parser<'a>) -> (&'a str, usize, PD) { (p.remainder(), p.start_offset(), p.parse_direction()) }
fn pshow<'a>(r: Result<konst::Parser<'a>, konst::parsing::ParseError<'a>>) -> Result<(&'a str, usize, PD), PErr> {
    r.map(pshow1).map_err(|e| (e.offset(), e.error_direction(), e.kind())) }
fn pshow2<'a>(r: Result<(&'a str, konst::Parser<'a>), konst::parsing::ParseError<'a>>) -> Result<(&'a str, &'a str, usize, PD), PErr> {
    r.map(|(x, p)| (x, p.remainder(), p.start_offset(), p.parse_direction())).map_err(|e| (e.offset(), e.error_direction(), e.kind())) }
fn pshowv<'a, T>(r: Result<(T, konst::Parser<'a>), konst::parsing::ParseError<'a>>) -> Result<(T, &'a str, usize, PD), PErr> {
    r.map(|(x, p)| (x, p.remainder(), p.start_offset(), p.parse_direction())).map_err(|e| (e.offset(), e.error_direction(), e.kind())) }
// integer prefix by std: optional '-' (signed types), then the longest run of ascii digits, through str::parse
fn parse_int_std<T: std::str::FromStr>(s: &str, off: usize, signed: bool) -> Result<(T, &str, usize, PD), PErr> {
    let b = s.as_bytes(); let mut n = 0; if signed && b.first() == Some(&b'-') { n = 1 }
    while n < b.len() && b[n].is_ascii_digit() { n += 1 }
    match s[..n].parse::<T>() { Ok(v) => Ok((v, &s[n..], off + n, PD::FromStart)), Err(_) => Err((off, PD::FromStart, EK::ParseInteger)) } }
fn parse_bool_std(s: &str, off: usize) -> Result<(bool, &str, usize, PD), PErr> {
    if let Some(r) = s.strip_prefix("true") { Ok((true, r, off + 4, PD::FromStart)) }
    else if let Some(r) = s.strip_prefix("false") { Ok((false, r, off + 5, PD::FromStart)) }
    else { Err((off, PD::FromStart, EK::ParseBool)) } }
// Parser::parse_u8 by std: the longest prefix of ascii digits through str::parse
fn parse_u8_std(s: &str, off: usize) -> Result<(u8, &str, usize), EK> {
    let n = s.bytes().take_while(|b| b.is_ascii_digit()).count();
    match s[..n].parse::<u8>() { Ok(v) => Ok((v, &s[n..], off + n)), Err(_) => Err(EK::ParseInteger) } }
'''

B = "bytes"; S = "str"; U = "usize"
L = "u32s"; LL = "u32ss"; O = "opt_u32"; R = "res_u32_u8"; P = "parser"; W = "u32"

# the alternatives of the parser_method! probes, as written in translator/probes/src/lib.rs
_PM_MATCH = '"ab" | "a" => 0u32, "b" => 1, _ => 9'
_PM_TRIM = r'"ab" | "a" | "b\u{e9}"'


def _pm_match(method):
    return ([P], "{ let mut p = a0; let v = konst::parser_method!{p, " + method + "; " + _PM_MATCH + " }; "
            "(v, p.remainder(), p.start_offset(), p.parse_direction()) }", f"pm_{method}_std(a0_s, a0_off)")


def _pm_trim(method, std):
    return ([P], "{ let mut p = a0; konst::parser_method!{p, " + method + "; " + _PM_TRIM + " }; "
            "(p.remainder(), p.start_offset(), p.parse_direction()) }", f"{std}(a0_s, a0_off)")


PROBES = {
    # ---- ProbesIter (C10): iter::eval! / for_each! chains over &[u32] with the probe's closures
    "it_fold_filter_map": ([L], "konst::iter::eval!(a0, copied(), filter(|x| *x % 2 == 0), map(|x| x / 2), fold(0u32, |a, b| a ^ b))",
                           "a0.iter().copied().filter(|x| *x % 2 == 0).map(|x| x / 2).fold(0u32, |a, b| a ^ b)"),
    "it_take_next": ([L, U], "konst::iter::eval!(a0, copied(), take(a1), next())", "a0.iter().copied().take(a1).next()"),
    "it_skip_count": ([L, U], "konst::iter::eval!(a0, skip(a1), count())", "a0.iter().skip(a1).count()"),
    # known finding F7 (take before a reversal acts on the reversed stream): only the region where both agree
    "it_take_rev_next": ([L], "konst::iter::eval!(a0, copied(), take(2), rev(), next())", "a0.iter().copied().take(2).rev().next()",
                         "a0.len() > 2"),
    "it_rev_find": ([L, W], "konst::iter::eval!(a0, copied(), rev(), find(|x| *x == a1))", "a0.iter().copied().rev().find(|x| *x == a1)"),
    "it_position": ([L, W], "konst::iter::eval!(a0, copied(), position(|x| x == a1))", "a0.iter().copied().position(|x| x == a1)"),
    # konst's rposition counts from the back (documented): std's position on the reversed iterator
    "it_rposition": ([L, W], "konst::iter::eval!(a0, copied(), rposition(|x| x == a1))", "a0.iter().copied().rev().position(|x| x == a1)"),
    "it_all": ([L, W], "konst::iter::eval!(a0, copied(), all(|x| x < a1))", "a0.iter().copied().all(|x| x < a1)"),
    "it_any": ([L, W], "konst::iter::eval!(a0, copied(), any(|x| x == a1))", "a0.iter().copied().any(|x| x == a1)"),
    "it_nth": ([L, U], "konst::iter::eval!(a0, copied(), nth(a1))", "a0.iter().copied().nth(a1)"),
    "it_take_while_skip_while_count": ([L, W, W], "konst::iter::eval!(a0, copied(), skip_while(|x| *x < a1), take_while(|x| *x < a2), count())",
                                       "a0.iter().copied().skip_while(|x| *x < a1).take_while(|x| *x < a2).count()"),
    "it_enumerate_find_map": ([L, W], "konst::iter::eval!(a0, copied(), enumerate(), find_map(|(i, x)| if x == a1 { Some(i) } else { None }))",
                              "a0.iter().copied().enumerate().find_map(|(i, x)| if x == a1 { Some(i) } else { None })"),
    "it_filter_map_rfold": ([L], "konst::iter::eval!(a0, copied(), filter_map(|x| if x % 3 == 0 { None } else { Some(x % 7) }), rfold(1u32, |a, b| (a * 3 + b) % 1000))",
                            "a0.iter().copied().filter_map(|x| if x % 3 == 0 { None } else { Some(x % 7) }).rfold(1u32, |a, b| (a * 3 + b) % 1000)"),
    "it_flat_map_count": ([LL, W], "konst::iter::eval!(a0, flat_map(|xs| *xs), copied(), filter(|x| *x == a1), count())",
                          "a0.iter().flat_map(|xs| *xs).copied().filter(|x| *x == a1).count()"),
    "it_flatten_nth": ([LL, U], "konst::iter::eval!(a0, copied(), flatten(), copied(), nth(a1))", "a0.iter().copied().flatten().copied().nth(a1)"),
    "it_for_each_sum": ([L], "{ let mut s = 0u32; konst::iter::for_each!{x in a0, copied(), skip(1) => s = s ^ x; } s }",
                        "{ let mut s = 0u32; for x in a0.iter().copied().skip(1) { s = s ^ x; } s }"),
    # ---- ProbesOpt (C19): option / result / try macros
    "op_unwrap_or": ([O, W], "konst::option::unwrap_or!(a0, a1)", "a0.unwrap_or(a1)"),
    "op_unwrap_or_else": ([O, W], "konst::option::unwrap_or_else!(a0, || a1 + 1)", "a0.unwrap_or_else(|| a1 + 1)"),
    "op_ok_or": ([O, "u8"], "{ let r: Result<u32, u8> = konst::option::ok_or!(a0, a1); r }", "a0.ok_or(a1)"),
    "op_ok_or_else": ([O, "u8"], "{ let r: Result<u32, u8> = konst::option::ok_or_else!(a0, || a1); r }", "a0.ok_or_else(|| a1)"),
    "op_map": ([O], "konst::option::map!(a0, |x| x / 2)", "a0.map(|x| x / 2)"),
    "op_and_then": ([O], "konst::option::and_then!(a0, |x| if x % 2 == 0 { Some(x / 2) } else { None })",
                    "a0.and_then(|x| if x % 2 == 0 { Some(x / 2) } else { None })"),
    "op_or_else": ([O, W], "konst::option::or_else!(a0, || Some(a1))", "a0.or_else(|| Some(a1))"),
    "op_flatten": (["opt_opt_u32"], "konst::option::flatten!(a0)", "a0.flatten()"),
    "op_filter": ([O], "konst::option::filter!(a0, |x| *x % 2 == 0)", "a0.filter(|x| *x % 2 == 0)"),
    "rs_unwrap_or": ([R, W], "konst::result::unwrap_or!(a0, a1)", "a0.unwrap_or(a1)"),
    "rs_unwrap_or_else": ([R], "konst::result::unwrap_or_else!(a0, |e| e as u32)", "a0.unwrap_or_else(|e| e as u32)"),
    "rs_ok": ([R], "konst::result::ok!(a0)", "a0.ok()"),
    "rs_err": ([R], "konst::result::err!(a0)", "a0.err()"),
    "rs_map": ([R], "konst::result::map!(a0, |x| x / 2)", "a0.map(|x| x / 2)"),
    "rs_map_err": ([R], "konst::result::map_err!(a0, |e| e as u32)", "a0.map_err(|e| e as u32)"),
    "rs_and_then": ([R], "konst::result::and_then!(a0, |x| if x % 2 == 0 { Ok(x / 2) } else { Err(7) })",
                    "a0.and_then(|x| if x % 2 == 0 { Ok(x / 2) } else { Err(7) })"),
    "rs_or_else": ([R], "{ let r: Result<u32, u32> = konst::result::or_else!(a0, |e| if e == 0 { Ok(0) } else { Err(e as u32) }); r }",
                   "a0.or_else(|e| if e == 0 { Ok(0) } else { Err(e as u32) })"),
    # std has no Result::unwrap_err_or_else: the documented meaning (the error, or the closure on the Ok value)
    "rs_unwrap_err_or_else": ([R], "konst::result::unwrap_err_or_else!(a0, |x| (x % 256) as u8)",
                              "match a0 { Err(e) => e, Ok(x) => (|x: u32| (x % 256) as u8)(x) }"),
    "tr_try": ([R], "(|| -> Result<u32, u8> { let x = konst::try_!(a0); Ok(x / 2) })()", "(|| -> Result<u32, u8> { let x = a0?; Ok(x / 2) })()"),
    "tr_try_opt": ([O], "(|| -> Option<u32> { let x = konst::try_opt!(a0); Some(x / 2) })()", "(|| -> Option<u32> { let x = a0?; Some(x / 2) })()"),
    # ---- ProbesPm (C18): parser_method! against str functions on the remainder
    "pm_strip_prefix": _pm_match("strip_prefix"),
    "pm_strip_suffix": _pm_match("strip_suffix"),
    "pm_find_skip": _pm_match("find_skip"),
    "pm_rfind_skip": _pm_match("rfind_skip"),
    "pm_trim_start_matches": _pm_trim("trim_start_matches", "pm_trim_start_std"),
    "pm_trim_end_matches": _pm_trim("trim_end_matches", "pm_trim_end_std"),
    # ---- ProbesMisc (C16, C19, C10): comparison / min-max / rebind macros, eval! over string iterators
    "mm_min": ([W, W], "konst::min!(a0, a1)", "std::cmp::min(a0, a1)"),
    "mm_max": ([W, W], "konst::max!(a0, a1)", "std::cmp::max(a0, a1)"),
    "mm_min_by_key": (["pair_u32", "pair_u32"], "konst::min_by_key!(a0, a1, |p| p.0)", "std::cmp::min_by_key(a0, a1, |p| p.0)"),
    "mm_max_by_key": (["pair_u32", "pair_u32"], "konst::max_by_key!(a0, a1, |p| p.0)", "std::cmp::max_by_key(a0, a1, |p| p.0)"),
    "cm_eq_slices": ([B, B], "konst::const_eq!(a0, a1)", "a0 == a1"),
    "cm_cmp_u32": ([W, W], "konst::const_cmp!(a0, a1)", "a0.cmp(&a1)"),
    "cm_eq_str": ([S, S], "konst::const_eq!(a0, a1)", "a0 == a1"),
    "cm_eq_opt": (["opt_u8", "opt_u8"], "konst::const_eq_for!(option; a0, a1)", "a0 == a1"),
    "cm_cmp_slice_for": ([B, B], "konst::const_cmp_for!(slice; a0, a1)", "a0.cmp(a1)"),
    "rb_try_rebind": ([P], "(|| { let mut p = a0; let x; konst::try_rebind!{(x, p) = p.parse_u8()} "
                           "Ok::<_, konst::parsing::ParseError<'_>>((x, p.remainder(), p.start_offset())) })().map_err(|e| e.kind())",
                      "parse_u8_std(a0_s, a0_off)"),
    "rb_rebind_if_ok": ([P], "{ let mut p = a0; let mut x = 0u8; konst::rebind_if_ok!{(x, p) = p.parse_u8()} (x, p.remainder(), p.start_offset()) }",
                        "match parse_u8_std(a0_s, a0_off) { Ok(t) => t, Err(_) => (0u8, a0_s, a0_off) }"),
    "it_split_count": ([S], 'konst::iter::eval!(konst::string::split(a0, ","), count())', 'a0.split(",").count()'),
    "it_chars_count": ([S], "konst::iter::eval!(konst::string::chars(a0), filter(|c| *c == 'a'), count())", "a0.chars().filter(|c| *c == 'a').count()"),
    # the library functions the comparison probes call (group ProbesMisc)
    "cmp_u32": ([W, W], "konst::primitive::cmp::cmp_u32(a0, a1)", "a0.cmp(&a1)"),
    "CmpWrapper_u8.const_eq": (["u8", "u8"], "konst::cmp::CmpWrapper(a0).const_eq(&a1)", "a0 == a1"),
    "CmpWrapper_u8.const_cmp": (["u8", "u8"], "konst::cmp::CmpWrapper(a0).const_cmp(&a1)", "a0.cmp(&a1)"),
    "CmpWrapper_u32.const_eq": ([W, W], "konst::cmp::CmpWrapper(a0).const_eq(&a1)", "a0 == a1"),
    "CmpWrapper_u32.const_cmp": ([W, W], "konst::cmp::CmpWrapper(a0).const_cmp(&a1)", "a0.cmp(&a1)"),
    "CmpWrapper_bytes.const_eq": ([B, B], "konst::cmp::CmpWrapper(a0).const_eq(&a1)", "a0 == a1"),
    "CmpWrapper_bytes.const_cmp": ([B, B], "konst::cmp::CmpWrapper(a0).const_cmp(&a1)", "a0.cmp(a1)"),
    "CmpWrapper_str.const_eq": ([S, S], "konst::cmp::CmpWrapper(a0).const_eq(a1)", "a0 == a1"),
    "CmpWrapper_str.const_cmp": ([S, S], "konst::cmp::CmpWrapper(a0).const_cmp(a1)", "a0.cmp(a1)"),
    # ---- ProbesArr (C11): array macros; `N` is the const generic of the counterexample
    "ar_map": (["arr_u32"], "konst::array::map!(a0, |x| x / 2)", "a0.map(|x| x / 2)"),
    "ar_map_ref": (["arr_ref_u32"], "konst::array::map!(a0, |x: u32| x % 2 == 0)", "a0.map(|x: u32| x % 2 == 0)"),
    "ar_from_fn": ([], "{ let r: [usize; N] = konst::array::from_fn!(|i| i * 2); r }", "std::array::from_fn::<usize, N, _>(|i| i * 2)"),
    "ar_from_fn_k": ([U], "{ let r: [usize; N] = konst::array::from_fn!(|i| i + a0); r }", "std::array::from_fn::<usize, N, _>(|i| i + a0)"),
    "ar_map_by_val": (["arr_u32"], "konst::array::map_!(a0, |x| x / 2)", "a0.map(|x| x / 2)"),
    "ar_from_fn_by_val": ([], "{ let r: [usize; N] = konst::array::from_fn_!(|i| i * 2); r }", "std::array::from_fn::<usize, N, _>(|i| i * 2)"),
}


REPLAY = {
    # ---- byte-slice search / strip / trim (C04, C05): internal function -> public wrapper
    "bytes_find": ([B, B], "konst::slice::bytes_find(a0, a1)", "bfind(a0, a1)"),
    "bytes_rfind": ([B, B], "konst::slice::bytes_rfind(a0, a1)", "brfind(a0, a1)", "a1.is_empty()"),
    "bytes_contain": ([B, B], "konst::slice::bytes_contain(a0, a1)", "bfind(a0, a1).is_some()"),
    "bytes_rcontain": ([B, B], "konst::slice::bytes_rcontain(a0, a1)", "brfind(a0, a1).is_some()", "a1.is_empty()"),
    "bytes_start_with": ([B, B], "konst::slice::bytes_start_with(a0, a1)", "a0.starts_with(a1)"),
    "bytes_end_with": ([B, B], "konst::slice::bytes_end_with(a0, a1)", "a0.ends_with(a1)"),
    "bytes_strip_prefix": ([B, B], "konst::slice::bytes_strip_prefix(a0, a1)", "a0.strip_prefix(a1)"),
    "bytes_strip_suffix": ([B, B], "konst::slice::bytes_strip_suffix(a0, a1)", "a0.strip_suffix(a1)"),
    "bytes_trim": ([B], "konst::slice::bytes_trim(a0)", "a0.trim_ascii()"),
    "bytes_trim_start": ([B], "konst::slice::bytes_trim_start(a0)", "a0.trim_ascii_start()"),
    "bytes_trim_end": ([B], "konst::slice::bytes_trim_end(a0)", "a0.trim_ascii_end()"),
    "bytes_trim_start_matches": ([B, B], "konst::slice::bytes_trim_start_matches(a0, a1)", "btsm(a0, a1)"),
    "bytes_trim_end_matches": ([B, B], "konst::slice::bytes_trim_end_matches(a0, a1)", "btem(a0, a1)"),
    "bytes_trim_matches": ([B, B], "konst::slice::bytes_trim_matches(a0, a1)", "btem(btsm(a0, a1), a1)"),
    "bytes_find_skip": ([B, B], "konst::slice::bytes_find_skip(a0, a1)", "bfind(a0, a1).map(|i| &a0[i + a1.len()..])"),
    "bytes_find_keep": ([B, B], "konst::slice::bytes_find_keep(a0, a1)", "bfind(a0, a1).map(|i| &a0[i..])"),
    "bytes_rfind_skip": ([B, B], "konst::slice::bytes_rfind_skip(a0, a1)", "brfind(a0, a1).map(|i| &a0[..i])", "a1.is_empty()"),
    "bytes_rfind_keep": ([B, B], "konst::slice::bytes_rfind_keep(a0, a1)", "brfind(a0, a1).map(|i| &a0[..i + a1.len()])", "a1.is_empty()"),
    # ---- konst::string (C03, C04, C05)
    "str_find": ([S, S], "konst::string::find(a0, a1)", "a0.find(a1)"),
    "str_rfind": ([S, S], "konst::string::rfind(a0, a1)", "a0.rfind(a1)", "a1.is_empty()"),
    "str_contains": ([S, S], "konst::string::contains(a0, a1)", "a0.contains(a1)"),
    "str_rcontains": ([S, S], "konst::string::rcontains(a0, a1)", "a0.contains(a1)", "a1.is_empty()"),
    "str_starts_with": ([S, S], "konst::string::starts_with(a0, a1)", "a0.starts_with(a1)"),
    "str_ends_with": ([S, S], "konst::string::ends_with(a0, a1)", "a0.ends_with(a1)"),
    "str_strip_prefix": ([S, S], "konst::string::strip_prefix(a0, a1)", "a0.strip_prefix(a1)"),
    "str_strip_suffix": ([S, S], "konst::string::strip_suffix(a0, a1)", "a0.strip_suffix(a1)"),
    "str_trim": ([S], "konst::string::trim(a0)", "a0.trim_ascii()"),
    "str_trim_start": ([S], "konst::string::trim_start(a0)", "a0.trim_ascii_start()"),
    "str_trim_end": ([S], "konst::string::trim_end(a0)", "a0.trim_ascii_end()"),
    "str_trim_start_matches": ([S, S], "konst::string::trim_start_matches(a0, a1)", "a0.trim_start_matches(a1)", "a1.is_empty()"),
    "str_trim_end_matches": ([S, S], "konst::string::trim_end_matches(a0, a1)", "a0.trim_end_matches(a1)", "a1.is_empty()"),
    "str_trim_matches": ([S, S], "konst::string::trim_matches(a0, a1)", "a0.trim_start_matches(a1).trim_end_matches(a1)", "a1.is_empty()"),
    "str_find_skip": ([S, S], "konst::string::find_skip(a0, a1)", "a0.find(a1).map(|i| &a0[i + a1.len()..])"),
    "str_find_keep": ([S, S], "konst::string::find_keep(a0, a1)", "a0.find(a1).map(|i| &a0[i..])"),
    "str_rfind_skip": ([S, S], "konst::string::rfind_skip(a0, a1)", "a0.rfind(a1).map(|i| &a0[..i])", "a1.is_empty()"),
    "str_rfind_keep": ([S, S], "konst::string::rfind_keep(a0, a1)", "a0.rfind(a1).map(|i| &a0[..i + a1.len()])", "a1.is_empty()"),
    "str_split_once": ([S, S], "konst::string::split_once(a0, a1)", "a0.split_once(a1)", "a1.is_empty()"),
    "str_rsplit_once": ([S, S], "konst::string::rsplit_once(a0, a1)", "a0.rsplit_once(a1)", "a1.is_empty()"),
    "str_get_up_to": ([S, U], "konst::string::get_up_to(a0, a1)", "a0.get(..a1)"),
    "str_get_from": ([S, U], "konst::string::get_from(a0, a1)", "a0.get(a1..)"),
    "str_get_range": ([S, U, U], "konst::string::get_range(a0, a1, a2)", "a0.get(a1..a2)"),
    "str_split_at": ([S, U], "konst::string::split_at(a0, a1)", "(clamp_up_to(a0, a1), clamp_from(a0, a1))"),
    "is_char_boundary_bytes": ([S, U], "konst::string::is_char_boundary(a0, a1)", "a0.is_char_boundary(a1)"),
    "str_up_to": ([S, U], "konst::string::str_up_to(a0, a1)", "clamp_up_to(a0, a1)"),
    "str_from": ([S, U], "konst::string::str_from(a0, a1)", "clamp_from(a0, a1)"),
    "str_range": ([S, U, U], "konst::string::str_range(a0, a1, a2)", "clamp_range(a0, a1, a2)", "a1 > a2"),
    # ---- chars (C07)
    "from_u32": (["u32"], "konst::chr::from_u32(a0)", "char::from_u32(a0)"),
    "encode_utf8": (["char"], "konst::chr::encode_utf8(a0).as_str().as_bytes().to_vec()", "{ let mut b = [0u8; 4]; a0.encode_utf8(&mut b).as_bytes().to_vec() }"),
    "Chars.next": (["chars"], "konst::string::chars(a0).next().map(|(c, it)| (c, it.as_str().to_string()))",
                   "{ let mut it = a0.chars(); it.next().map(|c| (c, it.as_str().to_string())) }"),
    "Chars.next_back": (["chars"], "konst::string::chars(a0).next_back().map(|(c, it)| (c, it.as_str().to_string()))",
                        "{ let mut it = a0.chars(); it.next_back().map(|c| (c, it.as_str().to_string())) }"),
    "RChars.next": (["chars"], "konst::string::chars(a0).rev().next().map(|(c, it)| (c, it.rev().as_str().to_string()))",
                    "{ let mut it = a0.chars(); it.next_back().map(|c| (c, it.as_str().to_string())) }"),
    "RChars.next_back": (["chars"], "konst::string::chars(a0).rev().next_back().map(|(c, it)| (c, it.rev().as_str().to_string()))",
                         "{ let mut it = a0.chars(); it.next().map(|c| (c, it.as_str().to_string())) }"),
    # ---- comparisons (C16)
    "eq_bytes": ([B, B], "konst::slice::eq_bytes(a0, a1)", "a0 == a1"),
    "cmp_bytes": ([B, B], "konst::slice::cmp_bytes(a0, a1)", "a0.cmp(a1)"),
    "eq_str": ([S, S], "konst::string::eq_str(a0, a1)", "a0 == a1"),
    "cmp_str": ([S, S], "konst::string::cmp_str(a0, a1)", "a0.cmp(a1)"),
    # ---- slices (C02), element type u8
    "get": ([B, U], "konst::slice::get(a0, a1)", "a0.get(a1)"),
    "get_from": ([B, U], "konst::slice::get_from(a0, a1)", "a0.get(a1..)"),
    "get_up_to": ([B, U], "konst::slice::get_up_to(a0, a1)", "a0.get(..a1)"),
    "get_range": ([B, U, U], "konst::slice::get_range(a0, a1, a2)", "a0.get(a1..a2)"),
    "split_at": ([B, U], "konst::slice::split_at(a0, a1)", "if a1 <= a0.len() { a0.split_at(a1) } else { (a0, &a0[..0]) }"),
    "slice_from": ([B, U], "konst::slice::slice_from(a0, a1)", "if a1 <= a0.len() { &a0[a1..] } else { &a0[..0] }"),
    "slice_up_to": ([B, U], "konst::slice::slice_up_to(a0, a1)", "if a1 <= a0.len() { &a0[..a1] } else { a0 }"),
    # ---- whole-string parsing (C12): a leading '+' is outside the property
    **{f"prim_parse_{t}": ([S], f"konst::primitive::parse_{t}(a0).ok()", f"a0.parse::<{t}>().ok()", "a0.starts_with('+')")
       for t in ("u8", "i8", "u32", "i64", "u128", "i128", "usize", "bool")},
    # ---- CStr (C20)
    "cstr_from_bytes_until_nul": ([B], "konst::ffi::cstr::from_bytes_until_nul(a0).ok().map(|c| c.to_bytes_with_nul().to_vec())",
                                  "std::ffi::CStr::from_bytes_until_nul(a0).ok().map(|c| c.to_bytes_with_nul().to_vec())"),
    "cstr_from_bytes_with_nul": ([B], "konst::ffi::cstr::from_bytes_with_nul(a0).ok().map(|c| c.to_bytes_with_nul().to_vec())",
                                 "std::ffi::CStr::from_bytes_with_nul(a0).ok().map(|c| c.to_bytes_with_nul().to_vec())"),
    **PROBES,
}
# ---- group BytesPub: the public generic `bytes_*` functions with a `&[u8]` pattern are the calls the worker entries
# above already make (`PatternNorm::new` is the identity on `[u8]`); the `&mut` element accessors of a `&mut [u8]`
REPLAY.update({"pub_" + k: v for k, v in list(REPLAY.items())
               if k.startswith("bytes_") and k not in ("bytes_rfind", "bytes_trim", "bytes_trim_start", "bytes_trim_end")})
BM = "bytes_mut"      # a `Vec<u8>`; the expressions take `&mut a0.clone()[..]`
REPLAY.update({
    "get_mut": ([BM, U], "konst::slice::get_mut(&mut a0.clone()[..], a1).map(|x| { *x = x.wrapping_add(1); *x })", "a0.clone().get_mut(a1).map(|x| { *x = x.wrapping_add(1); *x })"),
    "first_mut": ([BM], "konst::slice::first_mut(&mut a0.clone()[..]).map(|x| { *x = x.wrapping_add(1); *x })", "a0.clone().first_mut().map(|x| { *x = x.wrapping_add(1); *x })"),
    "last_mut": ([BM], "konst::slice::last_mut(&mut a0.clone()[..]).map(|x| { *x = x.wrapping_add(1); *x })", "a0.clone().last_mut().map(|x| { *x = x.wrapping_add(1); *x })"),
    "split_first_mut": ([BM], "konst::slice::split_first_mut(&mut a0.clone()[..]).map(|(x, r)| { *x = x.wrapping_add(1); r.reverse(); (*x, r.to_vec()) })",
                        "a0.clone().split_first_mut().map(|(x, r)| { *x = x.wrapping_add(1); r.reverse(); (*x, r.to_vec()) })"),
    "split_last_mut": ([BM], "konst::slice::split_last_mut(&mut a0.clone()[..]).map(|(x, r)| { *x = x.wrapping_add(1); r.reverse(); (*x, r.to_vec()) })",
                       "a0.clone().split_last_mut().map(|(x, r)| { *x = x.wrapping_add(1); r.reverse(); (*x, r.to_vec()) })"),
})
# ---- Parser methods (groups Parser, ParseInt, ParseInt2; C13, C14): a parser as `Parser::with_start_offset` builds it
# (direction FromStart, split flag unset: the only state the public constructors give), observed through the getters;
# the std side is the str method the property names plus the offset/direction bookkeeping of konst's documentation.
# Whitespace trimming is std's `trim_ascii*` (the property's wording; `str::trim` also removes Unicode whitespace).
# An empty pattern is outside the comparison (std's `split_once("")`/`trim_matches("")` have their own conventions).
PA = "parser_any"    # vlib/xsearch.py parser_binding(probe=False): any direction / split flag of the Lean state is moved to a buildable one
_E = "a1.is_empty()"
REPLAY.update({
    "Parser.fn_start_offset": ([PA], "a0.start_offset()", "a0_off"),
    "Parser.fn_end_offset": ([PA], "a0.end_offset()", "a0_off + a0_s.len()"),
    "Parser.fn_is_empty": ([PA], "a0.is_empty()", "a0_s.is_empty()"),
    "Parser.fn_len": ([PA], "a0.len()", "a0_s.len()"),
    "Parser.fn_remainder": ([PA], "a0.remainder()", "a0_s"),
    "Parser.skip": ([PA, U], "pshow1(a0.skip(a1))",
                    "{ let mut n = a1.min(a0_s.len()); while !a0_s.is_char_boundary(n) { n += 1 } (&a0_s[n..], a0_off + n, PD::FromStart) }"),
    "Parser.skip_back": ([PA, U], "pshow1(a0.skip_back(a1))",
                         "{ let mut n = a0_s.len().saturating_sub(a1); while !a0_s.is_char_boundary(n) { n -= 1 } (&a0_s[..n], a0_off, PD::FromEnd) }"),
    "Parser.strip_prefix": ([PA, S], "pshow(a0.strip_prefix(a1))",
                            "match a0_s.strip_prefix(a1) { Some(r) => Ok((r, a0_off + a1.len(), PD::FromStart)), None => Err((a0_off, PD::FromStart, EK::Strip)) }"),
    "Parser.strip_suffix": ([PA, S], "pshow(a0.strip_suffix(a1))",
                            "match a0_s.strip_suffix(a1) { Some(r) => Ok((r, a0_off, PD::FromEnd)), None => Err((a0_off + a0_s.len(), PD::FromEnd, EK::Strip)) }"),
    "Parser.trim": ([PA], "pshow1(a0.trim())", "{ let t = a0_s.trim_ascii_start(); (t.trim_ascii_end(), a0_off + (a0_s.len() - t.len()), PD::FromBoth) }"),
    "Parser.trim_start": ([PA], "pshow1(a0.trim_start())", "{ let t = a0_s.trim_ascii_start(); (t, a0_off + (a0_s.len() - t.len()), PD::FromStart) }"),
    "Parser.trim_end": ([PA], "pshow1(a0.trim_end())", "(a0_s.trim_ascii_end(), a0_off, PD::FromEnd)"),
    "Parser.trim_matches": ([PA, S], "pshow1(a0.trim_matches(a1))",
                            "{ let t = a0_s.trim_start_matches(a1); (t.trim_end_matches(a1), a0_off + (a0_s.len() - t.len()), PD::FromBoth) }", _E),
    "Parser.trim_start_matches": ([PA, S], "pshow1(a0.trim_start_matches(a1))",
                                  "{ let t = a0_s.trim_start_matches(a1); (t, a0_off + (a0_s.len() - t.len()), PD::FromStart) }", _E),
    "Parser.trim_end_matches": ([PA, S], "pshow1(a0.trim_end_matches(a1))", "(a0_s.trim_end_matches(a1), a0_off, PD::FromEnd)", _E),
    "Parser.find_skip": ([PA, S], "pshow(a0.find_skip(a1))",
                         "match a0_s.find(a1) { Some(i) => Ok((&a0_s[i + a1.len()..], a0_off + i + a1.len(), PD::FromStart)), None => Err((a0_off, PD::FromStart, EK::Find)) }"),
    "Parser.rfind_skip": ([PA, S], "pshow(a0.rfind_skip(a1))",
                          "match a0_s.rfind(a1) { Some(i) => Ok((&a0_s[..i], a0_off, PD::FromEnd)), None => Err((a0_off + a0_s.len(), PD::FromEnd, EK::Find)) }", _E),
    "Parser.split": ([PA, S], "pshow2(a0.split(a1))",
                     "match a0_s.split_once(a1) { Some((b, a)) => Ok::<_, PErr>((b, a, a0_off + (a0_s.len() - a.len()), PD::FromStart)), "
                     "None => Ok((a0_s, &a0_s[a0_s.len()..], a0_off + a0_s.len(), PD::FromStart)) }", _E),
    "Parser.rsplit": ([PA, S], "pshow2(a0.rsplit(a1))",
                      "match a0_s.rsplit_once(a1) { Some((b, a)) => Ok::<_, PErr>((a, b, a0_off, PD::FromEnd)), None => Ok((a0_s, &a0_s[..0], a0_off, PD::FromEnd)) }", _E),
    "Parser.split_terminator": ([PA, S], "pshow2(a0.split_terminator(a1))",
                                "if a0_s.is_empty() { Err((a0_off, PD::FromStart, EK::DelimiterNotFound)) } else { match a0_s.split_once(a1) { "
                                "Some((b, a)) => Ok((b, a, a0_off + (a0_s.len() - a.len()), PD::FromStart)), None => Err((a0_off, PD::FromStart, EK::DelimiterNotFound)) } }", _E),
    "Parser.rsplit_terminator": ([PA, S], "pshow2(a0.rsplit_terminator(a1))",
                                 "if a0_s.is_empty() { Err((a0_off, PD::FromEnd, EK::DelimiterNotFound)) } else { match a0_s.rsplit_once(a1) { "
                                 "Some((b, a)) => Ok((a, b, a0_off, PD::FromEnd)), None => Err((a0_off + a0_s.len(), PD::FromEnd, EK::DelimiterNotFound)) } }", _E),
    "Parser.split_keep": ([PA, S], "pshow2(a0.split_keep(a1))",
                          "match a0_s.find(a1) { Some(i) => Ok::<_, PErr>((&a0_s[..i], &a0_s[i..], a0_off + i, PD::FromStart)), "
                          "None => Ok((a0_s, &a0_s[a0_s.len()..], a0_off + a0_s.len(), PD::FromStart)) }", _E),
    **{f"Parser.parse_{t}": ([PA], f"pshowv(a0.parse_{t}())", f"parse_int_std::<{t}>(a0_s, a0_off, {'true' if t[0] == 'i' else 'false'})", "a0_s.starts_with('+')")
       for t in ("u8", "u16", "u32", "u64", "u128", "usize", "i8", "i16", "i32", "i64", "i128", "isize")},
    "Parser.parse_bool": ([PA], "pshowv(a0.parse_bool())", "parse_bool_std(a0_s, a0_off)"),
})
# ---- the error constructors (C13: an error's offset is the start offset of the parser it was built from, or its end
# offset when the parser works from the end; group Rest / Parser).  The custom message is not observable through the offset.
_EOFF = "(if matches!(a0.parse_direction(), PD::FromEnd) { a0_off + a0_s.len() } else { a0_off }, a0.parse_direction()"
REPLAY.update({
    "Parser.into_other_error": ([PA, S], '{ static M: &str = "m"; let e = a0.into_other_error(&M); (e.offset(), e.error_direction(), e.kind()) }', _EOFF + ", EK::Other)"),
    "ParseError.other_error": ([PA, S], '{ static M: &str = "m"; let e = konst::parsing::ParseError::other_error(a0, &M); (e.offset(), e.error_direction(), e.kind()) }', _EOFF + ", EK::Other)"),
    "Parser.into_error": ([PA, "errkind"], "{ let e = a0.into_error(a1); (e.offset(), e.error_direction(), e.kind()) }", _EOFF + ", a1)"),
    "ParseError.new": ([PA, "errkind"], "{ let e = konst::parsing::ParseError::new(a0, a1); (e.offset(), e.error_direction(), e.kind()) }", _EOFF + ", a1)"),
})

