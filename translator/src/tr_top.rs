// top level: one target -> Lean text (included into tr.rs)

/// signature records (JSON objects) of everything translated, written to Gen/signatures.json
pub static SIGS: std::sync::Mutex<Vec<String>> = std::sync::Mutex::new(Vec::new());

fn jstr(s: &str) -> String {
    format!("{:?}", s)
}

fn quote_source(texts: &BTreeMap<String, Vec<String>>, krate: &str, start: usize, end: usize) -> String {
    let mut s = String::new();
    if let Some(lines) = texts.get(krate) {
        let lo = start.saturating_sub(1);
        let hi = end.min(lines.len());
        // common indentation
        let indent = lines[lo..hi].iter().filter(|l| !l.trim().is_empty()).map(|l| l.len() - l.trim_start().len()).min().unwrap_or(0);
        for l in &lines[lo..hi] {
            let t = if l.len() >= indent { &l[indent..] } else { l.trim_start() };
            s.push_str("    ");
            s.push_str(&t.replace("-/", "- /").replace("/-", "/ -"));
            s.push('\n');
        }
    }
    s
}

fn krate_of(path: &str) -> String {
    path.split("::").next().unwrap_or("").to_string()
}

pub fn translate_target(idx: &Index, reg: &Registry, t: &Target, texts: &BTreeMap<String, Vec<String>>) -> R<String> {
    match t.kind {
        TargetKind::Fn => translate_fn(idx, reg, t, texts),
        TargetKind::Struct => translate_struct(idx, reg, t),
        TargetKind::Enum => translate_enum(idx, reg, t),
        TargetKind::Const => translate_const(idx, reg, t),
        TargetKind::Extern => {
            if idx.find_fn(&t.rust_path).len() != 1 {
                return Err(format!("extern function `{}` not found (or ambiguous)", t.rust_path));
            }
            Ok(format!("-- calls of Rust `{}` are mapped to `{}` (see DESIGN.md section 11, externs)\n", t.rust_path, t.lean_name))
        }
    }
}

fn dummy_fn(module: &str, self_ty: Option<String>) -> FnEntry {
    let f: syn::ItemFn = syn::parse_str("fn __dummy() {}").unwrap();
    FnEntry { path: format!("{}::__dummy", module), self_ty, sig: f.sig, block: *f.block, module: module.to_string(), self_syn: None, impl_generics: None }
}

fn new_tr<'a>(idx: &'a Index, reg: &'a Registry, cur: &'a FnEntry) -> Tr<'a> {
    reg.structs.set_hint(&cur.path);
    reg.enums.set_hint(&cur.path);
    Tr {
        idx,
        reg,
        cur,
        sub: Subst::default(),
        holes: Vec::new(),
        scopes: vec![HashMap::new()],
        frames: Vec::new(),
        ret_ty: Ty::Unit,
        tmp: 0,
        generics: Vec::new(),
        const_generics: Vec::new(),
        uses_fuel: false,
        deferred: Default::default(),
        live_after: Vec::new(),
        fuel_uses: 0,
        hoisted: Vec::new(),
        loop_count: 0,
        lean_name: String::new(),
        betas: Vec::new(),
        mut_ref_params: Vec::new(),
        ptr_alias: HashMap::new(),
        ptr_array_len: HashMap::new(),
        identity_aliases: Vec::new(),
        pattern_generics: Vec::new(),
        type_subst: HashMap::new(),
        mut_self: false,
        abstract_fns: HashMap::new(),
        abstract_consts: Vec::new(),
    }
}

fn translate_struct(idx: &Index, reg: &Registry, t: &Target) -> R<String> {
    let name = last_seg(&t.rust_path);
    let (path, st) = idx
        .structs
        .iter()
        .find(|(p, _)| *p == t.rust_path || p.ends_with(&format!("::{}", t.rust_path)))
        .ok_or_else(|| format!("struct `{}` not found", t.rust_path))?;
    let module = path.rsplit_once("::").map(|x| x.0).unwrap_or("").to_string();
    let cur = dummy_fn(&module, Some(name.clone()));
    let mut tr = new_tr(idx, reg, &cur);
    tr.pattern_generics = pattern_generics(&st.generics);
    tr.generics = st.generics.type_params().map(|p| p.ident.to_string()).filter(|g| !tr.pattern_generics.contains(g)).collect();
    let mut out = String::new();
    writeln!(out, "/-- Rust: `struct {}` ({}) -/", name, path).unwrap();
    let mut gens: String = tr.generics.iter().map(|g| format!(" ({} : Type)", g)).collect();
    tr.const_generics = st.generics.const_params().map(|p| p.ident.to_string()).collect();
    for c in &tr.const_generics {
        write!(gens, " ({} : Nat)", lean_ident(c)).unwrap();
    }
    writeln!(out, "structure {}{} where", t.lean_name, gens).unwrap();
    let mut frecs = Vec::new();
    for (i, f) in st.fields.iter().enumerate() {
        let fty = tr.conv_ty(&f.ty);
        let fname = match &f.ident {
            Some(id) => lean_ident(&id.to_string()),
            None => format!("_{}", i),
        };
        let lt = tr.lean_ty(&fty).map_err(|e| format!("field {}: {}", fname, e))?;
        writeln!(out, "  {} : {}", fname, lt).unwrap();
        frecs.push(format!("{{\"name\": {}, \"lean\": {}, \"rust\": {}}}", jstr(&fname), jstr(&lt), jstr(&tr.ty_sig(&fty))));
    }
    SIGS.lock().unwrap().push(format!(
        "{{\"kind\": \"struct\", \"group\": {}, \"lean\": {}, \"generics\": [{}], \"const_generics\": [{}], \"fields\": [{}]}}",
        jstr(&t.group),
        jstr(&t.lean_name),
        tr.generics.iter().map(|g| jstr(g)).collect::<Vec<_>>().join(", "),
        st.generics.const_params().map(|p| jstr(&lean_ident(&p.ident.to_string()))).collect::<Vec<_>>().join(", "),
        frecs.join(", ")
    ));
    if tr.generics.is_empty() && tr.const_generics.is_empty() {
        writeln!(out, "deriving Repr, DecidableEq").unwrap();
    }
    Ok(out)
}

fn translate_enum(idx: &Index, reg: &Registry, t: &Target) -> R<String> {
    let name = last_seg(&t.rust_path);
    let (path, en) = idx
        .enums
        .iter()
        .find(|(p, _)| *p == t.rust_path || p.ends_with(&format!("::{}", t.rust_path)))
        .ok_or_else(|| format!("enum `{}` not found", t.rust_path))?;
    let module = path.rsplit_once("::").map(|x| x.0).unwrap_or("").to_string();
    let cur = dummy_fn(&module, Some(name.clone()));
    let mut tr = new_tr(idx, reg, &cur);
    tr.pattern_generics = pattern_generics(&en.generics);
    tr.generics = en.generics.type_params().map(|p| p.ident.to_string()).filter(|g| !tr.pattern_generics.contains(g)).collect();
    let mut out = String::new();
    writeln!(out, "/-- Rust: `enum {}` ({}) -/", name, path).unwrap();
    let gens: String = tr.generics.iter().map(|g| format!(" ({} : Type)", g)).collect();
    writeln!(out, "inductive {}{} where", t.lean_name, gens).unwrap();
    let mut vrecs = Vec::new();
    for v in &en.variants {
        let mut args = String::new();
        let mut ftys = Vec::new();
        for (i, f) in v.fields.iter().enumerate() {
            let fty = tr.conv_ty(&f.ty);
            let fname = match &f.ident {
                Some(id) => lean_ident(&id.to_string()),
                None => format!("a{}", i),
            };
            let lt = tr.lean_ty(&fty)?;
            write!(args, " ({} : {})", fname, lt).unwrap();
            ftys.push(format!("{{\"lean\": {}, \"rust\": {}}}", jstr(&lt), jstr(&tr.ty_sig(&fty))));
        }
        writeln!(out, "  | {}{}", lean_ident(&v.ident.to_string()), args).unwrap();
        vrecs.push(format!("{{\"name\": {}, \"fields\": [{}]}}", jstr(&lean_ident(&v.ident.to_string())), ftys.join(", ")));
    }
    SIGS.lock().unwrap().push(format!(
        "{{\"kind\": \"enum\", \"group\": {}, \"lean\": {}, \"generics\": [{}], \"variants\": [{}]}}",
        jstr(&t.group),
        jstr(&t.lean_name),
        tr.generics.iter().map(|g| jstr(g)).collect::<Vec<_>>().join(", "),
        vrecs.join(", ")
    ));
    if tr.generics.is_empty() {
        writeln!(out, "deriving Repr, DecidableEq").unwrap();
    }
    Ok(out)
}

fn translate_const(idx: &Index, reg: &Registry, t: &Target) -> R<String> {
    let c = idx
        .consts
        .iter()
        .find(|c| c.path == t.rust_path || c.path.ends_with(&format!("::{}", t.rust_path)))
        .ok_or_else(|| format!("const `{}` not found", t.rust_path))?;
    let cur = dummy_fn(&c.module, c.self_ty.clone());
    let mut tr = new_tr(idx, reg, &cur);
    let ty = tr.conv_ty(&c.ty);
    let o = tr.expr(&c.expr, Some(&ty))?;
    if !o.pre.is_empty() || o.diverges {
        return Err("constant initialiser with effects".into());
    }
    let text = format!("/-- Rust: `const {}` -/\ndef {} : {} := {}\n", c.path, t.lean_name, tr.lean_ty(&ty)?, o.term);
    tr.resolve_placeholders(&text)
}

pub fn all_type_params(f: &FnEntry) -> Vec<String> {
    let mut v: Vec<String> = f.impl_generics.iter().flat_map(|g| g.type_params().map(|p| p.ident.to_string())).collect();
    v.extend(f.sig.generics.type_params().map(|p| p.ident.to_string()));
    v
}

pub fn all_const_params(f: &FnEntry) -> Vec<String> {
    let mut v: Vec<String> = f.impl_generics.iter().flat_map(|g| g.const_params().map(|p| p.ident.to_string())).collect();
    v.extend(f.sig.generics.const_params().map(|p| p.ident.to_string()));
    v
}

/// generic parameters bounded by konst's `Pattern` / `BytesPattern` traits
pub fn pattern_generics(g: &syn::Generics) -> Vec<String> {
    fn is_pat_bound(b: &syn::TypeParamBound) -> bool {
        if let syn::TypeParamBound::Trait(t) = b {
            if let Some(s) = t.path.segments.last() {
                return s.ident == "Pattern" || s.ident == "BytesPattern";
            }
        }
        false
    }
    let mut v = Vec::new();
    for p in g.type_params() {
        if p.bounds.iter().any(is_pat_bound) {
            v.push(p.ident.to_string());
        }
    }
    if let Some(w) = &g.where_clause {
        for pred in &w.predicates {
            if let syn::WherePredicate::Type(pt) = pred {
                if pt.bounds.iter().any(is_pat_bound) {
                    if let syn::Type::Path(tp) = &pt.bounded_ty {
                        if let Some(id) = tp.path.get_ident() {
                            v.push(id.to_string());
                        }
                    }
                }
            }
        }
    }
    v
}

fn translate_fn(idx: &Index, reg: &Registry, t: &Target, texts: &BTreeMap<String, Vec<String>>) -> R<String> {
    let cands = idx.find_fn(&t.rust_path);
    if cands.is_empty() {
        return Err(format!("function `{}` not found in the expanded source", t.rust_path));
    }
    if cands.len() > 1 {
        let ps: Vec<String> = cands.iter().map(|i| idx.fns[*i].path.clone()).collect();
        return Err(format!("function path `{}` is ambiguous: {}", t.rust_path, ps.join(", ")));
    }
    let fi = cands[0];
    // shadow-free copy of the function (see alpha.rs); the quoted source stays the original text
    let mut f_owned = idx.fns[fi].clone();
    {
        let mut ps: Vec<String> = Vec::new();
        for inp in &f_owned.sig.inputs {
            match inp {
                syn::FnArg::Receiver(_) => ps.push("self".into()),
                syn::FnArg::Typed(pt) => {
                    if let Pat::Ident(pi) = &*pt.pat {
                        ps.push(pi.ident.to_string());
                    }
                }
            }
        }
        crate::alpha::Alpha::run(&ps, &mut f_owned.block);
    }
    let f = &f_owned;
    let rf_owned: RegFn = match reg.fns.get(&fi) {
        Some(r) if t.arm.is_none() => r.clone(),
        _ => RegFn { idx: fi, lean: t.lean_name.clone(), fuel: false, is_extern: false },
    };
    let rf = &rf_owned;
    let mut tr = new_tr(idx, reg, f);
    tr.generics = all_type_params(f);
    tr.const_generics = all_const_params(f);
    tr.pattern_generics = pattern_generics(&f.sig.generics);
    if let Some(ig) = &f.impl_generics {
        tr.pattern_generics.extend(pattern_generics(ig));
    }
    tr.generics.retain(|g| !tr.pattern_generics.contains(g));
    if !tr.pattern_generics.is_empty() {
        // the `const N` of `BytesPattern<N>` only exists for the trait dispatch
        tr.const_generics.retain(|g| g != "N");
    }

    if let (Some(_), Some(ty)) = (&t.arm, &t.arm_ty) {
        let parsed: syn::Type = syn::parse_str(ty).map_err(|e| format!("ty= : {}", e))?;
        let conv = tr.conv_ty(&parsed);
        for g in tr.generics.clone() {
            tr.type_subst.insert(g, conv.clone());
        }
        tr.generics.clear();
    }
    // abstracted callees: their signatures, read with the callee's generic parameter identified with ours by name
    let mut abs_sig = String::new();
    for a in &t.abstract_fns {
        let cands = idx.fn_by_name.get(a).cloned().unwrap_or_default();
        let ci = cands.iter().copied().find(|i| idx.fns[*i].self_ty.is_none()).ok_or_else(|| format!("abstract function `{}` not found", a))?;
        let cal = idx.fns[ci].clone();
        let mut ptys = Vec::new();
        for inp in &cal.sig.inputs {
            if let syn::FnArg::Typed(pt) = inp {
                ptys.push(tr.conv_ty(&pt.ty));
            }
        }
        let rty = match &cal.sig.output {
            syn::ReturnType::Default => Ty::Unit,
            syn::ReturnType::Type(_, t) => tr.conv_ty(t),
        };
        let mut txt = String::new();
        for p in &ptys {
            txt.push_str(&tr.lean_ty(p)?);
            txt.push_str(" → ");
        }
        write!(abs_sig, " ({} : {}Res {})", lean_ident(a), txt, tr.lean_ty(&rty)?).unwrap();
        tr.abstract_fns.insert(a.clone(), (ptys, rty));
    }
    // parameters
    let mut params: Vec<(String, Ty)> = Vec::new();
    let mut pat_params: Vec<(String, Pat)> = Vec::new();
    for inp in &f.sig.inputs {
        match inp {
            syn::FnArg::Receiver(r) => {
                let st = f.self_ty.clone().ok_or("receiver outside an impl")?;
                if r.reference.is_some() && r.mutability.is_some() {
                    tr.mut_self = true;
                }
                let sty = match &f.self_syn {
                    Some(t) => tr.conv_ty(t),
                    None => Ty::Adt(st, vec![]),
                };
                params.push(("self".into(), sty));
            }
            syn::FnArg::Typed(pt) => {
                if let syn::Type::Reference(r) = &*pt.ty {
                    // `&mut [T]` is read as the slice value (no write through it is supported: see assign_place)
                    if r.mutability.is_some() && !matches!(&*r.elem, syn::Type::Slice(_)) {
                        return Err("`&mut` parameter that is not a slice".into());
                    }
                    if r.mutability.is_some() {
                        if let Pat::Ident(pi) = &*pt.pat {
                            tr.mut_ref_params.push(pi.ident.to_string());
                        }
                    }
                }
                let ty = tr.conv_ty(&pt.ty);
                match &*pt.pat {
                    Pat::Ident(pi) => params.push((pi.ident.to_string(), ty)),
                    Pat::Wild(_) => params.push((format!("_arg{}", params.len()), ty)),
                    other => {
                        // `StrJoinArgs { sep, slice }: StrJoinArgs`: a fresh parameter, destructured by a `let` that
                        // is put in front of the body
                        let nm = format!("arg{}_", params.len());
                        params.push((nm.clone(), ty));
                        pat_params.push((nm, other.clone()));
                    }
                }
            }
        }
    }
    for (n, t) in &params {
        tr.declare(n, t.clone());
    }
    let ret = match &f.sig.output {
        syn::ReturnType::Default => Ty::Unit,
        syn::ReturnType::Type(_, t) => tr.conv_ty(t),
    };
    // a `&mut self` method hands the updated receiver back next to its result
    let user_ret = ret.clone();
    let ret = if tr.mut_self { Ty::Tuple(vec![ret, Ty::Adt(f.self_ty.clone().unwrap_or_default(), vec![])]) } else { ret };
    tr.ret_ty = user_ret.clone();
    tr.lean_name = t.lean_name.clone();
    // witness-arm target: only the selected arm of `match HasTypeWitness::WITNESS { … }`
    let arm_block: Option<Block> = match &t.arm {
        None => None,
        Some(v) => {
            let m = match f.block.stmts.last() {
                Some(Stmt::Expr(Expr::Match(m), None)) => m,
                _ => return Err("arm= target: the function body is not a single `match`".into()),
            };
            let arm = m
                .arms
                .iter()
                .find(|a| match &a.pat {
                    Pat::Struct(ps) => ps.path.segments.last().map(|s| s.ident == v.as_str()).unwrap_or(false),
                    _ => false,
                })
                .ok_or_else(|| format!("no arm `{}` in the witness match", v))?;
            match &*arm.body {
                Expr::Block(b) => Some(b.block.clone()),
                other => Some(Block { brace_token: Default::default(), stmts: vec![Stmt::Expr(other.clone(), None)] }),
            }
        }
    };
    let stmts0: &Vec<Stmt> = match &arm_block {
        Some(b) => &b.stmts,
        None => &f.block.stmts,
    };
    // parameters written as patterns: `let <pattern> = <fresh parameter>;` in front of the body
    let mut stmts_owned: Vec<Stmt> = Vec::new();
    for (nm, pat) in &pat_params {
        let id = syn::Ident::new(nm, proc_macro2::Span::call_site());
        let st: Stmt = syn::parse_quote! { let #pat = #id; };
        stmts_owned.push(st);
    }
    stmts_owned.extend(stmts0.iter().cloned());
    let stmts: &Vec<Stmt> = &stmts_owned;
    let (body, _ty, _div) = if tr.mut_self {
        let outs = vec!["self".to_string()];
        tr.block_lines(stmts, &outs, true, Some(&user_ret))?
    } else {
        tr.block_lines(stmts, &[], true, Some(&ret))?
    };

    let mut sig = String::new();
    for g in &tr.generics {
        write!(sig, " {{{} : Type}}", g).unwrap();
    }
    for g in &tr.const_generics {
        write!(sig, " ({} : Nat)", lean_ident(g)).unwrap();
    }
    if rf.fuel {
        sig.push_str(" (fuel : Nat)");
    } else if tr.uses_fuel {
        return Err("internal: fuel needed but not registered".into());
    }
    sig.push_str(&abs_sig);
    for (c, ty) in &tr.abstract_consts {
        write!(sig, " ({} : {})", lean_ident(c), ty).unwrap();
    }
    for (n, t) in &params {
        write!(sig, " ({} : {})", lean_ident(n), tr.lean_ty(t).map_err(|e| format!("parameter {}: {}", n, e))?).unwrap();
    }
    let ret_l = tr.lean_ty(&ret).map_err(|e| format!("return type: {}", e))?;
    {
        let mut ps = Vec::new();
        for (n, ty) in &params {
            ps.push(format!("{{\"name\": {}, \"lean\": {}, \"rust\": {}}}", jstr(&lean_ident(n)), jstr(&tr.resolve_placeholders(&tr.lean_ty(ty)?)?), jstr(&tr.ty_sig(ty))));
        }
        let rec = format!(
            "{{\"kind\": \"fn\", \"group\": {}, \"lean\": {}, \"rust\": {}, \"fuel\": {}, \"generics\": [{}], \"const_generics\": [{}], \"params\": [{}], \"ret\": {}, \"abstract\": {}}}",
            jstr(&t.group),
            jstr(&t.lean_name),
            jstr(&f.path),
            rf.fuel,
            tr.generics.iter().map(|g| jstr(g)).collect::<Vec<_>>().join(", "),
            tr.const_generics.iter().map(|g| jstr(&lean_ident(g))).collect::<Vec<_>>().join(", "),
            ps.join(", "),
            jstr(&tr.resolve_placeholders(&ret_l)?),
            !(abs_sig.is_empty() && tr.abstract_consts.is_empty())
        );
        SIGS.lock().unwrap().push(rec);
    }
    let mut out = String::new();
    let krate = krate_of(&f.path);
    let start = f.sig.span().start().line;
    let end = f.block.span().end().line;
    writeln!(out, "/-- Rust `{}`:\n```rust", f.path).unwrap();
    out.push_str(&quote_source(texts, &krate, start, end));
    writeln!(out, "``` -/").unwrap();
    let head = std::mem::take(&mut out);
    for h in &tr.hoisted {
        out.push_str(h);
        out.push('\n');
    }
    out.push_str(&head);
    writeln!(out, "def {}{} : Res {} := Ctl.run (ρ := {}) do", t.lean_name, sig, ret_l, ret_l).unwrap();
    for l in ind(body, 2) {
        out.push_str(&l);
        out.push('\n');
    }
    tr.resolve_placeholders(&out)
}
