//! Rust types as far as the translation needs them, with unification variables.
use std::fmt;

#[derive(Clone, Copy, Debug, PartialEq, Eq, Hash)]
pub struct IntTy {
    pub bits: u32,
    pub signed: bool,
    /// usize / isize (printed differently, same width as 64)
    pub size: bool,
}

impl IntTy {
    pub fn parse(s: &str) -> Option<IntTy> {
        let (signed, rest) = match s.as_bytes().first()? {
            b'u' => (false, &s[1..]),
            b'i' => (true, &s[1..]),
            _ => return None,
        };
        let (bits, size) = match rest {
            "8" => (8, false),
            "16" => (16, false),
            "32" => (32, false),
            "64" => (64, false),
            "128" => (128, false),
            "size" => (64, true),
            _ => return None,
        };
        Some(IntTy { bits, signed, size })
    }
    pub const USIZE: IntTy = IntTy { bits: 64, signed: false, size: true };
    pub const U8: IntTy = IntTy { bits: 8, signed: false, size: false };
    pub const U32: IntTy = IntTy { bits: 32, signed: false, size: false };
    pub fn name(&self) -> String {
        format!("{}{}", if self.signed { "i" } else { "u" }, if self.size { "size".to_string() } else { self.bits.to_string() })
    }
}

#[derive(Clone, Debug, PartialEq)]
pub enum Ty {
    Int(IntTy),
    Bool,
    Char,
    Str,
    Unit,
    Never,
    Slice(Box<Ty>),
    Tuple(Vec<Ty>),
    Option(Box<Ty>),
    Result(Box<Ty>, Box<Ty>),
    /// struct / enum by Rust name, with its type arguments when known (empty = the same-named parameters in scope)
    Adt(String, Vec<Ty>),
    Param(String),
    Ptr(Box<Ty>),
    Ordering,
    Var(usize),
    Opaque(String),
}

impl fmt::Display for Ty {
    fn fmt(&self, f: &mut fmt::Formatter<'_>) -> fmt::Result {
        match self {
            Ty::Int(t) => write!(f, "{}", t.name()),
            Ty::Bool => write!(f, "bool"),
            Ty::Char => write!(f, "char"),
            Ty::Str => write!(f, "str"),
            Ty::Unit => write!(f, "()"),
            Ty::Never => write!(f, "!"),
            Ty::Slice(t) => write!(f, "[{}]", t),
            Ty::Tuple(ts) => {
                write!(f, "(")?;
                for t in ts {
                    write!(f, "{},", t)?;
                }
                write!(f, ")")
            }
            Ty::Option(t) => write!(f, "Option<{}>", t),
            Ty::Result(a, b) => write!(f, "Result<{},{}>", a, b),
            Ty::Adt(n, _) => write!(f, "{}", n),
            Ty::Param(n) => write!(f, "{}", n),
            Ty::Ptr(t) => write!(f, "*{}", t),
            Ty::Ordering => write!(f, "Ordering"),
            Ty::Var(i) => write!(f, "?{}", i),
            Ty::Opaque(s) => write!(f, "<{}>", s),
        }
    }
}

#[derive(Default)]
pub struct Subst {
    /// binding of each variable; `None` = unbound
    pub bind: Vec<Option<Ty>>,
    /// variable must be an integer type (literal)
    pub int_only: Vec<bool>,
}

impl Subst {
    pub fn fresh(&mut self) -> Ty {
        self.bind.push(None);
        self.int_only.push(false);
        Ty::Var(self.bind.len() - 1)
    }
    pub fn fresh_int(&mut self) -> Ty {
        self.bind.push(None);
        self.int_only.push(true);
        Ty::Var(self.bind.len() - 1)
    }
    /// follow variable bindings at the head
    pub fn shallow(&self, t: &Ty) -> Ty {
        let mut t = t.clone();
        loop {
            match t {
                Ty::Var(i) => match &self.bind[i] {
                    Some(b) => t = b.clone(),
                    None => return Ty::Var(i),
                },
                _ => return t,
            }
        }
    }
    pub fn resolve(&self, t: &Ty) -> Ty {
        match self.shallow(t) {
            Ty::Slice(e) => Ty::Slice(Box::new(self.resolve(&e))),
            Ty::Tuple(ts) => Ty::Tuple(ts.iter().map(|x| self.resolve(x)).collect()),
            Ty::Option(e) => Ty::Option(Box::new(self.resolve(&e))),
            Ty::Result(a, b) => Ty::Result(Box::new(self.resolve(&a)), Box::new(self.resolve(&b))),
            Ty::Ptr(e) => Ty::Ptr(Box::new(self.resolve(&e))),
            Ty::Adt(n, args) => Ty::Adt(n, args.iter().map(|x| self.resolve(x)).collect()),
            other => other,
        }
    }
    pub fn unify(&mut self, a: &Ty, b: &Ty) -> Result<(), String> {
        let a = self.shallow(a);
        let b = self.shallow(b);
        match (&a, &b) {
            (Ty::Var(i), Ty::Var(j)) => {
                if i != j {
                    let io = self.int_only[*i] || self.int_only[*j];
                    self.int_only[*i] = io;
                    self.int_only[*j] = io;
                    self.bind[*i] = Some(Ty::Var(*j));
                }
                Ok(())
            }
            (Ty::Var(i), t) | (t, Ty::Var(i)) => {
                if matches!(t, Ty::Never) {
                    return Ok(());
                }
                if self.int_only[*i] && !matches!(t, Ty::Int(_) | Ty::Opaque(_) | Ty::Param(_)) {
                    return Err(format!("integer literal used as {}", t));
                }
                self.bind[*i] = Some(t.clone());
                Ok(())
            }
            (Ty::Never, _) | (_, Ty::Never) => Ok(()),
            (Ty::Opaque(_), _) | (_, Ty::Opaque(_)) => Ok(()),
            (Ty::Int(x), Ty::Int(y)) => {
                if x == y {
                    Ok(())
                } else {
                    Err(format!("integer type mismatch {} vs {}", x.name(), y.name()))
                }
            }
            (Ty::Bool, Ty::Bool) | (Ty::Char, Ty::Char) | (Ty::Str, Ty::Str) | (Ty::Unit, Ty::Unit) | (Ty::Ordering, Ty::Ordering) => Ok(()),
            (Ty::Slice(x), Ty::Slice(y)) => self.unify(x, y),
            // a str and its bytes are the same value in the embedding (rustc has already type-checked the source)
            (Ty::Str, Ty::Slice(x)) | (Ty::Slice(x), Ty::Str) => self.unify(x, &Ty::Int(IntTy::U8)),
            (Ty::Ptr(x), Ty::Ptr(y)) => self.unify(x, y),
            (Ty::Option(x), Ty::Option(y)) => self.unify(x, y),
            (Ty::Result(x1, x2), Ty::Result(y1, y2)) => {
                self.unify(x1, y1)?;
                self.unify(x2, y2)
            }
            (Ty::Tuple(xs), Ty::Tuple(ys)) => {
                if xs.len() != ys.len() {
                    return Err("tuple arity mismatch".to_string());
                }
                for (x, y) in xs.iter().zip(ys.iter()) {
                    self.unify(x, y)?;
                }
                Ok(())
            }
            (Ty::Adt(x, xa), Ty::Adt(y, ya)) if x == y => {
                if xa.len() == ya.len() {
                    for (p, q) in xa.iter().zip(ya.iter()) {
                        self.unify(p, q)?;
                    }
                }
                Ok(())
            }
            (Ty::Param(x), Ty::Param(y)) if x == y => Ok(()),
            _ => Err(format!("type mismatch {} vs {}", a, b)),
        }
    }
}
