//! The translation proper: one Rust function -> one Lean definition over Rs.Prelude.
use crate::index::{FnEntry, Index};
use crate::ty::{IntTy, Subst, Ty};
use crate::{Target, TargetKind};
use std::collections::{BTreeMap, HashMap, HashSet};
use std::fmt::Write as _;
use syn::spanned::Spanned;
use syn::{BinOp, Block, Expr, Lit, Pat, Stmt, UnOp};

pub type R<T> = Result<T, String>;

const KEYWORDS: &[&str] = &[
    "end", "at", "from", "this", "prefix", "suffix", "infix", "postfix", "notation", "macro", "syntax", "by", "have",
    "show", "match", "with", "instance", "structure", "class", "deriving", "section", "namespace", "variable",
    "universe", "export", "import", "open", "attribute", "mutual", "partial", "unsafe", "private", "protected",
    "theorem", "def", "abbrev", "example", "inductive", "opaque", "axiom", "if", "then", "else", "let", "for", "do",
    "return", "break", "continue", "mut", "try", "catch", "finally", "unless", "nomatch", "fun", "forall", "exists",
    "using", "calc", "suffices", "obtain", "where", "in", "local", "Type", "Prop", "Sort", "true", "false", "default",
    "extends", "hiding", "renaming", "termination_by", "decreasing_by", "elab", "rec", "fuel",
];

/// Lean names of the translated functions: a Rust variable of the same name is renamed (`iter` -> `iter_v`)
pub static RESERVED: std::sync::Mutex<Vec<String>> = std::sync::Mutex::new(Vec::new());

/// single-field tuple structs that only steer rustc's choice of an impl (`CmpWrapper<T>(pub T)`,
/// `__ElemDispatch<T>(pub T)`, …): a value of such a type is read as its field; the impls are told apart by the
/// type argument (index.rs: SPECIALISED)
pub fn is_transparent_newtype(n: &str) -> bool {
    matches!(n, "CmpWrapper" | "__ElemDispatch" | "__MakeSepArg" | "__NormalizeConcatArg")
}

/// `core::num::NonZeroU8` … `NonZeroIsize` (the twelve aliases of `core::num::NonZero<uN/iN>`): a value of such a type
/// is read as its integer value (`Ty::Adt("NonZero", [Ty::Int(_)])`, in Lean `Nat` / `Int`), so that
/// `NonZero*::get(self)` — "returns the contained value as a primitive type" — is the identity (tr_expr.rs).  The
/// invariant `value != 0` is not part of the Lean type: a translated function is defined on (and a theorem about it
/// covers) a superset of the values of the Rust type.  `get` is the only `NonZero*` method given a meaning (no
/// constructor, no arithmetic): any other method call on such a value stays a translation error.
pub fn nonzero_int(name: &str) -> Option<IntTy> {
    let rest = name.strip_prefix("NonZero")?;
    let prim = match rest {
        "U8" | "U16" | "U32" | "U64" | "U128" | "Usize" | "I8" | "I16" | "I32" | "I64" | "I128" | "Isize" => rest.to_ascii_lowercase(),
        _ => return None,
    };
    IntTy::parse(&prim)
}

/// the type built by `nonzero_int`
pub fn is_nonzero(n: &str, targs: &[Ty]) -> bool {
    n == "NonZero" && targs.len() == 1 && matches!(targs[0], Ty::Int(_))
}

pub fn lean_ident(s: &str) -> String {
    let s = s.trim_start_matches("r#");
    if RESERVED.lock().unwrap().iter().any(|r| r == s) {
        return format!("{}_v", s);
    }
    if KEYWORDS.contains(&s) {
        format!("{}_", s)
    } else if s == "_" {
        "_".to_string()
    } else {
        s.to_string()
    }
}

#[derive(Clone)]
pub struct RegFn {
    pub idx: usize,
    pub lean: String,
    pub fuel: bool,
    pub is_extern: bool,
}

/// registered structs / enums by Rust name; same-named items of different modules are told apart by
/// the module of the function being translated (`hint`)
#[derive(Default)]
pub struct AdtMap {
    map: HashMap<String, Vec<(String, String)>>,
    hint: std::cell::RefCell<String>,
}

impl AdtMap {
    pub fn insert(&mut self, rust_path: &str, lean: String) {
        self.map.entry(last_seg(rust_path)).or_default().push((rust_path.to_string(), lean));
    }
    pub fn set_hint(&self, module: &str) {
        *self.hint.borrow_mut() = module.to_string();
    }
    pub fn get(&self, name: &str) -> Option<&String> {
        let v = self.map.get(name)?;
        if v.len() == 1 {
            return Some(&v[0].1);
        }
        let h = self.hint.borrow();
        v.iter().max_by_key(|(p, _)| p.bytes().zip(h.bytes()).take_while(|(a, b)| a == b).count()).map(|x| &x.1)
    }
    pub fn contains_key(&self, name: &str) -> bool {
        self.map.contains_key(name)
    }
}

impl std::ops::Index<&String> for AdtMap {
    type Output = String;
    fn index(&self, k: &String) -> &String {
        self.get(k).expect("AdtMap index")
    }
}

#[derive(Default)]
pub struct Registry {
    pub fns: HashMap<usize, RegFn>,
    pub structs: AdtMap,
    pub enums: AdtMap,
    pub consts: HashMap<String, String>,
}

impl Registry {
    pub fn add(&mut self, idx: &Index, t: &Target) {
        match t.kind {
            TargetKind::Fn => {
                let c = idx.find_fn(&t.rust_path);
                if c.len() == 1 {
                    self.fns.insert(c[0], RegFn { idx: c[0], lean: t.lean_name.clone(), fuel: false, is_extern: false });
                }
            }
            TargetKind::Extern => {
                let c = idx.find_fn(&t.rust_path);
                if c.len() == 1 {
                    self.fns.insert(c[0], RegFn { idx: c[0], lean: t.lean_name.clone(), fuel: t.extern_fuel, is_extern: true });
                }
            }
            TargetKind::Struct => {
                self.structs.insert(&t.rust_path, t.lean_name.clone());
            }
            TargetKind::Enum => {
                self.enums.insert(&t.rust_path, t.lean_name.clone());
            }
            TargetKind::Const => {
                self.consts.insert(t.rust_path.clone(), t.lean_name.clone());
            }
        }
    }

    pub fn compute_fuel(&mut self, idx: &Index) {
        // direct loops
        let keys: Vec<usize> = self.fns.keys().copied().collect();
        for k in &keys {
            if self.fns[k].is_extern {
                continue;
            }
            let f = &idx.fns[*k];
            let mut v = LoopFinder { found: false };
            syn::visit::visit_block(&mut v, &f.block);
            self.fns.get_mut(k).unwrap().fuel = v.found;
        }
        // transitive through calls (by name resolution)
        loop {
            let mut changed = false;
            for k in &keys {
                if self.fns[k].fuel || self.fns[k].is_extern {
                    continue;
                }
                let f = &idx.fns[*k];
                let mut v = CallFinder { names: Vec::new() };
                syn::visit::visit_block(&mut v, &f.block);
                let mut need = false;
                for (ty, name) in v.names {
                    if ty.as_deref() == Some("?") {
                        // a method call: the receiver's type is not known here, so any registered method of that name counts
                        if let Some(cs) = idx.fn_by_name.get(&name) {
                            if cs.iter().any(|c| idx.fns[*c].self_ty.is_some() && self.fns.get(c).map(|r| r.fuel).unwrap_or(false)) {
                                need = true;
                            }
                        }
                        continue;
                    }
                    if let Some(c) = resolve_fn(idx, self, f, ty.as_deref(), &name, true) {
                        if self.fns[&c].fuel {
                            need = true;
                        }
                    }
                }
                if need {
                    self.fns.get_mut(k).unwrap().fuel = true;
                    changed = true;
                }
            }
            if !changed {
                break;
            }
        }
    }
}

fn last_seg(p: &str) -> String {
    p.rsplit("::").next().unwrap().to_string()
}

struct LoopFinder {
    found: bool,
}
impl<'ast> syn::visit::Visit<'ast> for LoopFinder {
    fn visit_expr_while(&mut self, _: &'ast syn::ExprWhile) {
        self.found = true;
    }
    fn visit_expr_loop(&mut self, _: &'ast syn::ExprLoop) {
        self.found = true;
    }
    fn visit_item(&mut self, _: &'ast syn::Item) {}
}

struct CallFinder {
    names: Vec<(Option<String>, String)>,
}
impl<'ast> syn::visit::Visit<'ast> for CallFinder {
    fn visit_expr_call(&mut self, c: &'ast syn::ExprCall) {
        if let Expr::Path(p) = &*c.func {
            let segs: Vec<String> = p.path.segments.iter().map(|s| s.ident.to_string()).collect();
            let name = segs.last().cloned().unwrap_or_default();
            let ty = if segs.len() >= 2 { Some(segs[segs.len() - 2].clone()) } else { None };
            self.names.push((ty, name));
        }
        syn::visit::visit_expr_call(self, c);
    }
    fn visit_expr_method_call(&mut self, c: &'ast syn::ExprMethodCall) {
        self.names.push((Some("?".to_string()), c.method.to_string()));
        syn::visit::visit_expr_method_call(self, c);
    }
    fn visit_item(&mut self, _: &'ast syn::Item) {}
}

/// resolve a called name to a registered function.
/// `ty`: the path segment before the name (a type for associated functions / `?` for a method call)
pub fn resolve_fn(idx: &Index, reg: &Registry, cur: &FnEntry, ty: Option<&str>, name: &str, lenient: bool) -> Option<usize> {
    resolve_fn_q(idx, reg, cur, ty, name, lenient, &[])
}

/// `quals`: the path segments before the name (module qualifiers); each one that is not a crate/self
/// keyword has to occur in the candidate's own path
pub fn resolve_fn_q(idx: &Index, reg: &Registry, cur: &FnEntry, ty: Option<&str>, name: &str, lenient: bool, quals: &[String]) -> Option<usize> {
    // an unqualified name that no function of the crates has, but that a renaming import of the calling function's
    // module introduces (`use crate::slice::eq_bytes as eq_slice_u8;`): the function at exactly the imported path
    if ty.is_none() && quals.is_empty() && !idx.fn_by_name.contains_key(name) {
        let full = idx.use_renames.get(&(cur.module.clone(), name.to_string()))?;
        let krate = cur.module.split("::").next().unwrap_or("");
        let mut segs: Vec<&str> = full.iter().map(|s| s.as_str()).collect();
        if segs.first() == Some(&"crate") {
            segs[0] = krate;
        }
        let path = segs.join("::");
        let hits: Vec<usize> = (0..idx.fns.len()).filter(|i| idx.fns[*i].path == path && idx.fns[*i].self_ty.is_none() && reg.fns.contains_key(i)).collect();
        return if hits.len() == 1 { Some(hits[0]) } else { None };
    }
    let cands: Vec<usize> = idx
        .fn_by_name
        .get(name)?
        .iter()
        .copied()
        .filter(|i| reg.fns.contains_key(i))
        .filter(|i| {
            let segs: Vec<&str> = idx.fns[*i].path.split("::").collect();
            quals.iter().all(|q| matches!(q.as_str(), "crate" | "self" | "super" | "Self" | "konst" | "konst_kernel" | "__" | "core" | "std") || segs.contains(&q.as_str()))
        })
        .collect();
    if cands.is_empty() {
        return None;
    }
    let self_name = cur.self_ty.clone();
    let filt: Vec<usize> = cands
        .iter()
        .copied()
        .filter(|i| {
            let f = &idx.fns[*i];
            match (ty, &f.self_ty) {
                (Some("?"), Some(_)) => true,
                (Some("?"), None) => false,
                (Some("Self"), Some(t)) => Some(t) == self_name.as_ref(),
                (Some(t), Some(ft)) => t == ft,
                (Some(_), None) => true, // module-qualified free function
                (None, None) => true,
                (None, Some(_)) => false,
            }
        })
        .collect();
    let filt = if filt.is_empty() && lenient { cands } else { filt };
    if filt.len() == 1 {
        return Some(filt[0]);
    }
    // nested in the current function
    let nested: Vec<usize> = filt.iter().copied().filter(|i| idx.fns[*i].path.starts_with(&format!("{}::", cur.path))).collect();
    if nested.len() == 1 {
        return Some(nested[0]);
    }
    // sibling nested function (same parent)
    if let Some((parent, _)) = cur.path.rsplit_once("::") {
        let sib: Vec<usize> = filt.iter().copied().filter(|i| idx.fns[*i].path.rsplit_once("::").map(|x| x.0) == Some(parent)).collect();
        if sib.len() == 1 {
            return Some(sib[0]);
        }
    }
    let same_mod: Vec<usize> = filt.iter().copied().filter(|i| idx.fns[*i].module == cur.module && idx.fns[*i].self_ty.is_none()).collect();
    if same_mod.len() == 1 {
        return Some(same_mod[0]);
    }
    None
}

// ---------------------------------------------------------------------------------------------

/// placeholder delimiters for type-dependent text, resolved after inference
const PH_L: char = '\u{1}';
const PH_R: char = '\u{2}';

struct Frame {
    label: Option<String>,
    /// loop: the state variables; block: empty
    state: Vec<String>,
    is_loop: bool,
    /// type of the value carried by `break` (Unit when none)
    val_ty: Ty,
    valued: bool,
    /// number of `break`s that target this frame
    breaks: usize,
    /// Lean text of the exit type ε *inside* this frame
    eps: String,
}

pub struct Out {
    pub pre: Vec<String>,
    pub term: String,
    pub ty: Ty,
    pub diverges: bool,
}

impl Out {
    fn pure(term: String, ty: Ty) -> Out {
        Out { pre: Vec::new(), term, ty, diverges: false }
    }
}

enum ArmBody<'a> {
    Expr(&'a Expr),
    BlockThenState(&'a Block),
    BreakLoop,
    OptElse(Option<&'a Expr>),
    Unit,
}

struct ArmSpec<'a> {
    pat: Option<&'a Pat>,
    guard: Option<&'a Expr>,
    body: ArmBody<'a>,
}

pub struct Tr<'a> {
    /// `let x: T;` variables that have not been assigned yet
    deferred: std::collections::HashSet<String>,
    /// per enclosing block: the names mentioned by the statements that follow the one being translated
    live_after: Vec<std::collections::HashSet<String>>,
    idx: &'a Index,
    reg: &'a Registry,
    cur: &'a FnEntry,
    sub: Subst,
    holes: Vec<Ty>,
    scopes: Vec<HashMap<String, Ty>>,
    frames: Vec<Frame>,
    ret_ty: Ty,
    tmp: usize,
    generics: Vec<String>,
    const_generics: Vec<String>,
    uses_fuel: bool,
    fuel_uses: usize,
    /// loop bodies hoisted into their own definitions (emitted before the function)
    hoisted: Vec<String>,
    loop_count: usize,
    lean_name: String,
    /// text of β per hoisted loop (referenced by the `beta` placeholder)
    betas: Vec<String>,
    /// `&mut [T]` parameters (read-only use is supported)
    mut_ref_params: Vec<String>,
    /// `let p = s.as_ptr();` — p stands for (slice term, slice type)
    ptr_alias: HashMap<String, (String, Ty, Option<String>)>,
    /// `let p = s.as_ptr() as *const [T; N];` — p -> N
    ptr_array_len: HashMap<String, String>,
    /// block-local identity type aliases `type A<T> = T;` (konst's `Type::<RSplit<..>> { .. }` idiom): `A::<X>` is `X`
    identity_aliases: Vec<String>,
    /// generic parameters bounded by `Pattern` / `BytesPattern`: modelled as the pattern's bytes
    pattern_generics: Vec<String>,
    /// generic parameters replaced by concrete types (witness-arm targets)
    type_subst: HashMap<String, Ty>,
    /// the function takes `&mut self`: it returns `(result, self)`
    mut_self: bool,
    /// functions that are parameters of the definition (`abstract=`): name -> (parameter types, return type)
    abstract_fns: HashMap<String, (Vec<Ty>, Ty)>,
    /// associated constants of a generic parameter (`T::MAX_VAL`) used by the body: parameters of the definition
    abstract_consts: Vec<(String, String)>,
}

fn ind(lines: Vec<String>, n: usize) -> Vec<String> {
    let p = " ".repeat(n);
    lines.into_iter().map(|l| format!("{}{}", p, l)).collect()
}

fn span_str(s: proc_macro2::Span) -> String {
    format!("line {}", s.start().line)
}

impl<'a> Tr<'a> {
    fn err<T>(&self, sp: proc_macro2::Span, msg: &str) -> R<T> {
        Err(format!("{} ({})", msg, span_str(sp)))
    }

    fn fresh(&mut self, base: &str) -> String {
        self.tmp += 1;
        format!("{}{}_", base, self.tmp)
    }

    fn hole(&mut self, t: &Ty) -> usize {
        self.holes.push(t.clone());
        self.holes.len() - 1
    }

    fn ph(&mut self, kind: &str, tys: &[&Ty]) -> String {
        let ids: Vec<String> = tys.iter().map(|t| self.hole(t).to_string()).collect();
        format!("{}{}:{}{}", PH_L, kind, ids.join(","), PH_R)
    }

    fn lookup(&self, name: &str) -> Option<Ty> {
        for s in self.scopes.iter().rev() {
            if let Some(t) = s.get(name) {
                return Some(t.clone());
            }
        }
        None
    }

    fn declare(&mut self, name: &str, ty: Ty) {
        self.scopes.last_mut().unwrap().insert(name.to_string(), ty);
    }

    fn unify(&mut self, a: &Ty, b: &Ty, sp: proc_macro2::Span) -> R<()> {
        self.sub.unify(a, b).map_err(|e| format!("{} ({})", e, span_str(sp)))
    }

    // ---------------------------------------------------------------- types

    pub fn conv_ty(&mut self, t: &syn::Type) -> Ty {
        match t {
            syn::Type::Reference(r) => self.conv_ty(&r.elem),
            syn::Type::Paren(p) => self.conv_ty(&p.elem),
            syn::Type::Group(p) => self.conv_ty(&p.elem),
            syn::Type::Slice(s) => Ty::Slice(Box::new(self.conv_ty(&s.elem))),
            syn::Type::Array(s) => Ty::Slice(Box::new(self.conv_ty(&s.elem))),
            syn::Type::Ptr(p) => Ty::Ptr(Box::new(self.conv_ty(&p.elem))),
            syn::Type::Never(_) => Ty::Never,
            syn::Type::Infer(_) => self.sub.fresh(),
            syn::Type::Tuple(tt) => {
                if tt.elems.is_empty() {
                    Ty::Unit
                } else {
                    Ty::Tuple(tt.elems.iter().map(|e| self.conv_ty(e)).collect())
                }
            }
            syn::Type::Path(p) => {
                let seg = match p.path.segments.last() {
                    Some(s) => s,
                    None => return Ty::Opaque("?".into()),
                };
                let name = seg.ident.to_string();
                if let Some(it) = IntTy::parse(&name) {
                    return Ty::Int(it);
                }
                let targs: Vec<&syn::Type> = match &seg.arguments {
                    syn::PathArguments::AngleBracketed(a) => a
                        .args
                        .iter()
                        .filter_map(|x| if let syn::GenericArgument::Type(t) = x { Some(t) } else { None })
                        .collect(),
                    _ => Vec::new(),
                };
                match name.as_str() {
                    "bool" => Ty::Bool,
                    "char" => Ty::Char,
                    "str" => Ty::Str,
                    "Ordering" => Ty::Ordering,
                    "Option" if targs.len() == 1 => Ty::Option(Box::new(self.conv_ty(targs[0]))),
                    "Result" if targs.len() == 2 => Ty::Result(Box::new(self.conv_ty(targs[0])), Box::new(self.conv_ty(targs[1]))),
                    n if is_transparent_newtype(n) && targs.len() == 1 => Ty::Adt(n.to_string(), vec![self.conv_ty(targs[0])]),
                    "Self" if self.cur.self_syn.is_some() => {
                        let t = self.cur.self_syn.clone().unwrap();
                        self.conv_ty(&t)
                    }
                    "Self" => match &self.cur.self_ty {
                        Some(t) => {
                            let t = t.clone();
                            let args = self.default_adt_args(&t);
                            Ty::Adt(t, args)
                        }
                        None => Ty::Opaque("Self".into()),
                    },
                    "ManuallyDrop" if targs.len() == 1 => self.conv_ty(targs[0]),
                    // an uninitialised slot is `none`
                    "MaybeUninit" if targs.len() == 1 => Ty::Option(Box::new(self.conv_ty(targs[0]))),
                    "PhantomData" => Ty::Unit,
                    // `core::marker::PhantomPinned`: a unit struct (one value)
                    "PhantomPinned" if !self.reg.structs.contains_key("PhantomPinned") => Ty::Unit,
                    // `core::ops::Range<T> { pub start: T, pub end: T }` is the pair `(start, end)`;
                    // `core::ops::RangeInclusive<T> { start: T, end: T, exhausted: bool }` (private fields, read through
                    // `start()` / `end()`) is the triple `(start, end, exhausted)` — the shapes of `Model/Cmp.lean`
                    "Range" if targs.len() == 1 && !self.reg.structs.contains_key("Range") => {
                        let t = self.conv_ty(targs[0]);
                        Ty::Tuple(vec![t.clone(), t])
                    }
                    "RangeInclusive" if targs.len() == 1 && !self.reg.structs.contains_key("RangeInclusive") => {
                        let t = self.conv_ty(targs[0]);
                        Ty::Tuple(vec![t.clone(), t, Ty::Bool])
                    }
                    // a CStr is modelled as its bytes including the terminating nul
                    "CStr" => Ty::Slice(Box::new(Ty::Int(IntTy::U8))),
                    "PatternNorm" => Ty::Slice(Box::new(Ty::Int(IntTy::U8))),
                    // core::num::NonZeroU8 …: the integer value (see `nonzero_int`), unless the crate declares such a type itself
                    n if nonzero_int(n).is_some() && targs.is_empty() && !self.reg.structs.contains_key(n) && !self.reg.enums.contains_key(n) => {
                        Ty::Adt("NonZero".into(), vec![Ty::Int(nonzero_int(n).unwrap())])
                    }
                    _ => {
                        if let Some(t) = self.type_subst.get(&name) {
                            return t.clone();
                        }
                        if self.pattern_generics.contains(&name) {
                            Ty::Slice(Box::new(Ty::Int(IntTy::U8)))
                        } else if self.generics.contains(&name) {
                            Ty::Param(name)
                        } else if self.reg.structs.contains_key(&name) || self.reg.enums.contains_key(&name) {
                            {
                                let n_params = self.adt_type_params(&name).len();
                                // `ArrayConsumer<U, N>`: a const argument that is a plain name parses as a type; the type
                                // arguments come first
                                let n_consts = self.adt_const_params(&name);
                                let targs: Vec<&syn::Type> = if targs.len() == n_params + n_consts { targs[..n_params].to_vec() } else { targs };
                                let explicit: Vec<Ty> = targs.iter().map(|a| self.conv_ty(a)).collect();
                                let args = if !explicit.is_empty() && explicit.len() == n_params { explicit } else { self.default_adt_args(&name) };
                                Ty::Adt(name, args)
                            }
                        } else if let Some(al) = self.idx.find_alias(&name, &self.cur.module) {
                            // type alias: substitute its generic type parameters
                            let al = al.clone();
                            let params: Vec<String> = al.generics.type_params().map(|p| p.ident.to_string()).collect();
                            let mut map: HashMap<String, Ty> = HashMap::new();
                            for (i, tp) in al.generics.type_params().enumerate() {
                                let ta = if i < targs.len() {
                                    self.conv_ty(targs[i])
                                } else if let Some(d) = &tp.default {
                                    self.conv_ty(d)
                                } else {
                                    self.sub.fresh()
                                };
                                map.insert(tp.ident.to_string(), ta);
                            }
                            let saved = std::mem::take(&mut self.generics);
                            self.generics = params.clone();
                            let body = self.conv_ty(&al.ty);
                            self.generics = saved;
                            subst_params(&body, &map)
                        } else {
                            Ty::Opaque(name)
                        }
                    }
                }
            }
            _ => Ty::Opaque("?".into()),
        }
    }

    /// canonical text of a type (as `index::spec_key_syn` prints the type arguments of specialised impls)
    pub fn spec_key(&self, t: &Ty) -> String {
        match self.sub.resolve(t) {
            Ty::Int(i) => format!("{}", Ty::Int(i)),
            Ty::Bool => "bool".into(),
            Ty::Char => "char".into(),
            Ty::Str => "str".into(),
            Ty::Ordering => "Ordering".into(),
            Ty::Slice(e) => format!("[{}]", self.spec_key(&e)),
            Ty::Option(e) => format!("Option<{}>", self.spec_key(&e)),
            Ty::Adt(n, a) if !a.is_empty() => format!("{}<{}>", n, a.iter().map(|x| self.spec_key(x)).collect::<Vec<_>>().join(",")),
            Ty::Adt(n, _) => n,
            other => format!("{}", other),
        }
    }

    /// names of the type parameters of a struct / enum (without the pattern-bound ones)
    pub fn adt_type_params(&self, name: &str) -> Vec<String> {
        let gens: Option<&syn::Generics> = self.idx.find_struct(name, &self.cur.module).map(|s| &s.generics).or_else(|| self.idx.find_enum(name, &self.cur.module).map(|e| &e.generics));
        match gens {
            Some(g) => {
                let pats = pattern_generics(g);
                g.type_params().map(|p| p.ident.to_string()).filter(|p| !pats.contains(p)).collect()
            }
            None => Vec::new(),
        }
    }

    /// number of const parameters of a struct / enum
    pub fn adt_const_params(&self, name: &str) -> usize {
        let gens: Option<&syn::Generics> = self.idx.find_struct(name, &self.cur.module).map(|s| &s.generics).or_else(|| self.idx.find_enum(name, &self.cur.module).map(|e| &e.generics));
        gens.map(|g| g.const_params().count()).unwrap_or(0)
    }

    /// type arguments of an ADT named without explicit arguments: the same-named parameters in scope, else unknown
    pub fn default_adt_args(&mut self, name: &str) -> Vec<Ty> {
        let ps = self.adt_type_params(name);
        ps.into_iter()
            .map(|p| {
                if let Some(t) = self.type_subst.get(&p) {
                    t.clone()
                } else if self.generics.contains(&p) {
                    Ty::Param(p)
                } else {
                    self.sub.fresh()
                }
            })
            .collect()
    }

    /// substitution of an ADT's own type parameters by the arguments of a value of that type
    pub fn adt_subst(&self, name: &str, args: &[Ty]) -> HashMap<String, Ty> {
        let ps = self.adt_type_params(name);
        let mut m = HashMap::new();
        if ps.len() == args.len() {
            for (p, a) in ps.into_iter().zip(args.iter()) {
                m.insert(p, a.clone());
            }
        }
        m
    }

    fn lean_ty(&self, t: &Ty) -> R<String> {
        let t = self.sub.resolve(t);
        Ok(match &t {
            Ty::Int(i) => (if i.signed { "Int" } else { "Nat" }).to_string(),
            Ty::Bool => "Bool".into(),
            Ty::Char => "Nat".into(),
            Ty::Str => "(List Nat)".into(),
            Ty::Unit => "Unit".into(),
            Ty::Never => "Empty".into(),
            Ty::Slice(e) => format!("(List {})", self.lean_ty(e)?),
            Ty::Tuple(ts) => {
                let v: R<Vec<String>> = ts.iter().map(|x| self.lean_ty(x)).collect();
                format!("({})", v?.join(" × "))
            }
            Ty::Option(e) => format!("(Option {})", self.lean_ty(e)?),
            Ty::Result(a, b) => format!("(Except {} {})", self.lean_ty(b)?, self.lean_ty(a)?),
            // `CmpWrapper<T>(pub T)` is read as its field; the marker value of the coercion idiom as `()`
            Ty::Adt(n, targs) if is_transparent_newtype(n) && targs.len() == 1 => self.lean_ty(&targs[0])?,
            Ty::Adt(n, _) if n == "IsAConstCmp" => "Unit".into(),
            // `NonZeroU8` …: its integer value
            Ty::Adt(n, targs) if is_nonzero(n, targs) => self.lean_ty(&targs[0])?,
            Ty::Adt(n, targs) => {
                let lean = self.reg.structs.get(n).or_else(|| self.reg.enums.get(n)).cloned().ok_or_else(|| format!("type `{}` is not a translation target", n))?;
                // generic structs/enums: instantiated with the parameters of the same name in scope
                let gens: Option<&syn::Generics> = self.idx.find_struct(n, &self.cur.module).map(|s| &s.generics).or_else(|| self.idx.find_enum(n, &self.cur.module).map(|e| &e.generics));
                let mut args = String::new();
                if let Some(g) = gens {
                    let pats = pattern_generics(g);
                    let mut k = 0;
                    for p in g.type_params() {
                        if pats.contains(&p.ident.to_string()) {
                            continue;
                        }
                        args.push(' ');
                        let known: Option<Ty> = targs.get(k).map(|t| self.sub.resolve(t));
                        k += 1;
                        match known {
                            // a type argument that is known and is not just the same-named parameter
                            Some(t) if !matches!(&t, Ty::Param(q) if *q == p.ident.to_string()) && !matches!(t, Ty::Var(_)) => args.push_str(&self.lean_ty(&t)?),
                            _ => match self.type_subst.get(&p.ident.to_string()) {
                                Some(t) => args.push_str(&self.lean_ty(t)?),
                                None => args.push_str(&p.ident.to_string()),
                            },
                        }
                    }
                    for p in g.const_params() {
                        args.push(' ');
                        args.push_str(&lean_ident(&p.ident.to_string()));
                    }
                }
                if args.is_empty() {
                    lean
                } else {
                    format!("({}{})", lean, args)
                }
            }
            Ty::Param(n) => n.clone(),
            Ty::Ordering => "Ordering".into(),
            Ty::Ptr(_) => return Err("raw pointer type outside a recognised from_raw_parts pattern".into()),
            Ty::Var(i) => {
                if self.sub.int_only[*i] {
                    // an integer literal whose type nothing constrains: Rust's default is i32
                    "Int".into()
                } else {
                    return Err(format!("type of an expression could not be inferred (?{})", i));
                }
            }
            Ty::Opaque(s) => return Err(format!("unsupported type `{}`", s)),
        })
    }

    /// the Rust type as text, with structs / enums under their Lean names (for signatures.json)
    pub fn ty_sig(&self, t: &Ty) -> String {
        match self.sub.resolve(t) {
            Ty::Adt(n, a) if is_transparent_newtype(&n) && a.len() == 1 => self.ty_sig(&a[0]),
            Ty::Adt(n, a) if is_nonzero(&n, &a) => format!("NonZero<{}>", self.ty_sig(&a[0])),
            Ty::Adt(n, _) => self.reg.structs.get(&n).or_else(|| self.reg.enums.get(&n)).cloned().unwrap_or(n),
            Ty::Slice(e) => format!("[{}]", self.ty_sig(&e)),
            Ty::Option(e) => format!("Option<{}>", self.ty_sig(&e)),
            Ty::Result(a, b) => format!("Result<{},{}>", self.ty_sig(&a), self.ty_sig(&b)),
            Ty::Tuple(ts) => format!("({})", ts.iter().map(|x| format!("{},", self.ty_sig(x))).collect::<String>()),
            other => format!("{}", other),
        }
    }

    fn int_ty(&self, t: &Ty) -> R<IntTy> {
        match self.sub.resolve(t) {
            Ty::Int(i) => Ok(i),
            Ty::Char => Ok(IntTy::U32),
            Ty::Var(i) if self.sub.int_only[i] => Ok(IntTy { bits: 32, signed: true, size: false }),
            other => Err(format!("expected an integer type, found {}", other)),
        }
    }

    /// resolve the placeholders of the finished text
    fn resolve_placeholders(&self, text: &str) -> R<String> {
        let mut out = String::new();
        let mut rest = text;
        while let Some(p) = rest.find(PH_L) {
            out.push_str(&rest[..p]);
            let q = rest[p..].find(PH_R).ok_or("unterminated placeholder")? + p;
            let body = &rest[p + PH_L.len_utf8()..q];
            let (kind, ids) = body.split_once(':').unwrap();
            let tys: Vec<Ty> = if kind == "beta" { Vec::new() } else { ids.split(',').filter(|s| !s.is_empty()).map(|s| self.holes[s.parse::<usize>().unwrap()].clone()).collect() };
            if kind == "beta" {
                let id: usize = ids.parse().unwrap();
                out.push_str(&self.resolve_placeholders(&self.betas[id])?);
            } else {
                out.push_str(&self.resolve_one(kind, &tys)?);
            }
            rest = &rest[q + PH_R.len_utf8()..];
        }
        out.push_str(rest);
        Ok(out)
    }

    fn resolve_one(&self, kind: &str, tys: &[Ty]) -> R<String> {
        let arith = |name: &str, t: &Ty| -> R<String> {
            let it = self.int_ty(t)?;
            Ok(format!("Rs.{}{} {}", if it.signed { "i" } else { "u" }, name, it.bits))
        };
        let camel = |name: &str, t: &Ty| -> R<String> {
            let it = self.int_ty(t)?;
            Ok(format!("Rs.{}{} {}", if it.signed { "i" } else { "u" }, name, it.bits))
        };
        match kind {
            "add" | "sub" | "mul" | "div" | "rem" | "shl" | "shr" | "neg" => arith(kind, &tys[0]),
            "OverflowingAdd" | "OverflowingSub" | "OverflowingMul" | "WrappingAdd" | "WrappingSub" | "WrappingMul" | "WrappingNeg"
            | "SaturatingSub" | "SaturatingAdd" | "CheckedAdd" | "CheckedSub" | "CheckedMul" => camel(kind, &tys[0]),
            "not" => match self.sub.resolve(&tys[0]) {
                Ty::Bool => Ok("!".into()),
                t => {
                    let it = self.int_ty(&t)?;
                    if it.signed {
                        return Err("bitwise not on a signed integer is not supported".into());
                    }
                    Ok(format!("Rs.unot {} ", it.bits))
                }
            },
            "and" | "or" | "xor" => match self.sub.resolve(&tys[0]) {
                Ty::Bool => Ok(match kind {
                    "and" => "&&",
                    "or" => "||",
                    _ => "!=",
                }
                .into()),
                t => {
                    let it = self.int_ty(&t)?;
                    if it.signed {
                        return Err("bitwise operator on a signed integer is not supported".into());
                    }
                    Ok(match kind {
                        "and" => "&&&",
                        "or" => "|||",
                        _ => "^^^",
                    }
                    .into())
                }
            },
            "lty" => self.lean_ty(&tys[0]),
            "lit" => {
                // type ascription of an integer literal
                match self.sub.resolve(&tys[0]) {
                    Ty::Char => Ok("Nat".into()),
                    t => {
                        let it = self.int_ty(&t)?;
                        Ok((if it.signed { "Int" } else { "Nat" }).into())
                    }
                }
            }
            "max" | "min" => {
                let it = self.int_ty(&tys[0])?;
                let v: i128 = if kind == "max" {
                    if it.signed {
                        if it.bits == 128 {
                            i128::MAX
                        } else {
                            (1i128 << (it.bits - 1)) - 1
                        }
                    } else if it.bits == 128 {
                        return Ok(format!("({} : Nat)", u128::MAX));
                    } else {
                        (1i128 << it.bits) - 1
                    }
                } else if it.signed {
                    if it.bits == 128 {
                        i128::MIN
                    } else {
                        -(1i128 << (it.bits - 1))
                    }
                } else {
                    0
                };
                Ok(format!("({} : {})", v, if it.signed { "Int" } else { "Nat" }))
            }
            "bits" => Ok(self.int_ty(&tys[0])?.bits.to_string()),
            "cast" => {
                let from = self.sub.resolve(&tys[0]);
                let to = self.sub.resolve(&tys[1]);
                match (&from, &to) {
                    (Ty::Bool, Ty::Int(t)) if !t.signed => Ok("Rs.boolToNat".into()),
                    (Ty::Bool, Ty::Int(_)) => Ok("Int.ofNat <| Rs.boolToNat".into()),
                    // `core::cmp::Ordering` is `#[repr(i8)] enum { Less = -1, Equal = 0, Greater = 1 }`: the cast to a signed
                    // integer type is the discriminant (it fits every signed width)
                    (Ty::Ordering, Ty::Int(t)) if t.signed => Ok("Rs.orderingToInt".into()),
                    (Ty::Char, Ty::Int(t)) if !t.signed && t.bits >= 32 => Ok("id".into()),
                    (Ty::Char, Ty::Int(t)) if !t.signed => Ok(format!("Rs.castUU {}", t.bits)),
                    (Ty::Int(f), Ty::Char) if !f.signed && f.bits == 8 => Ok("id".into()),
                    _ => {
                        let f = self.int_ty(&from)?;
                        let t = match &to {
                            Ty::Int(t) => *t,
                            _ => return Err(format!("unsupported cast {} as {}", from, to)),
                        };
                        Ok(match (f.signed, t.signed) {
                            (false, false) => {
                                if t.bits >= f.bits {
                                    "id".into()
                                } else {
                                    format!("Rs.castUU {}", t.bits)
                                }
                            }
                            (false, true) => {
                                if t.bits > f.bits {
                                    "Int.ofNat".into()
                                } else {
                                    format!("Rs.castUI {}", t.bits)
                                }
                            }
                            (true, false) => format!("Rs.castIU {}", t.bits),
                            (true, true) => {
                                if t.bits >= f.bits {
                                    "id".into()
                                } else {
                                    format!("Rs.castII {}", t.bits)
                                }
                            }
                        })
                    }
                }
            }
            _ => Err(format!("internal: unknown placeholder {}", kind)),
        }
    }
}

fn subst_params(t: &Ty, map: &HashMap<String, Ty>) -> Ty {
    match t {
        Ty::Param(n) => map.get(n).cloned().unwrap_or_else(|| t.clone()),
        Ty::Slice(e) => Ty::Slice(Box::new(subst_params(e, map))),
        Ty::Option(e) => Ty::Option(Box::new(subst_params(e, map))),
        Ty::Ptr(e) => Ty::Ptr(Box::new(subst_params(e, map))),
        Ty::Result(a, b) => Ty::Result(Box::new(subst_params(a, map)), Box::new(subst_params(b, map))),
        Ty::Tuple(ts) => Ty::Tuple(ts.iter().map(|x| subst_params(x, map)).collect()),
        Ty::Adt(n, args) => Ty::Adt(n.clone(), args.iter().map(|x| subst_params(x, map)).collect()),
        _ => t.clone(),
    }
}

include!("tr_expr.rs");
include!("tr_stmt.rs");
include!("tr_top.rs");
