//! Alpha-renaming pre-pass: the translation carries mutable state BY NAME (loop state tuples, join tuples), so a
//! binding that shadows a variable which is assigned somewhere in the function must get a fresh name — otherwise a
//! `break 'outer` from inside the shadowing scope would hand back the wrong variable. Bindings of names that are
//! never assigned keep their names (shadowing an immutable value is harmless and the generated text stays close to
//! the source).
use std::collections::{HashMap, HashSet};
use syn::visit_mut::{self, VisitMut};
use syn::{Block, Expr, Pat, Stmt};

pub struct Alpha {
    scopes: Vec<HashMap<String, String>>,
    assigned: HashSet<String>,
    counter: HashMap<String, usize>,
}

struct Assigned(HashSet<String>);
impl<'ast> syn::visit::Visit<'ast> for Assigned {
    fn visit_expr_assign(&mut self, a: &'ast syn::ExprAssign) {
        note(&a.left, &mut self.0);
        syn::visit::visit_expr_assign(self, a);
    }
    fn visit_expr_reference(&mut self, r: &'ast syn::ExprReference) {
        if r.mutability.is_some() {
            note(&r.expr, &mut self.0);
        }
        syn::visit::visit_expr_reference(self, r);
    }
    fn visit_expr_binary(&mut self, b: &'ast syn::ExprBinary) {
        use syn::BinOp::*;
        if matches!(
            b.op,
            AddAssign(_) | SubAssign(_) | MulAssign(_) | DivAssign(_) | RemAssign(_) | BitXorAssign(_) | BitAndAssign(_) | BitOrAssign(_) | ShlAssign(_) | ShrAssign(_)
        ) {
            note(&b.left, &mut self.0);
        }
        syn::visit::visit_expr_binary(self, b);
    }
    fn visit_item(&mut self, _: &'ast syn::Item) {}
}

fn note(e: &Expr, out: &mut HashSet<String>) {
    let mut cur = e;
    loop {
        match cur {
            Expr::Field(f) => cur = &f.base,
            Expr::Index(i) => cur = &i.expr,
            Expr::Paren(p) => cur = &p.expr,
            Expr::Unary(u) => cur = &u.expr,
            Expr::Path(p) => {
                if let Some(id) = p.path.get_ident() {
                    out.insert(id.to_string());
                }
                return;
            }
            _ => return,
        }
    }
}

impl Alpha {
    pub fn run(params: &[String], block: &mut Block) {
        let mut a = Assigned(HashSet::new());
        syn::visit::Visit::visit_block(&mut a, block);
        let mut al = Alpha { scopes: vec![HashMap::new()], assigned: a.0, counter: HashMap::new() };
        for p in params {
            al.scopes[0].insert(p.clone(), p.clone());
        }
        al.visit_block_mut(block);
    }

    fn lookup(&self, n: &str) -> Option<String> {
        for s in self.scopes.iter().rev() {
            if let Some(a) = s.get(n) {
                return Some(a.clone());
            }
        }
        None
    }

    fn declare_pat(&mut self, p: &mut Pat) {
        struct D<'a>(&'a mut Alpha);
        impl<'a> VisitMut for D<'a> {
            fn visit_pat_ident_mut(&mut self, pi: &mut syn::PatIdent) {
                let name = pi.ident.to_string();
                // constants / unit variants parse as identifier patterns: leave them alone
                let is_binding = name.chars().next().map(|c| c.is_lowercase() || c == '_').unwrap_or(false);
                if is_binding {
                    let visible = self.0.lookup(&name).is_some();
                    let alias = if visible && self.0.assigned.contains(&name) {
                        let c = self.0.counter.entry(name.clone()).or_insert(0);
                        *c += 1;
                        format!("{}__{}", name, c)
                    } else {
                        name.clone()
                    };
                    self.0.scopes.last_mut().unwrap().insert(name, alias.clone());
                    pi.ident = syn::Ident::new(&alias, pi.ident.span());
                }
                if let Some((_, sp)) = &mut pi.subpat {
                    self.visit_pat_mut(sp);
                }
            }
            fn visit_expr_mut(&mut self, e: &mut Expr) {
                // range / literal / constant sub-patterns: uses, not declarations
                self.0.visit_expr_mut(e);
            }
        }
        D(self).visit_pat_mut(p);
    }
}

impl VisitMut for Alpha {
    fn visit_block_mut(&mut self, b: &mut Block) {
        self.scopes.push(HashMap::new());
        for s in &mut b.stmts {
            match s {
                Stmt::Local(l) => {
                    if let Some(init) = &mut l.init {
                        self.visit_expr_mut(&mut init.expr);
                        if let Some((_, d)) = &mut init.diverge {
                            self.visit_expr_mut(d);
                        }
                    }
                    self.declare_pat(&mut l.pat);
                }
                Stmt::Expr(e, _) => self.visit_expr_mut(e),
                Stmt::Item(_) | Stmt::Macro(_) => {}
            }
        }
        self.scopes.pop();
    }

    fn visit_expr_mut(&mut self, e: &mut Expr) {
        match e {
            Expr::Path(p) => {
                if p.qself.is_none() {
                    if let Some(id) = p.path.get_ident() {
                        if let Some(alias) = self.lookup(&id.to_string()) {
                            if alias != id.to_string() {
                                let span = id.span();
                                p.path.segments[0].ident = syn::Ident::new(&alias, span);
                            }
                        }
                    }
                }
            }
            Expr::Match(m) => {
                self.visit_expr_mut(&mut m.expr);
                for arm in &mut m.arms {
                    self.scopes.push(HashMap::new());
                    self.declare_pat(&mut arm.pat);
                    if let Some((_, g)) = &mut arm.guard {
                        self.visit_expr_mut(g);
                    }
                    self.visit_expr_mut(&mut arm.body);
                    self.scopes.pop();
                }
            }
            Expr::If(i) => {
                self.scopes.push(HashMap::new());
                if let Expr::Let(l) = &mut *i.cond {
                    self.visit_expr_mut(&mut l.expr);
                    self.declare_pat(&mut l.pat);
                } else {
                    self.visit_expr_mut(&mut i.cond);
                }
                self.visit_block_mut(&mut i.then_branch);
                self.scopes.pop();
                if let Some((_, eb)) = &mut i.else_branch {
                    self.visit_expr_mut(eb);
                }
            }
            Expr::While(w) => {
                self.scopes.push(HashMap::new());
                if let Expr::Let(l) = &mut *w.cond {
                    self.visit_expr_mut(&mut l.expr);
                    self.declare_pat(&mut l.pat);
                } else {
                    self.visit_expr_mut(&mut w.cond);
                }
                self.visit_block_mut(&mut w.body);
                self.scopes.pop();
            }
            Expr::Closure(c) => {
                self.scopes.push(HashMap::new());
                for p in &mut c.inputs {
                    self.declare_pat(p);
                }
                self.visit_expr_mut(&mut c.body);
                self.scopes.pop();
            }
            Expr::Struct(s) => {
                // shorthand `S { x }` must keep the field name: expand to `x: alias`
                for f in &mut s.fields {
                    if f.colon_token.is_none() {
                        f.colon_token = Some(Default::default());
                    }
                    self.visit_expr_mut(&mut f.expr);
                }
                if let Some(r) = &mut s.rest {
                    self.visit_expr_mut(r);
                }
            }
            other => visit_mut::visit_expr_mut(self, other),
        }
    }

    fn visit_item_mut(&mut self, _: &mut syn::Item) {}
}
