//! Index of the items of a macro-expanded crate: functions (free, nested, inherent methods),
//! structs, enums, constants — by full path and by bare name.
use std::collections::HashMap;
use syn::{ImplItem, Item, ItemEnum, ItemFn, ItemStruct, Stmt};

#[derive(Clone)]
pub struct FnEntry {
    /// full path, e.g. `konst::slice::slice_const_methods::__bytes_find` or `…::cmp_bytes::cmp_inner`
    pub path: String,
    /// `Some("Parser")` for an inherent method
    pub self_ty: Option<String>,
    pub sig: syn::Signature,
    pub block: syn::Block,
    pub module: String,
    /// generics of the enclosing `impl` block
    pub impl_generics: Option<syn::Generics>,
    /// the `impl` block's self type, for the impls that are told apart by their type arguments (`CmpWrapper<u32>`)
    pub self_syn: Option<syn::Type>,
}

#[derive(Clone)]
pub struct ConstEntry {
    pub path: String,
    pub self_ty: Option<String>,
    pub ty: syn::Type,
    pub expr: syn::Expr,
    pub module: String,
}

#[derive(Default)]
pub struct Index {
    pub fns: Vec<FnEntry>,
    pub structs: Vec<(String, ItemStruct)>,
    pub enums: Vec<(String, ItemEnum)>,
    pub consts: Vec<ConstEntry>,
    pub aliases: Vec<(String, syn::ItemType)>,
    pub fn_by_name: HashMap<String, Vec<usize>>,
    /// `use a::b::c as d;` items: (module of the `use`, `d`) -> [`a`, `b`, `c`] (renaming imports only)
    pub use_renames: HashMap<(String, String), Vec<String>>,
    cur_self_syn: Option<syn::Type>,
}

fn type_name(t: &syn::Type) -> String {
    match t {
        syn::Type::Path(p) => p.path.segments.last().map(|s| s.ident.to_string()).unwrap_or_default(),
        syn::Type::Reference(r) => type_name(&r.elem),
        syn::Type::Paren(p) => type_name(&p.elem),
        syn::Type::Group(p) => type_name(&p.elem),
        syn::Type::Slice(_) => "[]".to_string(),
        syn::Type::Array(_) => "[;]".to_string(),
        _ => "?".to_string(),
    }
}

/// canonical text of a type argument (references and lifetimes dropped): `u32`, `[u8]`, `Option<[u8]>`, `str`
pub fn spec_key_syn(t: &syn::Type) -> String {
    match t {
        // `&str` and `&[T]` are the value types `str` / `[T]` of the embedding; a reference to a sized type keeps its `&`
        // (`__ElemDispatch<char>` and `__ElemDispatch<&char>` are different impls)
        syn::Type::Reference(r) => {
            let inner = spec_key_syn(&r.elem);
            let unsized_elem = match &*r.elem {
                syn::Type::Slice(_) => true,
                syn::Type::Path(p) => p.path.is_ident("str"),
                _ => false,
            };
            if unsized_elem {
                inner
            } else {
                format!("&{}", inner)
            }
        }
        syn::Type::Paren(p) => spec_key_syn(&p.elem),
        syn::Type::Group(p) => spec_key_syn(&p.elem),
        syn::Type::Slice(s) => format!("[{}]", spec_key_syn(&s.elem)),
        syn::Type::Path(p) => {
            let seg = match p.path.segments.last() {
                Some(s) => s,
                None => return "?".into(),
            };
            let mut out = seg.ident.to_string();
            if let syn::PathArguments::AngleBracketed(a) = &seg.arguments {
                let args: Vec<String> = a.args.iter().filter_map(|x| if let syn::GenericArgument::Type(t) = x { Some(spec_key_syn(t)) } else { None }).collect();
                if !args.is_empty() {
                    out = format!("{}<{}>", out, args.join(","));
                }
            }
            out
        }
        _ => "?".to_string(),
    }
}

/// impls of these types are told apart by their (concrete) type arguments
const SPECIALISED: &[&str] = &["CmpWrapper", "StdParser", "__ElemDispatch", "__MakeSepArg", "__NormalizeConcatArg"];

fn specialised_name(t: &syn::Type, g: &syn::Generics) -> Option<String> {
    let base = type_name(t);
    if !SPECIALISED.contains(&base.as_str()) {
        return None;
    }
    let key = spec_key_syn(t);
    if !key.contains('<') {
        return None;
    }
    // an argument that mentions a type parameter of the impl: the generic impl
    let params: Vec<String> = g.type_params().map(|p| p.ident.to_string()).collect();
    let words: Vec<&str> = key.split(|c: char| !(c.is_alphanumeric() || c == '_')).collect();
    if params.iter().any(|p| words.contains(&p.as_str())) {
        return None;
    }
    Some(key)
}

impl Index {
    pub fn add_file(&mut self, krate: &str, file: &syn::File) {
        self.walk_items(krate, &file.items);
    }

    fn walk_items(&mut self, module: &str, items: &[Item]) {
        for it in items {
            match it {
                Item::Mod(m) => {
                    if let Some((_, content)) = &m.content {
                        let sub = format!("{}::{}", module, m.ident);
                        self.walk_items(&sub, content);
                    }
                }
                Item::Fn(f) => self.add_fn(module, module, None, f, None),
                Item::Use(u) => self.walk_use(module, &mut Vec::new(), &u.tree),
                Item::Type(t) => self.aliases.push((format!("{}::{}", module, t.ident), t.clone())),
                Item::Struct(s) => self.structs.push((format!("{}::{}", module, s.ident), s.clone())),
                Item::Enum(e) => self.enums.push((format!("{}::{}", module, e.ident), e.clone())),
                Item::Const(c) => self.consts.push(ConstEntry {
                    path: format!("{}::{}", module, c.ident),
                    self_ty: None,
                    ty: (*c.ty).clone(),
                    expr: (*c.expr).clone(),
                    module: module.to_string(),
                }),
                Item::Impl(im) => {
                    if im.trait_.is_some() {
                        continue;
                    }
                    let spec = specialised_name(&im.self_ty, &im.generics);
                    let tn = spec.clone().unwrap_or_else(|| type_name(&im.self_ty));
                    self.cur_self_syn = if spec.is_some() { Some((*im.self_ty).clone()) } else { None };
                    for ii in &im.items {
                        match ii {
                            ImplItem::Fn(m) => {
                                let f = ItemFn {
                                    attrs: m.attrs.clone(),
                                    vis: m.vis.clone(),
                                    sig: m.sig.clone(),
                                    block: Box::new(m.block.clone()),
                                };
                                let p = format!("{}::{}", module, tn);
                                self.add_fn(module, &p, Some(tn.clone()), &f, Some(im.generics.clone()));
                            }
                            ImplItem::Const(c) => self.consts.push(ConstEntry {
                                path: format!("{}::{}::{}", module, tn, c.ident),
                                self_ty: Some(tn.clone()),
                                ty: c.ty.clone(),
                                expr: c.expr.clone(),
                                module: module.to_string(),
                            }),
                            _ => {}
                        }
                    }
                    self.cur_self_syn = None;
                }
                _ => {}
            }
        }
    }

    /// record the renaming imports `path as alias` of a `use` item (plain imports and globs need no record:
    /// calls are resolved by the item's own name)
    fn walk_use(&mut self, module: &str, prefix: &mut Vec<String>, t: &syn::UseTree) {
        match t {
            syn::UseTree::Path(p) => {
                prefix.push(p.ident.to_string());
                self.walk_use(module, prefix, &p.tree);
                prefix.pop();
            }
            syn::UseTree::Group(g) => {
                for it in &g.items {
                    self.walk_use(module, prefix, it);
                }
            }
            syn::UseTree::Rename(r) => {
                let mut full = prefix.clone();
                full.push(r.ident.to_string());
                self.use_renames.insert((module.to_string(), r.rename.to_string()), full);
            }
            _ => {}
        }
    }

    fn add_fn(&mut self, module: &str, prefix: &str, self_ty: Option<String>, f: &ItemFn, impl_generics: Option<syn::Generics>) {
        let path = format!("{}::{}", prefix, f.sig.ident);
        let idx = self.fns.len();
        let self_ty_is_some = self_ty.is_some();
        self.fns.push(FnEntry {
            path: path.clone(),
            self_ty,
            sig: f.sig.clone(),
            block: (*f.block).clone(),
            module: module.to_string(),
            impl_generics,
            self_syn: if self_ty_is_some { self.cur_self_syn.clone() } else { None },
        });
        self.fn_by_name.entry(f.sig.ident.to_string()).or_default().push(idx);
        // nested items inside the body
        self.walk_stmts(module, &path, &f.block.stmts);
    }

    fn walk_stmts(&mut self, module: &str, prefix: &str, stmts: &[Stmt]) {
        for s in stmts {
            if let Stmt::Item(Item::Fn(f)) = s {
                self.add_fn(module, prefix, None, f, None);
            }
            if let Stmt::Item(Item::Const(c)) = s {
                self.consts.push(ConstEntry {
                    path: format!("{}::{}", prefix, c.ident),
                    self_ty: None,
                    ty: (*c.ty).clone(),
                    expr: (*c.expr).clone(),
                    module: module.to_string(),
                });
            }
        }
    }

    /// find functions whose full path ends with `suffix` (segments)
    pub fn find_fn(&self, suffix: &str) -> Vec<usize> {
        let suf = format!("::{}", suffix);
        self.fns
            .iter()
            .enumerate()
            .filter(|(_, f)| f.path == suffix || f.path.ends_with(&suf))
            .map(|(i, _)| i)
            .collect()
    }

    pub fn find_struct(&self, name: &str, module_hint: &str) -> Option<&ItemStruct> {
        let cands: Vec<&(String, ItemStruct)> = self.structs.iter().filter(|(_, s)| s.ident == name).collect();
        pick(&cands, module_hint).map(|c| &c.1)
    }

    pub fn find_alias(&self, name: &str, module_hint: &str) -> Option<&syn::ItemType> {
        let cands: Vec<&(String, syn::ItemType)> = self.aliases.iter().filter(|(_, s)| s.ident == name).collect();
        pick(&cands, module_hint).map(|c| &c.1)
    }

    pub fn find_enum(&self, name: &str, module_hint: &str) -> Option<&ItemEnum> {
        let cands: Vec<&(String, ItemEnum)> = self.enums.iter().filter(|(_, s)| s.ident == name).collect();
        pick(&cands, module_hint).map(|c| &c.1)
    }

    pub fn find_const(&self, ty: Option<&str>, name: &str, module_hint: &str) -> Option<&ConstEntry> {
        let cands: Vec<&ConstEntry> = self
            .consts
            .iter()
            .filter(|c| c.path.ends_with(&format!("::{}", name)) && c.self_ty.as_deref() == ty)
            .collect();
        if cands.len() == 1 {
            return Some(cands[0]);
        }
        let same: Vec<&&ConstEntry> = cands.iter().filter(|c| c.module == module_hint).collect();
        if same.len() == 1 {
            return Some(same[0]);
        }
        // nested const inside the current function: longest common prefix
        cands.into_iter().max_by_key(|c| common_prefix(&c.path, module_hint))
    }
}

fn common_prefix(a: &str, b: &str) -> usize {
    a.bytes().zip(b.bytes()).take_while(|(x, y)| x == y).count()
}

fn pick<'a, T>(cands: &[&'a (String, T)], module_hint: &str) -> Option<&'a (String, T)> {
    if cands.is_empty() {
        return None;
    }
    if cands.len() == 1 {
        return Some(cands[0]);
    }
    cands.iter().max_by_key(|c| common_prefix(&c.0, module_hint)).copied()
}
