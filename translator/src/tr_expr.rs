// expressions (included into tr.rs)

fn path_segs(p: &syn::Path) -> Vec<String> {
    p.segments.iter().map(|s| s.ident.to_string()).collect()
}

fn lit_int_value(l: &syn::LitInt) -> R<u128> {
    l.base10_parse::<u128>().map_err(|e| e.to_string())
}

fn peel(e: &Expr) -> &Expr {
    match e {
        Expr::Paren(p) => peel(&p.expr),
        Expr::Group(p) => peel(&p.expr),
        Expr::Reference(r) => peel(&r.expr),
        Expr::Unary(u) if matches!(u.op, UnOp::Deref(_)) => peel(&u.expr),
        _ => e,
    }
}

impl<'a> Tr<'a> {
    /// translate an expression whose value is needed as a pure term (after the `pre` lines)
    fn expr(&mut self, e: &Expr, expect: Option<&Ty>) -> R<Out> {
        let o = self.expr_inner(e, expect)?;
        if let Some(t) = expect {
            if !o.diverges {
                self.unify(&o.ty, t, e.span())?;
            }
        }
        Ok(o)
    }

    fn tuple_proj(n: usize, k: usize) -> String {
        // Lean tuples are right-nested pairs
        let mut s = String::new();
        for _ in 0..k {
            s.push_str(".2");
        }
        if k < n - 1 {
            s.push_str(".1");
        }
        s
    }

    fn expr_inner(&mut self, e: &Expr, expect: Option<&Ty>) -> R<Out> {
        match e {
            Expr::Paren(p) => self.expr_inner(&p.expr, expect),
            Expr::Group(p) => self.expr_inner(&p.expr, expect),
            Expr::Reference(r) => self.expr_inner(&r.expr, expect),
            Expr::Unary(u) => match u.op {
                UnOp::Deref(_) => {
                    // `*p.add(i)` / `*p.offset(i)` with `p` a pointer into a slice: a read at that index, undefined
                    // behaviour outside the slice
                    if let Expr::MethodCall(mc) = peel_paren(&u.expr) {
                        if mc.method == "add" || mc.method == "offset" {
                            if let Some((s, Some(off))) = self.ptr_pattern(&u.expr)? {
                                let et = match self.sub.shallow(&s.ty) {
                                    Ty::Slice(e) => (*e).clone(),
                                    Ty::Str => Ty::Int(IntTy::U8),
                                    _ => return self.err(e.span(), "pointer read from something that is not a slice"),
                                };
                                let t = self.fresh("t");
                                let mut pre = s.pre;
                                pre.extend(off.pre);
                                pre.push(format!("let {} ← Rs.ptrRead {} {}", t, s.term, off.term));
                                return Ok(Out { pre, term: t, ty: et, diverges: false });
                            }
                        }
                    }
                    self.expr_inner(&u.expr, expect)
                }
                UnOp::Not(_) => {
                    let a = self.expr(&u.expr, expect)?;
                    if a.diverges {
                        return Ok(a);
                    }
                    let op = self.ph("not", &[&a.ty]);
                    Ok(Out { pre: a.pre, term: format!("({}{})", op, a.term), ty: a.ty, diverges: false })
                }
                UnOp::Neg(_) => {
                    if let Expr::Lit(l) = peel(&u.expr) {
                        if let Lit::Int(li) = &l.lit {
                            let v = lit_int_value(li)?;
                            let ty = match IntTy::parse(li.suffix()) {
                                Some(t) => Ty::Int(t),
                                None => match expect {
                                    Some(t) => t.clone(),
                                    None => self.sub.fresh_int(),
                                },
                            };
                            return Ok(Out::pure(format!("(-{} : Int)", v), ty));
                        }
                    }
                    let a = self.expr(&u.expr, expect)?;
                    let op = self.ph("neg", &[&a.ty]);
                    let t = self.fresh("t");
                    let mut pre = a.pre;
                    pre.push(format!("let {} ← {} {}", t, op, a.term));
                    Ok(Out { pre, term: t, ty: a.ty, diverges: false })
                }
                _ => self.err(e.span(), "unsupported unary operator"),
            },
            Expr::Lit(l) => self.lit(&l.lit, expect, e.span()),
            Expr::Path(p) => self.path_expr(p, expect),
            Expr::Binary(b) => self.binary(b, expect),
            Expr::Cast(c) => {
                let a = self.expr(&c.expr, None)?;
                let to = self.conv_ty(&c.ty);
                let op = self.ph("cast", &[&a.ty, &to]);
                Ok(Out { pre: a.pre, term: format!("({} {})", op, a.term), ty: to, diverges: false })
            }
            Expr::Tuple(t) => {
                if t.elems.is_empty() {
                    return Ok(Out::pure("()".into(), Ty::Unit));
                }
                let exp: Option<Vec<Ty>> = match expect.map(|t| self.sub.shallow(t)) {
                    Some(Ty::Tuple(ts)) if ts.len() == t.elems.len() => Some(ts),
                    _ => None,
                };
                let mut pre = Vec::new();
                let mut terms = Vec::new();
                let mut tys = Vec::new();
                for (i, el) in t.elems.iter().enumerate() {
                    let o = self.expr(el, exp.as_ref().map(|v| &v[i]))?;
                    if o.diverges {
                        return self.err(el.span(), "diverging expression inside a tuple");
                    }
                    pre.extend(o.pre);
                    terms.push(o.term);
                    tys.push(o.ty);
                }
                Ok(Out { pre, term: format!("({})", terms.join(", ")), ty: Ty::Tuple(tys), diverges: false })
            }
            Expr::Array(a) => {
                let et = match expect.map(|t| self.sub.shallow(t)) {
                    Some(Ty::Slice(e)) => *e,
                    _ => self.sub.fresh(),
                };
                let mut pre = Vec::new();
                let mut terms = Vec::new();
                for el in &a.elems {
                    let o = self.expr(el, Some(&et))?;
                    pre.extend(o.pre);
                    terms.push(o.term);
                }
                Ok(Out { pre, term: format!("[{}]", terms.join(", ")), ty: Ty::Slice(Box::new(et)), diverges: false })
            }
            Expr::Repeat(r) => {
                let et = match expect.map(|t| self.sub.shallow(t)) {
                    Some(Ty::Slice(e)) => *e,
                    _ => self.sub.fresh(),
                };
                let v = self.expr(&r.expr, Some(&et))?;
                let n = self.expr(&r.len, Some(&Ty::Int(IntTy::USIZE)))?;
                let mut pre = v.pre;
                pre.extend(n.pre);
                Ok(Out { pre, term: format!("(Rs.repeatN {} {})", v.term, n.term), ty: Ty::Slice(Box::new(et)), diverges: false })
            }
            Expr::Index(ix) => {
                let a = self.expr(&ix.expr, None)?;
                let i = self.expr(&ix.index, Some(&Ty::Int(IntTy::USIZE)))?;
                let et = match self.sub.shallow(&a.ty) {
                    Ty::Slice(e) => *e,
                    Ty::Str => Ty::Int(IntTy::U8),
                    other => return self.err(e.span(), &format!("indexing into {}", other)),
                };
                let t = self.fresh("t");
                let mut pre = a.pre;
                pre.extend(i.pre);
                pre.push(format!("let {} ← Rs.index {} {}", t, a.term, i.term));
                Ok(Out { pre, term: t, ty: et, diverges: false })
            }
            Expr::Field(f) => {
                // `Dereference { ptr }.reff` with `ptr = s.as_ptr() as *const [T; N]`: the first N elements as an array
                if let (Expr::Struct(st), syn::Member::Named(mem)) = (peel(&f.base), &f.member) {
                    if (mem == "reff" || mem == "mutt") && st.path.segments.last().map(|s| s.ident == "Dereference").unwrap_or(false) && st.fields.len() == 1 {
                        if let Expr::Path(pp) = peel(&st.fields[0].expr) {
                            if let Some(id) = pp.path.get_ident() {
                                let name = id.to_string();
                                if let (Some((term, ty, None)), Some(n)) = (self.ptr_alias.get(&name).cloned(), self.ptr_array_len.get(&name).cloned()) {
                                    let t = self.fresh("t");
                                    let pre = vec![format!("let {} ← Rs.rawParts {} 0 {}", t, term, n)];
                                    return Ok(Out { pre, term: t, ty, diverges: false });
                                }
                            }
                        }
                        return self.err(e.span(), "unrecognised Dereference { ptr } use");
                    }
                }
                // `Transmuter::<[MaybeUninit<T>; N], [T; N]> { from: ManuallyDrop::new(md) }.to`: the union read that
                // reinterprets an array of slots as an array of values
                if let (Expr::Struct(st), syn::Member::Named(mn)) = (peel(&f.base), &f.member) {
                    let is_tm = st.path.segments.last().map(|x| x.ident == "Transmuter").unwrap_or(false);
                    if is_tm && mn == "to" && st.fields.len() == 1 {
                        let x = self.expr(&st.fields[0].expr, None)?;
                        if let Ty::Slice(e) = self.sub.shallow(&x.ty) {
                            if let Ty::Option(inner) = self.sub.shallow(&e) {
                                if self.const_generics.len() == 1 {
                                    let t = self.fresh("t");
                                    let mut pre = x.pre;
                                    pre.push(format!("let {} ← Rs.assumeInitArray {} {}", t, x.term, lean_ident(&self.const_generics[0])));
                                    return Ok(Out { pre, term: t, ty: Ty::Slice(inner), diverges: false });
                                }
                            }
                        }
                        return self.err(e.span(), "unrecognised Transmuter use");
                    }
                }
                let a = self.expr(&f.base, None)?;
                let bt = self.sub.shallow(&a.ty);
                match (&f.member, &bt) {
                    (syn::Member::Unnamed(ix), Ty::Tuple(ts)) => {
                        let k = ix.index as usize;
                        Ok(Out { pre: a.pre, term: format!("{}{}", a.term, Self::tuple_proj(ts.len(), k)), ty: ts[k].clone(), diverges: false })
                    }
                    (syn::Member::Unnamed(ix), Ty::Adt(n, targs)) if is_transparent_newtype(n) && targs.len() == 1 && ix.index == 0 => {
                        Ok(Out { pre: a.pre, term: a.term, ty: targs[0].clone(), diverges: false })
                    }
                    // `range.start` / `range.end` of a `core::ops::Range<T>`, which `conv_ty` reads as the pair `(start, end)`
                    // (a Rust tuple has no named fields, so a named field of a pair is one of these two)
                    (syn::Member::Named(id), Ty::Tuple(ts)) if ts.len() == 2 && (id == "start" || id == "end") => {
                        let k = if id == "start" { 0 } else { 1 };
                        Ok(Out { pre: a.pre, term: format!("{}{}", a.term, Self::tuple_proj(2, k)), ty: ts[k].clone(), diverges: false })
                    }
                    (m, Ty::Adt(n, targs)) => {
                        let (fname, fty) = self.field_of(n, m, e.span())?;
                        let fty = subst_params(&fty, &self.adt_subst(n, targs));
                        Ok(Out { pre: a.pre, term: format!("{}.{}", a.term, fname), ty: fty, diverges: false })
                    }
                    _ => self.err(e.span(), &format!("field access on {}", bt)),
                }
            }
            Expr::Struct(s) => self.struct_lit(s),
            Expr::Call(c) => self.call(c, expect),
            Expr::MethodCall(m) => self.method_call(m, expect),
            Expr::Return(r) => {
                let rt = self.ret_ty.clone();
                let (pre, term) = match &r.expr {
                    Some(x) => {
                        let o = self.expr(x, Some(&rt))?;
                        if o.diverges {
                            return Ok(o);
                        }
                        (o.pre, o.term)
                    }
                    None => (Vec::new(), "()".to_string()),
                };
                let mut t = if self.mut_self { format!("({}, self)", term) } else { term };
                for _ in 0..self.frames.len() {
                    t = format!("(.out {})", t);
                }
                Ok(Out { pre, term: format!("Ctl.exit {}", if self.frames.is_empty() { format!("({})", t) } else { t }), ty: Ty::Never, diverges: true })
            }
            Expr::Break(b) => {
                let label = b.label.as_ref().map(|l| l.ident.to_string());
                let pos = self.find_frame(&label, false, e.span())?;
                self.frames[pos].breaks += 1;
                let depth = self.frames.len() - 1 - pos;
                let mut pre = Vec::new();
                let vterm = match &b.expr {
                    Some(x) => {
                        let vt = self.frames[pos].val_ty.clone();
                        self.frames[pos].valued = true;
                        let o = self.expr(x, Some(&vt))?;
                        if o.diverges {
                            return Ok(o);
                        }
                        pre = o.pre;
                        Some(o.term)
                    }
                    None => None,
                };
                let fr = &self.frames[pos];
                let st = state_tuple(&fr.state);
                let payload = if fr.is_loop {
                    match vterm {
                        Some(v) => format!("({}, {})", st, v),
                        None => {
                            if fr.valued {
                                return self.err(e.span(), "loop with both valued and valueless breaks");
                            }
                            st
                        }
                    }
                } else {
                    let v = vterm.unwrap_or_else(|| "()".to_string());
                    if fr.state.is_empty() {
                        v
                    } else {
                        format!("({}, {})", v, fr.state.iter().map(|x| lean_ident(x)).collect::<Vec<_>>().join(", "))
                    }
                };
                let mut t = format!("(.brk {})", payload);
                for _ in 0..depth {
                    t = format!("(.out {})", t);
                }
                Ok(Out { pre, term: format!("Ctl.exit {}", t), ty: Ty::Never, diverges: true })
            }
            Expr::Continue(c) => {
                let label = c.label.as_ref().map(|l| l.ident.to_string());
                let pos = self.find_frame(&label, true, e.span())?;
                let depth = self.frames.len() - 1 - pos;
                let st = state_tuple(&self.frames[pos].state);
                let mut t = format!("(.cont {})", st);
                for _ in 0..depth {
                    t = format!("(.out {})", t);
                }
                Ok(Out { pre: Vec::new(), term: format!("Ctl.exit {}", t), ty: Ty::Never, diverges: true })
            }
            Expr::If(_) | Expr::Match(_) | Expr::Block(_) | Expr::Unsafe(_) | Expr::Loop(_) | Expr::While(_) => {
                // pure `if` with pure branches
                if let Expr::If(i) = e {
                    if let Some(o) = self.try_pure_if(i, expect)? {
                        return Ok(o);
                    }
                }
                if let Expr::Match(m) = e {
                    if let Some(o) = self.try_pure_match(m, expect)? {
                        return Ok(o);
                    }
                }
                // assignments to outer variables inside the construct are handed back together with its value
                let outs = self.assigned_outer(e);
                let c = self.compound(e, &outs, true, expect)?;
                let t = self.fresh("t");
                let mut pre = c.pre;
                if c.div {
                    // every path leaves: the construct itself is the diverging term
                    let mut ls = c.lines;
                    let first = ls.remove(0);
                    let mut term = first;
                    for l in ls {
                        term.push('\n');
                        term.push_str(&l);
                    }
                    return Ok(Out { pre, term, ty: Ty::Never, diverges: true });
                }
                push_bind(&mut pre, &format!("let {} ← ", Self::bind_pattern(Some(&t), &outs)), c.lines);
                Ok(Out { pre, term: t, ty: c.ty, diverges: false })
            }
            Expr::Macro(m) => {
                let name = path_segs(&m.mac.path).last().cloned().unwrap_or_default();
                match name.as_str() {
                    "unreachable" | "panic" | "todo" | "unimplemented" => Ok(Out { pre: vec![], term: "Ctl.panic".into(), ty: Ty::Never, diverges: true }),
                    _ => self.err(e.span(), &format!("unsupported macro `{}!` in expression position", name)),
                }
            }
            Expr::Assign(_) => self.err(e.span(), "assignment used as a value"),
            other => self.err(other.span(), "unsupported expression form"),
        }
    }

    fn find_frame(&self, label: &Option<String>, need_loop: bool, sp: proc_macro2::Span) -> R<usize> {
        for (i, f) in self.frames.iter().enumerate().rev() {
            match label {
                Some(l) => {
                    if f.label.as_ref() == Some(l) {
                        return Ok(i);
                    }
                }
                None => {
                    if f.is_loop {
                        return Ok(i);
                    }
                }
            }
        }
        let _ = need_loop;
        self.err(sp, "break/continue outside of a loop or with an unknown label")
    }

    fn lit(&mut self, l: &Lit, expect: Option<&Ty>, sp: proc_macro2::Span) -> R<Out> {
        match l {
            Lit::Int(li) => {
                let v = lit_int_value(li)?;
                let ty = match IntTy::parse(li.suffix()) {
                    Some(t) => Ty::Int(t),
                    None => match expect.map(|t| self.sub.shallow(t)) {
                        Some(t @ Ty::Int(_)) => t,
                        Some(t @ Ty::Var(_)) => {
                            let f = self.sub.fresh_int();
                            self.unify(&f, &t, sp)?;
                            f
                        }
                        _ => self.sub.fresh_int(),
                    },
                };
                let a = self.ph("lit", &[&ty]);
                Ok(Out::pure(format!("({} : {})", v, a), ty))
            }
            Lit::Byte(b) => Ok(Out::pure(format!("({} : Nat)", b.value()), Ty::Int(IntTy::U8))),
            Lit::Char(c) => Ok(Out::pure(format!("({} : Nat)", c.value() as u32), Ty::Char)),
            Lit::Bool(b) => Ok(Out::pure(if b.value { "true".into() } else { "false".into() }, Ty::Bool)),
            Lit::Str(s) => {
                let bytes: Vec<String> = s.value().bytes().map(|b| b.to_string()).collect();
                Ok(Out::pure(format!("([{}] : List Nat)", bytes.join(", ")), Ty::Str))
            }
            Lit::ByteStr(s) => {
                let bytes: Vec<String> = s.value().iter().map(|b| b.to_string()).collect();
                Ok(Out::pure(format!("([{}] : List Nat)", bytes.join(", ")), Ty::Slice(Box::new(Ty::Int(IntTy::U8)))))
            }
            _ => self.err(sp, "unsupported literal"),
        }
    }

    fn path_expr(&mut self, p: &syn::ExprPath, expect: Option<&Ty>) -> R<Out> {
        let segs = path_segs(&p.path);
        if let Some(q) = &p.qself {
            // `<i8>::MAX`
            let t = self.conv_ty(&q.ty);
            if let (Ty::Int(_), Some(last)) = (&t, segs.last()) {
                match last.as_str() {
                    "MAX" => return Ok(Out::pure(self.ph("max", &[&t]), t)),
                    "MIN" => return Ok(Out::pure(self.ph("min", &[&t]), t)),
                    _ => {}
                }
            }
            return self.err(p.span(), "unsupported qualified path");
        }
        if segs.len() == 1 {
            let n = &segs[0];
            if let Some(t) = self.lookup(n) {
                return Ok(Out::pure(lean_ident(n), t));
            }
            if self.const_generics.contains(n) {
                return Ok(Out::pure(lean_ident(n), Ty::Int(IntTy::USIZE)));
            }
            if n == "None" {
                let t = self.sub.fresh();
                return Ok(Out::pure("none".into(), Ty::Option(Box::new(t))));
            }
        }
        if segs.last().map(|s| s == "PhantomData").unwrap_or(false) {
            return Ok(Out::pure("()".into(), Ty::Unit));
        }
        // the marker value of the `coerce_to_cmp!` idiom (its type arguments drive rustc's choice of `coerce`)
        if segs.len() >= 2 && segs[segs.len() - 2] == "IsAConstCmp" && segs[segs.len() - 1] == "NEW" {
            return Ok(Out::pure("()".into(), Ty::Adt("IsAConstCmp".into(), vec![])));
        }
        let last = segs.last().cloned().unwrap_or_default();
        if last == "None" && segs.len() >= 2 {
            let t = self.sub.fresh();
            return Ok(Out::pure("none".into(), Ty::Option(Box::new(t))));
        }
        if segs.len() == 2 && self.generics.contains(&segs[0]) {
            // `T::MAX_VAL`: an associated constant of a generic parameter becomes a parameter of the definition
            if !self.abstract_consts.iter().any(|(c, _)| *c == last) {
                self.abstract_consts.push((last.clone(), segs[0].clone()));
            }
            return Ok(Out::pure(lean_ident(&last), Ty::Param(segs[0].clone())));
        }
        if segs.len() >= 2 {
            let tyname = &segs[segs.len() - 2];
            // integer associated constants
            if let Some(it) = IntTy::parse(tyname) {
                let t = Ty::Int(it);
                match last.as_str() {
                    "MAX" => return Ok(Out::pure(self.ph("max", &[&t]), t)),
                    "MIN" => return Ok(Out::pure(self.ph("min", &[&t]), t)),
                    "BITS" => return Ok(Out::pure(format!("({} : Nat)", it.bits), Ty::Int(IntTy::U32))),
                    _ => {}
                }
            }
            if tyname == "char" && last == "MAX" {
                return Ok(Out::pure("(1114111 : Nat)".into(), Ty::Char));
            }
            if tyname == "Ordering" || tyname == "CmpOrdering" || (tyname == "__" && matches!(last.as_str(), "Less" | "Equal" | "Greater")) {
                let c = match last.as_str() {
                    "Less" => "Ordering.lt",
                    "Equal" => "Ordering.eq",
                    "Greater" => "Ordering.gt",
                    _ => return self.err(p.span(), "unknown Ordering variant"),
                };
                return Ok(Out::pure(c.into(), Ty::Ordering));
            }
            if tyname == "Option" && last == "None" {
                let t = self.sub.fresh();
                return Ok(Out::pure("none".into(), Ty::Option(Box::new(t))));
            }
            // enum unit variant
            let tyname_r = if tyname == "Self" { self.cur.self_ty.clone().unwrap_or_default() } else { tyname.clone() };
            if let Some(lean) = self.reg.enums.get(&tyname_r) {
                return Ok(Out::pure(format!("{}.{}", lean, lean_ident(&last)), Ty::Adt(tyname_r, vec![])));
            }
            // associated constant of a registered type
            if let Some(c) = self.idx.find_const(Some(&tyname_r), &last, &self.cur.module) {
                if let Some(lean) = self.reg.consts.get(&c.path).or_else(|| self.reg.consts.iter().find(|(k, _)| c.path.ends_with(k.as_str())).map(|x| x.1)) {
                    let cty = c.ty.clone();
                    let saved = self.cur_self_override(Some(tyname_r.clone()));
                    let t = self.conv_ty(&cty);
                    self.restore_self(saved);
                    return Ok(Out::pure(lean.clone(), t));
                }
            }
        }
        // free constant
        if let Some(c) = self.idx.find_const(None, &last, &self.cur.path) {
            if let Some(lean) = self.reg.consts.iter().find(|(k, _)| c.path.ends_with(k.as_str())).map(|x| x.1.clone()) {
                let cty = c.ty.clone();
                let t = self.conv_ty(&cty);
                return Ok(Out::pure(lean, t));
            }
        }
        let _ = expect;
        self.err(p.span(), &format!("cannot resolve path `{}`", segs.join("::")))
    }

    fn cur_self_override(&mut self, _t: Option<String>) -> () {}
    fn restore_self(&mut self, _s: ()) {}

    fn binary(&mut self, b: &syn::ExprBinary, expect: Option<&Ty>) -> R<Out> {
        use BinOp::*;
        // short-circuit operators
        if matches!(b.op, And(_) | Or(_)) {
            let l = self.expr(&b.left, Some(&Ty::Bool))?;
            let r = self.expr(&b.right, Some(&Ty::Bool))?;
            let is_and = matches!(b.op, And(_));
            if r.pre.is_empty() && !r.diverges {
                return Ok(Out { pre: l.pre, term: format!("({} {} {})", l.term, if is_and { "&&" } else { "||" }, r.term), ty: Ty::Bool, diverges: false });
            }
            // the right operand has effects (may panic): evaluate it lazily
            let t = self.fresh("t");
            let mut pre = l.pre;
            let mut rl = r.pre.clone();
            rl.push(if r.diverges { r.term.clone() } else { format!("pure {}", r.term) });
            let mut lines = Vec::new();
            if is_and {
                lines.push(format!("(if {} then do", l.term));
                lines.extend(ind(rl, 4));
                lines.push("  else pure false)".into());
            } else {
                lines.push(format!("(if {} then pure true else do", l.term));
                lines.extend(ind(rl, 4));
                lines.push("  )".into());
            }
            push_bind(&mut pre, &format!("let {} ← ", t), lines);
            return Ok(Out { pre, term: t, ty: Ty::Bool, diverges: false });
        }
        match b.op {
            Eq(_) | Ne(_) | Lt(_) | Le(_) | Gt(_) | Ge(_) => {
                let l = self.expr(&b.left, None)?;
                let lt = l.ty.clone();
                let r = self.expr(&b.right, Some(&lt))?;
                let mut pre = l.pre;
                pre.extend(r.pre);
                let op = match b.op {
                    Eq(_) => "=",
                    Ne(_) => "≠",
                    Lt(_) => "<",
                    Le(_) => "≤",
                    Gt(_) => ">",
                    _ => "≥",
                };
                Ok(Out { pre, term: format!("(decide ({} {} {}))", l.term, op, r.term), ty: Ty::Bool, diverges: false })
            }
            Add(_) | Sub(_) | Mul(_) | Div(_) | Rem(_) | Shl(_) | Shr(_) => {
                let shift = matches!(b.op, Shl(_) | Shr(_));
                let l = self.expr(&b.left, if shift { None } else { expect })?;
                let lt = l.ty.clone();
                let r = if shift { self.expr(&b.right, None)? } else { self.expr(&b.right, Some(&lt))? };
                let name = match b.op {
                    Add(_) => "add",
                    Sub(_) => "sub",
                    Mul(_) => "mul",
                    Div(_) => "div",
                    Rem(_) => "rem",
                    Shl(_) => "shl",
                    _ => "shr",
                };
                let op = self.ph(name, &[&lt]);
                let t = self.fresh("t");
                let mut pre = l.pre;
                pre.extend(r.pre);
                if shift {
                    // the shift amount may have any integer type; an unconstrained literal is taken as u32
                    if let Ty::Var(_) = self.sub.shallow(&r.ty) {
                        self.unify(&r.ty, &Ty::Int(IntTy::U32), b.span())?;
                    }
                }
                let rterm = r.term;
                pre.push(format!("let {} ← {} {} {}", t, op, l.term, rterm));
                Ok(Out { pre, term: t, ty: lt, diverges: false })
            }
            BitAnd(_) | BitOr(_) | BitXor(_) => {
                let l = self.expr(&b.left, expect)?;
                let lt = l.ty.clone();
                let r = self.expr(&b.right, Some(&lt))?;
                let name = match b.op {
                    BitAnd(_) => "and",
                    BitOr(_) => "or",
                    _ => "xor",
                };
                let op = self.ph(name, &[&lt]);
                let mut pre = l.pre;
                pre.extend(r.pre);
                Ok(Out { pre, term: format!("({} {} {})", l.term, op, r.term), ty: lt, diverges: false })
            }
            _ => self.err(b.span(), "compound assignment used as a value"),
        }
    }

    fn field_of(&mut self, adt: &str, m: &syn::Member, sp: proc_macro2::Span) -> R<(String, Ty)> {
        let st = match self.idx.find_struct(adt, &self.cur.module) {
            Some(s) => s.clone(),
            None => return self.err(sp, &format!("struct `{}` not found", adt)),
        };
        for (i, f) in st.fields.iter().enumerate() {
            let hit = match (m, &f.ident) {
                (syn::Member::Named(n), Some(fi)) => n == fi,
                (syn::Member::Unnamed(ix), None) => ix.index as usize == i,
                _ => false,
            };
            if hit {
                let saved = std::mem::replace(&mut self.generics, st.generics.type_params().map(|p| p.ident.to_string()).collect());
                let saved_p = std::mem::replace(&mut self.pattern_generics, pattern_generics(&st.generics));
                let t = self.conv_ty(&f.ty);
                self.generics = saved;
                self.pattern_generics = saved_p;
                let name = match &f.ident {
                    Some(fi) => lean_ident(&fi.to_string()),
                    None => format!("_{}", i),
                };
                return Ok((name, t));
            }
        }
        self.err(sp, &format!("no such field on `{}`", adt))
    }

    fn variant_field_names(&self, en: &str, variant: &str) -> Vec<Option<String>> {
        match self.idx.find_enum(en, &self.cur.module) {
            Some(e) => e.variants.iter().find(|v| v.ident == variant).map(|v| v.fields.iter().map(|f| f.ident.as_ref().map(|i| i.to_string())).collect()).unwrap_or_default(),
            None => vec![],
        }
    }

    fn struct_lit(&mut self, s: &syn::ExprStruct) -> R<Out> {
        let segs = path_segs(&s.path);
        if segs.len() >= 2 {
            let en = &segs[segs.len() - 2];
            let en = if en == "Self" { self.cur.self_ty.clone().unwrap_or_default() } else { en.clone() };
            if let Some(lean_en) = self.reg.enums.get(&en).cloned() {
                let variant = segs.last().cloned().unwrap_or_default();
                let names = self.variant_field_names(&en, &variant);
                let tys = self.variant_field_tys(&en, &variant, s.span())?;
                let mut pre = Vec::new();
                let mut terms = Vec::new();
                for (n, t) in names.iter().zip(tys.iter()) {
                    let fv = s.fields.iter().find(|f| match (&f.member, n) {
                        (syn::Member::Named(id), Some(n)) => id == n,
                        _ => false,
                    });
                    match fv {
                        Some(fv) => {
                            let o = self.expr(&fv.expr, Some(t))?;
                            pre.extend(o.pre);
                            terms.push(o.term);
                        }
                        None => return self.err(s.span(), "missing field in enum struct-variant literal"),
                    }
                }
                return Ok(Out { pre, term: format!("({}.{} {})", lean_en, lean_ident(&variant), terms.join(" ")), ty: Ty::Adt(en, vec![]), diverges: false });
            }
        }
        let name = segs.last().cloned().unwrap_or_default();
        let name = if name == "Self" { self.cur.self_ty.clone().unwrap_or_default() } else { name };
        // `A::<X> { .. }` where `type A<T> = T;` was declared in this function: the struct literal of `X`
        let name = match (s.path.segments.len() == 1 && self.identity_aliases.contains(&name), &s.path.segments[0].arguments) {
            (true, syn::PathArguments::AngleBracketed(ab)) if ab.args.len() == 1 => match &ab.args[0] {
                syn::GenericArgument::Type(syn::Type::Path(tp)) if tp.qself.is_none() => {
                    let n = tp.path.segments.last().map(|x| x.ident.to_string()).unwrap_or_default();
                    if n == "Self" { self.cur.self_ty.clone().unwrap_or_default() } else { n }
                }
                _ => name,
            },
            _ => name,
        };
        let lean = match self.reg.structs.get(&name) {
            Some(l) => l.clone(),
            None => return self.err(s.span(), &format!("struct `{}` is not a translation target", name)),
        };
        let mut pre = Vec::new();
        let mut parts = Vec::new();
        for f in &s.fields {
            let (fname, fty) = self.field_of(&name, &f.member, s.span())?;
            let o = self.expr(&f.expr, Some(&fty))?;
            pre.extend(o.pre);
            parts.push(format!("{} := {}", fname, o.term));
        }
        let term = match &s.rest {
            Some(r) => {
                let b = self.expr(r, Some(&Ty::Adt(name.clone(), vec![])))?;
                pre.extend(b.pre);
                format!("({{ {} with {} }} : {})", b.term, parts.join(", "), self.ph("lty", &[&Ty::Adt(name.clone(), vec![])]))
            }
            None => format!("({{ {} }} : {})", parts.join(", "), self.ph("lty", &[&Ty::Adt(name.clone(), vec![])])),
        };
        let _ = &lean;
        Ok(Out { pre, term, ty: Ty::Adt(name, vec![]), diverges: false })
    }

    /// `s.as_ptr()`, `s.as_ptr().offset(k as _)`, `s.as_ptr().add(k)`  ->  (slice, offset)
    fn ptr_pattern(&mut self, e: &Expr) -> R<Option<(Out, Option<Out>)>> {
        let e = peel(e);
        if let Expr::Cast(c) = e {
            return self.ptr_pattern(&c.expr);
        }
        if let Expr::Path(pp) = e {
            if pp.path.segments.len() == 1 {
                if let Some((term, ty, off)) = self.ptr_alias.get(&pp.path.segments[0].ident.to_string()).cloned() {
                    let offo = off.map(|o| Out::pure(o, Ty::Int(IntTy::USIZE)));
                    return Ok(Some((Out::pure(term, ty), offo)));
                }
            }
        }
        if let Expr::MethodCall(m) = e {
            let name = m.method.to_string();
            if name == "as_ptr" || name == "as_mut_ptr" {
                let s = self.expr(&m.receiver, None)?;
                return Ok(Some((s, None)));
            }
            if name == "cast" && m.args.is_empty() {
                return self.ptr_pattern(&m.receiver);
            }
            if name == "offset" || name == "add" {
                if let Some((s, None)) = self.ptr_pattern(&m.receiver)? {
                    let mut arg = &m.args[0];
                    // `start as _` / `start as isize`
                    loop {
                        match peel(arg) {
                            Expr::Cast(c) => arg = &c.expr,
                            _ => break,
                        }
                    }
                    let k = self.expr(arg, Some(&Ty::Int(IntTy::USIZE)))?;
                    return Ok(Some((s, Some(k))));
                }
            }
        }
        Ok(None)
    }

    fn call(&mut self, c: &syn::ExprCall, expect: Option<&Ty>) -> R<Out> {
        let p = match peel(&c.func) {
            Expr::Path(p) => p,
            _ => return self.err(c.span(), "call of a non-path expression"),
        };
        let segs = path_segs(&p.path);
        let last = segs.last().cloned().unwrap_or_default();
        let prev = if segs.len() >= 2 { Some(segs[segs.len() - 2].clone()) } else { None };
        // constructors of Option / Result
        if (last == "Some" || last == "Ok" || last == "Err") && c.args.len() == 1 {
            let exp_inner: Option<Ty> = match (last.as_str(), expect.map(|t| self.sub.shallow(t))) {
                ("Some", Some(Ty::Option(t))) => Some(*t),
                ("Ok", Some(Ty::Result(t, _))) => Some(*t),
                ("Err", Some(Ty::Result(_, e))) => Some(*e),
                _ => None,
            };
            let a = self.expr(&c.args[0], exp_inner.as_ref())?;
            if a.diverges {
                return Ok(a);
            }
            let (term, ty) = match last.as_str() {
                "Some" => (format!("(some {})", a.term), Ty::Option(Box::new(a.ty.clone()))),
                "Ok" => {
                    let e = match expect.map(|t| self.sub.shallow(t)) {
                        Some(Ty::Result(_, e)) => *e,
                        _ => self.sub.fresh(),
                    };
                    (format!("(Except.ok {})", a.term), Ty::Result(Box::new(a.ty.clone()), Box::new(e)))
                }
                _ => {
                    let t = match expect.map(|t| self.sub.shallow(t)) {
                        Some(Ty::Result(t, _)) => *t,
                        _ => self.sub.fresh(),
                    };
                    (format!("(Except.error {})", a.term), Ty::Result(Box::new(t), Box::new(a.ty.clone())))
                }
            };
            return Ok(Out { pre: a.pre, term, ty, diverges: false });
        }
        // PatternNorm::new(p): the pattern normalised to its bytes (patterns are modelled as their bytes)
        if last == "new" && prev.as_deref() == Some("PatternNorm") && c.args.len() == 1 {
            let a = self.expr(&c.args[0], Some(&Ty::Slice(Box::new(Ty::Int(IntTy::U8)))))?;
            return Ok(a);
        }
        // panics
        if segs.iter().any(|s| s == "panicking") || matches!(last.as_str(), "panic" | "panic_fmt" | "panic_display" | "panic_explicit" | "unreachable_display" | "concat_panic") {
            return Ok(Out { pre: vec![], term: "Ctl.panic".into(), ty: Ty::Never, diverges: true });
        }
        // unsafe intrinsics
        if last == "from_raw_parts" || last == "from_raw_parts_mut" {
            // `s.as_ptr() as *const [T; N]`: the elements regrouped into arrays of N
            if let Expr::Cast(cast) = peel(&c.args[0]) {
                if let syn::Type::Ptr(tp) = &*cast.ty {
                    if let syn::Type::Array(arr) = &*tp.elem {
                        if let Some((s, None)) = self.ptr_pattern(&cast.expr)? {
                            let nn = self.expr(&arr.len, Some(&Ty::Int(IntTy::USIZE)))?;
                            let n = self.expr(&c.args[1], Some(&Ty::Int(IntTy::USIZE)))?;
                            let t = self.fresh("t");
                            let mut pre = s.pre;
                            pre.extend(nn.pre);
                            pre.extend(n.pre);
                            pre.push(format!("let {} ← Rs.rawPartsArrays {} {} {}", t, s.term, nn.term, n.term));
                            let et = match self.sub.shallow(&s.ty) {
                                Ty::Slice(e) => *e,
                                other => return self.err(c.span(), &format!("array view of {}", other)),
                            };
                            return Ok(Out { pre, term: t, ty: Ty::Slice(Box::new(Ty::Slice(Box::new(et)))), diverges: false });
                        }
                    }
                }
            }
            if let Some((s, off)) = self.ptr_pattern(&c.args[0])? {
                let n = self.expr(&c.args[1], Some(&Ty::Int(IntTy::USIZE)))?;
                let t = self.fresh("t");
                // an array of MaybeUninit<T> read as T: every slot of the range must be initialised
                if let Ty::Slice(e) = self.sub.shallow(&s.ty) {
                    if let Ty::Option(inner) = self.sub.shallow(&e) {
                        let mut pre = s.pre;
                        let offt = match off {
                            Some(o) => {
                                pre.extend(o.pre);
                                o.term
                            }
                            None => "0".to_string(),
                        };
                        pre.extend(n.pre);
                        pre.push(format!("let {} ← Rs.rawPartsInit {} {} {}", t, s.term, offt, n.term));
                        return Ok(Out { pre, term: t, ty: Ty::Slice(inner), diverges: false });
                    }
                }
                let mut pre = s.pre;
                let offt = match off {
                    Some(o) => {
                        pre.extend(o.pre);
                        o.term
                    }
                    None => "0".to_string(),
                };
                pre.extend(n.pre);
                pre.push(format!("let {} ← Rs.rawParts {} {} {}", t, s.term, offt, n.term));
                let ty = match self.sub.shallow(&s.ty) {
                    Ty::Str => Ty::Slice(Box::new(Ty::Int(IntTy::U8))),
                    other => other,
                };
                return Ok(Out { pre, term: t, ty, diverges: false });
            }
            return self.err(c.span(), "from_raw_parts with an unrecognised pointer expression");
        }
        if last == "from_utf8_unchecked" {
            let a = self.expr(&c.args[0], None)?;
            return Ok(Out { pre: a.pre, term: a.term, ty: Ty::Str, diverges: false });
        }
        // type-only helpers of the iterator DSL
        if last == "__get_item_ty" || last == "__assert_item_ty" {
            return Ok(Out::pure("()".into(), Ty::Unit));
        }
        // MaybeUninit / ManuallyDrop plumbing
        if last == "uninit_array" && c.args.is_empty() {
            if self.const_generics.len() != 1 {
                return self.err(c.span(), "uninit_array() outside a function with exactly one const generic");
            }
            let n = lean_ident(&self.const_generics[0]);
            let t = self.sub.fresh();
            return Ok(Out::pure(format!("(Rs.uninitArray {})", n), Ty::Slice(Box::new(Ty::Option(Box::new(t))))));
        }
        if last == "new" && prev.as_deref() == Some("MaybeUninit") && c.args.len() == 1 {
            let a = self.expr(&c.args[0], None)?;
            return Ok(Out { pre: a.pre, term: format!("(some {})", a.term), ty: Ty::Option(Box::new(a.ty)), diverges: false });
        }
        if (last == "new" || last == "into_inner") && prev.as_deref() == Some("ManuallyDrop") && c.args.len() == 1 {
            return self.expr(&c.args[0], expect);
        }
        if last == "forget" && c.args.len() == 1 {
            let a = self.expr(&c.args[0], None)?;
            return Ok(Out { pre: a.pre, term: "()".into(), ty: Ty::Unit, diverges: false });
        }
        if last == "array_into_md" && c.args.len() == 1 {
            // the Transmuter union turning `[T; N]` into `[MaybeUninit<T>; N]`: every slot initialised
            let a = self.expr(&c.args[0], None)?;
            let et = match self.sub.shallow(&a.ty) {
                Ty::Slice(e) => *e,
                other => return self.err(c.span(), &format!("array_into_md of {}", other)),
            };
            return Ok(Out { pre: a.pre, term: format!("({}.map some)", a.term), ty: Ty::Slice(Box::new(Ty::Option(Box::new(et)))), diverges: false });
        }
        if last == "from_bytes_with_nul_unchecked" {
            let a = self.expr(&c.args[0], Some(&Ty::Slice(Box::new(Ty::Int(IntTy::U8)))))?;
            let t = self.fresh("t");
            let mut pre = a.pre;
            pre.push(format!("let {} ← Rs.cstrFromBytesWithNulUnchecked {}", t, a.term));
            return Ok(Out { pre, term: t, ty: Ty::Slice(Box::new(Ty::Int(IntTy::U8))), diverges: false });
        }
        if last == "from_u32_unchecked" {
            let a = self.expr(&c.args[0], Some(&Ty::Int(IntTy::U32)))?;
            let t = self.fresh("t");
            let mut pre = a.pre;
            pre.push(format!("let {} ← Rs.charFromU32Unchecked {}", t, a.term));
            return Ok(Out { pre, term: t, ty: Ty::Char, diverges: false });
        }
        // a callee that is a parameter of this definition (`abstract=`)
        if segs.len() == 1 {
            if let Some((ptys, rty)) = self.abstract_fns.get(&last).cloned() {
                let mut pre = Vec::new();
                let mut terms = Vec::new();
                for (a, pt) in c.args.iter().zip(ptys.iter()) {
                    let o = self.expr(a, Some(pt))?;
                    pre.extend(o.pre);
                    terms.push(o.term);
                }
                let t = self.fresh("t");
                pre.push(format!("let {} ← Ctl.call ({} {})", t, lean_ident(&last), terms.join(" ")));
                return Ok(Out { pre, term: t, ty: rty, diverges: false });
            }
        }
        // registered function
        let quals: Vec<String> = segs[..segs.len().saturating_sub(1)].to_vec();
        if let Some(fi) = resolve_fn_q(self.idx, self.reg, self.cur, prev.as_deref(), &last, false, &quals) {
            let turbofish: Vec<String> = match &p.path.segments.last().unwrap().arguments {
                syn::PathArguments::AngleBracketed(a) => a
                    .args
                    .iter()
                    .filter_map(|x| match x {
                        syn::GenericArgument::Const(e) => Some(quote::ToTokens::to_token_stream(e).to_string()),
                        syn::GenericArgument::Type(syn::Type::Path(tp)) if tp.path.segments.len() == 1 && self.const_generics.contains(&tp.path.segments[0].ident.to_string()) => {
                            Some(tp.path.segments[0].ident.to_string())
                        }
                        _ => None,
                    })
                    .collect(),
                _ => Vec::new(),
            };
            return self.call_registered(fi, None, c.args.iter().collect(), turbofish, c.span());
        }
        if is_transparent_newtype(&last) && c.args.len() == 1 {
            let o = self.expr(&c.args[0], None)?;
            let ty = Ty::Adt(last.clone(), vec![o.ty.clone()]);
            return Ok(Out { pre: o.pre, term: o.term, ty, diverges: o.diverges });
        }
        // tuple struct constructor
        let sname = if last == "Self" { self.cur.self_ty.clone().unwrap_or_default() } else { last.clone() };
        if let Some(lean) = self.reg.structs.get(&sname).cloned() {
            let mut pre = Vec::new();
            let mut terms = Vec::new();
            for (i, a) in c.args.iter().enumerate() {
                let (_, fty) = self.field_of(&sname, &syn::Member::Unnamed(syn::Index { index: i as u32, span: c.span() }), c.span())?;
                let o = self.expr(a, Some(&fty))?;
                pre.extend(o.pre);
                terms.push(o.term);
            }
            return Ok(Out { pre, term: format!("({}.mk {})", lean, terms.join(" ")), ty: Ty::Adt(sname, vec![]), diverges: false });
        }
        // enum tuple variant
        if let Some(en) = &prev {
            let en = if en == "Self" { self.cur.self_ty.clone().unwrap_or_default() } else { en.clone() };
            if let Some(lean) = self.reg.enums.get(&en).cloned() {
                let vtys = self.variant_field_tys(&en, &last, c.span())?;
                let mut pre = Vec::new();
                let mut terms = Vec::new();
                for (a, vt) in c.args.iter().zip(vtys.iter()) {
                    let o = self.expr(a, Some(vt))?;
                    pre.extend(o.pre);
                    terms.push(o.term);
                }
                return Ok(Out { pre, term: format!("({}.{} {})", lean, lean_ident(&last), terms.join(" ")), ty: Ty::Adt(en, vec![]), diverges: false });
            }
        }
        // a function of the crate that returns `!`
        if let Some(cands) = self.idx.fn_by_name.get(&last) {
            if !cands.is_empty() && cands.iter().all(|i| matches!(&self.idx.fns[*i].sig.output, syn::ReturnType::Type(_, t) if matches!(**t, syn::Type::Never(_)))) {
                return Ok(Out { pre: vec![], term: "Ctl.panic".into(), ty: Ty::Never, diverges: true });
            }
        }
        self.err(c.span(), &format!("call of `{}` which is not a translation target", segs.join("::")))
    }

    fn variant_field_tys(&mut self, en: &str, variant: &str, sp: proc_macro2::Span) -> R<Vec<Ty>> {
        let e = match self.idx.find_enum(en, &self.cur.module) {
            Some(e) => e.clone(),
            None => return self.err(sp, &format!("enum `{}` not found", en)),
        };
        for v in &e.variants {
            if v.ident == variant {
                let saved = std::mem::replace(&mut self.generics, e.generics.type_params().map(|p| p.ident.to_string()).collect());
                let saved_p = std::mem::replace(&mut self.pattern_generics, pattern_generics(&e.generics));
                let tys = v.fields.iter().map(|f| self.conv_ty(&f.ty)).collect();
                self.generics = saved;
                self.pattern_generics = saved_p;
                return Ok(tys);
            }
        }
        self.err(sp, &format!("no variant `{}` in `{}`", variant, en))
    }

    fn call_registered(&mut self, fi: usize, recv: Option<Out>, args: Vec<&Expr>, const_args: Vec<String>, sp: proc_macro2::Span) -> R<Out> {
        let callee = self.idx.fns[fi].clone();
        let rf = self.reg.fns[&fi].clone();
        // callee signature types, with the callee's generics instantiated by fresh variables
        let saved_gen = std::mem::take(&mut self.generics);
        let saved_cur = self.cur;
        let callee_pat = pattern_generics(&callee.sig.generics);
        let callee_gen: Vec<String> = all_type_params(&callee).into_iter().filter(|g| !callee_pat.contains(g)).collect();
        self.generics = callee_gen.clone();
        let saved_pat = std::mem::replace(&mut self.pattern_generics, callee_pat);
        // SAFETY of lifetimes: `callee` is a clone living in this frame; conv_ty only reads self.cur.self_ty/module
        let callee_ref: &FnEntry = unsafe { &*(&callee as *const FnEntry) };
        self.cur = unsafe { std::mem::transmute::<&FnEntry, &'a FnEntry>(callee_ref) };
        self.reg.structs.set_hint(&callee.path);
        self.reg.enums.set_hint(&callee.path);
        let mut ptys: Vec<Ty> = Vec::new();
        let mut has_self = false;
        let mut callee_mut_self = false;
        for inp in &callee.sig.inputs {
            match inp {
                syn::FnArg::Receiver(r) => {
                    has_self = true;
                    callee_mut_self = r.reference.is_some() && r.mutability.is_some();
                }
                syn::FnArg::Typed(pt) => ptys.push(self.conv_ty(&pt.ty)),
            }
        }
        let rty = match &callee.sig.output {
            syn::ReturnType::Default => Ty::Unit,
            syn::ReturnType::Type(_, t) => self.conv_ty(t),
        };
        let self_ty = callee.self_ty.clone();
        let mut self_spec: Option<Ty> = callee.self_syn.clone().map(|t| self.conv_ty(&t));
        if self_spec.is_none() && has_self {
            // the receiver's own type with the impl's parameters: links the type arguments of the value to the
            // callee's generics (`ArrayBuilder<T, N>::push(&mut self, val: T)`)
            if let Some(n) = &self_ty {
                if !self.adt_type_params(n).is_empty() {
                    let args = self.default_adt_args(n);
                    self_spec = Some(Ty::Adt(n.clone(), args));
                }
            }
        }
        self.cur = saved_cur;
        self.reg.structs.set_hint(&saved_cur.path);
        self.reg.enums.set_hint(&saved_cur.path);
        self.generics = saved_gen;
        self.pattern_generics = saved_pat;
        let mut map: HashMap<String, Ty> = HashMap::new();
        for g in &callee_gen {
            map.insert(g.clone(), self.sub.fresh());
        }
        let ptys: Vec<Ty> = ptys.iter().map(|t| subst_params(t, &map)).collect();
        let rty = subst_params(&rty, &map);
        let self_spec = self_spec.map(|t| subst_params(&t, &map));

        let mut pre = Vec::new();
        let mut terms: Vec<String> = Vec::new();
        let callee_consts = all_const_params(&callee);
        if const_args.len() < callee_consts.len() && !callee_pat_nonempty(&callee) {
            // const generics not given by a turbofish: the parameters of the same name in scope
            for c in &callee_consts[..callee_consts.len() - const_args.len()] {
                if self.const_generics.contains(c) {
                    terms.push(lean_ident(c));
                } else {
                    return self.err(sp, &format!("cannot determine const generic `{}` of the callee", c));
                }
            }
        }
        terms.extend(const_args);
        let mut arg_iter = args.into_iter();
        let mut mut_place: Option<Expr> = None;
        if has_self {
            if callee_mut_self && recv.is_some() {
                return self.err(sp, "call of a `&mut self` method with method syntax");
            }
            let st = self_spec.clone().unwrap_or_else(|| Ty::Adt(self_ty.clone().unwrap_or_default(), vec![]));
            match recv {
                Some(r) => {
                    self.unify(&r.ty, &st, sp)?;
                    pre.extend(r.pre);
                    terms.push(r.term);
                }
                None => {
                    // UFCS: Type::method(self_arg, ...)
                    let a = arg_iter.next().ok_or("missing self argument")?;
                    if callee_mut_self {
                        match peel_paren(a) {
                            Expr::Reference(r) if r.mutability.is_some() => mut_place = Some((*r.expr).clone()),
                            _ => return self.err(sp, "a `&mut self` method called by path needs `&mut <place>` as its first argument"),
                        }
                    }
                    let o = self.expr(a, Some(&st))?;
                    pre.extend(o.pre);
                    terms.push(o.term);
                }
            }
        } else if let Some(r) = recv {
            // method-call syntax on a function without receiver cannot happen
            let _ = r;
            return self.err(sp, "method call resolved to a function without a receiver");
        }
        for (a, pt) in arg_iter.zip(ptys.iter()) {
            let o = self.expr(a, Some(pt))?;
            if o.diverges {
                return self.err(sp, "diverging expression as a call argument");
            }
            pre.extend(o.pre);
            terms.push(o.term);
        }
        let t = self.fresh("t");
        let fuel = if rf.fuel {
            self.uses_fuel = true;
            self.fuel_uses += 1;
            " fuel"
        } else {
            ""
        };
        if let Some(place) = mut_place {
            // a `&mut self` method is translated to return `(result, self)`: write the new `self` back to the place
            let t2 = self.fresh("t");
            pre.push(format!("let ({}, {}) ← Ctl.call ({}{} {})", t, t2, rf.lean, fuel, terms.join(" ")));
            let mut lines = Vec::new();
            self.assign_place(&place, t2, false, &mut lines)?;
            pre.extend(lines);
            if matches!(rty, Ty::Never) {
                return Ok(Out { pre, term: "Ctl.panic".into(), ty: Ty::Never, diverges: true });
            }
            return Ok(Out { pre, term: t, ty: rty, diverges: false });
        }
        pre.push(format!("let {} ← Ctl.call ({}{} {})", t, rf.lean, fuel, terms.join(" ")));
        if matches!(rty, Ty::Never) {
            return Ok(Out { pre, term: "Ctl.panic".into(), ty: Ty::Never, diverges: true });
        }
        Ok(Out { pre, term: t, ty: rty, diverges: false })
    }

    fn method_call(&mut self, m: &syn::ExprMethodCall, expect: Option<&Ty>) -> R<Out> {
        let name = m.method.to_string();
        // `teq.to_right(x)` / `teq.to_left(x)`: type-equality casts of a witness arm are the identity
        if (name == "to_right" || name == "to_left") && m.args.len() == 1 {
            if let Expr::Path(pp) = peel(&m.receiver) {
                if pp.path.is_ident("teq") {
                    return self.expr(&m.args[0], expect);
                }
            }
        }
        // `IntoIterWrapper { iter: ManuallyDrop::new(x), marker }.coerce().const_into_iter()` (the `into_iter!` macro):
        // a slice becomes `slice_into_iter::iter(x)`, something that already is a konst iterator stays itself
        if name == "const_into_iter" && m.args.is_empty() {
            if let Expr::MethodCall(co) = peel(&m.receiver) {
                if co.method == "coerce" {
                    if let Expr::Struct(st) = peel(&co.receiver) {
                        if st.path.segments.last().map(|s| s.ident == "IntoIterWrapper").unwrap_or(false) {
                            let f = st.fields.iter().find(|f| matches!(&f.member, syn::Member::Named(id) if id == "iter"));
                            if let Some(f) = f {
                                let mut inner = peel(&f.expr);
                                if let Expr::Call(c) = inner {
                                    if let Expr::Path(pp) = peel(&c.func) {
                                        if pp.path.segments.last().map(|s| s.ident == "new").unwrap_or(false) && c.args.len() == 1 {
                                            inner = &c.args[0];
                                        }
                                    }
                                }
                                let x = self.expr(inner, None)?;
                                match self.sub.shallow(&x.ty) {
                                    Ty::Slice(_) | Ty::Str => {
                                        let fi = self
                                            .idx
                                            .fn_by_name
                                            .get("iter")
                                            .and_then(|v| v.iter().copied().find(|i| self.reg.fns.contains_key(i) && self.idx.fns[*i].path.contains("slice_into_iter")))
                                            .ok_or_else(|| "into_iter of a slice: `slice_into_iter::iter` is not a translation target".to_string())?;
                                        let lean = self.reg.fns[&fi].lean.clone();
                                        let t = self.fresh("t");
                                        let mut pre = x.pre;
                                        pre.push(format!("let {} ← Ctl.call ({} {})", t, lean, x.term));
                                        return Ok(Out { pre, term: t, ty: Ty::Adt("Iter".into(), vec![match self.sub.shallow(&x.ty) { Ty::Slice(e) => *e, _ => Ty::Int(IntTy::U8) }]), diverges: false });
                                    }
                                    Ty::Adt(_, _) => return Ok(x),
                                    other => return self.err(m.span(), &format!("into_iter of {}", other)),
                                }
                            }
                        }
                    }
                }
            }
        }
        // `(&raw mut this).cast::<[T; N]>().read()` on a repr(C) struct whose first field is the MaybeUninit array
        if name == "read" && m.args.is_empty() {
            if let Expr::MethodCall(castm) = peel(&m.receiver) {
                if castm.method == "cast" {
                    if let Expr::RawAddr(ra) = peel(&castm.receiver) {
                        let this = self.expr(&ra.expr, None)?;
                        if let Ty::Adt(adt, _) = self.sub.shallow(&this.ty) {
                            let (fname, fty) = self.field_of(&adt, &syn::Member::Unnamed(syn::Index { index: 0, span: m.span() }), m.span()).or_else(|_| {
                                // named first field
                                let st = self.idx.find_struct(&adt, &self.cur.module).cloned();
                                match st.and_then(|s| s.fields.iter().next().and_then(|f| f.ident.clone())) {
                                    Some(id) => self.field_of(&adt, &syn::Member::Named(id), m.span()),
                                    None => Err("no first field".to_string()),
                                }
                            })?;
                            if let Ty::Slice(e) = self.sub.shallow(&fty) {
                                if let Ty::Option(inner) = self.sub.shallow(&e) {
                                    if self.const_generics.len() == 1 {
                                        let t = self.fresh("t");
                                        let mut pre = this.pre;
                                        pre.push(format!("let {} ← Rs.assumeInitArray {}.{} {}", t, this.term, fname, lean_ident(&self.const_generics[0])));
                                        return Ok(Out { pre, term: t, ty: Ty::Slice(inner), diverges: false });
                                    }
                                }
                            }
                        }
                        return self.err(m.span(), "unrecognised whole-struct read");
                    }
                }
            }
        }
        let recv = self.expr(&m.receiver, None)?;
        if recv.diverges {
            return Ok(recv);
        }
        let rt = self.sub.shallow(&recv.ty);
        if name == "assume_init_read" && m.args.is_empty() {
            if let Ty::Option(inner) = &rt {
                let t = self.fresh("t");
                let mut pre = recv.pre;
                pre.push(format!("let {} ← Rs.assumeInitRead {}", t, recv.term));
                return Ok(Out { pre, term: t, ty: (**inner).clone(), diverges: false });
            }
        }
        let usize_t = Ty::Int(IntTy::USIZE);
        // slices / strings
        if matches!(rt, Ty::Slice(_) | Ty::Str) {
            match name.as_str() {
                "len" => return Ok(Out { pre: recv.pre, term: format!("{}.length", recv.term), ty: usize_t, diverges: false }),
                "is_empty" => return Ok(Out { pre: recv.pre, term: format!("{}.isEmpty", recv.term), ty: Ty::Bool, diverges: false }),
                "as_bytes" => return Ok(Out { pre: recv.pre, term: recv.term, ty: Ty::Slice(Box::new(Ty::Int(IntTy::U8))), diverges: false }),
                "as_slice" => return Ok(recv),
                "as_str" => return Ok(Out { pre: recv.pre, term: recv.term, ty: Ty::Str, diverges: false }),
                _ => {}
            }
        }
        if matches!(rt, Ty::Char) && name == "len_utf8" && m.args.is_empty() {
            return Ok(Out { pre: recv.pre, term: format!("(Rs.charLenUtf8 {})", recv.term), ty: usize_t, diverges: false });
        }
        if let Ty::Option(_) = rt {
            match name.as_str() {
                "is_some" => return Ok(Out { pre: recv.pre, term: format!("{}.isSome", recv.term), ty: Ty::Bool, diverges: false }),
                "is_none" => return Ok(Out { pre: recv.pre, term: format!("{}.isNone", recv.term), ty: Ty::Bool, diverges: false }),
                _ => {}
            }
        }
        // `NonZeroU8::get(self) -> u8` …: "returns the contained value as a primitive type"; a `NonZero*` value is read
        // as that value (tr.rs `nonzero_int`), so this is the identity at the primitive type
        if let Ty::Adt(n, a) = &rt {
            if is_nonzero(n, a) && name == "get" && m.args.is_empty() {
                return Ok(Out { pre: recv.pre, term: recv.term, ty: a[0].clone(), diverges: false });
            }
        }
        // integer methods
        let int_like = matches!(rt, Ty::Int(_)) || matches!(rt, Ty::Var(i) if self.sub.int_only[i]) || matches!(rt, Ty::Var(_));
        if int_like {
            let bin = |s: &str| -> Option<(&'static str, u8)> {
                Some(match s {
                    "overflowing_add" => ("OverflowingAdd", 1),
                    "overflowing_sub" => ("OverflowingSub", 1),
                    "overflowing_mul" => ("OverflowingMul", 1),
                    "wrapping_add" => ("WrappingAdd", 0),
                    "wrapping_sub" => ("WrappingSub", 0),
                    "wrapping_mul" => ("WrappingMul", 0),
                    "saturating_sub" => ("SaturatingSub", 0),
                    "saturating_add" => ("SaturatingAdd", 0),
                    "checked_add" => ("CheckedAdd", 2),
                    "checked_sub" => ("CheckedSub", 2),
                    "checked_mul" => ("CheckedMul", 2),
                    _ => return None,
                })
            };
            if let Some((op, kind)) = bin(&name) {
                let a = self.expr(&m.args[0], Some(&recv.ty))?;
                let opn = self.ph(op, &[&recv.ty]);
                let mut pre = recv.pre;
                pre.extend(a.pre);
                let ty = match kind {
                    1 => Ty::Tuple(vec![recv.ty.clone(), Ty::Bool]),
                    2 => Ty::Option(Box::new(recv.ty.clone())),
                    _ => recv.ty.clone(),
                };
                return Ok(Out { pre, term: format!("({} {} {})", opn, recv.term, a.term), ty, diverges: false });
            }
            if name == "wrapping_neg" {
                let opn = self.ph("WrappingNeg", &[&recv.ty]);
                return Ok(Out { pre: recv.pre, term: format!("({} {})", opn, recv.term), ty: recv.ty, diverges: false });
            }
        }
        // `RangeInclusive::start(&self) -> &T` / `RangeInclusive::end(&self) -> &T` return the bounds the range was built
        // with (the `exhausted` flag is not consulted); `conv_ty` reads a `RangeInclusive<T>` as `(start, end, exhausted)`
        if let Ty::Tuple(ts) = &rt {
            if ts.len() == 3 && matches!(self.sub.shallow(&ts[2]), Ty::Bool) && m.args.is_empty() && (name == "start" || name == "end") {
                let k = if name == "start" { 0 } else { 1 };
                return Ok(Out { pre: recv.pre, term: format!("{}{}", recv.term, Self::tuple_proj(3, k)), ty: ts[k].clone(), diverges: false });
            }
        }
        // the `coerce_to_cmp!` idiom: `marker.coerce(&x)` wraps a value of a std type in `CmpWrapper` and hands a
        // reference to a type with its own `const_eq`/`const_cmp` through; `unreference` strips references
        if matches!(&rt, Ty::Adt(n, _) if n == "IsAConstCmp") {
            match name.as_str() {
                "infer_type" => {
                    let a = self.expr(&m.args[0], None)?;
                    let mut pre = recv.pre;
                    pre.extend(a.pre);
                    return Ok(Out { pre, term: "()".into(), ty: Ty::Unit, diverges: false });
                }
                "coerce" | "unreference" => {
                    let a = self.expr(&m.args[0], None)?;
                    let mut pre = recv.pre;
                    pre.extend(a.pre);
                    let at = self.sub.resolve(&a.ty);
                    let std_kind = !matches!(&at, Ty::Adt(..) | Ty::Param(_) | Ty::Var(_));
                    let ty = if name == "coerce" && std_kind { Ty::Adt("CmpWrapper".into(), vec![at]) } else { at };
                    return Ok(Out { pre, term: a.term, ty, diverges: false });
                }
                _ => {}
            }
        }
        // user-defined inherent method
        if let Ty::Adt(adt0, adt_args) = &rt {
            let adt = &if is_transparent_newtype(adt0) && adt_args.len() == 1 { format!("{}<{}>", adt0, self.spec_key(&adt_args[0])) } else { adt0.clone() };
            // inherent method of the receiver's type
            let cands: Vec<usize> = self
                .idx
                .fn_by_name
                .get(&name)
                .map(|v| v.iter().copied().filter(|i| self.reg.fns.contains_key(i) && self.idx.fns[*i].self_ty.as_deref() == Some(adt.as_str())).collect())
                .unwrap_or_default();
            let pick = if cands.len() == 1 {
                Some(cands[0])
            } else {
                // same-named types in different modules: the one closest to the current function
                let h = self.cur.path.clone();
                cands.iter().copied().max_by_key(|i| self.idx.fns[*i].path.bytes().zip(h.bytes()).take_while(|(a, b)| a == b).count())
            };
            if let Some(fi) = pick {
                return self.call_registered(fi, Some(recv), m.args.iter().collect(), Vec::new(), m.span());
            }
        }
        let _ = expect;
        self.err(m.span(), &format!("unsupported method `{}` on {}", name, rt))
    }

    /// `match x { lit | lit => a, lo..=hi => b, _ => c }` on a scalar with simple pure arm bodies
    fn try_pure_match(&mut self, m: &syn::ExprMatch, expect: Option<&Ty>) -> R<Option<Out>> {
        fn simple(e: &Expr) -> bool {
            match e {
                Expr::Path(_) | Expr::Lit(_) => true,
                Expr::Paren(p) => simple(&p.expr),
                Expr::Reference(r) => simple(&r.expr),
                Expr::Unary(u) => simple(&u.expr),
                Expr::Field(f) => simple(&f.base),
                Expr::Cast(c) => simple(&c.expr),
                _ => false,
            }
        }
        if !simple(&m.expr) {
            return Ok(None);
        }
        for a in &m.arms {
            if a.guard.is_some() || !simple(&a.body) {
                return Ok(None);
            }
            let ok = Self::is_scalar_cond_pat(&a.pat) || matches!(peel_pat(&a.pat), Pat::Wild(_));
            if !ok {
                return Ok(None);
            }
        }
        let last_is_wild = m.arms.last().map(|a| matches!(peel_pat(&a.pat), Pat::Wild(_))).unwrap_or(false);
        if !last_is_wild {
            return Ok(None);
        }
        let s = self.expr(&m.expr, None)?;
        if !s.pre.is_empty() || s.diverges {
            return Ok(None);
        }
        let mut ty: Option<Ty> = expect.cloned();
        let mut parts: Vec<(Option<String>, String)> = Vec::new();
        for a in &m.arms {
            let cond = if matches!(peel_pat(&a.pat), Pat::Wild(_)) { None } else { self.int_pat_cond(&a.pat, &s.term, &s.ty)? };
            let b = self.expr(&a.body, ty.as_ref())?;
            if !b.pre.is_empty() || b.diverges {
                return self.err(m.span(), "internal: impure arm in pure-match");
            }
            if ty.is_none() {
                ty = Some(b.ty.clone());
            }
            parts.push((cond, b.term));
        }
        let mut term = String::new();
        let mut closers = 0;
        for (c, b) in &parts {
            match c {
                Some(c) => {
                    write!(term, "(if {} then {} else ", c, b).unwrap();
                    closers += 1;
                }
                None => {
                    term.push_str(b);
                    break;
                }
            }
        }
        for _ in 0..closers {
            term.push(')');
        }
        Ok(Some(Out { pre: vec![], term, ty: ty.unwrap_or(Ty::Unit), diverges: false }))
    }

    /// `if c { a } else { b }` where both branches are single pure expressions
    fn try_pure_if(&mut self, i: &syn::ExprIf, expect: Option<&Ty>) -> R<Option<Out>> {
        if matches!(peel(&i.cond), Expr::Let(_)) {
            return Ok(None);
        }
        let els = match &i.else_branch {
            Some((_, e)) => e,
            None => return Ok(None),
        };
        fn single(b: &Block) -> Option<&Expr> {
            if b.stmts.len() == 1 {
                if let Stmt::Expr(e, None) = &b.stmts[0] {
                    return Some(e);
                }
            }
            None
        }
        let te = match single(&i.then_branch) {
            Some(e) => e,
            None => return Ok(None),
        };
        let ee: &Expr = match &**els {
            Expr::Block(b) => match single(&b.block) {
                Some(e) => e,
                None => return Ok(None),
            },
            _ => return Ok(None),
        };
        fn simple(e: &Expr) -> bool {
            match e {
                Expr::Path(_) | Expr::Lit(_) => true,
                Expr::Paren(p) => simple(&p.expr),
                Expr::Reference(r) => simple(&r.expr),
                Expr::Unary(u) => simple(&u.expr),
                Expr::Field(f) => simple(&f.base),
                Expr::Cast(c) => simple(&c.expr),
                _ => false,
            }
        }
        if !simple(te) || !simple(ee) {
            return Ok(None);
        }
        let c = self.expr(&i.cond, Some(&Ty::Bool))?;
        let a = self.expr(te, expect)?;
        let at = a.ty.clone();
        let b = self.expr(ee, Some(&at))?;
        if !a.pre.is_empty() || !b.pre.is_empty() || a.diverges || b.diverges {
            return self.err(i.span(), "internal: impure branch in pure-if");
        }
        Ok(Some(Out { pre: c.pre, term: format!("(if {} then {} else {})", c.term, a.term, b.term), ty: at, diverges: false }))
    }
}

fn callee_pat_nonempty(f: &FnEntry) -> bool {
    !pattern_generics(&f.sig.generics).is_empty()
}

fn state_tuple(vars: &[String]) -> String {
    match vars.len() {
        0 => "()".to_string(),
        1 => lean_ident(&vars[0]),
        _ => format!("({})", vars.iter().map(|v| lean_ident(v)).collect::<Vec<_>>().join(", ")),
    }
}

/// append `prefix` + a multi-line term (first line continues the prefix)
fn push_bind(pre: &mut Vec<String>, prefix: &str, lines: Vec<String>) {
    let mut it = lines.into_iter();
    if let Some(first) = it.next() {
        pre.push(format!("{}{}", prefix, first));
    }
    for l in it {
        pre.push(format!("  {}", l));
    }
}
