//! rs2lean — translate selected functions of the macro-expanded konst crates into Lean 4
//! definitions over `Rs.Prelude` (see /verif/DESIGN.md section 11).
//!
//! usage: rs2lean --src konst_kernel=<expanded.rs> --src konst=<expanded.rs>
//!                --targets targets.txt --out <dir>   [--only <group>]
mod alpha;
mod index;
mod tr;
mod ty;

use std::collections::BTreeMap;
use std::fmt::Write as _;

pub struct Target {
    pub group: String,
    pub rust_path: String,
    pub lean_name: String,
    pub kind: TargetKind,
    pub extern_fuel: bool,
    /// `arm=<Variant>`: translate only this arm of the function's `match HasTypeWitness::WITNESS`
    pub arm: Option<String>,
    /// `ty=<type>`: the type the function's single generic parameter stands for in that arm
    pub arm_ty: Option<String>,
    /// `abstract=f,g`: calls of these functions become calls of function PARAMETERS of the translated definition
    pub abstract_fns: Vec<String>,
}

#[derive(PartialEq, Clone, Copy)]
pub enum TargetKind {
    Fn,
    Struct,
    Enum,
    Const,
    /// calls of this Rust function are mapped to an existing Lean definition (assumption recorded in DESIGN.md)
    Extern,
}

pub struct Group {
    pub name: String,
    pub imports: Vec<String>,
    pub targets: Vec<Target>,
}

fn parse_targets(text: &str) -> Vec<Group> {
    let mut groups: Vec<Group> = Vec::new();
    for raw in text.lines() {
        let line = raw.split('#').next().unwrap().trim();
        if line.is_empty() {
            continue;
        }
        let toks: Vec<&str> = line.split_whitespace().collect();
        if toks[0] == "@group" {
            let mut imports = Vec::new();
            for t in &toks[2..] {
                if let Some(r) = t.strip_prefix("imports=") {
                    imports = r.split(',').filter(|s| !s.is_empty()).map(|s| s.to_string()).collect();
                }
            }
            groups.push(Group { name: toks[1].to_string(), imports, targets: Vec::new() });
            continue;
        }
        let (kind, path_i) = match toks[0] {
            "fn" => (TargetKind::Fn, 1),
            "struct" => (TargetKind::Struct, 1),
            "enum" => (TargetKind::Enum, 1),
            "const" => (TargetKind::Const, 1),
            "extern" => (TargetKind::Extern, 1),
            _ => (TargetKind::Fn, 0),
        };
        let rust_path = toks[path_i].to_string();
        let mut lean_name = rust_path.rsplit("::").next().unwrap().trim_start_matches('_').to_string();
        if let Some(pos) = toks.iter().position(|t| *t == "as") {
            if pos + 1 < toks.len() {
                lean_name = toks[pos + 1].to_string();
            }
        }
        let fuel = toks.iter().any(|t| *t == "fuel");
        let arm = toks.iter().find_map(|t| t.strip_prefix("arm=")).map(|s| s.to_string());
        let arm_ty = toks.iter().find_map(|t| t.strip_prefix("ty=")).map(|s| s.to_string());
        let abstract_fns: Vec<String> = toks.iter().find_map(|t| t.strip_prefix("abstract=")).map(|s| s.split(',').map(|x| x.to_string()).collect()).unwrap_or_default();
        let g = groups.last_mut().expect("target before any @group");
        let group = g.name.clone();
        g.targets.push(Target { group, rust_path, lean_name, kind, extern_fuel: fuel, arm, arm_ty, abstract_fns });
    }
    groups
}

fn main() {
    let args: Vec<String> = std::env::args().collect();
    let mut srcs: Vec<(String, String)> = Vec::new();
    let mut targets_path = String::new();
    let mut out_dir = String::new();
    let mut i = 1;
    while i < args.len() {
        match args[i].as_str() {
            "--src" => {
                let (k, p) = args[i + 1].split_once('=').expect("--src name=path");
                srcs.push((k.to_string(), p.to_string()));
                i += 2;
            }
            "--targets" => {
                targets_path = args[i + 1].clone();
                i += 2;
            }
            "--out" => {
                out_dir = args[i + 1].clone();
                i += 2;
            }
            other => panic!("unknown argument {}", other),
        }
    }
    let mut idx = index::Index::default();
    let mut texts: BTreeMap<String, Vec<String>> = BTreeMap::new();
    for (k, p) in &srcs {
        let text = std::fs::read_to_string(p).unwrap_or_else(|e| panic!("{}: {}", p, e));
        let file = syn::parse_file(&text).unwrap_or_else(|e| {
            let st = e.span().start();
            panic!("{}: parse error {} at {}:{}", p, e, st.line, st.column)
        });
        idx.add_file(k, &file);
        texts.insert(k.clone(), text.lines().map(|s| s.to_string()).collect());
    }
    let groups = parse_targets(&std::fs::read_to_string(&targets_path).expect("targets file"));
    std::fs::create_dir_all(&out_dir).unwrap();

    // registry of all targets (so that calls can be resolved across groups)
    {
        let mut seen: BTreeMap<String, String> = BTreeMap::new();
        for g in &groups {
            for t in &g.targets {
                if t.kind == TargetKind::Extern {
                    continue;
                }
                if let Some(o) = seen.insert(t.lean_name.clone(), t.rust_path.clone()) {
                    panic!("targets `{}` and `{}` get the same Lean name `{}`: use `as`", o, t.rust_path, t.lean_name);
                }
            }
        }
    }
    {
        let mut r = tr::RESERVED.lock().unwrap();
        for g in &groups {
            for t in &g.targets {
                if t.kind == TargetKind::Fn && !t.lean_name.contains('.') {
                    r.push(t.lean_name.clone());
                }
            }
        }
    }
    let mut reg = tr::Registry::default();
    for g in &groups {
        for t in &g.targets {
            reg.add(&idx, t);
        }
    }
    reg.compute_fuel(&idx);

    let mut status = String::from("[\n");
    let mut first = true;
    let mut failures = 0;
    for g in &groups {
        let mut out = String::new();
        writeln!(out, "/- GENERATED by /verif/translator (rs2lean) from the macro-expanded source of /repo.").unwrap();
        writeln!(out, "   DO NOT EDIT: regenerated on every run of ./check.  Group `{}`. -/", g.name).unwrap();
        writeln!(out, "import KonstVerif.Rs.Prelude").unwrap();
        for im in &g.imports {
            writeln!(out, "import KonstVerif.Extracted.Gen.{}", im).unwrap();
        }
        writeln!(out, "set_option linter.unusedVariables false").unwrap();
        writeln!(out, "namespace Extracted\nopen Rs\n").unwrap();
        for t in &g.targets {
            let res = tr::translate_target(&idx, &reg, t, &texts);
            if !first {
                status.push_str(",\n");
            }
            first = false;
            match res {
                Ok(code) => {
                    out.push_str(&code);
                    out.push('\n');
                    write!(status, " {{\"group\": \"{}\", \"rust\": \"{}\", \"lean\": \"Extracted.{}\", \"ok\": true}}", g.name, t.rust_path, t.lean_name).unwrap();
                }
                Err(e) => {
                    failures += 1;
                    writeln!(out, "/- TRANSLATION FAILED for `{}`: {} -/\n", t.rust_path, e.replace("-/", "- /")).unwrap();
                    eprintln!("rs2lean: {}: {}", t.rust_path, e);
                    write!(
                        status,
                        " {{\"group\": \"{}\", \"rust\": \"{}\", \"lean\": \"Extracted.{}\", \"ok\": false, \"error\": {:?}}}",
                        g.name, t.rust_path, t.lean_name, e
                    )
                    .unwrap();
                }
            }
        }
        writeln!(out, "end Extracted").unwrap();
        let path = format!("{}/{}.lean", out_dir, g.name);
        let old = std::fs::read_to_string(&path).unwrap_or_default();
        if old != out {
            std::fs::write(&path, out).unwrap();
        }
    }
    {
        let sigs = tr::SIGS.lock().unwrap();
        let text = format!("[\n {}\n]\n", sigs.join(",\n "));
        let path = format!("{}/signatures.json", out_dir);
        if std::fs::read_to_string(&path).unwrap_or_default() != text {
            std::fs::write(&path, text).unwrap();
        }
    }
    status.push_str("\n]\n");
    std::fs::write(format!("{}/status.json", out_dir), status).unwrap();
    if failures > 0 {
        eprintln!("rs2lean: {} target(s) failed to translate", failures);
        std::process::exit(2);
    }
}
