// patterns and `match` (included into tr_stmt.rs)

#[derive(Clone, Debug)]
enum PTree {
    Wild,
    Ctor { name: String, family: Vec<(String, usize)>, args: Vec<PTree> },
}

struct PatOut {
    lean: String,
    conds: Vec<String>,
    binds: Vec<(String, Ty)>,
    /// `[front.., rest @ .., back]` at the top of a discriminant: pattern for `Rs.unsnoc d`
    view: Option<(String, PTree)>,
    /// the same view as a pattern for `Rs.snocView d` (any number of elements after the rest pattern);
    /// `view` is `None` and this is `Some` when there are two or more
    sview: Option<(String, PTree)>,
    tree: PTree,
}

fn fam_snoc() -> Vec<(String, usize)> {
    vec![("snoc".into(), 3), ("nil".into(), 0)]
}

fn fam_option() -> Vec<(String, usize)> {
    vec![("some".into(), 1), ("none".into(), 0)]
}
fn fam_result() -> Vec<(String, usize)> {
    vec![("ok".into(), 1), ("error".into(), 1)]
}
fn fam_list() -> Vec<(String, usize)> {
    vec![("cons".into(), 2), ("nil".into(), 0)]
}
fn fam_bool() -> Vec<(String, usize)> {
    vec![("true".into(), 0), ("false".into(), 0)]
}

fn specialize(row: &[PTree], name: &str, arity: usize) -> Option<Vec<PTree>> {
    match &row[0] {
        PTree::Wild => {
            let mut v = vec![PTree::Wild; arity];
            v.extend_from_slice(&row[1..]);
            Some(v)
        }
        PTree::Ctor { name: n, args, .. } => {
            if n == name {
                let mut v = args.clone();
                v.extend_from_slice(&row[1..]);
                Some(v)
            } else {
                None
            }
        }
    }
}

/// Maranget's usefulness: is `q` matched by something no row matches?
fn useful(rows: &[Vec<PTree>], q: &[PTree]) -> bool {
    if q.is_empty() {
        return rows.is_empty();
    }
    match &q[0] {
        PTree::Ctor { name, args, .. } => {
            let rs: Vec<Vec<PTree>> = rows.iter().filter_map(|r| specialize(r, name, args.len())).collect();
            let qs = specialize(q, name, args.len()).unwrap();
            useful(&rs, &qs)
        }
        PTree::Wild => {
            let mut family: Option<Vec<(String, usize)>> = None;
            let mut heads: Vec<String> = Vec::new();
            for r in rows {
                if let PTree::Ctor { name, family: f, .. } = &r[0] {
                    family = Some(f.clone());
                    if !heads.contains(name) {
                        heads.push(name.clone());
                    }
                }
            }
            match family {
                Some(f) if !f.is_empty() && f.iter().all(|(n, _)| heads.contains(n)) => {
                    for (n, a) in &f {
                        let rs: Vec<Vec<PTree>> = rows.iter().filter_map(|r| specialize(r, n, *a)).collect();
                        let qs = specialize(q, n, *a).unwrap();
                        if useful(&rs, &qs) {
                            return true;
                        }
                    }
                    false
                }
                _ => {
                    let rs: Vec<Vec<PTree>> = rows.iter().filter(|r| matches!(r[0], PTree::Wild)).map(|r| r[1..].to_vec()).collect();
                    useful(&rs, &q[1..])
                }
            }
        }
    }
}

impl<'a> Tr<'a> {
    fn int_pat_cond(&mut self, p: &Pat, var: &str, ty: &Ty) -> R<Option<String>> {
        // conditions contributed by literal / range / or-of-those patterns on an integer variable
        match p {
            Pat::Lit(l) => {
                let o = self.lit(&l.lit, Some(ty), p.span())?;
                Ok(Some(format!("decide ({} = {})", var, o.term)))
            }
            Pat::Range(r) => {
                let mut cs = Vec::new();
                if let Some(s) = &r.start {
                    let o = self.expr(s, Some(ty))?;
                    cs.push(format!("decide ({} ≤ {})", o.term, var));
                }
                if let Some(e) = &r.end {
                    let o = self.expr(e, Some(ty))?;
                    match r.limits {
                        syn::RangeLimits::Closed(_) => cs.push(format!("decide ({} ≤ {})", var, o.term)),
                        syn::RangeLimits::HalfOpen(_) => cs.push(format!("decide ({} < {})", var, o.term)),
                    }
                }
                if cs.is_empty() {
                    return Ok(None);
                }
                Ok(Some(format!("({})", cs.join(" && "))))
            }
            Pat::Or(o) => {
                let mut cs = Vec::new();
                for c in &o.cases {
                    match self.int_pat_cond(c, var, ty)? {
                        Some(x) => cs.push(x),
                        None => return Ok(None),
                    }
                }
                Ok(Some(format!("({})", cs.join(" || "))))
            }
            Pat::Paren(pp) => self.int_pat_cond(&pp.pat, var, ty),
            Pat::Path(pth) => {
                // constant pattern
                let o = self.path_expr(&syn::ExprPath { attrs: vec![], qself: None, path: pth.path.clone() }, Some(ty))?;
                Ok(Some(format!("decide ({} = {})", var, o.term)))
            }
            _ => Ok(None),
        }
    }

    fn is_scalar_cond_pat(p: &Pat) -> bool {
        match p {
            Pat::Lit(l) => !matches!(l.lit, Lit::Bool(_)),
            Pat::Range(_) => true,
            Pat::Or(o) => o.cases.iter().all(Self::is_scalar_cond_pat),
            Pat::Paren(pp) => Self::is_scalar_cond_pat(&pp.pat),
            _ => false,
        }
    }

    fn pat(&mut self, p: &Pat, ty: &Ty) -> R<PatOut> {
        let ty_s = self.sub.shallow(ty);
        match p {
            Pat::Paren(pp) => self.pat(&pp.pat, ty),
            Pat::Reference(r) => self.pat(&r.pat, ty),
            Pat::Type(t) => {
                let at = self.conv_ty(&t.ty);
                self.unify(&at, ty, p.span())?;
                self.pat(&t.pat, ty)
            }
            Pat::Wild(_) => Ok(PatOut { lean: "_".into(), conds: vec![], binds: vec![], view: None, sview: None, tree: PTree::Wild }),
            Pat::Rest(_) => self.err(p.span(), "`..` outside a slice pattern"),
            Pat::Ident(pi) => {
                let name = pi.ident.to_string();
                match &pi.subpat {
                    None => {
                        // a unit enum variant / constant can parse as an identifier pattern
                        if name == "None" {
                            return Ok(PatOut { lean: "none".into(), conds: vec![], binds: vec![], view: None, sview: None, tree: PTree::Ctor { name: "none".into(), family: fam_option(), args: vec![] } });
                        }
                        Ok(PatOut { lean: lean_ident(&name), conds: vec![], binds: vec![(name, ty.clone())], view: None, sview: None, tree: PTree::Wild })
                    }
                    Some((_, sp)) => {
                        if Self::is_scalar_cond_pat(sp) {
                            let c = self.int_pat_cond(sp, &lean_ident(&name), ty)?;
                            return Ok(PatOut { lean: lean_ident(&name), conds: c.into_iter().collect(), binds: vec![(name, ty.clone())], view: None, sview: None, tree: PTree::Wild });
                        }
                        let inner = self.pat(sp, ty)?;
                        if inner.view.is_some() || inner.sview.is_some() {
                            return self.err(p.span(), "`x @ [.., last]` pattern");
                        }
                        let mut binds = vec![(name.clone(), ty.clone())];
                        binds.extend(inner.binds);
                        Ok(PatOut { lean: format!("{}@({})", lean_ident(&name), inner.lean), conds: inner.conds, binds, view: None, sview: None, tree: inner.tree })
                    }
                }
            }
            Pat::Lit(l) => {
                if let Lit::Bool(b) = &l.lit {
                    let n = if b.value { "true" } else { "false" };
                    return Ok(PatOut { lean: n.into(), conds: vec![], binds: vec![], view: None, sview: None, tree: PTree::Ctor { name: n.into(), family: fam_bool(), args: vec![] } });
                }
                let v = self.fresh("p");
                let c = self.int_pat_cond(p, &v, ty)?;
                Ok(PatOut { lean: v, conds: c.into_iter().collect(), binds: vec![], view: None, sview: None, tree: PTree::Wild })
            }
            Pat::Range(_) => {
                let v = self.fresh("p");
                let c = self.int_pat_cond(p, &v, ty)?;
                Ok(PatOut { lean: v, conds: c.into_iter().collect(), binds: vec![], view: None, sview: None, tree: PTree::Wild })
            }
            Pat::Or(o) => {
                if Self::is_scalar_cond_pat(p) {
                    let v = self.fresh("p");
                    let c = self.int_pat_cond(p, &v, ty)?;
                    return Ok(PatOut { lean: v, conds: c.into_iter().collect(), binds: vec![], view: None, sview: None, tree: PTree::Wild });
                }
                // alternatives without bindings: a Lean or-pattern
                let mut leans = Vec::new();
                for c in &o.cases {
                    let po = self.pat(c, ty)?;
                    if !po.binds.is_empty() || !po.conds.is_empty() || po.view.is_some() || po.sview.is_some() {
                        return self.err(p.span(), "or-pattern with bindings or conditions below the top of an arm");
                    }
                    leans.push(po.lean);
                }
                // conservative tree: not used for exhaustiveness (treated as useless row is unsound) -> mark with a private ctor
                Ok(PatOut { lean: leans.join(" | "), conds: vec![], binds: vec![], view: None, sview: None, tree: PTree::Ctor { name: "<or>".into(), family: vec![], args: vec![] } })
            }
            Pat::Tuple(t) if t.elems.is_empty() => {
                self.unify(ty, &Ty::Unit, p.span())?;
                Ok(PatOut { lean: "()".into(), conds: vec![], binds: vec![], view: None, sview: None, tree: PTree::Wild })
            }
            Pat::Tuple(t) => {
                let etys: Vec<Ty> = match &ty_s {
                    Ty::Tuple(ts) if ts.len() == t.elems.len() => ts.clone(),
                    _ => {
                        let v: Vec<Ty> = t.elems.iter().map(|_| self.sub.fresh()).collect();
                        self.unify(ty, &Ty::Tuple(v.clone()), p.span())?;
                        v
                    }
                };
                let mut leans = Vec::new();
                let mut conds = Vec::new();
                let mut binds = Vec::new();
                let mut trees = Vec::new();
                for (sp, et) in t.elems.iter().zip(etys.iter()) {
                    let po = self.pat(sp, et)?;
                    if po.view.is_some() || po.sview.is_some() {
                        return self.err(p.span(), "`[.., last]` pattern nested inside a tuple pattern that is not the match scrutinee");
                    }
                    leans.push(po.lean);
                    conds.extend(po.conds);
                    binds.extend(po.binds);
                    trees.push(po.tree);
                }
                let n = trees.len();
                Ok(PatOut { lean: format!("({})", leans.join(", ")), conds, binds, view: None, sview: None, tree: PTree::Ctor { name: "tuple".into(), family: vec![("tuple".into(), n)], args: trees } })
            }
            Pat::Slice(s) => {
                let et = match &ty_s {
                    Ty::Slice(e) => (**e).clone(),
                    Ty::Str => Ty::Int(IntTy::U8),
                    _ => {
                        let v = self.sub.fresh();
                        self.unify(ty, &Ty::Slice(Box::new(v.clone())), p.span())?;
                        v
                    }
                };
                let mut front: Vec<&Pat> = Vec::new();
                let mut back: Vec<&Pat> = Vec::new();
                let mut rest: Option<Option<String>> = None; // Some(None) = `..`, Some(Some(x)) = `x @ ..`
                for el in &s.elems {
                    let is_rest = match el {
                        Pat::Rest(_) => Some(None),
                        Pat::Ident(pi) => match &pi.subpat {
                            Some((_, sp)) if matches!(**sp, Pat::Rest(_)) => Some(Some(pi.ident.to_string())),
                            _ => None,
                        },
                        _ => None,
                    };
                    match is_rest {
                        Some(r) => {
                            if rest.is_some() {
                                return self.err(p.span(), "two rest patterns");
                            }
                            rest = Some(r);
                        }
                        None => {
                            if rest.is_some() {
                                back.push(el);
                            } else {
                                front.push(el);
                            }
                        }
                    }
                }
                let mut conds = Vec::new();
                let mut binds = Vec::new();
                let slice_ty = Ty::Slice(Box::new(et.clone()));
                // front part as a Lean list pattern
                let mut front_leans = Vec::new();
                let mut front_trees = Vec::new();
                for f in &front {
                    let po = self.pat(f, &et)?;
                    if po.view.is_some() || po.sview.is_some() {
                        return self.err(p.span(), "nested `[.., last]` pattern");
                    }
                    front_leans.push(po.lean);
                    conds.extend(po.conds);
                    binds.extend(po.binds);
                    front_trees.push(po.tree);
                }
                let build = |leans: &[String], trees: &[PTree], tail_lean: String, tail_tree: PTree| -> (String, PTree) {
                    let mut l = tail_lean;
                    let mut t = tail_tree;
                    for (x, xt) in leans.iter().zip(trees.iter()).rev() {
                        l = format!("{} :: {}", x, l);
                        t = PTree::Ctor { name: "cons".into(), family: fam_list(), args: vec![xt.clone(), t] };
                    }
                    (l, t)
                };
                let nil_tree = PTree::Ctor { name: "nil".into(), family: fam_list(), args: vec![] };
                match (&rest, back.len()) {
                    (None, _) => {
                        let (l, t) = build(&front_leans, &front_trees, "[]".into(), nil_tree);
                        Ok(PatOut { lean: format!("({})", l), conds, binds, view: None, sview: None, tree: t })
                    }
                    (Some(r), 0) => {
                        let tail = match r {
                            Some(n) => {
                                binds.push((n.clone(), slice_ty.clone()));
                                lean_ident(n)
                            }
                            None => "_".to_string(),
                        };
                        let (l, t) = build(&front_leans, &front_trees, tail, PTree::Wild);
                        Ok(PatOut { lean: format!("({})", l), conds, binds, view: None, sview: None, tree: t })
                    }
                    (Some(r), _) => {
                        // view through Rs.unsnoc: some (init, last), init matched by front ++ rest;
                        // with several trailing elements through Rs.snocView: .snoc _ (.snoc init _ a) b
                        let tail = match r {
                            Some(n) => {
                                binds.push((n.clone(), slice_ty.clone()));
                                lean_ident(n)
                            }
                            None => "_".to_string(),
                        };
                        let (il, it) = build(&front_leans, &front_trees, tail, PTree::Wild);
                        let mut bos = Vec::new();
                        for b in &back {
                            let bo = self.pat(b, &et)?;
                            if bo.view.is_some() || bo.sview.is_some() {
                                return self.err(p.span(), "nested `[.., last]` pattern");
                            }
                            conds.extend(bo.conds);
                            binds.extend(bo.binds);
                            bos.push((bo.lean, bo.tree));
                        }
                        let view = if bos.len() == 1 {
                            let vl = format!("some ({}, {})", il, bos[0].0);
                            let vt = PTree::Ctor {
                                name: "some".into(),
                                family: fam_option(),
                                args: vec![PTree::Ctor { name: "tuple".into(), family: vec![("tuple".into(), 2)], args: vec![it.clone(), bos[0].1.clone()] }],
                            };
                            Some((vl, vt))
                        } else {
                            None
                        };
                        let mut sl = format!(".snoc ({}) _ {}", il, bos[0].0);
                        let mut st = PTree::Ctor { name: "snoc".into(), family: fam_snoc(), args: vec![it, PTree::Wild, bos[0].1.clone()] };
                        for (bl, bt) in bos.iter().skip(1) {
                            sl = format!(".snoc _ ({}) {}", sl, bl);
                            st = PTree::Ctor { name: "snoc".into(), family: fam_snoc(), args: vec![PTree::Wild, st, bt.clone()] };
                        }
                        Ok(PatOut { lean: "_".into(), conds, binds, view, sview: Some((sl, st)), tree: PTree::Wild })
                    }
                }
            }
            Pat::TupleStruct(ts) => {
                let segs = path_segs(&ts.path);
                let last = segs.last().cloned().unwrap_or_default();
                let prev = if segs.len() >= 2 { Some(segs[segs.len() - 2].clone()) } else { None };
                if last == "Some" || last == "Ok" || last == "Err" {
                    let (inner_ty, ctor, fam) = match last.as_str() {
                        "Some" => {
                            let v = match &ty_s {
                                Ty::Option(t) => (**t).clone(),
                                _ => {
                                    let v = self.sub.fresh();
                                    self.unify(ty, &Ty::Option(Box::new(v.clone())), p.span())?;
                                    v
                                }
                            };
                            (v, "some", fam_option())
                        }
                        _ => {
                            let (a, b) = match &ty_s {
                                Ty::Result(a, b) => ((**a).clone(), (**b).clone()),
                                _ => {
                                    let a = self.sub.fresh();
                                    let b = self.sub.fresh();
                                    self.unify(ty, &Ty::Result(Box::new(a.clone()), Box::new(b.clone())), p.span())?;
                                    (a, b)
                                }
                            };
                            if last == "Ok" {
                                (a, "ok", fam_result())
                            } else {
                                (b, "error", fam_result())
                            }
                        }
                    };
                    let po = self.pat(&ts.elems[0], &inner_ty)?;
                    if po.view.is_some() || po.sview.is_some() {
                        return self.err(p.span(), "`[.., last]` pattern nested in a constructor pattern");
                    }
                    let lean = match ctor {
                        "some" => format!("(some {})", po.lean),
                        "ok" => format!("(Except.ok {})", po.lean),
                        _ => format!("(Except.error {})", po.lean),
                    };
                    return Ok(PatOut { lean, conds: po.conds, binds: po.binds, view: None, sview: None, tree: PTree::Ctor { name: ctor.into(), family: fam, args: vec![po.tree] } });
                }
                // user enum variant or tuple struct
                let en = prev.map(|e| if e == "Self" { self.cur.self_ty.clone().unwrap_or_default() } else { e });
                if let Some(en) = en.filter(|e| self.reg.enums.contains_key(e)) {
                    let vtys = self.variant_field_tys(&en, &last, p.span())?;
                    let lean_en = self.reg.enums[&en].clone();
                    let mut leans = Vec::new();
                    let mut conds = Vec::new();
                    let mut binds = Vec::new();
                    let mut trees = Vec::new();
                    for (sp, vt) in ts.elems.iter().zip(vtys.iter()) {
                        let po = self.pat(sp, vt)?;
                        leans.push(po.lean);
                        conds.extend(po.conds);
                        binds.extend(po.binds);
                        trees.push(po.tree);
                    }
                    self.unify(ty, &Ty::Adt(en.clone(), vec![]), p.span())?;
                    let fam = self.enum_family(&en);
                    return Ok(PatOut {
                        lean: format!("({}.{} {})", lean_en, lean_ident(&last), leans.join(" ")),
                        conds,
                        binds,
                        view: None, sview: None,
                        tree: PTree::Ctor { name: last, family: fam, args: trees },
                    });
                }
                let sname = if last == "Self" { self.cur.self_ty.clone().unwrap_or_default() } else { last.clone() };
                if self.reg.structs.contains_key(&sname) {
                    let mut leans = Vec::new();
                    let mut conds = Vec::new();
                    let mut binds = Vec::new();
                    let mut trees = Vec::new();
                    for (i, sp) in ts.elems.iter().enumerate() {
                        let (_, fty) = self.field_of(&sname, &syn::Member::Unnamed(syn::Index { index: i as u32, span: p.span() }), p.span())?;
                        let po = self.pat(sp, &fty)?;
                        leans.push(po.lean);
                        conds.extend(po.conds);
                        binds.extend(po.binds);
                        trees.push(po.tree);
                    }
                    self.unify(ty, &Ty::Adt(sname.clone(), vec![]), p.span())?;
                    let n = trees.len();
                    return Ok(PatOut { lean: format!("⟨{}⟩", leans.join(", ")), conds, binds, view: None, sview: None, tree: PTree::Ctor { name: "mk".into(), family: vec![("mk".into(), n)], args: trees } });
                }
                self.err(p.span(), &format!("unsupported constructor pattern `{}`", segs.join("::")))
            }
            Pat::Path(pp) => {
                let segs = path_segs(&pp.path);
                let last = segs.last().cloned().unwrap_or_default();
                if last == "None" {
                    if !matches!(ty_s, Ty::Option(_)) {
                        let v = self.sub.fresh();
                        self.unify(ty, &Ty::Option(Box::new(v)), p.span())?;
                    }
                    return Ok(PatOut { lean: "none".into(), conds: vec![], binds: vec![], view: None, sview: None, tree: PTree::Ctor { name: "none".into(), family: fam_option(), args: vec![] } });
                }
                if segs.len() >= 2 {
                    let en = &segs[segs.len() - 2];
                    let en = if en == "Self" { self.cur.self_ty.clone().unwrap_or_default() } else { en.clone() };
                    // `konst::__::Greater`: the re-exported variants of `core::cmp::Ordering`
                    if en == "Ordering" || en == "CmpOrdering" || (en == "__" && matches!(last.as_str(), "Less" | "Equal" | "Greater")) {
                        let c = match last.as_str() {
                            "Less" => "lt",
                            "Equal" => "eq",
                            _ => "gt",
                        };
                        return Ok(PatOut {
                            lean: format!("Ordering.{}", c),
                            conds: vec![],
                            binds: vec![],
                            view: None, sview: None,
                            tree: PTree::Ctor { name: c.into(), family: vec![("lt".into(), 0), ("eq".into(), 0), ("gt".into(), 0)], args: vec![] },
                        });
                    }
                    if let Some(lean_en) = self.reg.enums.get(&en).cloned() {
                        self.unify(ty, &Ty::Adt(en.clone(), vec![]), p.span())?;
                        let fam = self.enum_family(&en);
                        return Ok(PatOut { lean: format!("{}.{}", lean_en, lean_ident(&last)), conds: vec![], binds: vec![], view: None, sview: None, tree: PTree::Ctor { name: last, family: fam, args: vec![] } });
                    }
                }
                // constant
                let v = self.fresh("p");
                let c = self.int_pat_cond(p, &v, ty)?;
                Ok(PatOut { lean: v, conds: c.into_iter().collect(), binds: vec![], view: None, sview: None, tree: PTree::Wild })
            }
            Pat::Struct(ps) => {
                let segs = path_segs(&ps.path);
                let last = segs.last().cloned().unwrap_or_default();
                if segs.len() >= 2 {
                    let en = &segs[segs.len() - 2];
                    let en = if en == "Self" { self.cur.self_ty.clone().unwrap_or_default() } else { en.clone() };
                    if let Some(lean_en) = self.reg.enums.get(&en).cloned() {
                        let names = self.variant_field_names(&en, &last);
                        let tys = self.variant_field_tys(&en, &last, p.span())?;
                        self.unify(ty, &Ty::Adt(en.clone(), vec![]), p.span())?;
                        let mut leans = Vec::new();
                        let mut conds = Vec::new();
                        let mut binds = Vec::new();
                        let mut trees = Vec::new();
                        for (n, t) in names.iter().zip(tys.iter()) {
                            let fp = ps.fields.iter().find(|x| match (&x.member, n) {
                                (syn::Member::Named(id), Some(n)) => id == n,
                                _ => false,
                            });
                            match fp {
                                Some(fp) => {
                                    let po = self.pat(&fp.pat, t)?;
                                    leans.push(po.lean);
                                    conds.extend(po.conds);
                                    binds.extend(po.binds);
                                    trees.push(po.tree);
                                }
                                None => {
                                    leans.push("_".into());
                                    trees.push(PTree::Wild);
                                }
                            }
                        }
                        let fam = self.enum_family(&en);
                        return Ok(PatOut { lean: format!("({}.{} {})", lean_en, lean_ident(&last), leans.join(" ")), conds, binds, view: None, sview: None, tree: PTree::Ctor { name: last, family: fam, args: trees } });
                    }
                }
                let sname = if last == "Self" { self.cur.self_ty.clone().unwrap_or_default() } else { last };
                let st = match self.idx.find_struct(&sname, &self.cur.module) {
                    Some(s) if self.reg.structs.contains_key(&sname) => s.clone(),
                    _ => return self.err(p.span(), &format!("struct pattern for `{}` which is not a translation target", sname)),
                };
                self.unify(ty, &Ty::Adt(sname.clone(), vec![]), p.span())?;
                let mut leans = Vec::new();
                let mut conds = Vec::new();
                let mut binds = Vec::new();
                let mut trees = Vec::new();
                for (i, f) in st.fields.iter().enumerate() {
                    let member = match &f.ident {
                        Some(id) => syn::Member::Named(id.clone()),
                        None => syn::Member::Unnamed(syn::Index { index: i as u32, span: p.span() }),
                    };
                    let fp = ps.fields.iter().find(|x| x.member == member);
                    match fp {
                        Some(fp) => {
                            let (_, fty) = self.field_of(&sname, &member, p.span())?;
                            let po = self.pat(&fp.pat, &fty)?;
                            leans.push(po.lean);
                            conds.extend(po.conds);
                            binds.extend(po.binds);
                            trees.push(po.tree);
                        }
                        None => {
                            leans.push("_".into());
                            trees.push(PTree::Wild);
                        }
                    }
                }
                let n = trees.len();
                Ok(PatOut { lean: format!("⟨{}⟩", leans.join(", ")), conds, binds, view: None, sview: None, tree: PTree::Ctor { name: "mk".into(), family: vec![("mk".into(), n)], args: trees } })
            }
            _ => self.err(p.span(), "unsupported pattern form"),
        }
    }

    fn enum_family(&self, en: &str) -> Vec<(String, usize)> {
        match self.idx.find_enum(en, &self.cur.module) {
            Some(e) => e.variants.iter().map(|v| (v.ident.to_string(), v.fields.len())).collect(),
            None => vec![],
        }
    }

    /// the scrutinee of a match: a syntactic tuple is split into one discriminant per component
    fn scrutinee(&mut self, e: &Expr) -> R<(Vec<String>, Vec<(String, Ty)>, bool, bool)> {
        if let Expr::Tuple(t) = peel_paren(e) {
            if t.elems.len() >= 2 {
                let mut pre = Vec::new();
                let mut ds = Vec::new();
                for el in &t.elems {
                    let o = self.expr(el, None)?;
                    if o.diverges {
                        return self.err(el.span(), "diverging scrutinee component");
                    }
                    pre.extend(o.pre);
                    ds.push((o.term, o.ty));
                }
                return Ok((pre, ds, true, false));
            }
        }
        let o = self.expr(e, None)?;
        if o.diverges {
            let mut pre = o.pre;
            pre.push(o.term);
            return Ok((pre, vec![], false, true));
        }
        Ok((o.pre, vec![(o.term, o.ty)], false, false))
    }

    /// top-level alternatives of an arm pattern
    fn top_alternatives<'p>(p: &'p Pat) -> Vec<&'p Pat> {
        match p {
            Pat::Or(o) if !Self::is_scalar_cond_pat(p) => o.cases.iter().flat_map(|c| Self::top_alternatives(c)).collect(),
            Pat::Paren(pp) => Self::top_alternatives(&pp.pat),
            _ => vec![p],
        }
    }

    #[allow(clippy::too_many_arguments)]
    fn match_core(&mut self, discr: Vec<(String, Ty)>, was_tuple: bool, arms: &[ArmSpec], outs: &[String], want_value: bool, expect: Option<&Ty>, sp: proc_macro2::Span, let_else: bool) -> R<Comp> {
        // expand top-level or-patterns into separate rows
        struct Row<'r> {
            pats: Vec<Option<&'r Pat>>, // one per discriminant; None = wildcard
            arm: usize,
        }
        let k = discr.len();
        let mut rows: Vec<Row> = Vec::new();
        for (ai, a) in arms.iter().enumerate() {
            match a.pat {
                None => rows.push(Row { pats: vec![None; k], arm: ai }),
                Some(p) => {
                    for alt in Self::top_alternatives(p) {
                        if was_tuple {
                            match peel_pat(alt) {
                                Pat::Tuple(t) if t.elems.len() == k => rows.push(Row { pats: t.elems.iter().map(Some).collect(), arm: ai }),
                                Pat::Wild(_) => rows.push(Row { pats: vec![None; k], arm: ai }),
                                _ => return self.err(alt.span(), "pattern for a tuple scrutinee must be a tuple pattern or `_`"),
                            }
                        } else {
                            rows.push(Row { pats: vec![Some(alt)], arm: ai });
                        }
                    }
                }
            }
        }
        // translate the patterns of every row
        let mut routs: Vec<RowOut> = Vec::new();
        for r in &rows {
            // the pretty-printed expansion has lost macro hygiene: two hygienically distinct variables of the same
            // name in one pattern cannot be told apart in the text
            let mut seen: Vec<String> = Vec::new();
            for p in r.pats.iter().flatten() {
                for n in pat_bound_names(p) {
                    if !n.chars().next().map(|c| c.is_lowercase() || c == '_').unwrap_or(false) {
                        continue;
                    }
                    if seen.contains(&n) {
                        return self.err(sp, &format!("the name `{}` is bound twice in one pattern (identifiers distinguished only by macro hygiene)", n));
                    }
                    seen.push(n);
                }
            }
        }
        for r in &rows {
            let mut po = Vec::new();
            for (j, p) in r.pats.iter().enumerate() {
                match p {
                    None => po.push(PatOut { lean: "_".into(), conds: vec![], binds: vec![], view: None, sview: None, tree: PTree::Wild }),
                    Some(p) => {
                        let t = discr[j].1.clone();
                        po.push(self.pat(p, &t)?);
                    }
                }
            }
            routs.push(RowOut { po, arm: r.arm });
        }
        // view discriminants
        let need_view: Vec<bool> = (0..k).map(|j| routs.iter().any(|r| r.po[j].sview.is_some())).collect();
        // two or more elements after a rest pattern somewhere in the column: the general view
        let deep_view: Vec<bool> = (0..k).map(|j| routs.iter().any(|r| r.po[j].sview.is_some() && r.po[j].view.is_none())).collect();
        let mut dterms: Vec<String> = discr.iter().map(|d| d.0.clone()).collect();
        for j in 0..k {
            if need_view[j] {
                dterms.push(format!("{} {}", if deep_view[j] { "Rs.snocView" } else { "Rs.unsnoc" }, discr[j].0));
            }
        }
        let mut cx = MatchCx {
            dterms,
            need_view,
            deep_view,
            k,
            outs: outs.to_vec(),
            want_value,
            val_ty: expect.cloned(),
            all_div: true,
            let_else,
            bound_after: Vec::new(),
        };
        let lines = self.emit_rows(&routs, 0, arms, &mut cx, sp)?;
        if let_else {
            for (nm, t) in cx.bound_after.clone() {
                self.declare(&nm, t);
            }
        }
        let ty = cx.val_ty.clone().unwrap_or(Ty::Unit);
        Ok(Comp { pre: vec![], lines, ty, div: cx.all_div })
    }

    fn row_cols(r: &RowOut, cx: &MatchCx) -> (Vec<String>, Vec<PTree>) {
        let mut ls: Vec<String> = r.po.iter().map(|p| p.lean.clone()).collect();
        let mut ts: Vec<PTree> = r.po.iter().map(|p| p.tree.clone()).collect();
        for j in 0..cx.k {
            if cx.need_view[j] {
                match if cx.deep_view[j] { &r.po[j].sview } else { &r.po[j].view } {
                    Some((l, t)) => {
                        ls.push(l.clone());
                        ts.push(t.clone());
                    }
                    None => {
                        ls.push("_".into());
                        ts.push(PTree::Wild);
                    }
                }
            }
        }
        (ls, ts)
    }

    /// body of one arm as do-lines
    fn arm_body(&mut self, row: &RowOut, arms: &[ArmSpec], cx: &mut MatchCx, sp: proc_macro2::Span) -> R<Vec<String>> {
        self.scopes.push(HashMap::new());
        for p in &row.po {
            for (n, t) in &p.binds {
                self.declare(n, t.clone());
            }
        }
        let outs = cx.outs.clone();
        let exp = cx.val_ty.clone();
        let res: R<(Vec<String>, Ty, bool)> = match &arms[row.arm].body {
            ArmBody::Expr(e) => match peel_paren(e) {
                Expr::Block(b) if b.label.is_none() => self.block_lines(&b.block.stmts, &outs, cx.want_value, exp.as_ref()),
                other => {
                    let st = [Stmt::Expr(other.clone(), None)];
                    self.block_lines(&st, &outs, cx.want_value, exp.as_ref())
                }
            },
            ArmBody::BlockThenState(b) => self.block_lines(&b.stmts, &outs, cx.want_value, exp.as_ref()),
            ArmBody::BreakLoop => {
                let st = match self.frames.last_mut() {
                    Some(f) => {
                        f.breaks += 1;
                        state_tuple(&f.state)
                    }
                    None => return self.err(sp, "internal: break outside loop"),
                };
                Ok((vec![format!("Ctl.exit (.brk {})", st)], Ty::Never, true))
            }
            ArmBody::OptElse(None) | ArmBody::Unit => {
                if cx.want_value {
                    if let Some(t) = &exp {
                        self.unify(t, &Ty::Unit, sp)?;
                    }
                }
                Ok((vec![Self::pure_line(if cx.want_value { Some("()") } else { None }, &outs)], Ty::Unit, false))
            }
            ArmBody::OptElse(Some(e)) => match peel_paren(e) {
                Expr::Block(b) if b.label.is_none() => self.block_lines(&b.block.stmts, &outs, cx.want_value, exp.as_ref()),
                other => {
                    let st = [Stmt::Expr(other.clone(), None)];
                    self.block_lines(&st, &outs, cx.want_value, exp.as_ref())
                }
            },
        };
        if cx.let_else && cx.bound_after.is_empty() {
            for p in &row.po {
                for (n, t) in &p.binds {
                    cx.bound_after.push((n.clone(), t.clone()));
                }
            }
        }
        self.scopes.pop();
        let (lines, ty, div) = res?;
        if !div {
            cx.all_div = false;
            if cx.want_value {
                match &cx.val_ty {
                    Some(t) => {
                        let t = t.clone();
                        self.unify(&t, &ty, sp)?
                    }
                    None => cx.val_ty = Some(ty),
                }
            }
        }
        Ok(lines)
    }

    /// rows `from..` as one parenthesised `match` term (conditional rows fall through into a nested match)
    fn emit_rows(&mut self, routs: &[RowOut], from: usize, arms: &[ArmSpec], cx: &mut MatchCx, sp: proc_macro2::Span) -> R<Vec<String>> {
        if from >= routs.len() {
            return Ok(vec!["Ctl.panic".to_string()]);
        }
        let ncols = cx.dterms.len();
        {
            let row = &routs[from];
            let all_wild = row.po.iter().all(|p| p.lean == "_" && p.conds.is_empty() && p.binds.is_empty() && p.view.is_none() && p.sview.is_none());
            if all_wild && arms[row.arm].guard.is_none() {
                let body = self.arm_body(row, arms, cx, sp)?;
                let mut lines = vec!["(do".to_string()];
                lines.extend(ind(body, 4));
                let last = lines.pop().unwrap();
                lines.push(format!("{})", last));
                return Ok(lines);
            }
        }
        let mut lines = vec![format!("(match {} with", cx.dterms.join(", "))];
        let mut matrix: Vec<Vec<PTree>> = Vec::new();
        let mut j = from;
        let mut closed = false;
        while j < routs.len() {
            let row = &routs[j];
            let (ls, ts) = Self::row_cols(row, cx);
            let mut conds: Vec<String> = row.po.iter().flat_map(|p| p.conds.clone()).collect();
            // guard
            let mut guard_pre: Vec<String> = Vec::new();
            if let Some(g) = arms[row.arm].guard {
                self.scopes.push(HashMap::new());
                for p in &row.po {
                    for (n, t) in &p.binds {
                        self.declare(n, t.clone());
                    }
                }
                let go = self.expr(g, Some(&Ty::Bool));
                self.scopes.pop();
                let go = go?;
                guard_pre = go.pre;
                conds.push(go.term);
            }
            let body = self.arm_body(row, arms, cx, sp)?;
            if !guard_pre.is_empty() {
                // the guard has effects (a call, checked arithmetic): evaluate it inside the arm
                let rest = self.emit_rows(routs, j + 1, arms, cx, sp)?;
                lines.push(format!("  | {} => do", ls.join(", ")));
                lines.extend(ind(guard_pre, 6));
                lines.push(format!("      if {} then do", conds.join(" && ")));
                lines.extend(ind(body, 10));
                lines.push("      else".to_string());
                lines.extend(ind(rest.clone(), 8));
                matrix.push(ts);
                if useful(&matrix, &vec![PTree::Wild; ncols]) {
                    let wild = vec!["_"; ncols].join(", ");
                    lines.push(format!("  | {} =>", wild));
                    lines.extend(ind(rest, 6));
                }
                closed = true;
                break;
            }
            if conds.is_empty() {
                lines.push(format!("  | {} => do", ls.join(", ")));
                lines.extend(ind(body, 6));
                matrix.push(ts);
                j += 1;
                continue;
            }
            // conditional row: fall through to the remaining rows when the conditions fail
            let rest = self.emit_rows(routs, j + 1, arms, cx, sp)?;
            lines.push(format!("  | {} => if {} then do", ls.join(", "), conds.join(" && ")));
            lines.extend(ind(body, 8));
            lines.push("      else".to_string());
            lines.extend(ind(rest.clone(), 8));
            matrix.push(ts);
            if useful(&matrix, &vec![PTree::Wild; ncols]) {
                let wild = vec!["_"; ncols].join(", ");
                lines.push(format!("  | {} =>", wild));
                lines.extend(ind(rest, 6));
            }
            closed = true;
            break;
        }
        if !closed && useful(&matrix, &vec![PTree::Wild; ncols]) {
            // not exhaustive for Lean although rustc accepted it (integer ranges etc.): unreachable
            let wild = vec!["_"; ncols].join(", ");
            lines.push(format!("  | {} => Ctl.panic", wild));
        }
        let last = lines.pop().unwrap();
        lines.push(format!("{})", last));
        Ok(lines)
    }
}

struct RowOut {
    po: Vec<PatOut>,
    arm: usize,
}

struct MatchCx {
    dterms: Vec<String>,
    need_view: Vec<bool>,
    deep_view: Vec<bool>,
    k: usize,
    outs: Vec<String>,
    want_value: bool,
    val_ty: Option<Ty>,
    all_div: bool,
    let_else: bool,
    bound_after: Vec<(String, Ty)>,
}



fn peel_paren(e: &Expr) -> &Expr {
    match e {
        Expr::Paren(p) => peel_paren(&p.expr),
        Expr::Group(p) => peel_paren(&p.expr),
        _ => e,
    }
}

fn peel_pat(p: &Pat) -> &Pat {
    match p {
        Pat::Paren(pp) => peel_pat(&pp.pat),
        Pat::Reference(r) => peel_pat(&r.pat),
        _ => p,
    }
}
