// statements, blocks, control flow, patterns (included into tr.rs)

pub struct Comp {
    pre: Vec<String>,
    /// a parenthesised multi-line Ctl term
    lines: Vec<String>,
    ty: Ty,
    div: bool,
}

/// names assigned inside a construct that are not declared inside it
struct AssignFinder {
    declared: Vec<HashSet<String>>,
    found: Vec<String>,
}

impl AssignFinder {
    fn is_local(&self, n: &str) -> bool {
        self.declared.iter().any(|s| s.contains(n))
    }
    fn note(&mut self, e: &Expr) {
        let mut cur = e;
        loop {
            match cur {
                Expr::Field(f) => cur = &f.base,
                Expr::Index(i) => cur = &i.expr,
                Expr::Paren(p) => cur = &p.expr,
                Expr::Unary(u) => cur = &u.expr,
                Expr::Path(p) => {
                    if p.path.segments.len() == 1 {
                        let n = p.path.segments[0].ident.to_string();
                        if !self.is_local(&n) && !self.found.contains(&n) {
                            self.found.push(n);
                        }
                    }
                    return;
                }
                _ => return,
            }
        }
    }
    fn declare_pat(&mut self, p: &Pat) {
        struct V<'b>(&'b mut HashSet<String>);
        impl<'ast, 'b> syn::visit::Visit<'ast> for V<'b> {
            fn visit_pat_ident(&mut self, i: &'ast syn::PatIdent) {
                self.0.insert(i.ident.to_string());
                if let Some((_, sp)) = &i.subpat {
                    self.visit_pat(sp);
                }
            }
        }
        let top = self.declared.last_mut().unwrap();
        syn::visit::Visit::visit_pat(&mut V(top), p);
    }
}

impl<'ast> syn::visit::Visit<'ast> for AssignFinder {
    fn visit_block(&mut self, b: &'ast Block) {
        self.declared.push(HashSet::new());
        syn::visit::visit_block(self, b);
        self.declared.pop();
    }
    fn visit_local(&mut self, l: &'ast syn::Local) {
        if let Some(init) = &l.init {
            self.visit_expr(&init.expr);
            if let Some((_, d)) = &init.diverge {
                self.visit_expr(d);
            }
        }
        self.declare_pat(&l.pat);
    }
    fn visit_arm(&mut self, a: &'ast syn::Arm) {
        self.declared.push(HashSet::new());
        self.declare_pat(&a.pat);
        syn::visit::visit_arm(self, a);
        self.declared.pop();
    }
    fn visit_expr_if(&mut self, i: &'ast syn::ExprIf) {
        self.declared.push(HashSet::new());
        if let Expr::Let(l) = &*i.cond {
            self.visit_expr(&l.expr);
            self.declare_pat(&l.pat);
        } else {
            self.visit_expr(&i.cond);
        }
        self.visit_block(&i.then_branch);
        self.declared.pop();
        if let Some((_, e)) = &i.else_branch {
            self.visit_expr(e);
        }
    }
    fn visit_expr_while(&mut self, w: &'ast syn::ExprWhile) {
        self.declared.push(HashSet::new());
        if let Expr::Let(l) = &*w.cond {
            self.visit_expr(&l.expr);
            self.declare_pat(&l.pat);
        } else {
            self.visit_expr(&w.cond);
        }
        self.visit_block(&w.body);
        self.declared.pop();
    }
    fn visit_expr_assign(&mut self, a: &'ast syn::ExprAssign) {
        self.note(&a.left);
        syn::visit::visit_expr_assign(self, a);
    }
    fn visit_expr_reference(&mut self, r: &'ast syn::ExprReference) {
        // `&mut x` handed to a `&mut self` method called by path: the callee's new `self` is written back to `x`
        if r.mutability.is_some() {
            self.note(&r.expr);
        }
        syn::visit::visit_expr_reference(self, r);
    }
    fn visit_expr_binary(&mut self, b: &'ast syn::ExprBinary) {
        use BinOp::*;
        if matches!(
            b.op,
            AddAssign(_) | SubAssign(_) | MulAssign(_) | DivAssign(_) | RemAssign(_) | BitXorAssign(_) | BitAndAssign(_) | BitOrAssign(_) | ShlAssign(_) | ShrAssign(_)
        ) {
            self.note(&b.left);
        }
        syn::visit::visit_expr_binary(self, b);
    }
    fn visit_item(&mut self, _: &'ast syn::Item) {}
}

impl<'a> Tr<'a> {
    fn assigned_outer(&self, e: &Expr) -> Vec<String> {
        let mut f = AssignFinder { declared: vec![HashSet::new()], found: Vec::new() };
        syn::visit::Visit::visit_expr(&mut f, e);
        // a `let x: T;` variable that is first assigned inside `e` and never mentioned after the current statement is
        // local to the branch that assigns it (`let utf8e; let sep = match .. { A => { utf8e = ..; utf8e.as_str() } .. }`)
        f.found
            .into_iter()
            .filter(|n| self.lookup(n).is_some())
            .filter(|n| !(self.deferred.contains(n) && !self.live_after.iter().any(|s| s.contains(n))))
            .collect()
    }

    fn pure_line(value: Option<&str>, outs: &[String]) -> String {
        let mut parts: Vec<String> = Vec::new();
        if let Some(v) = value {
            parts.push(v.to_string());
        }
        for o in outs {
            parts.push(lean_ident(o));
        }
        match parts.len() {
            0 => "pure ()".to_string(),
            1 => format!("pure {}", parts[0]),
            _ => format!("pure ({})", parts.join(", ")),
        }
    }

    fn bind_pattern(has_value: Option<&str>, outs: &[String]) -> String {
        let mut parts: Vec<String> = Vec::new();
        if let Some(v) = has_value {
            parts.push(v.to_string());
        }
        for o in outs {
            parts.push(lean_ident(o));
        }
        match parts.len() {
            0 => "_".to_string(),
            1 => parts[0].clone(),
            _ => format!("({})", parts.join(", ")),
        }
    }

    /// the statements of a block as the lines of a `do` body ending in `pure (…)` (or a diverging term)
    fn block_lines(&mut self, stmts: &[Stmt], outs: &[String], want_value: bool, expect: Option<&Ty>) -> R<(Vec<String>, Ty, bool)> {
        self.scopes.push(HashMap::new());
        self.live_after.push(HashSet::new());
        let r = self.block_lines_inner(stmts, outs, want_value, expect);
        self.live_after.pop();
        self.scopes.pop();
        r
    }

    fn block_lines_inner(&mut self, stmts: &[Stmt], outs: &[String], want_value: bool, expect: Option<&Ty>) -> R<(Vec<String>, Ty, bool)> {
        let mut lines: Vec<String> = Vec::new();
        let n = stmts.len();
        for (k, s) in stmts.iter().enumerate() {
            let is_last = k + 1 == n;
            // names mentioned by the rest of this block
            {
                struct U(HashSet<String>);
                impl<'ast> syn::visit::Visit<'ast> for U {
                    fn visit_expr_path(&mut self, p: &'ast syn::ExprPath) {
                        if p.path.segments.len() == 1 {
                            self.0.insert(p.path.segments[0].ident.to_string());
                        }
                    }
                    fn visit_item(&mut self, _: &'ast syn::Item) {}
                }
                let mut u = U(HashSet::new());
                for later in &stmts[k + 1..] {
                    syn::visit::Visit::visit_stmt(&mut u, later);
                }
                if let Some(top) = self.live_after.last_mut() {
                    *top = u.0;
                }
            }
            match s {
                Stmt::Item(syn::Item::Const(c)) => {
                    // a constant local to the function: an ordinary immutable binding
                    let t = self.conv_ty(&c.ty);
                    let o = self.expr(&c.expr, Some(&t))?;
                    lines.extend(o.pre);
                    lines.push(format!("let {} := {}", lean_ident(&c.ident.to_string()), o.term));
                    self.declare(&c.ident.to_string(), t);
                }
                Stmt::Item(syn::Item::Type(t)) => {
                    // `type A<T> = T;` local to the block: the identity alias, `A::<X>` means exactly `X`
                    // (any other local alias stays unknown, so a use of it is still a translation error)
                    let params: Vec<_> = t.generics.params.iter().collect();
                    if let ([syn::GenericParam::Type(tp)], syn::Type::Path(rhs)) = (params.as_slice(), &*t.ty) {
                        if tp.bounds.is_empty() && rhs.qself.is_none() && rhs.path.is_ident(&tp.ident) {
                            self.identity_aliases.push(t.ident.to_string());
                        }
                    }
                }
                Stmt::Item(_) => {}
                Stmt::Macro(m) => {
                    let name = path_segs(&m.mac.path).last().cloned().unwrap_or_default();
                    if matches!(name.as_str(), "panic" | "unreachable" | "todo" | "unimplemented") {
                        lines.push("Ctl.panic".into());
                        return Ok((lines, Ty::Never, true));
                    }
                    return self.err(m.span(), &format!("unsupported macro `{}!`", name));
                }
                Stmt::Local(l) => {
                    if self.local(l, &mut lines)? {
                        return Ok((lines, Ty::Never, true));
                    }
                }
                // a stray `;` (empty statement)
                Stmt::Expr(Expr::Verbatim(ts), _) if ts.is_empty() => {}
                Stmt::Expr(e, semi) => {
                    if is_last && semi.is_none() {
                        // a plain block / unsafe block in tail position: inline its statements
                        let inner: Option<&Block> = match peel_paren(e) {
                            Expr::Block(b) if b.label.is_none() => Some(&b.block),
                            Expr::Unsafe(u) => Some(&u.block),
                            _ => None,
                        };
                        if let Some(b) = inner {
                            let (bl, ty, div) = self.block_lines(&b.stmts, outs, want_value, expect)?;
                            lines.extend(bl);
                            return Ok((lines, ty, div));
                        }
                        // tail expression: the value of the block
                        let unit_stmt = match peel_paren(e) {
                            Expr::Assign(_) => true,
                            Expr::Binary(b) => is_compound_assign(&b.op),
                            _ => false,
                        };
                        let o = if want_value && !unit_stmt {
                            self.expr(e, expect)?
                        } else {
                            let o = self.stmt_expr_as_value(e)?;
                            if want_value && !o.diverges {
                                if let Some(t) = expect {
                                    self.unify(t, &Ty::Unit, e.span())?;
                                }
                            }
                            o
                        };
                        lines.extend(o.pre);
                        if o.diverges {
                            lines.push(o.term);
                            return Ok((lines, Ty::Never, true));
                        }
                        if want_value {
                            lines.push(Self::pure_line(Some(&o.term), outs));
                            return Ok((lines, o.ty, false));
                        } else {
                            lines.push(Self::pure_line(None, outs));
                            return Ok((lines, Ty::Unit, false));
                        }
                    }
                    if self.stmt_expr(e, &mut lines)? {
                        return Ok((lines, Ty::Never, true));
                    }
                }
            }
        }
        // no tail expression: the block's value is ()
        if want_value {
            if let Some(t) = expect {
                self.unify(t, &Ty::Unit, proc_macro2::Span::call_site())?;
            }
            lines.push(Self::pure_line(Some("()"), outs));
        } else {
            lines.push(Self::pure_line(None, outs));
        }
        Ok((lines, Ty::Unit, false))
    }

    /// a tail expression whose value is not wanted (unit-typed statement forms)
    fn stmt_expr_as_value(&mut self, e: &Expr) -> R<Out> {
        let mut lines = Vec::new();
        let div = self.stmt_expr(e, &mut lines)?;
        if div {
            let term = lines.pop().unwrap();
            return Ok(Out { pre: lines, term, ty: Ty::Never, diverges: true });
        }
        Ok(Out { pre: lines, term: "()".into(), ty: Ty::Unit, diverges: false })
    }

    /// `let` statement; returns true if it diverges
    fn local(&mut self, l: &syn::Local, lines: &mut Vec<String>) -> R<bool> {
        // peel the type annotation
        let (pat, ann): (&Pat, Option<Ty>) = match &l.pat {
            Pat::Type(pt) => {
                let t = self.conv_ty(&pt.ty);
                (&*pt.pat, Some(t))
            }
            p => (p, None),
        };
        let init = match &l.init {
            None => {
                // declared now, assigned later
                if let Pat::Ident(pi) = pat {
                    let t = ann.unwrap_or_else(|| self.sub.fresh());
                    self.declare(&pi.ident.to_string(), t);
                    self.deferred.insert(pi.ident.to_string());
                    return Ok(false);
                }
                return self.err(l.span(), "uninitialised `let` with a pattern");
            }
            Some(i) => i,
        };
        if let Some((_, div)) = &init.diverge {
            // let PAT = e else { diverge };
            let o = self.expr(&init.expr, ann.as_ref())?;
            lines.extend(o.pre);
            let arms = vec![
                ArmSpec { pat: Some(pat), guard: None, body: ArmBody::Unit },
                ArmSpec { pat: None, guard: None, body: ArmBody::Expr(div) },
            ];
            let bound = pat_bound_names(pat);
            let c = self.match_core(vec![(o.term, o.ty)], false, &arms, &bound, false, None, l.span(), true)?;
            lines.extend(c.pre);
            push_bind(lines, &format!("let {} ← ", Self::bind_pattern(None, &bound)), c.lines);
            return Ok(false);
        }
        // `let Range { mut start, end } = a..b;` (the expansion of konst's for_range!)
        if let (Pat::Struct(ps), Expr::Range(r)) = (pat, peel_paren(&init.expr)) {
            if ps.path.segments.last().map(|s| s.ident == "Range").unwrap_or(false) && matches!(r.limits, syn::RangeLimits::HalfOpen(_)) {
                if let (Some(a), Some(b)) = (&r.start, &r.end) {
                    let ua = self.expr(a, None)?;
                    let at = ua.ty.clone();
                    let ub = self.expr(b, Some(&at))?;
                    lines.extend(ua.pre);
                    lines.extend(ub.pre);
                    for f in &ps.fields {
                        let (fname, val) = match &f.member {
                            syn::Member::Named(id) if id == "start" => ("start", ua.term.clone()),
                            syn::Member::Named(id) if id == "end" => ("end", ub.term.clone()),
                            _ => return self.err(l.span(), "unknown field in a Range pattern"),
                        };
                        let _ = fname;
                        match peel_pat(&f.pat) {
                            Pat::Ident(pi) => {
                                lines.push(format!("let {} := {}", lean_ident(&pi.ident.to_string()), val));
                                self.declare(&pi.ident.to_string(), at.clone());
                            }
                            _ => return self.err(l.span(), "nested pattern in a Range pattern"),
                        }
                    }
                    return Ok(false);
                }
            }
        }
        // `let p = s.as_ptr();` / `s.as_mut_ptr()`: remember what p points into
        // `let p = s.as_ptr() as *const [T; N];`
        if let (Pat::Ident(pi), Expr::Cast(cast)) = (pat, peel(&init.expr)) {
            if let syn::Type::Ptr(tp) = &*cast.ty {
                if let syn::Type::Array(arr) = &*tp.elem {
                    if let Some((s, off)) = self.ptr_pattern(&cast.expr)? {
                        if s.pre.is_empty() && !s.diverges && off.is_none() {
                            let n = self.expr(&arr.len, Some(&Ty::Int(IntTy::USIZE)))?;
                            if n.pre.is_empty() {
                                self.ptr_alias.insert(pi.ident.to_string(), (s.term, s.ty, None));
                                self.ptr_array_len.insert(pi.ident.to_string(), n.term);
                                return Ok(false);
                            }
                        }
                    }
                }
            }
        }
        if let (Pat::Ident(pi), Expr::MethodCall(m)) = (pat, peel(&init.expr)) {
            let mn = m.method.to_string();
            if matches!(mn.as_str(), "as_ptr" | "as_mut_ptr" | "add" | "offset" | "cast") {
                if let Some((s, off)) = self.ptr_pattern(&init.expr)? {
                    if s.pre.is_empty() && !s.diverges {
                        let offt = match off {
                            Some(o) => {
                                lines.extend(o.pre);
                                Some(o.term)
                            }
                            None => None,
                        };
                        self.ptr_alias.insert(pi.ident.to_string(), (s.term, s.ty, offt));
                        return Ok(false);
                    }
                }
            }
        }
        let o = self.expr(&init.expr, ann.as_ref())?;
        lines.extend(o.pre);
        if o.diverges {
            lines.push(o.term);
            return Ok(true);
        }
        match pat {
            Pat::Ident(pi) if pi.subpat.is_none() => {
                let name = pi.ident.to_string();
                lines.push(format!("let {} := {}", lean_ident(&name), o.term));
                self.declare(&name, o.ty);
            }
            Pat::Wild(_) => {}
            _ => {
                let po = self.pat(pat, &o.ty)?;
                if !po.conds.is_empty() || po.view.is_some() || po.sview.is_some() {
                    return self.err(l.span(), "refutable pattern in `let` without `else`");
                }
                lines.push(format!("let {} := {}", po.lean, o.term));
                for (n, t) in po.binds {
                    self.declare(&n, t);
                }
            }
        }
        Ok(false)
    }

    /// an expression in statement position; returns true if it diverges
    fn stmt_expr(&mut self, e: &Expr, lines: &mut Vec<String>) -> R<bool> {
        match e {
            Expr::Paren(p) => self.stmt_expr(&p.expr, lines),
            Expr::Assign(a) => {
                let lt = self.place_type(&a.left)?;
                let o = self.expr(&a.right, Some(&lt))?;
                lines.extend(o.pre);
                if o.diverges {
                    lines.push(o.term);
                    return Ok(true);
                }
                self.assign_place(&a.left, o.term, false, lines)?;
                Ok(false)
            }
            Expr::Binary(b) if is_compound_assign(&b.op) => {
                use BinOp::*;
                let lt = self.place_type(&b.left)?;
                let cur = self.expr(&b.left, None)?;
                lines.extend(cur.pre);
                let shift = matches!(b.op, ShlAssign(_) | ShrAssign(_));
                let r = if shift { self.expr(&b.right, None)? } else { self.expr(&b.right, Some(&lt))? };
                if shift {
                    if let Ty::Var(_) = self.sub.shallow(&r.ty) {
                        self.unify(&r.ty, &Ty::Int(IntTy::U32), b.span())?;
                    }
                }
                lines.extend(r.pre);
                let (name, monadic) = match b.op {
                    AddAssign(_) => ("add", true),
                    SubAssign(_) => ("sub", true),
                    MulAssign(_) => ("mul", true),
                    DivAssign(_) => ("div", true),
                    RemAssign(_) => ("rem", true),
                    ShlAssign(_) => ("shl", true),
                    ShrAssign(_) => ("shr", true),
                    BitAndAssign(_) => ("and", false),
                    BitOrAssign(_) => ("or", false),
                    _ => ("xor", false),
                };
                let op = self.ph(name, &[&lt]);
                if monadic {
                    self.assign_place(&b.left, format!("{} {} {}", op, cur.term, r.term), true, lines)?;
                } else {
                    self.assign_place(&b.left, format!("({} {} {})", cur.term, op, r.term), false, lines)?;
                }
                Ok(false)
            }
            Expr::If(_) | Expr::Match(_) | Expr::Block(_) | Expr::Unsafe(_) | Expr::Loop(_) | Expr::While(_) => {
                let outs = self.assigned_outer(e);
                let c = self.compound(e, &outs, false, None)?;
                lines.extend(c.pre);
                if c.div {
                    lines.extend(c.lines);
                    return Ok(true);
                }
                push_bind(lines, &format!("let {} ← ", Self::bind_pattern(None, &outs)), c.lines);
                Ok(false)
            }
            _ => {
                let o = self.expr(e, None)?;
                lines.extend(o.pre);
                if o.diverges {
                    lines.push(o.term);
                    return Ok(true);
                }
                Ok(false)
            }
        }
    }

    fn place_type(&mut self, e: &Expr) -> R<Ty> {
        match e {
            Expr::Paren(p) => self.place_type(&p.expr),
            Expr::Unary(u) if matches!(u.op, UnOp::Deref(_)) => self.place_type(&u.expr),
            Expr::Path(p) if p.path.segments.len() == 1 => {
                let n = p.path.segments[0].ident.to_string();
                self.lookup(&n).ok_or_else(|| format!("assignment to unknown variable `{}`", n))
            }
            Expr::Field(f) => {
                let bt = self.place_type(&f.base)?;
                match (self.sub.shallow(&bt), &f.member) {
                    (Ty::Adt(n, targs), m) => {
                        let fty = self.field_of(&n, m, e.span())?.1;
                        Ok(subst_params(&fty, &self.adt_subst(&n, &targs)))
                    }
                    (Ty::Tuple(ts), syn::Member::Unnamed(ix)) => Ok(ts[ix.index as usize].clone()),
                    (t, _) => self.err(e.span(), &format!("field assignment on {}", t)),
                }
            }
            Expr::Index(ix) => {
                let bt = self.place_type(&ix.expr)?;
                match self.sub.shallow(&bt) {
                    Ty::Slice(t) => Ok(*t),
                    t => self.err(e.span(), &format!("index assignment on {}", t)),
                }
            }
            _ => self.err(e.span(), "unsupported assignment target"),
        }
    }

    /// emit `place = value` (value is a pure term, or a Ctl term when `monadic`)
    fn assign_place(&mut self, place: &Expr, value: String, monadic: bool, lines: &mut Vec<String>) -> R<()> {
        match place {
            Expr::Paren(p) => self.assign_place(&p.expr, value, monadic, lines),
            Expr::Unary(u) if matches!(u.op, UnOp::Deref(_)) => self.assign_place(&u.expr, value, monadic, lines),
            Expr::Path(p) if p.path.segments.len() == 1 => {
                let n = lean_ident(&p.path.segments[0].ident.to_string());
                if monadic {
                    lines.push(format!("let {} ← {}", n, value));
                } else {
                    lines.push(format!("let {} := {}", n, value));
                }
                Ok(())
            }
            Expr::Field(f) => {
                let v = if monadic {
                    let t = self.fresh("t");
                    lines.push(format!("let {} ← {}", t, value));
                    t
                } else {
                    value
                };
                let base = self.expr(&f.base, None)?;
                lines.extend(base.pre);
                let bt = self.sub.shallow(&base.ty);
                match (&bt, &f.member) {
                    (Ty::Adt(n, _), m) => {
                        let (fname, _) = self.field_of(n, m, place.span())?;
                        let tyasc = self.ph("lty", &[&base.ty]);
                        self.assign_place(&f.base, format!("({{ {} with {} := {} }} : {})", base.term, fname, v, tyasc), false, lines)
                    }
                    _ => self.err(place.span(), "unsupported field assignment"),
                }
            }
            Expr::Index(ix) => {
                if let Expr::Path(pp) = peel(&ix.expr) {
                    if pp.path.segments.len() == 1 && self.mut_ref_params.contains(&pp.path.segments[0].ident.to_string()) {
                        return self.err(place.span(), "write through a `&mut` parameter");
                    }
                }
                let v = if monadic {
                    let t = self.fresh("t");
                    lines.push(format!("let {} ← {}", t, value));
                    t
                } else {
                    value
                };
                let base = self.expr(&ix.expr, None)?;
                lines.extend(base.pre);
                let i = self.expr(&ix.index, Some(&Ty::Int(IntTy::USIZE)))?;
                lines.extend(i.pre);
                self.assign_place(&ix.expr, format!("Rs.setIndex {} {} {}", base.term, i.term, v), true, lines)
            }
            _ => self.err(place.span(), "unsupported assignment target"),
        }
    }

    /// control-flow constructs as a parenthesised Ctl term yielding `(value?, outs…)`
    fn compound(&mut self, e: &Expr, outs: &[String], want_value: bool, expect: Option<&Ty>) -> R<Comp> {
        match e {
            Expr::Paren(p) => self.compound(&p.expr, outs, want_value, expect),
            Expr::Unsafe(u) => self.compound_block(&u.block, None, outs, want_value, expect),
            Expr::Block(b) => self.compound_block(&b.block, b.label.as_ref().map(|l| l.name.ident.to_string()), outs, want_value, expect),
            Expr::If(i) => {
                if let Expr::Let(l) = peel(&i.cond) {
                    let discr = self.scrutinee(&l.expr)?;
                    if discr.3 {
                        let mut pre = discr.0;
                        let term = pre.pop().unwrap();
                        return Ok(Comp { pre, lines: vec![term], ty: Ty::Never, div: true });
                    }
                    let arms = vec![
                        ArmSpec { pat: Some(&l.pat), guard: None, body: ArmBody::BlockThenState(&i.then_branch) },
                        ArmSpec { pat: None, guard: None, body: ArmBody::OptElse(i.else_branch.as_ref().map(|x| &*x.1)) },
                    ];
                    let mut c = self.match_core(discr.1, discr.2, &arms, outs, want_value, expect, i.span(), false)?;
                    let mut pre = discr.0;
                    pre.extend(c.pre);
                    c.pre = pre;
                    return Ok(c);
                }
                let c = self.expr(&i.cond, Some(&Ty::Bool))?;
                let (tl, tt, tdiv) = self.block_lines(&i.then_branch.stmts, outs, want_value, expect)?;
                let exp2 = if tdiv { expect.cloned() } else { Some(tt.clone()) };
                let (el, et, ediv) = match &i.else_branch {
                    Some((_, eb)) => match &**eb {
                        Expr::Block(b) => self.block_lines(&b.block.stmts, outs, want_value, exp2.as_ref())?,
                        other => {
                            // else if …
                            let cc = self.compound(other, outs, want_value, exp2.as_ref())?;
                            let mut ls = cc.pre;
                            ls.extend(cc.lines);
                            (ls, cc.ty, cc.div)
                        }
                    },
                    None => {
                        if want_value {
                            self.unify(&tt, &Ty::Unit, i.span())?;
                        }
                        (vec![Self::pure_line(if want_value { Some("()") } else { None }, outs)], Ty::Unit, false)
                    }
                };
                let mut lines = vec![format!("(if {} then do", c.term)];
                lines.extend(ind(tl, 4));
                lines.push("  else do".into());
                lines.extend(ind(el, 4));
                let last = lines.pop().unwrap();
                lines.push(format!("{})", last));
                let ty = if tdiv { et } else { tt };
                Ok(Comp { pre: c.pre, lines, ty, div: tdiv && ediv })
            }
            Expr::Match(m) => {
                let discr = self.scrutinee(&m.expr)?;
                if discr.3 {
                    let mut pre = discr.0;
                    let term = pre.pop().unwrap();
                    return Ok(Comp { pre, lines: vec![term], ty: Ty::Never, div: true });
                }
                let arms: Vec<ArmSpec> = m.arms.iter().map(|a| ArmSpec { pat: Some(&a.pat), guard: a.guard.as_ref().map(|g| &*g.1), body: ArmBody::Expr(&a.body) }).collect();
                let mut c = self.match_core(discr.1, discr.2, &arms, outs, want_value, expect, m.span(), false)?;
                let mut pre = discr.0;
                pre.extend(c.pre);
                c.pre = pre;
                Ok(c)
            }
            Expr::While(w) => {
                if want_value {
                    if let Some(t) = expect {
                        self.unify(t, &Ty::Unit, w.span())?;
                    }
                }
                let label = w.label.as_ref().map(|l| l.name.ident.to_string());
                let state = self.assigned_outer(e);
                self.loop_core(label, &state, LoopKind::While(&w.cond, &w.body), outs, want_value, w.span())
            }
            Expr::Loop(l) => {
                let label = l.label.as_ref().map(|l| l.name.ident.to_string());
                let state = self.assigned_outer(e);
                self.loop_core(label, &state, LoopKind::Loop(&l.body), outs, want_value, l.span())
            }
            _ => self.err(e.span(), "internal: compound() on a non-compound expression"),
        }
    }

    fn compound_block(&mut self, b: &Block, label: Option<String>, outs: &[String], want_value: bool, expect: Option<&Ty>) -> R<Comp> {
        match label {
            None => {
                let (bl, ty, div) = self.block_lines(&b.stmts, outs, want_value, expect)?;
                let mut lines = vec!["(do".to_string()];
                lines.extend(ind(bl, 4));
                let last = lines.pop().unwrap();
                lines.push(format!("{})", last));
                Ok(Comp { pre: vec![], lines, ty, div })
            }
            Some(l) => {
                // labelled block: `break 'l v` carries (v, outs…); falling off the end yields the same shape
                let vt = match expect {
                    Some(t) if want_value => t.clone(),
                    _ => self.sub.fresh(),
                };
                let parent_eps = self.cur_eps();
                let vph = self.ph("lty", &[&vt]);
                let mut parts = vec![vph];
                for o in outs {
                    let t = self.lookup(o).unwrap();
                    parts.push(self.ph("lty", &[&t]));
                }
                let beta = if parts.len() == 1 { parts[0].clone() } else { format!("({})", parts.join(" × ")) };
                let eps = format!("(LoopExit {} Unit {})", parent_eps, beta);
                self.frames.push(Frame { label: Some(l), state: outs.to_vec(), is_loop: false, val_ty: vt.clone(), valued: false, breaks: 0, eps });
                let r = self.block_lines(&b.stmts, outs, true, Some(&vt));
                self.frames.pop();
                let (bl, _ty, _div) = r?;
                let mut lines = vec!["(Rs.block (do".to_string()];
                lines.extend(ind(bl, 4));
                let last = lines.pop().unwrap();
                lines.push(format!("{}))", last));
                if want_value {
                    return Ok(Comp { pre: vec![], lines, ty: vt, div: false });
                }
                // drop the value, keep the outs
                let v = self.fresh("v");
                let mut out_lines = vec!["(do".to_string()];
                let mut inner = Vec::new();
                push_bind(&mut inner, &format!("let {} ← ", Self::bind_pattern(Some(&v), outs)), lines);
                inner.push(Self::pure_line(None, outs));
                out_lines.extend(ind(inner, 4));
                let last = out_lines.pop().unwrap();
                out_lines.push(format!("{})", last));
                Ok(Comp { pre: vec![], lines: out_lines, ty: Ty::Unit, div: false })
            }
        }
    }

    fn loop_core(&mut self, label: Option<String>, state: &[String], kind: LoopKind, outs: &[String], want_value: bool, sp: proc_macro2::Span) -> R<Comp> {
        self.uses_fuel = true;
        // outs ⊆ state always (outs = assigned outer variables of the same expression)
        for o in outs {
            if !state.contains(o) {
                return self.err(sp, "internal: loop outs not in loop state");
            }
        }
        let val_ty = self.sub.fresh();
        let st = state_tuple(state);
        let sig_parts: Vec<String> = state.iter().map(|v| {
            let t = self.lookup(v).unwrap();
            self.ph("lty", &[&t])
        }).collect();
        let sigma = match sig_parts.len() {
            0 => "Unit".to_string(),
            1 => sig_parts[0].clone(),
            _ => format!("({})", sig_parts.join(" × ")),
        };
        let beta_id = self.betas.len();
        self.betas.push(String::new());
        let beta_ph = format!("{}beta:{}{}", PH_L, beta_id, PH_R);
        let parent_eps = self.cur_eps();
        let eps = format!("(LoopExit {} {} {})", parent_eps, sigma, beta_ph);
        self.loop_count += 1;
        let loop_name = format!("{}.loop{}", self.lean_name, self.loop_count);
        // captured variables: in-scope variables mentioned in the loop that are not loop state
        let captured = self.captured_vars(&kind, state);
        self.frames.push(Frame { label, state: state.to_vec(), is_loop: true, val_ty: val_ty.clone(), valued: false, breaks: 0, eps: eps.clone() });
        let fuel_before = self.fuel_uses;
        let body_res: R<Vec<String>> = (|| {
            match kind {
                LoopKind::Loop(b) => {
                    let (bl, _, _) = self.block_lines(&b.stmts, state, false, None)?;
                    Ok(bl)
                }
                LoopKind::While(cond, b) => {
                    if let Expr::Let(l) = peel(cond) {
                        let discr = self.scrutinee(&l.expr)?;
                        if discr.3 {
                            return self.err(sp, "diverging scrutinee in while-let");
                        }
                        let arms = vec![
                            ArmSpec { pat: Some(&l.pat), guard: None, body: ArmBody::BlockThenState(b) },
                            ArmSpec { pat: None, guard: None, body: ArmBody::BreakLoop },
                        ];
                        let c = self.match_core(discr.1, discr.2, &arms, state, false, None, sp, false)?;
                        let mut ls = discr.0;
                        ls.extend(c.pre);
                        ls.extend(c.lines);
                        Ok(ls)
                    } else {
                        let c = self.expr(cond, Some(&Ty::Bool))?;
                        let (bl, _, _) = self.block_lines(&b.stmts, state, false, None)?;
                        let mut ls = c.pre;
                        ls.push(format!("if {} then do", c.term));
                        ls.extend(ind(bl, 4));
                        ls.push(format!("else Ctl.exit (.brk {})", st));
                        if let Some(f) = self.frames.last_mut() {
                            f.breaks += 1;
                        }
                        Ok(ls)
                    }
                }
            }
        })();
        let body_uses_fuel = self.fuel_uses > fuel_before;
        let fr = self.frames.pop().unwrap();
        let body = body_res?;
        let never = fr.breaks == 0;
        let beta = if never { "Empty".to_string() } else if fr.valued { format!("({} × {})", sigma, self.ph("lty", &[&val_ty])) } else { sigma.clone() };
        self.betas[beta_id] = beta.clone();
        let binder = match state.len() {
            0 => "(_ : Unit)".to_string(),
            _ => st.clone(),
        };
        // the loop body as its own definition
        let mut params = String::new();
        let mut args = String::new();
        for g in &self.generics.clone() {
            write!(params, " ({} : Type)", g).unwrap();
            write!(args, " {}", g).unwrap();
        }
        for g in &self.const_generics.clone() {
            write!(params, " ({} : Nat)", lean_ident(g)).unwrap();
            write!(args, " {}", lean_ident(g)).unwrap();
        }
        if body_uses_fuel {
            params.push_str(" (fuel : Nat)");
            args.push_str(" fuel");
        }
        for c in &captured {
            let t = self.lookup(c).unwrap();
            let tp = self.ph("lty", &[&t]);
            write!(params, " ({} : {})", lean_ident(c), tp).unwrap();
            write!(args, " {}", lean_ident(c)).unwrap();
        }
        let mut def = String::new();
        writeln!(def, "/-- body of loop {} of `{}` (state: {}) -/", self.loop_count_of(&loop_name), self.lean_name, if state.is_empty() { "none".to_string() } else { state.join(", ") }).unwrap();
        writeln!(def, "def {}{} : {} → Ctl {} {} := fun {} => do", loop_name, params, sigma, eps, sigma, binder).unwrap();
        for l in ind(body, 2) {
            def.push_str(&l);
            def.push('\n');
        }
        self.hoisted.push(def);
        self.fuel_uses += 1;
        let lines = vec![format!("(Rs.loop fuel ({}{}) {})", loop_name, args, st)];
        if never {
            // a loop that is only left by `return` (or an outer break): the term itself diverges
            let nv = self.fresh("never");
            let mut out_lines = vec!["(do".to_string()];
            let mut inner = Vec::new();
            push_bind(&mut inner, &format!("let {} ← ", nv), lines);
            inner.push(format!("nomatch {})", nv));
            out_lines.extend(ind(inner, 4));
            return Ok(Comp { pre: vec![], lines: out_lines, ty: Ty::Never, div: true });
        }
        // result of the loop term: β.  Re-shape into (value?, outs…)
        let ty = if fr.valued { val_ty } else { Ty::Unit };
        let need_reshape = fr.valued || want_value || outs != state;
        if !need_reshape {
            return Ok(Comp { pre: vec![], lines, ty: Ty::Unit, div: false });
        }
        let v = self.fresh("v");
        let pat = if fr.valued { format!("({}, {})", st, v) } else { st.clone() };
        let value: Option<String> = if want_value { Some(if fr.valued { v.clone() } else { "()".to_string() }) } else { None };
        let mut out_lines = vec!["(do".to_string()];
        let mut inner = Vec::new();
        push_bind(&mut inner, &format!("let {} ← ", if state.is_empty() && !fr.valued { "_".to_string() } else { pat }), lines);
        inner.push(Self::pure_line(value.as_deref(), outs));
        out_lines.extend(ind(inner, 4));
        let last = out_lines.pop().unwrap();
        out_lines.push(format!("{})", last));
        Ok(Comp { pre: vec![], lines: out_lines, ty, div: false })
    }
}

impl<'a> Tr<'a> {
    fn cur_eps(&mut self) -> String {
        match self.frames.last() {
            Some(f) => f.eps.clone(),
            None => {
                let r = self.ret_ty.clone();
                self.ph("lty", &[&r])
            }
        }
    }

    fn loop_count_of(&self, name: &str) -> String {
        name.rsplit("loop").next().unwrap_or("").to_string()
    }

    fn captured_vars(&self, kind: &LoopKind, state: &[String]) -> Vec<String> {
        struct V(Vec<String>);
        impl<'ast> syn::visit::Visit<'ast> for V {
            fn visit_expr_path(&mut self, p: &'ast syn::ExprPath) {
                if p.path.segments.len() == 1 {
                    let n = p.path.segments[0].ident.to_string();
                    if !self.0.contains(&n) {
                        self.0.push(n);
                    }
                }
            }
            fn visit_item(&mut self, _: &'ast syn::Item) {}
        }
        // labels of `break 'l` / `continue 'l` that leave this loop: the target frame's state is handed back by name
        struct L(Vec<String>);
        impl<'ast> syn::visit::Visit<'ast> for L {
            fn visit_expr_break(&mut self, b: &'ast syn::ExprBreak) {
                if let Some(l) = &b.label {
                    self.0.push(l.ident.to_string());
                }
                syn::visit::visit_expr_break(self, b);
            }
            fn visit_expr_continue(&mut self, c: &'ast syn::ExprContinue) {
                if let Some(l) = &c.label {
                    self.0.push(l.ident.to_string());
                }
            }
            fn visit_item(&mut self, _: &'ast syn::Item) {}
        }
        let mut v = V(Vec::new());
        let mut l = L(Vec::new());
        match kind {
            LoopKind::Loop(b) => {
                syn::visit::Visit::visit_block(&mut v, b);
                syn::visit::Visit::visit_block(&mut l, b);
            }
            LoopKind::While(c, b) => {
                syn::visit::Visit::visit_expr(&mut v, c);
                syn::visit::Visit::visit_block(&mut v, b);
                syn::visit::Visit::visit_block(&mut l, b);
            }
        }
        // a pointer alias (`let start = this.as_ptr()`) mentioned in the loop: the slice it points into is what the
        // translated reads use
        let mentioned: Vec<String> = v.0.clone();
        for n in &mentioned {
            if let Some((term, _, _)) = self.ptr_alias.get(n) {
                for sc in &self.scopes {
                    for var in sc.keys() {
                        if lean_ident(var) == *term && !v.0.contains(var) {
                            v.0.push(var.clone());
                        }
                    }
                }
            }
        }
        for fr in &self.frames {
            if let Some(lab) = &fr.label {
                if l.0.contains(lab) {
                    for sv in &fr.state {
                        if !v.0.contains(sv) {
                            v.0.push(sv.clone());
                        }
                    }
                }
            }
        }
        v.0.into_iter().filter(|n| self.lookup(n).is_some() && !state.contains(n)).collect()
    }
}

enum LoopKind<'b> {
    Loop(&'b Block),
    While(&'b Expr, &'b Block),
}

fn is_compound_assign(op: &BinOp) -> bool {
    use BinOp::*;
    matches!(
        op,
        AddAssign(_) | SubAssign(_) | MulAssign(_) | DivAssign(_) | RemAssign(_) | BitXorAssign(_) | BitAndAssign(_) | BitOrAssign(_) | ShlAssign(_) | ShrAssign(_)
    )
}

fn pat_bound_names(p: &Pat) -> Vec<String> {
    struct V(Vec<String>);
    impl<'ast> syn::visit::Visit<'ast> for V {
        fn visit_pat_ident(&mut self, i: &'ast syn::PatIdent) {
            self.0.push(i.ident.to_string());
            if let Some((_, sp)) = &i.subpat {
                self.visit_pat(sp);
            }
        }
    }
    let mut v = V(Vec::new());
    syn::visit::Visit::visit_pat(&mut v, p);
    v.0
}

include!("tr_pat.rs");
