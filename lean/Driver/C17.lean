import Driver.Util
import KonstVerif.Model.Guards
/-
  requests:  prog   <id> <guard> <descriptor> <invalid|control|probe>   -> model verdict with guard ids, spec `?`
             prog.v <id> <guard> <descriptor> <invalid|control|probe>   -> coarse model verdict,
                                                                           spec = what the property demands
                                                                           (invalid: reject, control: accept)
  descriptor (no blanks):
    dsl/<eval|for_each|collect_const|from_iter>/<name>:<n|e|g>,…        (`-` = no method)
    pm/<method>/p:<pat>|<pat>…                                 patterns only   (`p:-` = none)
    pm/<method>/b:<pat>|<pat>=<x|b><c|n>;…                     match-like branches
    ds/<braced|tstruct|tuple|array>/<e|n>/<defect|none>/<free text: syntactic variant, ignored>
-/
namespace Driver.C17
open Konst.Guards

def parseArgs : String → Option Args
  | "n" => some Args.none
  | "e" => some Args.empty
  | "g" => some Args.given
  | _ => none

def parseTok (s : String) : Option Tok :=
  match s.splitOn ":" with
  | [n, a] => if n.isEmpty then none else (parseArgs a).map (Tok.mk n)
  | _ => none

def parseChain (s : String) : Option (List Tok) :=
  if s = "-" then some [] else (s.splitOn ",").mapM parseTok

def parseMode : String → Option Mode
  | "eval" => some Mode.consumer
  | "for_each" => some Mode.adapter
  | "collect_const" => some Mode.adapter
  | "from_iter" => some Mode.adapter
  | _ => none

def parsePat : String → Option Pat
  | "str" => some .str
  | "raw" => some .rawStr
  | "concat" => some .concatLits
  | "stringify" => some .stringifyCall
  | "wild" => some .wild
  | "const" => some .constIdent
  | "var" => some .varIdent
  | "call" => some .call
  | "bstr" => some .byteStr
  | "chr" => some .charLit
  | "int" => some .intLit
  | "concatid" => some .concatIdent
  | "path" => some .path
  | "mac" => some .macroCall
  -- spellings of the EMPTY literal: the same token kinds (the model's verdict does not look at the value)
  | "estr" => some .str              -- `""`
  | "eraw" => some .rawStr           -- `r""`
  | "eraw1" => some .rawStr          -- `r#""#`
  | "econcat0" => some .concatLits   -- `concat!()`
  | "econcat2" => some .concatLits   -- `concat!("", "")`
  | "estringify" => some .stringifyCall  -- `stringify!()`
  | _ => none

def parsePats (s : String) : Option (List Pat) :=
  if s = "-" then some [] else (s.splitOn "|").mapM parsePat

def parseBranch (s : String) : Option Branch :=
  match s.splitOn "=" with
  | [ps, fl] => do
    let pats ← parsePats ps
    if pats.isEmpty then none
    let (blk, com) ← match fl with
      | "xc" => some (false, true)
      | "xn" => some (false, false)
      | "bc" => some (true, true)
      | "bn" => some (true, false)
      | _ => none
    some ⟨pats, blk, com⟩
  | _ => none

def parsePMethod : String → PMethod
  | "find_skip" => .findSkip
  | "rfind_skip" => .rfindSkip
  | "strip_prefix" => .stripPrefix
  | "strip_suffix" => .stripSuffix
  | "trim_start_matches" => .trimStartMatches
  | "trim_end_matches" => .trimEndMatches
  | _ => .unknown

def parseBody (s : String) : Option PBody :=
  if s.startsWith "p:" then (parsePats (s.drop 2).toString).map PBody.pats
  else if s.startsWith "b:" then
    let r := (s.drop 2).toString
    if r.isEmpty then none else ((r.splitOn ";").mapM parseBranch).map PBody.branches
  else none

def parseShape : String → Option DShape
  | "braced" => some .braced
  | "tstruct" => some .tupleStruct
  | "tuple" => some .tuple
  | "array" => some .array
  | _ => none

def parseDefect : String → Option (Option Defect)
  | "none" => some none
  | "drop" => some (some .dropImpl)
  | "ref" => some (some .refShared)
  | "refmut" => some (some .refMut)
  | "toofew" => some (some .tooFew)
  | "toomany" => some (some .tooMany)
  | "dotdot" => some (some .dotdot)
  | _ => none

/-- the model's reasons for one descriptor -/
def reasons (d : String) : Option (List Reason) :=
  match d.splitOn "/" with
  | ["dsl", mac, chain] => do
    let m ← parseMode mac
    let c ← parseChain chain
    some (dslReasons m c)
  | ["pm", meth, body] => do
    let b ← parseBody body
    some (parserMethodReasons (parsePMethod meth) b)
  | "ds" :: shape :: e :: defect :: _ => do
    let s ← parseShape shape
    let emp ← match e with
      | "e" => some true
      | "n" => some false
      | _ => none
    let df ← parseDefect defect
    match df with
    | some x => if Defect.applies s x then some (destructureReasons s emp df) else none
    | none => some (destructureReasons s emp df)
  | _ => none

def handle (op : String) (args : List String) : Option (String × String) :=
  match args with
  | [_id, _guard, desc, flag] => do
    let rs ← reasons desc
    match op with
    | "prog" =>
      if flag = "invalid" ∨ flag = "control" ∨ flag = "probe" then some (render rs, "?") else none
    | "prog.v" =>
      match flag with
      | "invalid" => some (renderCoarse rs, "reject")
      | "control" => some (renderCoarse rs, "accept")
      | "probe" => some (renderCoarse rs, "?")
      | _ => none
    | _ => none
  | _ => none

end Driver.C17
