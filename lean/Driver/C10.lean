import Driver.Util
import KonstVerif.Model.IterDsl
import KonstVerif.Spec.IterDsl
/-
  requests:  chain <ad,ad,..|-> <consumer> <input [a;b;c]>
  answer:    model (konstEval / collectConst) <TAB> spec (std chain, with konst's documented
             rposition convention)
  The closure library below has the same names and meanings as vlib/progs/c10.py.
-/
namespace Driver.C10
open Konst.Iter Konst.Iter.Spec Driver

def iv : Val → Int
  | .n i => i
  | _ => 0

def mapFn : String → Option (Val → Val)
  | "m1" => some fun v => .n (iv v * 2 + 1)
  | "m2" => some fun v => .n (iv v - 3)
  | "mp" => some fun v => match v with | .pair (.n i) (.n x) => .n (x * 10 + i) | _ => .n 0
  | "mz" => some fun v => match v with | .pair (.n a) (.n b) => .n (a * 100 + b) | _ => .n 0
  | "mr1" => some fun v => toSeq [.n (iv v), .n (iv v + 1)]
  | _ => none

def predFn : String → Option (Val → Bool)
  | "p1" => some fun v => iv v % 2 == 0
  | "p2" => some fun v => iv v > 1
  | "p3" => some fun v => iv v < 3
  | "p9" => some fun v => iv v == 9
  | "pp" => some fun v => match v with | .pair (.n i) _ => i % 2 == 0 | _ => false
  | _ => none

def fmapFn : String → Option (Val → Option Val)
  | "fm1" => some fun v => if iv v % 3 != 0 then some (.n (iv v + 1)) else none
  | _ => none

def flatFn : String → Option (Val → List Val)
  | "f1" => some fun v => [.n (iv v), .n (iv v + 1)]
  | "f2" => some fun v => (List.range (iv v % 3).toNat).map fun k => .n (Int.ofNat k)
  | _ => none

def zipArg : String → Option (List Val)
  | "z1" => some [.n 7, .n 8]
  | "z2" => some ((List.range 8).map fun k => .n (10 + Int.ofNat k))
  | _ => none

def foldFn : String → Option (Val → Val → Val)
  | "a1" => some fun a x => .n ((iv a * 3 + iv x) % 1000003)
  | _ => none

def parseAd (tok : String) : Option Ad :=
  match tok.splitOn ":" with
  | ["copied"] => some .copied
  | ["enumerate"] => some .enumerate
  | ["flatten"] => some .flatten
  | ["rev"] => some .rev
  | ["map", f] => (mapFn f).map .map
  | ["filter", p] => (predFn p).map .filter
  | ["filter_map", f] => (fmapFn f).map .filterMap
  | ["flat_map", f] => (flatFn f).map .flatMap
  | ["take", k] => k.toNat?.map .take
  | ["skip", k] => k.toNat?.map .skip
  | ["take_while", p] => (predFn p).map .takeWhile
  | ["skip_while", p] => (predFn p).map .skipWhile
  | ["zip", z] => (zipArg z).map .zip
  | _ => none

def parseCons (tok : String) : Option Cons :=
  match tok.splitOn ":" with
  | ["forEach"] => some .forEach
  | ["collect"] => some .collect
  | ["count"] => some .count
  | ["next"] => some .next
  | ["all", p] => (predFn p).map .all
  | ["any", p] => (predFn p).map .any
  | ["find", p] => (predFn p).map .find
  | ["rfind", p] => (predFn p).map .rfind
  | ["find_map", f] => (fmapFn f).map .findMap
  | ["fold", f] => (foldFn f).map (.fold (.n 1))
  | ["rfold", f] => (foldFn f).map (.rfold (.n 1))
  | ["nth", k] => k.toNat?.map .nth
  | ["position", p] => (predFn p).map .position
  | ["rposition", p] => (predFn p).map .rposition
  | _ => none

/-- `[a;b;c]`; an element `v*n` stands for `n` copies of `v` (long inputs) -/
def parseInput (s : String) : Option (List Val) :=
  if s = "[]" then some [] else
  if s.startsWith "[" && s.endsWith "]" then do
    let parts ← (((s.drop 1).dropEnd 1).toString.splitOn ";").mapM fun t =>
      match t.splitOn "*" with
      | [v] => (parseInt v).map fun i => [Val.n i]
      | [v, k] => do
        let i ← parseInt v
        let k ← k.toNat?
        some (List.replicate k (Val.n i))
      | _ => none
    some parts.flatten
  else none

partial def showVal : Val → String
  | .n i => toString i
  | .pair a b => "(" ++ showVal a ++ "," ++ showVal b ++ ")"

def showRes : Res → String
  | .items l => showList (l.map showVal)
  | .bool b => showBool b
  | .nat k => toString k
  | .opt none => "none"
  | .opt (some v) => "some:" ++ showVal v
  | .onat none => "none"
  | .onat (some k) => s!"some:{k}"
  | .val v => showVal v

def handle (args : List String) : Option (String × String) := do
  match args with
  | [ads, cons, inp] =>
    let chain ← if ads = "-" then some [] else (ads.splitOn ",").mapM parseAd
    -- every generated chain starts from `slice, copied()`
    let chain := Ad.copied :: chain
    let c ← parseCons cons
    let src ← parseInput inp
    if !(accepted chain c) then some ("rejected", "rejected") else
    let spec := showRes (docResult chain c src)
    match c with
    | .collect =>
      match collectConst chain src with
      | some l => some (showRes (.items l), spec)
      | none => some ("panic", spec)
    | _ => some (showRes (konstEvalL chain c src).1, spec)   -- the literal loop nest (with the take guards; = konstEvalK by calls_erase)
  | _ => none

/-! `calls <ads> <consumer> <input>`: value `|` closure calls `[pos:arg;..]` (methods numbered from 0 =
    `copied()`); spec = value and calls of the std chain (`?` when a reversing method occurs).
    `hostile <ads> <consumer> <pos>:<arg> <input>`: the closure of method `pos` panics when called on
    `arg`: `panic|calls up to it`, or the same answer as `calls`. -/

def showLog (l : Log) : String :=
  showList (l.map fun c => toString c.1 ++ ":" ++ showVal c.2)

def showOutcome : Sum Log (Res × Log) → String
  | .inl l => "panic|" ++ showLog l
  | .inr (v, l) => showRes v ++ "|" ++ showLog l

def handleCalls (op : String) (args : List String) : Option (String × String) := do
  let (ads, cons, poison, inp) ← match op, args with
    | "calls", [ads, cons, inp] => some (ads, cons, none, inp)
    | "hostile", [ads, cons, poi, inp] =>
      match poi.splitOn ":" with
      | [p, key] => p.toNat?.map fun p => (ads, cons, some (p, key), inp)
      | _ => none
    | _, _ => none
  let chain ← if ads = "-" then some [] else (ads.splitOn ",").mapM parseAd
  let chain := Ad.copied :: chain
  let c ← parseCons cons
  let src ← parseInput inp
  if !(accepted chain c) then some ("rejected", "rejected") else
  match c with
  | .collect => none
  | _ =>
    let isPoison : Call → Bool := match poison with
      | none => fun _ => false
      | some (p, key) => fun call => call.1 == p && showVal call.2 == key
    let model := showOutcome (hostile isPoison (konstEvalL chain c src))
    let spec := match stdCalls chain c src with
      | some l => showOutcome (hostile isPoison (docResult chain c src, l))
      | none => "?"
    some (model, spec)

end Driver.C10
