import Driver.Util
import KonstVerif.Model.Chr
import KonstVerif.Model.Chars
import KonstVerif.Spec.Utf8
import KonstVerif.Spec.Chars
/-
  requests:  chr.enc <scalar>            -> <hex bytes>|<len>
             chr.from_u32 <n>            -> none | some:<n>
             chars.<kind> <hex> <hist>   -> <as_str before>|[<item>@<as_str after>;…]   (or `panic`)
               kind = chars | char_indices | rchars | rchar_indices (the last two: `.rev()` first;
               their `as_str` is taken through `.rev()` again); hist over {f,b}; every step is
               taken on a `.copy()` of the iterator.
  answer:    model<TAB>spec
-/
namespace Driver.C07
open Konst Konst.Chr Konst.Chars Konst.Hist Konst.Spec.Utf8 Konst.Spec.Chars Driver

def showObsC : Obs Nat → String
  | .item x => s!"c:{x}"
  | .done => "none"
  | .panic => "panic"

def showObsCI : Obs (Nat × Nat) → String
  | .item (o, x) => s!"ci:{o}:{x}"
  | .done => "none"
  | .panic => "panic"

def hasPanic {ι σ : Type} (l : List (Obs ι × σ)) : Bool :=
  l.any fun p => match p.1 with | .panic => true | _ => false

def render (first : String) (stepsStr : List String) : String :=
  first ++ "|" ++ showList stepsStr

/-- view of std's `as_str` when the `(offset, char)` items `q` (in string order) are left -/
def showRemaining (q : List (Nat × Nat)) : String :=
  match q with
  | [] => "v:_:0"
  | (o, _) :: _ => s!"v:{o}:{(remainingBytes q).length}"

def handleChr (fn : String) (args : List String) : Option (String × String) := do
  match fn, args with
  | "enc", [a] =>
    let n ← parseNat a
    let e := encodeUtf8 n
    some (toHex e.asBytes ++ "|" ++ toString e.len, toHex (enc n) ++ "|" ++ toString (clen n))
  | "from_u32", [a] =>
    let n ← parseNat a
    some (showOptNat (fromU32 n), showOptNat (if isScalar n then some n else none))
  | _, _ => none

def handleChars (fn : String) (args : List String) : Option (String × String) := do
  match args with
  | [hex, hist] =>
    let s ← parseHex hex
    let cs ← decodeAll s
    let h ← parseHist hist
    let ix := indexed 0 cs
    match fn with
    | "chars" =>
      let it := chars s
      let st := Hist.steps (fun i => Chars.next s i.copy) (fun i => Chars.nextBack s i.copy) it h
      let m := if hasPanic st then "panic" else
        render (showView false it.asStr) (st.map fun p => showObsC p.1 ++ "@" ++ showView false p.2.asStr)
      let sp := render (showRemaining ix)
        ((dequeSteps ix h).map fun p => showObsC (Obs.ofOption (p.1.map (·.2))) ++ "@" ++ showRemaining p.2)
      some (m, sp)
    | "char_indices" =>
      let it := charIndices s
      let st := Hist.steps (fun i => CharIndices.next s i.copy) (fun i => CharIndices.nextBack s i.copy) it h
      let m := if hasPanic st then "panic" else
        render (showView false it.asStr) (st.map fun p => showObsCI p.1 ++ "@" ++ showView false p.2.asStr)
      let sp := render (showRemaining ix)
        ((dequeSteps ix h).map fun p => showObsCI (Obs.ofOption p.1) ++ "@" ++ showRemaining p.2)
      some (m, sp)
    | "rchars" =>
      let it := (chars s).rev
      let st := Hist.steps (fun i => RChars.next s i.copy) (fun i => RChars.nextBack s i.copy) it h
      let m := if hasPanic st then "panic" else
        render (showView false it.rev.asStr)
          (st.map fun p => showObsC p.1 ++ "@" ++ showView false p.2.rev.asStr)
      let sp := render (showRemaining ix)
        ((dequeSteps ix.reverse h).map fun p =>
          showObsC (Obs.ofOption (p.1.map (·.2))) ++ "@" ++ showRemaining p.2.reverse)
      some (m, sp)
    | "rchar_indices" =>
      let it := (charIndices s).rev
      let st := Hist.steps (fun i => RCharIndices.next s i.copy) (fun i => RCharIndices.nextBack s i.copy) it h
      let m := if hasPanic st then "panic" else
        render (showView false it.rev.asStr)
          (st.map fun p => showObsCI p.1 ++ "@" ++ showView false p.2.rev.asStr)
      let sp := render (showRemaining ix)
        ((dequeSteps ix.reverse h).map fun p =>
          showObsCI (Obs.ofOption p.1) ++ "@" ++ showRemaining p.2.reverse)
      some (m, sp)
    | _ => none
  | _ => none

end Driver.C07
