import Driver.Util
import KonstVerif.Model.Range
import KonstVerif.Spec.Range
/-
  requests (after the `rg.` prefix):
    range[.rev] <ty> <a> <b> <hist>          next/next_back history on `into_iter!(a..b)[.rev()]`
    rangeinc[.rev] <ty> <a> <b> <hist>       … on `into_iter!(a..=b)[.rev()]`
    range.<via>[.rev|.irev] <ty> <a> <b>     whole iteration through a macro; <via> ∈ fe, ev, cc
    rangeinc.<via>[.rev|.irev] <ty> <a> <b>    (.rev = the macro's `rev()` i.e. `next_back` on the forward
                                               iterator, .irev = `.rev()` iterator driven with `next`)
    rangefrom[.fe|.ev] <ty> <a> <k>          the first k items of `a..`
  values in decimal, chars as scalar values.   answer: model<TAB>spec
-/
namespace Driver.C09
open Konst Konst.Range Driver

/-- (MIN, MAX) of the twelve integer types (`usize`/`isize` are 64 bit) -/
def intBounds : String → Option (Int × Int)
  | "u8" => some (0, 2 ^ 8 - 1)
  | "u16" => some (0, 2 ^ 16 - 1)
  | "u32" => some (0, 2 ^ 32 - 1)
  | "u64" => some (0, 2 ^ 64 - 1)
  | "u128" => some (0, 2 ^ 128 - 1)
  | "usize" => some (0, 2 ^ 64 - 1)
  | "i8" => some (-(2 ^ 7), 2 ^ 7 - 1)
  | "i16" => some (-(2 ^ 15), 2 ^ 15 - 1)
  | "i32" => some (-(2 ^ 31), 2 ^ 31 - 1)
  | "i64" => some (-(2 ^ 63), 2 ^ 63 - 1)
  | "i128" => some (-(2 ^ 127), 2 ^ 127 - 1)
  | "isize" => some (-(2 ^ 63), 2 ^ 63 - 1)
  | _ => none

def showOpt {α} [ToString α] : Option α → String
  | none => "none"
  | some x => toString x

def showRun {α} [ToString α] : Option (List (Option α)) → String
  | none => "panic"
  | some l => showList (l.map showOpt)

def showVals {α} [ToString α] : Option (List α) → String
  | none => "panic"
  | some l => showList (l.map toString)

/-- everything the requests need from one element type.  The spec answers are evaluated through the
    shortcuts of Spec/Range.lean (`specAnswer` on the two ends of a long range, `charRangeFromFast`), which
    Props/C09.lean proves equal to the plain specification for all inputs. -/
structure Ty (α : Type) where
  S : Step α
  parse : String → Option α
  rangeList : α → α → List α
  rangeIncList : α → α → List α
  rangeEnds : α → α → Nat → Option (List α × List α)
  rangeIncEnds : α → α → Nat → Option (List α × List α)
  fromList : α → Nat → List α
  /-- enough turns for the macro loop to see `None` -/
  fuel : α → α → Nat

def intTy (MIN MAX : Int) : Ty Int :=
  { S := intStep MIN MAX
    parse := fun s => (parseInt s).bind fun v => if MIN ≤ v ∧ v ≤ MAX then some v else none
    rangeList := Spec.Range.rangeList
    rangeIncList := Spec.Range.rangeIncList
    rangeEnds := Spec.Range.rangeEnds
    rangeIncEnds := Spec.Range.rangeIncEnds
    fromList := Spec.Range.rangeFromList
    fuel := fun a b => (b - a).toNat + 3 }

def charTy : Ty Nat :=
  { S := charStep
    parse := fun s => (parseNat s).bind fun v => if Spec.Range.isScalar v then some v else none
    rangeList := Spec.Range.charRangeList
    rangeIncList := Spec.Range.charRangeIncList
    rangeEnds := Spec.Range.charRangeEnds
    rangeIncEnds := Spec.Range.charRangeIncEnds
    fromList := Spec.Range.charRangeFromFast
    fuel := fun a b => b - a + 3 }

def handleTy {α} [ToString α] (T : Ty α) (op : String) (args : List String) : Option (String × String) := do
  let parts := op.splitOn "."
  match parts, args with
  | ["rangefrom"], [a, k] | ["rangefrom", "fe"], [a, k] =>
    let a ← T.parse a
    let k ← parseNat k
    some (showVals (runRangeFrom T.S a k), showVals (some (T.fromList a k)))
  | ["rangefrom", "ev"], [a, k] =>
    -- `take(k)` pulls one more item from its source before it stops
    let a ← T.parse a
    let k ← parseNat k
    some (showVals ((runRangeFrom T.S a (k + 1)).map (·.take k)), showVals (some (T.fromList a k)))
  | kind :: rest, [a, b, hist] =>
    let a ← T.parse a
    let b ← T.parse b
    let h ← parseHist hist
    let it := Iter.ofBounds a b
    let (it, rev) ← match rest with
      | [] => some (it, false)
      | ["rev"] => some (it.rev, true)
      | _ => none
    let d := h.length
    match kind with
    | "range" =>
      some (showRun (runRange T.S it h),
            showRun (some (Spec.Range.specAnswer rev (T.rangeEnds a b d) (fun _ => T.rangeList a b) h)))
    | "rangeinc" =>
      some (showRun (runRangeInc T.S it h),
            showRun (some (Spec.Range.specAnswer rev (T.rangeIncEnds a b d) (fun _ => T.rangeIncList a b) h)))
    | _ => none
  | _, _ => none

/-- whole-iteration requests `<kind>.<via>[.rev|.irev] <ty> <a> <b>` -/
def handleDrain {α} [ToString α] (T : Ty α) (op : String) (args : List String) : Option (String × String) := do
  let parts := op.splitOn "."
  match parts, args with
  | kind :: via :: rest, [a, b] =>
    if via ≠ "fe" ∧ via ≠ "ev" ∧ via ≠ "cc" then none else
    let a ← T.parse a
    let b ← T.parse b
    let it := Iter.ofBounds a b
    let (nx, nb, specList) ← match kind with
      | "range" => some (RangeIter.next T.S, RangeIter.nextBack T.S, T.rangeList a b)
      | "rangeinc" => some (RangeInclusiveIter.next T.S, RangeInclusiveIter.nextBack T.S, T.rangeIncList a b)
      | _ => none
    let fuel := T.fuel a b
    match rest with
    | [] => some (showVals (drain nx fuel it), showVals (some specList))
    | ["rev"] => some (showVals (drain nb fuel it), showVals (some specList.reverse))
    | ["irev"] => some (showVals (drain nx fuel it.rev), showVals (some specList.reverse))
    | _ => none
  | _, _ => none

/-- `range.fr <ty> <a> <b>`: the values `konst::for_range!` binds (integer types only) -/
def handleForRange (args : List String) : Option (String × String) := do
  match args with
  | [ty, a, b] =>
    let _ ← intBounds ty
    let a ← parseInt a
    let b ← parseInt b
    let fuel := (b - a).toNat + 2
    let show_ := fun (l : List Int) => showList (l.map toString)
    some (show_ (Konst.Range.forRange a b fuel), show_ (Konst.Spec.Range.rangeList a b))
  | _ => none

def handle (op : String) (args : List String) : Option (String × String) :=
  if op = "range.fr" then handleForRange args else
  match args with
  | ty :: rest =>
    let go {α} [ToString α] (T : Ty α) : Option (String × String) :=
      match handleDrain T op rest with
      | some r => some r
      | none => handleTy T op rest
    if ty = "char" then go charTy
    else match intBounds ty with
      | some (mn, mx) => go (intTy mn mx)
      | none => none
  | _ => none

end Driver.C09
