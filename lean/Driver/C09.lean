import Driver.Util
import KonstVerif.Model.Range
import KonstVerif.Spec.Range
/-
  requests (after the `rg.` prefix):
    range[.rev] <ty> <a> <b> <hist>          next/next_back history on `into_iter!(a..b)[.rev()]`
    rangeinc[.rev] <ty> <a> <b> <hist>       … on `into_iter!(a..=b)[.rev()]`
    range.<via>[.rev|.irev] <ty> <a> <b>     whole iteration through a macro; <via> ∈ fe, ev, cc
    rangeinc.<via>[.rev|.irev] <ty> <a> <b>    (.rev = the macro's `rev()` i.e. `next_back` on the forward
                                               iterator, .irev = `.rev()` iterator driven with `next`)
    rangefrom[.fe|.ev] <ty> <a> <k>          the first k items of `a..` (k calls of `next` / `for_each!` + `break` /
                                               `eval!` + `take(k)`: k pulls each)
    rftop.<via> <ty> <a> <k>                 `a..` observed step by step up to and past MAX: `[v:<x>;…;panic|end]`;
                                               <via> ∈ next, fe, take, evtake, zip, zipin, nth, evnext;
                                               cc = `collect_const!(.., take(k))` const item: `panic` or all the items
    rftop.find <ty> <a> <target>             `eval!(a.., find(|x| x == target))`, at most 24 closure calls
  values in decimal, chars as scalar values.   answer: model<TAB>spec
-/
namespace Driver.C09
open Konst Konst.Range Driver

/-- (MIN, MAX) of the twelve integer types (`usize`/`isize` are 64 bit) -/
def intBounds : String → Option (Int × Int)
  | "u8" => some (0, 2 ^ 8 - 1)
  | "u16" => some (0, 2 ^ 16 - 1)
  | "u32" => some (0, 2 ^ 32 - 1)
  | "u64" => some (0, 2 ^ 64 - 1)
  | "u128" => some (0, 2 ^ 128 - 1)
  | "usize" => some (0, 2 ^ 64 - 1)
  | "i8" => some (-(2 ^ 7), 2 ^ 7 - 1)
  | "i16" => some (-(2 ^ 15), 2 ^ 15 - 1)
  | "i32" => some (-(2 ^ 31), 2 ^ 31 - 1)
  | "i64" => some (-(2 ^ 63), 2 ^ 63 - 1)
  | "i128" => some (-(2 ^ 127), 2 ^ 127 - 1)
  | "isize" => some (-(2 ^ 63), 2 ^ 63 - 1)
  | _ => none

def showOpt {α} [ToString α] : Option α → String
  | none => "none"
  | some x => toString x

def showRun {α} [ToString α] : Option (List (Option α)) → String
  | none => "panic"
  | some l => showList (l.map showOpt)

def showVals {α} [ToString α] : Option (List α) → String
  | none => "panic"
  | some l => showList (l.map toString)

def showTok {α} [ToString α] : Tok α → String
  | .v x => "v:" ++ toString x
  | .panic => "panic"
  | .end_ => "end"
  | .runaway => "runaway"

def showToks {α} [ToString α] (l : List (Tok α)) : String := showList (l.map showTok)

/-- a run of std's `RangeFrom` (values, then a panic or nothing more asked); std never ends -/
def showStdRun {α} [ToString α] (r : List α × Bool) : String :=
  showList (r.1.map (fun x => "v:" ++ toString x) ++ (if r.2 then ["panic"] else []))

/-- the closure-call limit of the harness's `find` guard -/
def findLimit : Nat := 24

/-- everything the requests need from one element type.  The spec answers are evaluated through the
    shortcuts of Spec/Range.lean (`specAnswer` on the two ends of a long range, `charRangeFromFast`), which
    Props/C09.lean proves equal to the plain specification for all inputs. -/
structure Ty (α : Type) where
  S : Step α
  parse : String → Option α
  rangeList : α → α → List α
  rangeIncList : α → α → List α
  rangeEnds : α → α → Nat → Option (List α × List α)
  rangeIncEnds : α → α → Nat → Option (List α × List α)
  fromList : α → Nat → List α
  /-- std's `a..` in the checked profile: `k` steps = values + "a step panicked" -/
  fromChecked : α → Nat → List α × Bool
  beq : α → α → Bool
  /-- enough turns for the macro loop to see `None` -/
  fuel : α → α → Nat

def intTy (MIN MAX : Int) : Ty Int :=
  { S := intStep MIN MAX
    parse := fun s => (parseInt s).bind fun v => if MIN ≤ v ∧ v ≤ MAX then some v else none
    rangeList := Spec.Range.rangeList
    rangeIncList := Spec.Range.rangeIncList
    rangeEnds := Spec.Range.rangeEnds
    rangeIncEnds := Spec.Range.rangeIncEnds
    fromList := Spec.Range.rangeFromList
    fromChecked := Spec.Range.rangeFromChecked MAX
    beq := fun x y => x == y
    fuel := fun a b => (b - a).toNat + 3 }

def charTy : Ty Nat :=
  { S := charStep
    parse := fun s => (parseNat s).bind fun v => if Spec.Range.isScalar v then some v else none
    rangeList := Spec.Range.charRangeList
    rangeIncList := Spec.Range.charRangeIncList
    rangeEnds := Spec.Range.charRangeEnds
    rangeIncEnds := Spec.Range.charRangeIncEnds
    fromList := Spec.Range.charRangeFromFast
    fromChecked := Spec.Range.charRangeFromCheckedFast
    beq := fun x y => x == y
    fuel := fun a b => b - a + 3 }

def handleTy {α} [ToString α] (T : Ty α) (op : String) (args : List String) : Option (String × String) := do
  let parts := op.splitOn "."
  match parts, args with
  | ["rangefrom"], [a, k] | ["rangefrom", "fe"], [a, k] =>
    let a ← T.parse a
    let k ← parseNat k
    some (showVals (runRangeFrom T.S a k), showVals (some (T.fromList a k)))
  | ["rangefrom", "ev"], [a, k] =>
    -- `eval!(&(a..), take(k), for_each(..))`: the countdown of `take` is tested before the source is pulled
    -- (`takeLoop_eq_pulls`), so the source is asked for exactly `k` items
    let a ← T.parse a
    let k ← parseNat k
    some (showVals (runRangeFrom T.S a k), showVals (some (T.fromList a k)))
  | kind :: rest, [a, b, hist] =>
    let a ← T.parse a
    let b ← T.parse b
    let h ← parseHist hist
    let it := Iter.ofBounds a b
    let (it, rev) ← match rest with
      | [] => some (it, false)
      | ["rev"] => some (it.rev, true)
      | _ => none
    let d := h.length
    match kind with
    | "range" =>
      some (showRun (runRange T.S it h),
            showRun (some (Spec.Range.specAnswer rev (T.rangeEnds a b d) (fun _ => T.rangeList a b) h)))
    | "rangeinc" =>
      some (showRun (runRangeInc T.S it h),
            showRun (some (Spec.Range.specAnswer rev (T.rangeIncEnds a b d) (fun _ => T.rangeIncList a b) h)))
    | _ => none
  | _, _ => none

/-- `rftop.<via> <ty> <a> <k|target>`: the model's macro loops around `RangeFromIter::next` / std's `RangeFrom`
    in the checked profile under the same consumer -/
def handleTop {α} [ToString α] (T : Ty α) (op : String) (args : List String) : Option (String × String) := do
  let next := RangeFromIter.next T.S
  match op.splitOn ".", args with
  | ["rftop", "find"], [a, t] =>
    let a ← T.parse a
    let t ← T.parse t
    let p := fun x => T.beq x t
    let spec := match Spec.Range.findOfRun (T.fromChecked a) p findLimit with
      | .inl x => "[v:" ++ toString x ++ "]"
      | .inr true => "[panic]"
      | .inr false => "[runaway]"
    some (showToks [findLoop next p a findLimit], spec)
  | ["rftop", via], [a, k] =>
    let a ← T.parse a
    let k ← parseNat k
    let run := T.fromChecked a
    match via with
    | "next" => some (showToks (pulls next a k), showStdRun (run k))
    | "fe" => if k = 0 then none else some (showToks (forEachBreak next a k), showStdRun (run k))
    | "take" | "evtake" => some (showToks (takeLoop next a k), showStdRun (run k))
    | "cc" =>
      -- `collect_const!(T => a.., take(k))` as a const item: a panic during const evaluation is all one sees
      let m := takeLoop next a k
      some (if m.any (fun t => match t with | .panic => true | _ => false) then "panic" else showToks m, if (run k).2 then "panic" else showStdRun (run k))
    | "zip" => some (showToks (zipLoop next a k), showStdRun (Spec.Range.zipOfRun run k))
    | "zipin" => some (showToks (zipInLoop next a k), showStdRun (run k))
    | "nth" | "evnext" =>
      let n ← if via = "nth" then some k else if k = 1 then some 0 else none
      let spec := match Spec.Range.nthOfRun run n with
        | some x => "[v:" ++ toString x ++ "]"
        | none => "[panic]"
      some (showToks [nthLoop next a n], spec)
    | _ => none
  | _, _ => none

/-- whole-iteration requests `<kind>.<via>[.rev|.irev] <ty> <a> <b>` -/
def handleDrain {α} [ToString α] (T : Ty α) (op : String) (args : List String) : Option (String × String) := do
  let parts := op.splitOn "."
  match parts, args with
  | kind :: via :: rest, [a, b] =>
    -- `zfe`: the range is the argument of `zip(..)` of an equally long counter; the emitted loop steps the zipped
    -- iterator with the same `$next_fn` as the source (Model/IterDsl: `Ad.zip`), so the items are those of `fe`
    if via ≠ "fe" ∧ via ≠ "ev" ∧ via ≠ "cc" ∧ via ≠ "zfe" then none else
    let a ← T.parse a
    let b ← T.parse b
    let it := Iter.ofBounds a b
    let (nx, nb, specList) ← match kind with
      | "range" => some (RangeIter.next T.S, RangeIter.nextBack T.S, T.rangeList a b)
      | "rangeinc" => some (RangeInclusiveIter.next T.S, RangeInclusiveIter.nextBack T.S, T.rangeIncList a b)
      | _ => none
    let fuel := T.fuel a b
    match rest with
    | [] => some (showVals (drain nx fuel it), showVals (some specList))
    | ["rev"] => some (showVals (drain nb fuel it), showVals (some specList.reverse))
    | ["irev"] => some (showVals (drain nx fuel it.rev), showVals (some specList.reverse))
    | _ => none
  | _, _ => none

/-- `range.fr <ty> <a> <b>`: the values `konst::for_range!` binds (integer types only) -/
def handleForRange (args : List String) : Option (String × String) := do
  match args with
  | [ty, a, b] =>
    let _ ← intBounds ty
    let a ← parseInt a
    let b ← parseInt b
    let fuel := (b - a).toNat + 2
    let show_ := fun (l : List Int) => showList (l.map toString)
    some (show_ (Konst.Range.forRange a b fuel), show_ (Konst.Spec.Range.rangeList a b))
  | _ => none

def handle (op : String) (args : List String) : Option (String × String) :=
  if op = "range.fr" then handleForRange args else
  match args with
  | ty :: rest =>
    let go {α} [ToString α] (T : Ty α) : Option (String × String) :=
      if op.startsWith "rftop." then handleTop T op rest else
      match handleDrain T op rest with
      | some r => some r
      | none => handleTy T op rest
    if ty = "char" then go charTy
    else match intBounds ty with
      | some (mn, mx) => go (intTy mn mx)
      | none => none
  | _ => none

end Driver.C09
