import Driver.Util
import KonstVerif.Model.Bytes
import KonstVerif.Model.StrFns
import KonstVerif.Spec.Bytes
/-
  C04 requests (pattern search):
    b.<fn>  <kind> <hayhex> <needlehex>     byte-slice functions, kind ∈ str|char|bytes|arr
    st.<fn> <kind> <hayhex> <needlehex>     str functions,        kind ∈ str|char
  fn ∈ find rfind contains rcontains find_skip find_keep rfind_skip rfind_keep
       (st. only:) split_once rsplit_once
  The pattern kind is carried for the harness (which passes a real `&str`/`char`/`&[u8]`/`&[u8;N]`);
  the model treats pattern normalisation as the identity on the needle's bytes.
  answer: model<TAB>spec
-/
namespace Driver.C04
open Konst Konst.Spec.Bytes Driver

def knownKind (k : String) : Bool := k == "str" || k == "char" || k == "bytes" || k == "arr"

def showSplit (r : Except Unit (Option (View × View))) : String :=
  match r with
  | .error _ => "panic"
  | .ok none => "none"
  | .ok (some (a, b)) => showView false a ++ "|" ++ showView false b

/-- spec side of split_once: (prefix, suffix) lists as the views std returns -/
def specSplit (h : List Nat) (r : Option (List Nat × List Nat)) : String :=
  match r with
  | none => "none"
  | some (a, b) => showPrefixOf a ++ "|" ++ showSuffixOf h b

def handle (op : String) (args : List String) : Option (String × String) := do
  let (isStr, fn) ←
    if op.startsWith "b." then some (false, (op.drop 2).toString)
    else if op.startsWith "st." then some (true, (op.drop 3).toString)
    else none
  match args with
  | [kind, hh, nh] =>
    if !knownKind kind then none else
    let h ← parseHex hh
    let p ← parseHex nh
    match isStr, fn with
    | false, "find" => some (showOptNat (Bytes.bytesFind h p), showOptNat (findSpec h p))
    | false, "rfind" => some (showOptNat (Bytes.bytesRfind h p), showOptNat (rfindSpec h p))
    | false, "contains" => some (showBool (Bytes.bytesContain h p), showBool (containsSpec h p))
    | false, "rcontains" => some (showBool (Bytes.bytesRcontain h p), showBool (rfindSpec h p).isSome)
    | false, "find_skip" => some (showOptView false (Bytes.findSkip h p), showOptSuffixOf h (findSkipSpec h p))
    | false, "find_keep" => some (showOptView false (Bytes.findKeep h p), showOptSuffixOf h (findKeepSpec h p))
    | false, "rfind_skip" => some (showOptView false (Bytes.rfindSkip h p), showOptPrefixOf (rfindSkipSpec h p))
    | false, "rfind_keep" => some (showOptView false (Bytes.rfindKeep h p), showOptPrefixOf (rfindKeepSpec h p))
    | true, "find" => some (showOptNat (StrFns.find h p), showOptNat (findSpec h p))
    | true, "rfind" => some (showOptNat (StrFns.rfind h p), showOptNat (rfindSpec h p))
    | true, "contains" => some (showBool (StrFns.contains h p), showBool (containsSpec h p))
    | true, "rcontains" => some (showBool (StrFns.rcontains h p), showBool (rfindSpec h p).isSome)
    | true, "find_skip" => some (showOptView false (StrFns.findSkip h p), showOptSuffixOf h (findSkipSpec h p))
    | true, "find_keep" => some (showOptView false (StrFns.findKeep h p), showOptSuffixOf h (findKeepSpec h p))
    | true, "rfind_skip" => some (showOptView false (StrFns.rfindSkip h p), showOptPrefixOf (rfindSkipSpec h p))
    | true, "rfind_keep" => some (showOptView false (StrFns.rfindKeep h p), showOptPrefixOf (rfindKeepSpec h p))
    | true, "split_once" => some (showSplit (StrFns.splitOnce h p), specSplit h (splitOnceSpec h p))
    | true, "rsplit_once" => some (showSplit (StrFns.rsplitOnce h p), specSplit h (rsplitOnceSpec h p))
    | _, _ => none
  | _ => none

end Driver.C04
