import Driver.Util
import Driver.C02
import Driver.C03
import Driver.C04
import Driver.C05
import Driver.C07
import KonstVerif.Model.Slice
import KonstVerif.Model.Utf8
import KonstVerif.Model.Chr
import KonstVerif.Spec.Utf8
/-
  C01 requests:  ub.<request of C02 / C03 / C04 / C05 / C07>   (same grammar after the `ub.` prefix)
                 ub.array_chunks[.back] <elem> <len> <N>       items of `array_chunks`, remainder
                 ub.chr.enc <scalar>                           `Utf8Encoded::as_bytes/as_str`
                 ub.split… / ub.rsplit… / ub.cstr.* / ub.from_utf8   no model here: answered `?`
                 ub.const <group> / ub.miri <what>             implementation-side observers: the
                                                               expected verdict (`accept` / `clean`)
  answer: model<TAB>spec where
    model = <payload the MODEL predicts (the definitions C02–C07's theorems and C01's are about)>
            ,in:<t|f>[,utf8:<t|f>,bnd:<t|f>[,sc:<t|f>]]
            the flags are computed from the model's payload with the model's own definitions:
              in    every non-empty view `v:<off>:<len>` has off + len ≤ length of the argument
              utf8  `Spec.Utf8.decodeAll` accepts the bytes of every view
              bnd   `Utf8.isCharBoundary arg off` and `… (off + len)` for every view
              sc    `Spec.Utf8.isScalar` of every yielded char
            (C01's theorems say all of them are `t` on valid arguments)
    spec  = `?` (the oracle column of the harness is the implementation's own payload with all
            flags `t`: the property constrains what is returned, not which view is returned)
-/
namespace Driver.C01
open Konst Konst.Spec.Utf8 Driver

def isSep (c : Char) : Bool := c == '|' || c == ';' || c == '@' || c == '[' || c == ']'

/-- split a payload into its atoms -/
def toks (s : String) : List String :=
  let rec go : List Char → List Char → List String → List String
    | [], cur, acc => (String.ofList cur.reverse :: acc).reverse
    | c :: r, cur, acc =>
      if isSep c then go r [] (String.ofList cur.reverse :: acc) else go r (c :: cur) acc
  go s.toList [] []

structure Flags where
  inb : Bool := true
  utf8 : Bool := true
  bnd : Bool := true
  sc : Bool := true

/-- fold one atom of the model's payload into the flags; `h` = bytes of the str argument (if any) -/
def step (argLen : Nat) (h : Option (List Nat)) (f : Flags) (t : String) : Flags :=
  match t.splitOn ":" with
  | ["v", o, l] =>
    match l.toNat? with
    | none => { f with inb := false }
    | some len =>
      if len = 0 then f
      else match o.toNat? with
        | none => { f with inb := f.inb && decide (len ≤ argLen) }          -- zero-sized elements
        | some off =>
          let f := { f with inb := f.inb && decide (off + len ≤ argLen) }
          match h with
          | none => f
          | some hb =>
            { f with
              utf8 := f.utf8 && (decodeAll ((hb.drop off).take len)).isSome
              bnd := f.bnd && Utf8.isCharBoundary hb off && Utf8.isCharBoundary hb (off + len) }
  | ["c", n] => { f with sc := f.sc && (n.toNat?.map isScalar).getD false }
  | ["ci", _, n] => { f with sc := f.sc && (n.toNat?.map isScalar).getD false }
  | ["some", n] => { f with sc := f.sc && (n.toNat?.map isScalar).getD false }
  | _ => f

def render (payload : String) (cols : Nat) (f : Flags) : String :=
  let b := showBool
  -- a result without any non-empty view (and all flags true) is rendered bare, as the harness does
  if f.inb && f.utf8 && f.bnd && f.sc &&
      (payload == "none" || payload == "panic" || payload == "v:_:0" || payload == "err") then payload
  else if cols = 1 then s!"{payload},in:{b f.inb}"
  else if cols = 3 then s!"{payload},in:{b f.inb},utf8:{b f.utf8},bnd:{b f.bnd}"
  else s!"{payload},in:{b f.inb},utf8:{b f.utf8},bnd:{b f.bnd},sc:{b f.sc}"

def withFlags (payload : String) (cols argLen : Nat) (h : Option (List Nat)) : String :=
  render payload cols ((toks payload).foldl (step argLen h) {})

def arrayChunks (back : Bool) (zst : Bool) (len n : Nat) : String :=
  match Slice.asChunks len n with
  | none => "panic"
  | some (a, k, r) =>
    let items := (List.range k).map fun i => showView zst ⟨a.off + i * n, n⟩
    let items := if back then items.reverse else items
    showList items ++ "|" ++ showView zst r

def handle (op : String) (args : List String) : Option (String × String) := do
  if op == "const" then return ("accept", "accept")
  if op == "miri" then return ("clean", "clean")
  if op.startsWith "split" || op.startsWith "rsplit" || op.startsWith "cstr." || op == "from_utf8" then
    return ("?", "?")
  if op.startsWith "s." then
    let (m, _) ← Driver.C02.handle (op.drop 2).toString args
    let len ← (args.getD 1 "").toNat?
    return (withFlags m 1 len none, "?")
  if op == "array_chunks" || op == "array_chunks.back" then
    match args with
    | [elem, l, n] =>
      let len ← l.toNat?
      let n ← n.toNat?
      return (withFlags (arrayChunks (op == "array_chunks.back") (elem == "zst") len n) 1 len none, "?")
    | _ => none
  if op.startsWith "str." then
    let (m, _) ← Driver.C03.handle (op.drop 4).toString args
    let h ← parseHex (args.getD 0 "")
    return (withFlags m 3 h.length (some h), "?")
  if op.startsWith "st." || op.startsWith "b." then
    let (m, _) ← (Driver.C04.handle op args).orElse fun _ => Driver.C05.handle op args
    let hh := match args with
      | [x] => x
      | [_, x, _] => x
      | _ => ""
    let h ← parseHex hh
    if op.startsWith "st." then return (withFlags m 3 h.length (some h), "?")
    else return (withFlags m 1 h.length none, "?")
  if op.startsWith "chars." then
    let (m, _) ← Driver.C07.handleChars (op.drop 6).toString args
    let h ← parseHex (args.getD 0 "")
    return (withFlags m 4 h.length (some h), "?")
  if op == "chr.from_u32" then
    let (m, _) ← Driver.C07.handleChr "from_u32" args
    return (withFlags m 4 0 none, "?")
  if op == "chr.enc" then
    match args with
    | [a] =>
      let n ← a.toNat?
      let e := Chr.encodeUtf8 n
      let by_ := e.asBytes
      let f : Flags :=
        { inb := decide (e.len ≤ e.encoded.length)
          utf8 := decodeAll by_ == some [n]
          bnd := decide (by_.length = e.len ∧ 1 ≤ e.len ∧ e.len ≤ 4) }
      return (render (toHex by_ ++ "|" ++ toString e.len) 3 f, "?")
    | _ => none
  none

end Driver.C01
