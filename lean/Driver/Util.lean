import KonstVerif.Model.Basic
/-
  Line-protocol helpers shared by all driver modules (import-free besides the model).
-/
namespace Driver
open Konst

def hexVal (c : Char) : Option Nat :=
  if '0' ≤ c ∧ c ≤ '9' then some (c.toNat - '0'.toNat)
  else if 'a' ≤ c ∧ c ≤ 'f' then some (c.toNat - 'a'.toNat + 10)
  else none

/-- `-` is the empty byte string; otherwise lower-case hex pairs -/
def parseHex (s : String) : Option (List Nat) :=
  if s = "-" then some [] else
  let rec go : List Char → List Nat → Option (List Nat)
    | [], acc => some acc.reverse
    | [_], _ => none
    | a :: b :: r, acc =>
      match hexVal a, hexVal b with
      | some x, some y => go r ((x * 16 + y) :: acc)
      | _, _ => none
  go s.toList []

def hexDigit (n : Nat) : Char := if n < 10 then Char.ofNat (48 + n) else Char.ofNat (87 + n)

def toHex (bs : List Nat) : String :=
  if bs.isEmpty then "-" else
  String.ofList (bs.flatMap fun b => [hexDigit (b / 16 % 16), hexDigit (b % 16)])

def parseNat (s : String) : Option Nat := s.toNat?

def parseInt (s : String) : Option Int :=
  if s.startsWith "-" then (s.drop 1).toNat?.map fun n => -(Int.ofNat n)
  else s.toNat?.map Int.ofNat

def parseHist (s : String) : Option (List Dir) :=
  if s = "-" then some [] else
  s.toList.mapM fun c => if c = 'f' then some Dir.f else if c = 'b' then some Dir.b else none

/-- canonical rendering of a view; the offset of an empty view is not observable
    (`&[]` has no address inside the argument), nor is any offset for zero-sized elements -/
def showView (zst : Bool) (v : View) : String :=
  if v.len = 0 then "v:_:0"
  else if zst then s!"v:_:{v.len}" else s!"v:{v.off}:{v.len}"

def showOptView (zst : Bool) : Option View → String
  | none => "none"
  | some v => showView zst v

/-- a list of consecutive indices (a sub-list of `List.range n`) rendered as a view -/
def showIdxList (zst : Bool) (l : List Nat) : String :=
  match l with
  | [] => "v:_:0"
  | x :: _ => if zst then s!"v:_:{l.length}" else s!"v:{x}:{l.length}"

def showOptIdxList (zst : Bool) : Option (List Nat) → String
  | none => "none"
  | some l => showIdxList zst l

def showOptNat : Option Nat → String
  | none => "none"
  | some n => s!"some:{n}"

def showBool (b : Bool) : String := if b then "t" else "f"

def joinWith (sep : String) (l : List String) : String := sep.intercalate l

def showList (l : List String) : String := "[" ++ ";".intercalate l ++ "]"

/-- a spec result `r` known to be a SUFFIX of the argument `h`, rendered as the view std returns -/
def showSuffixOf (h r : List Nat) : String := showView false ⟨h.length - r.length, r.length⟩
/-- a spec result `r` known to be a PREFIX of the argument -/
def showPrefixOf (r : List Nat) : String := showView false ⟨0, r.length⟩
def showOptSuffixOf (h : List Nat) : Option (List Nat) → String
  | none => "none"
  | some r => showSuffixOf h r
def showOptPrefixOf : Option (List Nat) → String
  | none => "none"
  | some r => showPrefixOf r
/-- a spec result `r` obtained by trimming the start (leaving `mid`) and then the end of `h` -/
def showTrimmed (h mid r : List Nat) : String := showView false ⟨h.length - mid.length, r.length⟩

end Driver
