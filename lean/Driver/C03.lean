import Driver.Util
import KonstVerif.Model.Utf8
import KonstVerif.Spec.Utf8
import KonstVerif.Spec.Str
/-
  requests:  str.<fn> <hex of a valid UTF-8 string> <i> [<j>]
  answer:    model<TAB>spec      (views relative to the string; `panic` for a panic)
-/
namespace Driver.C03
open Konst Konst.Utf8 Konst.Spec.Utf8 Konst.Spec.Str Driver

/-- a sub-string computed by the spec as `drop off … take …`, rendered like a view -/
def showSub (off : Nat) (l : List Nat) : String :=
  if l.isEmpty then "v:_:0" else s!"v:{off}:{l.length}"

def showOptSub (off : Nat) : Option (List Nat) → String
  | none => "none"
  | some l => showSub off l

def showPanicSub (off : Nat) : Option (List Nat) → String
  | none => "panic"
  | some l => showSub off l

def showExc : Except Panic View → String
  | .error _ => "panic"
  | .ok v => showView false v

def handle (fn : String) (args : List String) : Option (String × String) := do
  match args with
  | hex :: rest =>
    let s ← parseHex hex
    let cs ← decodeAll s
    let nums ← rest.mapM parseNat
    let len := s.length
    match fn, nums with
    | "is_char_boundary", [i] =>
      some (showBool (isCharBoundary s i), showBool (stdIsCharBoundary cs i))
    | "get_from", [a] => some (showOptView false (getFrom s a), showOptSub a (stdGetFrom cs a))
    | "get_up_to", [b] => some (showOptView false (getUpTo s b), showOptSub 0 (stdGetUpTo cs b))
    | "get_range", [a, b] =>
      some (showOptView false (getRange s a b), showOptSub a (stdGetRange cs a b))
    | "str_from", [a] => some (showExc (strFrom s a), showPanicSub (min a len) (clampedFrom cs a))
    | "str_up_to", [b] => some (showExc (strUpTo s b), showPanicSub 0 (clampedUpTo cs b))
    | "str_range", [a, b] =>
      some (showExc (strRange s a b), showPanicSub (min a len) (clampedRange cs a b))
    | "split_at", [i] =>
      some ((match splitAt s i with
              | .error _ => "panic"
              | .ok (u, v) => showView false u ++ "|" ++ showView false v),
            (match clampedSplitAt cs i with
              | none => "panic"
              | some (l, r) => showSub 0 l ++ "|" ++ showSub (min i len) r))
    | _, _ => none
  | _ => none

end Driver.C03
