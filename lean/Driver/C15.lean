import Driver.Util
import Driver.C11
import KonstVerif.Model.ArrayMacros
import KonstVerif.Model.Destructure
import KonstVerif.Spec.ArrayStd
/-
  C15 requests (prefixes `cons.`, `led.`, `destr.`; `bld.hist` of C11 is reused for the builder ledger):

    cons.hist <new|empty> <n> <ops>     ops over f (next) b (next_back) c (clone, drop original) k (clone, drop clone)
                                        0..9 (clone with an element `Clone` that PANICS on its j-th call, caught; a clone
                                        that completes is dropped), last char d (drop) | g (mem::forget) | e (assert_is_empty)
          answer: per step `<op>=<some:id|none|ok|panic>,[remaining ids]` joined by `;` (or `-`), `|d` / `|g` / `|e=ok` / `|e=panic`,
                  `|L=[id:m;id:d;…]` ledger in event order, `|leak=[ids]` (owned, never dropped)
    led.<map_|from_fn_> <n> <exit>      by-value macros over drop-logging elements: inputs have ids 0..n-1, the k-th output
                                        created gets id n+k;
          answer: `<res>|L=[id:c;…;id:d;…]|leak=[ids]`  (`id:c` = handed to the closure)
    destr.<fin|imm|const> <shape> <fields>
          shape ∈ tuple tstruct bstruct bstructr packed bpacked cpacked cbpacked packed2 generic array:<len>
            (`packed`/`bpacked` = `#[repr(packed)]` tuple / braced struct, `c…` = `#[repr(C, packed)]`,
             `packed2` = `#[repr(packed(2))]` tuple struct)
          fields: two letters per field, type ∈ e n z p a s g o h q t (ids: e1 n0 z0 p2 a2 s1 g1; o = u8, h = u16,
            q = u64, t = String: no ids — they exist to put wider fields at MISALIGNED offsets) and pattern ∈ b w;
          const: the destructuring is done in a `const` item / a `const fn` called from a `const` item (compile-time
            evaluation, which checks the alignment of every read); same answer as `fin`, or `does-not-compile`
    destr.miri <program>                the run-time packed-struct cases under Miri: answer `clean`
          for arrays one letter per pattern: b w (one element), R (`r @ ..`), D (`..`)
          fin: `L=[id:m|id:d …sorted by id]|vals=[<type><field index>:<ids>;…]` (bound fields in read order)
          imm: `[ids dropped inside the macro's statements, in order]`
    destr.rej <case>                    rejected invocations (verdict table): answer `does-not-compile`
-/
namespace Driver.C15
open Konst Konst.ArrayMacros Konst.Spec.ArrayStd Driver Driver.C11

def ledStr (tag : String) (l : List Nat) : List String := l.map fun i => s!"{i}:{tag}"

def handleCons (args : List String) : Option (String × String) := do
  match args with
  | [ctor, n, ops] =>
    let n ← n.toNat?
    let chars := if ops = "-" then [] else ops.toList
    let fresh : Nat → Nat → Nat := fun k _ => k
    let (c0, rem0, k0) ← (match ctor with
      | "new" => some (ArrayConsumer.new (List.range n), List.range n, n)
      | "empty" => some (ArrayConsumer.empty n, [], 0)
      | _ => none)
    let render := fun (steps led : List String) (f : String) (leak : List Nat) =>
      (if steps.isEmpty then "-" else ";".intercalate steps) ++ "|" ++ f ++ "|L=" ++ showList led ++ "|leak=" ++ showNats leak
    let obsStr := fun (ch : Char) (o : ArrayConsumer.Obs Nat) (sl : List Nat) =>
      match o with
      | .front v | .back v => some (s!"{ch}={showOptNat v},{showNats sl}", (match v with | some i => [s!"{i}:m"] | none => []))
      | .cloned d => some (s!"{ch}=ok,{showNats sl}", ledStr "d" d)
      | .panicked d => some (s!"{ch}=panic,{showNats sl}", ledStr "d" d)
      | .ub => none
    let finStr := fun (e : ArrayConsumer.End) (f : ArrayConsumer.Final Nat) =>
      match e with
      | .drop => "d" | .forget => "g" | .assertEmpty => if f.panicked then "e=panic" else "e=ok"
    let parseOp := fun (ch : Char) =>
      match ch with
      | 'f' => some ArrayConsumer.Op.next | 'b' => some ArrayConsumer.Op.nextBack
      | 'c' => some ArrayConsumer.Op.clone | 'k' => some ArrayConsumer.Op.cloneDrop
      | _ => if ch.isDigit then some (ArrayConsumer.Op.clonePanic (ch.toNat - '0'.toNat)) else none
    let parseEnd := fun (ch : Char) =>
      match ch with
      | 'd' => some ArrayConsumer.End.drop | 'g' => some ArrayConsumer.End.forget
      | 'e' => some ArrayConsumer.End.assertEmpty | _ => none
    let rec goM : List Char → (ArrayConsumer.Consumer Nat × Nat) → List String → List String → Option String
      | [], _, _, _ => none
      | [ch], st, steps, led => do
        let e ← parseEnd ch
        let f ← ArrayConsumer.finish st.1 e
        some (render steps (led ++ ledStr "d" f.dropped) (finStr e f) f.leaked)
      | ch :: r, st, steps, led => do
        let op ← parseOp ch
        let res := ArrayConsumer.step fresh st op
        let sl ← ArrayConsumer.asSlice res.1.1
        let (s, l) ← obsStr ch res.2 sl
        goM r res.1 (steps ++ [s]) (led ++ l)
    let rec goS : List Char → (List Nat × Nat) → List String → List String → Option String
      | [], _, _, _ => none
      | [ch], st, steps, led => do
        let e ← parseEnd ch
        let f := dqFinish st.1 e
        some (render steps (led ++ ledStr "d" f.dropped) (finStr e f) f.leaked)
      | ch :: r, st, steps, led => do
        let op ← parseOp ch
        let res := dqStep fresh st op
        let (s, l) ← obsStr ch res.2 res.1.1
        goS r res.1 (steps ++ [s]) (led ++ l)
    let m ← goM chars (c0, k0) [] []
    let s ← goS chars (rem0, k0) [] []
    some (m, s)
  | _ => none

def handleLed (mac : String) (args : List String) : Option (String × String) := do
  match args with
  | [n, exit] =>
    let n ← n.toNat?
    let (kind, k) ← parseExit exit
    -- output id: n + number of values produced before this call
    let outId := fun (t : Nat) => n + t - (if (kind = .cont ∨ kind = .cont1) ∧ t > k then 1 else 0)
    let c : Nat → Nat → Outcome Nat := fun t i => outcome (if kind = .cont1 then .cont else kind) k t i (outId t)
    let hostile := kind ≠ .none ∧ k < n
    match mac with
    | "map_" =>
      let r := arrayMapByVal FUEL (List.range n) c
      let led := ledStr "c" r.calls ++ ledStr "d" r.droppedOut ++ ledStr "d" r.droppedIn
      let m := showRes r.res ++ "|L=" ++ showList led ++ "|leak=" ++ showNats r.leakedIn
      let s := if hostile then "?" else
        showNats ((List.range n).map (· + n)) ++ "|L=" ++ showList (ledStr "c" (List.range n)) ++ "|leak=[]"
      some (m, s)
    | "from_fn_" =>
      -- unit inputs: only the outputs have identities (ids 0.. in creation order)
      let outId' := fun (t : Nat) => t - (if (kind = .cont ∨ kind = .cont1) ∧ t > k then 1 else 0)
      let r := arrayFromFnByVal FUEL n (fun t i => outcome (if kind = .cont1 then .cont else kind) k t i (outId' t))
      let m := showRes r.res ++ "|L=" ++ showList (ledStr "d" r.droppedOut) ++ "|leak=[]"
      let s := if hostile then "?" else showNats (List.range n) ++ "|L=[]|leak=[]"
      some (m, s)
    | _ => none
  | _ => none

open Konst.Destructure in
/-- ids contained in a field of the given type letter -/
def idsOf (ty : Char) : Option Nat :=
  match ty with
  | 'e' => some 1 | 'n' => some 0 | 'z' => some 0 | 'p' => some 2 | 'a' => some 2 | 's' => some 1 | 'g' => some 1
  | 'o' => some 0 | 'h' => some 0 | 'q' => some 0 | 't' => some 0
  | _ => none

open Konst.Destructure in
def parsePat (c : Char) : Option Pat :=
  match c with
  | 'b' => some .bind | 'w' => some .wild | _ => none

/-- fields of an aggregate: (type letter, field index, ids) -/
abbrev Field := Char × Nat × List Nat

def parseFields (s : String) : Option (List (Field × Destructure.Pat)) :=
  if s = "-" then some [] else
  let rec go : List Char → Nat → Nat → List (Field × Destructure.Pat) → Option (List (Field × Destructure.Pat))
    | [], _, _, acc => some acc.reverse
    | [_], _, _, _ => none
    | ty :: p :: r, idx, nextId, acc => do
      let k ← idsOf ty
      let pat ← parsePat p
      go r (idx + 1) (nextId + k) (((ty, idx, (List.range k).map (· + nextId)), pat) :: acc)
  go s.toList 0 0 []

def showField (f : Field) : String :=
  s!"{f.1}{f.2.1}:" ++ ",".intercalate (f.2.2.map toString)

def finStr (reads : List (Destructure.Pat × Field)) : String :=
  let evs : List (Nat × String) := reads.flatMap fun (p, f) =>
    f.2.2.map fun i => (i, if p == .wild then "d" else "m")
  let sorted := evs.mergeSort (fun a b => a.1 ≤ b.1)
  let vals := (Destructure.bound reads).map showField
  "L=" ++ showList (sorted.map fun (i, t) => s!"{i}:{t}") ++ "|vals=" ++ showList vals

def immStr (reads : List (Destructure.Pat × Field)) : String :=
  showNats ((Destructure.immediate reads).flatMap (·.2.2))

/-- reference (native `let` semantics, written without the model's read sequence): a field is moved to
    the caller iff its pattern binds it, otherwise it is dropped; bound fields appear in listing order -/
def refOut (what : String) (listing : List (Field × Destructure.Pat)) : Option String :=
  match what with
  | "fin" | "const" =>
    let evs : List (Nat × String) := listing.flatMap fun (f, p) =>
      f.2.2.map fun i => (i, if p == .bind then "m" else "d")
    let sorted := evs.mergeSort (fun a b => a.1 ≤ b.1)
    let vals := (listing.filter (·.2 == .bind)).map (showField ·.1)
    some ("L=" ++ showList (sorted.map fun (i, t) => s!"{i}:{t}") ++ "|vals=" ++ showList vals)
  | "imm" => some (showNats ((listing.filter (·.2 == .wild)).flatMap (·.1.2.2)))
  | _ => none

def handleDestr (what : String) (args : List String) : Option (String × String) := do
  match what, args with
  | "rej", [_case] => some ("does-not-compile", "does-not-compile")
  | "miri", [_prog] => some ("clean", "clean")
  | _, [shape, fields] =>
    let out := fun (reads : List (Destructure.Pat × Field)) =>
      match what with
      | "fin" | "const" => some (finStr reads)
      | "imm" => some (immStr reads)
      | _ => none
    if shape.startsWith "array:" then do
      let len ← (shape.drop 6).toString.toNat?
      let elems : List Field := (List.range len).map fun i => ('e', i, [i])
      let chars := if fields = "-" then [] else fields.toList
      -- split the pattern letters at the rest pattern
      let isRest := fun (c : Char) => c = 'R' ∨ c = 'D'
      let pre := chars.takeWhile (fun c => ¬ isRest c)
      let after := chars.dropWhile (fun c => ¬ isRest c)
      let pre' ← pre.mapM parsePat
      let (rest, suf) ← (match after with
        | [] => some (none, [])
        | r :: s => do
          let s' ← s.mapM parsePat
          some (some (if r = 'R' then Destructure.Pat.bind else Destructure.Pat.wild), s'))
      match Destructure.destructureArray elems ⟨pre', rest, suf⟩ with
      | none => some ("does-not-compile", "does-not-compile")
      | some reads =>
        -- one read may move several elements (the rest pattern): render it as one field of type `r`
        let reads' : List (Destructure.Pat × Field) := reads.mapIdx fun j (p, fs) =>
          if rest.isSome ∧ j = pre'.length then (p, ('r', pre'.length, fs.flatMap (·.2.2)))
          else match fs with
            | [f] => (p, f)
            | _ => (p, ('?', j, fs.flatMap (·.2.2)))
        let m ← out reads'
        -- reference: element j belongs to the prefix, the suffix or the rest by position alone
        let nSuf := suf.length
        let restElems := ((elems.drop pre'.length).take (len - pre'.length - nSuf))
        let listing : List (Field × Destructure.Pat) :=
          (elems.take pre'.length).zip pre' ++
          (match rest with
            | none => []
            | some rp => [(('r', pre'.length, restElems.flatMap (·.2.2)), rp)]) ++
          (elems.drop (len - nSuf)).zip suf
        let sp ← refOut what listing
        some (m, sp)
    else do
      let fs ← parseFields fields
      let fields' := fs.map (·.1)
      let pats := fs.map (·.2)
      let reads ← (match shape with
        | "tuple" | "tstruct" | "packed" | "cpacked" | "packed2" => Destructure.destructureTuple fields' pats
        | "bstruct" | "bpacked" | "cbpacked" | "generic" =>
          Destructure.destructureStruct fields' ((List.range fs.length).zip pats)
        | "bstructr" =>
          Destructure.destructureStruct fields' (((List.range fs.length).zip pats).reverse)
        | _ => none)
      let m ← out reads
      let sp ← refOut what (if shape = "bstructr" then fs.reverse else fs)
      some (m, sp)
  | _, _ => none

def handle (pfx : String) (fn : String) (args : List String) : Option (String × String) :=
  match pfx with
  -- `cons.zhist`: zero-sized elements are observed as counts; the model's ledger is by element id, so these rows
  -- are implementation vs std only (`?` = no model answer)
  | "cons" => if fn = "hist" then handleCons args else if fn = "zhist" then some ("?", "?") else none
  | "led" => handleLed fn args
  | "destr" => handleDestr fn args
  | _ => none

end Driver.C15
