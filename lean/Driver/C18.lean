import Driver.Util
import KonstVerif.Model.LitDecode
import KonstVerif.Model.ParserMethod
import KonstVerif.Spec.ParserMethod
/-
  requests:  pm <form> <base> <input-hex> <arms>       arms = <branch>:<src>:<byteshex>,…
             pm.compile <set> <arms>
  src = L<hex of the literal's token text> | C<hex>;<hex>;… (concat!)
  model: the literal bytes come from the MODEL of the proc macro's decoder applied to the token text,
         then the model of the expansion;  spec: rustc's bytes + the property's description.
-/
namespace Driver.C18
open Konst.Lit Konst.PM Konst.PM.Spec Driver

def bytesToChars (bs : List Nat) : Option (List Char) :=
  let ba : ByteArray := ⟨(bs.map fun b => UInt8.ofNat b).toArray⟩
  (String.fromUTF8? ba).map String.toList

def charsToBytes (cs : List Char) : List Nat :=
  (String.ofList cs).toUTF8.toList.map (·.toNat)

def decodeSrc (src : String) : Option (Except Err (List Nat)) := do
  if src.startsWith "L" then
    let bs ← parseHex (src.drop 1).toString
    let cs ← bytesToChars bs
    some ((parseLiteral cs).map charsToBytes)
  else if src.startsWith "C" then
    let body := (src.drop 1).toString
    let parts := if body = "" then [] else body.splitOn ";"
    let texts ← parts.mapM fun h => (parseHex h).bind bytesToChars
    some ((parseConcat texts).map charsToBytes)
  else none

structure Arm where
  branch : Nat
  src : String
  bytes : Option (List Nat)     -- rustc's bytes (`?` when the program did not compile)

def parseArms (s : String) : Option (List Arm) :=
  (s.splitOn ",").mapM fun a =>
    match a.splitOn ":" with
    | [b, src, bytes] => do
      let b ← b.toNat?
      let by_ := if bytes = "?" then none else parseHex bytes
      if bytes ≠ "?" ∧ by_.isNone then none else some ⟨b, src, by_⟩
    | _ => none

def showOut (br : Option Nat) (start end_ : Nat) (rem : List Nat) : String :=
  (match br with | some b => toString b | none => "d") ++ s!"|{start}|{end_}|" ++ toHex rem

def showP (br : Option Nat) (p : PState) : String := showOut br p.start (p.start + p.rem.length) p.rem

def handleCompile (args : List String) : Option (String × String) := do
  match args with
  | [_set, arms] =>
    let as_ ← parseArms arms
    let decs ← as_.mapM fun a => decodeSrc a.src
    let ok := decs.all fun d => match d with | .ok _ => true | .error _ => false
    some (if ok then "accept" else "reject", "?")
  | _ => none

def handle (args : List String) : Option (String × String) := do
  match args with
  | [form, base, inp, arms] =>
    let base ← base.toNat?
    let input ← parseHex inp
    let as_ ← parseArms arms
    let decs ← as_.mapM fun a => decodeSrc a.src
    let p : PState := ⟨base, input⟩
    -- model
    let marms? : Option (List (Nat × List Nat)) :=
      (as_.zip decs).mapM fun (a, d) => match d with | .ok bs => some (a.branch, bs) | .error _ => none
    let model :=
      match marms? with
      | none => "reject"
      | some marms =>
        match form with
        | "strip_prefix" => let (b, q) := stripPrefix marms p; showP b q
        | "strip_suffix" => let (b, q) := stripSuffix marms p; showP b q
        | "find_skip" => let (b, q) := findSkip marms p; showP b q
        | "rfind_skip" => let (b, q) := rfindSkip marms p; showP b q
        | "trim_start_matches" => showP (some 0) (trimStartMatches marms p)
        | "trim_end_matches" => showP (some 0) (trimEndMatches marms p)
        | _ => "bad-op"
    -- spec (on rustc's bytes)
    let sarms? : Option (List (Nat × List Nat)) := as_.mapM fun a => a.bytes.map fun bs => (a.branch, bs)
    let len := input.length
    let fromStart (r : Option (Nat × List Nat)) : String :=
      match r with
      | some (b, rem) => showOut (some b) (base + (len - rem.length)) (base + len) rem
      | none => showOut none base (base + len) input
    let fromEnd (r : Option (Nat × List Nat)) : String :=
      match r with
      | some (b, rem) => showOut (some b) base (base + rem.length) rem
      | none => showOut none base (base + len) input
    let spec :=
      match sarms? with
      | none => "?"
      | some sarms =>
        match form with
        | "strip_prefix" => fromStart (stripPrefixSpec sarms input)
        | "strip_suffix" => fromEnd (stripSuffixSpec sarms input)
        | "find_skip" => fromStart (findSkipSpec sarms input)
        | "rfind_skip" => fromEnd (rfindSkipSpec sarms input)
        | "trim_start_matches" => fromStart (some (0, trimStartSpec sarms input))
        | "trim_end_matches" => fromEnd (some (0, trimEndSpec sarms input))
        | _ => "bad-op"
    if model = "bad-op" then none else some (model, spec)
  | _ => none

end Driver.C18
