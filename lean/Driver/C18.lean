import Driver.Util
import KonstVerif.Model.LitDecode
import KonstVerif.Model.ParserMethod
import KonstVerif.Model.ParserMethodUse
import KonstVerif.Spec.ParserMethod
/-
  requests:  pm <form> <base> <input-hex> <arms>       arms = <branch>:<src>:<byteshex>,…
             pm.compile <set> <arms>
  src = L<hex of the literal's token text> | C<hex>;<hex>;… (concat!)
  model: the literal bytes come from the MODEL of the proc macro's decoder applied to the token text,
         then the model of the expansion;  spec: rustc's bytes + the property's description.
-/
namespace Driver.C18
open Konst.Lit Konst.PM Konst.PM.Spec Driver

def bytesToChars (bs : List Nat) : Option (List Char) :=
  let ba : ByteArray := ⟨(bs.map fun b => UInt8.ofNat b).toArray⟩
  (String.fromUTF8? ba).map String.toList

def charsToBytes (cs : List Char) : List Nat :=
  (String.ofList cs).toUTF8.toList.map (·.toNat)

def decodeSrc (src : String) : Option (Except Err (List Nat)) := do
  if src.startsWith "L" then
    let bs ← parseHex (src.drop 1).toString
    let cs ← bytesToChars bs
    some ((parseLiteral cs).map charsToBytes)
  else if src.startsWith "C" then
    let body := (src.drop 1).toString
    let parts := if body = "" then [] else body.splitOn ";"
    let texts ← parts.mapM fun h => (parseHex h).bind bytesToChars
    some ((parseConcat texts).map charsToBytes)
  else none

structure Arm where
  branch : Nat
  src : String
  bytes : Option (List Nat)     -- rustc's bytes (`?` when the program did not compile)

def parseArms (s : String) : Option (List Arm) :=
  (s.splitOn ",").mapM fun a =>
    match a.splitOn ":" with
    | [b, src, bytes] => do
      let b ← b.toNat?
      let by_ := if bytes = "?" then none else parseHex bytes
      if bytes ≠ "?" ∧ by_.isNone then none else some ⟨b, src, by_⟩
    | _ => none

def showOut (br : Option Nat) (start end_ : Nat) (rem : List Nat) : String :=
  (match br with | some b => toString b | none => "d") ++ s!"|{start}|{end_}|" ++ toHex rem

def showP (br : Option Nat) (p : PState) : String := showOut br p.start (p.start + p.rem.length) p.rem

def handleCompile (args : List String) : Option (String × String) := do
  match args with
  | [_set, arms] =>
    let as_ ← parseArms arms
    let decs ← as_.mapM fun a => decodeSrc a.src
    let ok := decs.all fun d => match d with | .ok _ => true | .error _ => false
    some (if ok then "accept" else "reject", "?")
  | _ => none

def handle (args : List String) : Option (String × String) := do
  match args with
  | [form, base, inp, arms] =>
    let base ← base.toNat?
    let input ← parseHex inp
    let as_ ← parseArms arms
    let decs ← as_.mapM fun a => decodeSrc a.src
    let p : PState := ⟨base, input⟩
    -- model
    let marms? : Option (List (Nat × List Nat)) :=
      (as_.zip decs).mapM fun (a, d) => match d with | .ok bs => some (a.branch, bs) | .error _ => none
    let model :=
      match marms? with
      | none => "reject"
      | some marms =>
        match form with
        | "strip_prefix" => let (b, q) := stripPrefix marms p; showP b q
        | "strip_suffix" => let (b, q) := stripSuffix marms p; showP b q
        | "find_skip" => let (b, q) := findSkip marms p; showP b q
        | "rfind_skip" => let (b, q) := rfindSkip marms p; showP b q
        | "trim_start_matches" => showP (some 0) (trimStartMatches marms p)
        | "trim_end_matches" => showP (some 0) (trimEndMatches marms p)
        | _ => "bad-op"
    -- spec (on rustc's bytes)
    let sarms? : Option (List (Nat × List Nat)) := as_.mapM fun a => a.bytes.map fun bs => (a.branch, bs)
    let len := input.length
    let fromStart (r : Option (Nat × List Nat)) : String :=
      match r with
      | some (b, rem) => showOut (some b) (base + (len - rem.length)) (base + len) rem
      | none => showOut none base (base + len) input
    let fromEnd (r : Option (Nat × List Nat)) : String :=
      match r with
      | some (b, rem) => showOut (some b) base (base + rem.length) rem
      | none => showOut none base (base + len) input
    let spec :=
      match sarms? with
      | none => "?"
      | some sarms =>
        match form with
        | "strip_prefix" => fromStart (stripPrefixSpec sarms input)
        | "strip_suffix" => fromEnd (stripSuffixSpec sarms input)
        | "find_skip" => fromStart (findSkipSpec sarms input)
        | "rfind_skip" => fromEnd (rfindSkipSpec sarms input)
        | "trim_start_matches" => fromStart (some (0, trimStartSpec sarms input))
        | "trim_end_matches" => fromEnd (some (0, trimEndSpec sarms input))
        | _ => "bad-op"
    if model = "bad-op" then none else some (model, spec)
  | _ => none

/-! ### the macro as an expression of a program (vlib/progs/c18h.py)

  requests:  pm.at.<pos> | pm.place.<shape> | pm.hyg.<case>   <form> <base> <input-hex> <arms>
             pm.placefx.<shape> <form> <i0/i1/..> <in0,in1,in2,in3> <arms>
  model: `Konst.PM.Use` (place evaluations, binders; no form pastes a body inside a loop of its own —
         `bodiesInHiddenLoop` is constantly false since 5e6c5eb, so a body's `break` / `continue` / `break v` acts on
         the caller's loop in the units below) on the decoder model's bytes;
  spec: the property's description applied to the place evaluated once, bodies in a plain `match`.
  The functions `evalPos` / `brkUnit` / … are the semantics of the generated Rust units (the code around the
  macro, which is ours), parametric in what the macro does.  -/
open Konst.PM.Use

def parseForm : String → Option Form
  | "strip_prefix" => some .stripPrefix
  | "strip_suffix" => some .stripSuffix
  | "find_skip" => some .findSkip
  | "rfind_skip" => some .rfindSkip
  | "trim_start_matches" => some .trimStart
  | "trim_end_matches" => some .trimEnd
  | _ => none

def dual : Form → Form
  | .stripPrefix => .stripSuffix | .stripSuffix => .stripPrefix
  | .findSkip => .rfindSkip | .rfindSkip => .findSkip
  | .trimStart => .trimEnd | .trimEnd => .trimStart

/-- the property's description as a step on a parser (offsets as `Parser` reports them) -/
def specStep (sarms : List (Nat × List Nat)) (f : Form) (p : PState) : Outcome :=
  let len := p.rem.length
  let fromStart (r : Option (Nat × List Nat)) : Outcome :=
    match r with
    | some (b, rem) => (some b, ⟨p.start + (len - rem.length), rem⟩)
    | none => (none, p)
  let fromEnd (r : Option (Nat × List Nat)) : Outcome :=
    match r with
    | some (b, rem) => (some b, ⟨p.start, rem⟩)
    | none => (none, p)
  match f with
  | .stripPrefix => fromStart (stripPrefixSpec sarms p.rem)
  | .stripSuffix => fromEnd (stripSuffixSpec sarms p.rem)
  | .findSkip => fromStart (findSkipSpec sarms p.rem)
  | .rfindSkip => fromEnd (rfindSkipSpec sarms p.rem)
  | .trimStart => fromStart (some (0, trimStartSpec sarms p.rem))
  | .trimEnd => fromEnd (some (0, trimEndSpec sarms p.rem))

def code : Option Nat → Nat
  | some b => b
  | none => 9

/-- what the macro does, as far as the units can tell -/
structure Sem where
  step : Form → PState → Outcome
  skip1 : PState → PState
  skipBack1 : PState → PState

/-- `while i < 3 { i += 1; M{ {n += 10;}  {n += 100; break}  {n += 1;} }; n += 1000; }` -/
def brkUnit (S : Sem) (f : Form) : Nat → Nat → PState → Nat × PState
  | 0, n, p => (n, p)
  | fuel + 1, n, p =>
    match S.step f p with
    | (none, q) => brkUnit S f fuel (n + 1 + 1000) q
    | (some 0, q) => brkUnit S f fuel (n + 10 + 1000) q
    | (some _, q) => (n + 100, q)

/-- `… M{ {n += 10; k += 1; if k % 2 == 1 {continue;}}  {n += 100;}  {n += 1;} }; n += 1000; …`
    (`labeled`: the `continue` names the caller's loop, and branch 1 is `break 'outer`) -/
def contUnit (S : Sem) (f : Form) (labeled : Bool) : Nat → Nat → Nat → PState → Nat × PState
  | 0, n, _, p => (n, p)
  | fuel + 1, n, k, p =>
    match S.step f p with
    | (none, q) => contUnit S f labeled fuel (n + 1 + 1000) k q
    | (some 0, q) =>
      if (k + 1) % 2 == 1 then contUnit S f labeled fuel (n + 10) (k + 1) q
      else contUnit S f labeled fuel (n + 10 + 1000) (k + 1) q
    | (some _, q) => if labeled then (n + 100, q) else contUnit S f labeled fuel (n + 100 + 1000) k q

/-- `loop { i += 1; if i > 3 { break 7 + n; } let v = M{ break 40 + n, 1, 9 }; n += v; if v == 9 { break 50 + n; } }` -/
def brkvalUnit (S : Sem) (f : Form) : Nat → Nat → PState → Nat × PState
  | 0, n, p => (7 + n, p)
  | fuel + 1, n, p =>
    match S.step f p with
    | (none, q) => (50 + (n + 9), q)
    | (some 0, q) => (40 + n, q)
    | (some _, q) => brkvalUnit S f fuel (n + 1) q

def evalPos (S : Sem) (pos : String) (f : Form) (base : Nat) (p : PState) : Option (String × PState) :=
  let (b, q) := S.step f p
  let c := code b
  let num (n : Nat) (st : PState) : Option (String × PState) := some (toString n, st)
  match pos with
  | "let" | "marm" | "stmt" | "bf.exprcomma" | "bf.block" | "bf.blockcomma" | "bf.mixed" | "bf.ifmatch"
  | "constitem" | "tstmt" | "tlet" | "ttail" | "tconstfn" | "tclosure" => num c q
  | "ifc" => num (if c = 0 then 50 else 60) q
  | "scrut" => num (match c with | 0 => 70 | 1 => 71 | _ => 79) q
  | "arg2" => let (b2, q2) := S.step f q; num (c * 10 + code b2) q2
  | "binop" => num (1 + c + 100) q
  | "try" => num (match c with | 1 => 1001 | _ => c + 100) q
  | "closure" => num (c + 1) q
  | "constfn" => num (if c = 0 then 1 else 0) q
  | "once" => some (s!"{c}:" ++ (match b with | some n => toString n | none => "d"), q)
  | "reads" => num ((match c with | 0 => 0 | 1 => 50 | _ => 100) + q.rem.length) q
  | "writes" => num c (if c = 1 then S.skipBack1 q else S.skip1 q)
  | "nested" => if c = 0 then (let (b2, q2) := S.step f q; num (10 + code b2) q2) else num c q
  | "nestedd" => if b.isNone then (let (b2, q2) := S.step (dual f) q; num (90 + code b2) q2) else num c q
  | "nestedt" =>
    if c = 0 then num 0 (S.step .trimStart q).2 else if b.isNone then num 9 (S.step .trimEnd q).2 else num c q
  | "ret" => num (match c with | 0 => 40 | 1 => 101 | _ => 49) q
  | "brk" => let (n, r) := brkUnit S f 3 0 p; num n r
  | "cont" => let (n, r) := contUnit S f false 3 0 0 p; num n r
  | "lbl" => let (n, r) := contUnit S f true 3 0 0 p; num n r
  | "brkval" => let (n, r) := brkvalUnit S f 3 0 p; num n r
  | "tmarm" => if base = 0 then num 0 q else num 0 (S.step (dual f) p).2
  | "tloop" => num 0 (S.step f q).2
  | _ => none

def showVP (v : String) (p : PState) : String :=
  v ++ s!"|{p.start}|{p.start + p.rem.length}|" ++ toHex p.rem

def showFx (o : FxOut) : String :=
  match o with
  | .panic n => s!"panic|{n}"
  | .done b n ps =>
    s!"{code b}|{n}|" ++ ";".intercalate (ps.map fun p => s!"{p.start}:{p.start + p.rem.length}:" ++ toHex p.rem)

def modelSem (marms : List (Nat × List Nat)) : Sem :=
  { step := fun f p => run f marms p
    skip1 := fun p => skip p 1
    skipBack1 := fun p => skipBack p 1 }

/-- the unit's inputs are ASCII: one byte is one char -/
def specSem (sarms : List (Nat × List Nat)) : Sem :=
  { step := specStep sarms
    skip1 := fun p => ⟨p.start + min 1 p.rem.length, p.rem.drop 1⟩
    skipBack1 := fun p => ⟨p.start, p.rem.dropLast⟩ }

def decodeArms (arms : String) : Option (Option (List (Nat × List Nat)) × Option (List (Nat × List Nat))) := do
  let as_ ← parseArms arms
  let decs ← as_.mapM fun a => decodeSrc a.src
  let marms? : Option (List (Nat × List Nat)) :=
    (as_.zip decs).mapM fun (a, d) => match d with | .ok bs => some (a.branch, bs) | .error _ => none
  let sarms? : Option (List (Nat × List Nat)) := as_.mapM fun a => a.bytes.map fun bs => (a.branch, bs)
  some (marms?, sarms?)

def owns (op : String) : Bool :=
  op.startsWith "pm.at." || op.startsWith "pm.place." || op.startsWith "pm.hyg." || op.startsWith "pm.placefx."

def handleUse (op : String) (args : List String) : Option (String × String) := do
  -- `pm.at.afterexh`: the macro applied to a parser that `split` has exhausted, followed by another `split`;
  -- the model's parser state has no `yielded_last_split` flag: implementation vs the chain of Parser calls only
  if op = "pm.at.afterexh" then return ("?", "?")
  match args with
  | [form, a1, a2, arms] =>
    let f ← parseForm form
    let (marms?, sarms?) ← decodeArms arms
    if op.startsWith "pm.placefx." then
      let st ← (a1.splitOn "/").mapM String.toNat?
      let ins ← (a2.splitOn ",").mapM parseHex
      if st.isEmpty || ins.length ≠ 4 || st.any (· ≥ 4) then none
      let ps : List PState := (List.range 4).zip ins |>.map fun (i, bs) => ⟨10 * i, bs⟩
      let model := match marms? with
        | none => "reject"
        | some marms => showFx (placeRun f marms ps st)
      let spec := match sarms? with
        | none => "?"
        | some sarms => showFx (placeOnce (specStep sarms f) ps st)
      some (model, spec)
    else
      let base ← a1.toNat?
      let input ← parseHex a2
      let p : PState := ⟨base, input⟩
      -- position name, value offset, rejection predicted by the model
      let (pos, off, rejects) ←
        if op.startsWith "pm.at." then some ((op.drop 6).toString, 0, false)
        else if op.startsWith "pm.place." then some ("let", 0, false)
        else
          let case := (op.drop 7).toString
          match case.splitOn "." with
          | ["locals"] => some ("let", if f = .trimStart || f = .trimEnd then 0 else 123, false)
          | ["pvar", _] | ["shadow", _] => some ("let", 0, false)
          | ["item", kind, name] => some ("let", 0, callerItemRejects f kind name)
          | _ => none
      let render (S : Sem) : Option String := do
        let (v, q) ← evalPos S pos f base p
        if off = 0 then some (showVP v q) else some (showVP (toString (off + (← v.toNat?))) q)
      let model ← match marms? with
        | none => some "reject"
        | some marms => if rejects then some "reject" else render (modelSem marms)
      let spec ← match sarms? with
        | none => some "?"
        | some sarms => render (specSem sarms)
      some (model, spec)
  | _ => none

end Driver.C18
