import Driver.Util
import KonstVerif.Model.ParseInt
import KonstVerif.Spec.ParseInt
/-
  C12 requests (prefix `pi.` stripped by Main):
    parse     <ty> <hex>               whole string   -> ok:<v> | err
    pparse    <ty> <hex>               Parser::new(s).parse_<ty>()            -> ok:<v>:<remainder-len> | err
    pwith     <ty> <hex>               StdParser::<ty>::parse_with / parse_with!  (same model as pparse)
    pparse_at <ty> <s|e> <base> <hex>  Parser::with_start_offset(s, base) [.skip_back(0) when `e`] .parse_<ty>()
                                       -> ok:<v>:<remainder-len>:<start_offset>:<end_offset>:<dir>
                                        | err:<offset()>:<kind>:<error_direction()>
  ty ∈ u8,u16,u32,u64,u128,usize,i8,i16,i32,i64,i128,isize,bool;  bool values are t/f.
  answer: model<TAB>spec
-/
namespace Driver.C12
open Driver Konst.ParseInt Konst.Spec.ParseInt

def tyOf : String → Option (Bool × Nat)
  | "u8" => some (false, 8) | "u16" => some (false, 16) | "u32" => some (false, 32)
  | "u64" => some (false, 64) | "u128" => some (false, 128) | "usize" => some (false, 64)
  | "i8" => some (true, 8) | "i16" => some (true, 16) | "i32" => some (true, 32)
  | "i64" => some (true, 64) | "i128" => some (true, 128) | "isize" => some (true, 64)
  | _ => none

def showDir : ParseDirection → String
  | .fromStart => "start" | .fromEnd => "end" | .fromBoth => "both"
def showKind : ErrorKind → String
  | .parseInteger => "int" | .parseBool => "bool"

def showWhole {α : Type} (sh : α → String) : Option α → String
  | some v => "ok:" ++ sh v
  | none => "err"

/-- model side of the prefix observation -/
def showRes {α : Type} (sh : α → String) (full : Bool) : Except MiniError (α × MiniParser) → String
  | .ok (v, p) =>
    if full then s!"ok:{sh v}:{p.str.length}:{p.startOffset}:{p.startOffset + p.str.length}:{showDir p.dir}"
    else s!"ok:{sh v}:{p.str.length}"
  | .error e => if full then s!"err:{e.offset}:{showKind e.kind}:{showDir e.dir}" else "err"

/-- spec side: value and rest from the reference; positions from "exactly the consumed bytes are
    skipped, a failure consumes nothing and is reported at the start" -/
def showSpec {α : Type} (sh : α → String) (full : Bool) (kind : String) (base : Nat) (s : List Nat) :
    Option (α × List Nat) → String
  | some (v, rest) =>
    if full then s!"ok:{sh v}:{rest.length}:{base + (s.length - rest.length)}:{base + s.length}:start"
    else s!"ok:{sh v}:{rest.length}"
  | none => if full then s!"err:{base}:{kind}:start" else "err"

def prefixReq (ty : String) (full : Bool) (p : MiniParser) : Option (String × String) :=
  if ty == "bool" then
    some (showRes showBool full (parserParseBool p),
          showSpec showBool full "bool" p.startOffset p.str (prefixParseBool p.str))
  else do
    let (sg, bits) ← tyOf ty
    some (showRes (toString : Int → String) full (parserParseInt sg bits p),
          showSpec (toString : Int → String) full "int" p.startOffset p.str (prefixParseInt sg bits p.str))

def handle (fn : String) (args : List String) : Option (String × String) := do
  match fn, args with
  | "parse", [ty, hex] =>
    let s ← parseHex hex
    if ty == "bool" then
      some (showWhole showBool (parseBoolWhole s), showWhole showBool (stdParseBool s))
    else
      let (sg, bits) ← tyOf ty
      some (showWhole (toString : Int → String) (parseWhole sg bits s),
            showWhole (toString : Int → String) (stdParseInt sg bits s))
  | "pparse", [ty, hex] | "pwith", [ty, hex] =>
    let s ← parseHex hex
    prefixReq ty false (MiniParser.new s)
  | "pparse_at", [ty, pre, base, hex] =>
    let s ← parseHex hex
    let base ← parseNat base
    let dir ← (if pre == "s" then some ParseDirection.fromStart
               else if pre == "e" then some ParseDirection.fromEnd else none)
    prefixReq ty true { dir := dir, startOffset := base, str := s }
  | _, _ => none

end Driver.C12
