import Driver.Util
import KonstVerif.Model.Slice
import KonstVerif.Spec.Slice
/-
  requests:  s.<fn>[.mut] <elem> <len> [<i> [<j>]]
  answer:    model<TAB>spec
-/
namespace Driver.C02
open Konst Konst.Slice Konst.Spec Driver

/-- the element list the SPEC is evaluated on; zero-sized slices with more than 10^5 (up to 2^64) elements, which
    the harness also generates, cannot be materialised: for them the spec column is `?` (see `handle`) -/
def mkS (len : Nat) : List Nat := if len ≤ 100000 then List.range len else []

def handleAny (fn : String) (args : List String) : Option (String × String) := do
  let base := (fn.splitOn ".mut").head!
  let isMut := fn.endsWith ".mut"
  match args with
  | elem :: rest =>
    let zst := elem == "zst"
    let nums ← rest.mapM parseNat
    let sv := showView zst
    let sov := showOptView zst
    let sl := showIdxList zst
    let sol := showOptIdxList zst
    match base, nums with
    | "get", [len, i] =>
      let s := mkS len
      some (sov (Slice.get len i), sol (stdGet s i))
    | "get_from", [len, a] =>
      let s := mkS len
      some (sov (getFrom len a), sol (stdGetFrom s a))
    | "get_up_to", [len, b] =>
      let s := mkS len
      some (sov (getUpTo len b), sol (stdGetUpTo s b))
    | "get_range", [len, a, b] =>
      let s := mkS len
      some (sov (getRange len a b), sol (stdGetRange s a b))
    | "slice_from", [len, a] =>
      let s := mkS len
      some (sv (sliceFrom len a), sl ((stdGetFrom s a).getD []))
    | "slice_up_to", [len, b] =>
      let s := mkS len
      some (sv (sliceUpTo len b), sl ((stdGetUpTo s b).getD s))
    | "slice_range", [len, a, b] =>
      let s := mkS len
      -- documented clamp: indices beyond the length act as the length, start > end gives empty
      some (sv (sliceRange len a b), sl ((s.take b).drop a))
    | "split_at", [len, a] =>
      let s := mkS len
      let (l, r) := if isMut then splitAtMut len a else splitAt len a
      let (sl_, sr) := (stdSplitAt s a).getD (s, [])
      some (sv l ++ "|" ++ sv r, sl sl_ ++ "|" ++ sl sr)
    | "first", [len] =>
      let s := mkS len
      some (sov (first len), sol (s.head?.map fun x => [x]))
    | "last", [len] =>
      let s := mkS len
      some (sov (last len), sol (s.getLast?.map fun x => [x]))
    | "split_first", [len] =>
      let s := mkS len
      some ((match splitFirst len with | none => "none" | some (a, b) => sv a ++ "|" ++ sv b),
            (match s with | [] => "none" | x :: r => sl [x] ++ "|" ++ sl r))
    | "split_last", [len] =>
      let s := mkS len
      some ((match splitLast len with | none => "none" | some (a, b) => sv a ++ "|" ++ sv b),
            (match s.getLast? with | none => "none" | some x => sl [x] ++ "|" ++ sl s.dropLast))
    | "try_into_array", [len, n] =>
      let s := mkS len
      some (sov (tryIntoArray len n), if s.length = n then sl s else "none")
    | "as_chunks", [len, n] =>
      let s := mkS len
      some ((match asChunks len n with
              | none => "panic"
              | some (a, k, r) => sv a ++ "|" ++ toString k ++ "|" ++ sv r),
            (if n = 0 then "panic" else
              let (cs, r) := stdAsChunks n s
              sl cs.flatten ++ "|" ++ toString cs.length ++ "|" ++ sl r))
    | "as_rchunks", [len, n] =>
      let s := mkS len
      some ((match asRchunks len n with
              | none => "panic"
              | some (r, a, k) => sv r ++ "|" ++ sv a ++ "|" ++ toString k),
            (if n = 0 then "panic" else
              let (r, cs) := stdAsRchunks n s
              sl r ++ "|" ++ sl cs.flatten ++ "|" ++ toString cs.length))
    | _, _ => none
  | _ => none

/-- model = computed from the length alone (any length); spec = list semantics, `?` for lengths that cannot be
    materialised (the theorems of Props/C02 cover every length) -/
def handle (fn : String) (args : List String) : Option (String × String) :=
  match handleAny fn args with
  | none => none
  | some (m, s) =>
    match args with
    | _ :: lenS :: _ => if (lenS.toNat?.getD 0) ≤ 100000 then some (m, s) else some (m, "?")
    | _ => some (m, s)

end Driver.C02
