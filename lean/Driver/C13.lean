import Driver.Util
import KonstVerif.Model.Parser
import KonstVerif.Spec.ParserSplit
import KonstVerif.Spec.ParserRef
/-
  C13 + C14 requests (histories of `Parser` operations; see harness/src/c13.rs):
    par13  <base> <hayhex> <op>…   model: per step ok:<start>:<end>:<view of the remainder in the original>
                                          | err:<offset>:<S|E|B> | panic          spec: `?`
           (C13's reference is the invariant, a predicate on the answers; the harness evaluates it
            on the implementation's answers, the theorems of Props/C13.lean prove it of the model's)
    par14  <base> <hayhex> <op>…   model: per step ok:<view of the new remainder in the previous one>[:<value>]
                                          | err:<ErrorKind> | panic
                                   spec:  the chain of `Spec.ParserRef.refStep` (free-function
                                          specifications applied to the previous remainder)
    pardir <base> <hayhex> <op>…   model: per step <stored direction>:<into_error(Other).offset()>   spec: `?`
    parproto.<split|rsplit|split_terminator|rsplit_terminator> <hayhex> <pat>
                                   model: the method iterated on `Parser::new(hay)` until it fails,
                                          `[piece views in hay]|<ErrorKind>` resp. `[…]|err`
                                   spec:  `splitSpec` / `rsplitSpec` pieces (+ SplitExhausted), resp.
                                          all but the last (+ err)
  op tokens: <method>:s<hex> | <method>:c<hex> (pattern methods), trim, trim_start, trim_end,
             skip:<n>, skip_back:<n>, parse_<ty>, parse_bool
  answer: model<TAB>spec
-/
namespace Driver.C13
open Konst Konst.Parser Konst.Spec.ParserSplit Konst.Spec.ParserRef Driver

def tyOf : String → Option (Bool × Nat)
  | "u8" => some (false, 8) | "u16" => some (false, 16) | "u32" => some (false, 32)
  | "u64" => some (false, 64) | "u128" => some (false, 128) | "usize" => some (false, 64)
  | "i8" => some (true, 8) | "i16" => some (true, 16) | "i32" => some (true, 32)
  | "i64" => some (true, 64) | "i128" => some (true, 128) | "isize" => some (true, 64)
  | _ => none

/-- `s<hex>` / `c<hex>`: a `&str` / `char` pattern; both are their UTF-8 bytes for the model -/
def parsePat (s : String) : Option (List Nat) :=
  if s.startsWith "s" || s.startsWith "c" then parseHex (s.drop 1).toString else none

def patMethod : String → Option (List Nat → Op)
  | "split_terminator" => some .splitTerminator
  | "rsplit_terminator" => some .rsplitTerminator
  | "split" => some .split
  | "rsplit" => some .rsplit
  | "split_keep" => some .splitKeep
  | "strip_prefix" => some .stripPrefix
  | "strip_suffix" => some .stripSuffix
  | "trim_matches" => some .trimMatches
  | "trim_start_matches" => some .trimStartMatches
  | "trim_end_matches" => some .trimEndMatches
  | "find_skip" => some .findSkip
  | "rfind_skip" => some .rfindSkip
  | _ => none

def parseOp (t : String) : Option Op :=
  match t.splitOn ":" with
  | ["trim"] => some .trim
  | ["trim_start"] => some .trimStart
  | ["trim_end"] => some .trimEnd
  | ["parse_bool"] => some .parseBool
  -- `parse_with!(parser, T)` = `StdParser::<T>::parse_with` = `Parser::parse_T` (Extracted/Equiv/ParseWith.lean)
  | ["pw_bool"] => some .parseBool
  | [name] =>
    if name.startsWith "parse_" then (tyOf (name.drop 6).toString).map fun (s, b) => .parseInt s b
    else if name.startsWith "pw_" then (tyOf (name.drop 3).toString).map fun (s, b) => .parseInt s b
    else none
  | ["skip", n] => (parseNat n).map .skip
  | ["skip_back", n] => (parseNat n).map .skipBack
  | [name, arg] => do
    let mk ← patMethod name
    let p ← parsePat arg
    pure (mk p)
  | _ => none

def showDir : ParseDirection → String
  | .fromStart => "S" | .fromEnd => "E" | .fromBoth => "B"

def showKind : ErrorKind → String
  | .parseInteger => "ParseInteger" | .parseBool => "ParseBool" | .find => "Find" | .strip => "Strip"
  | .splitExhausted => "SplitExhausted" | .delimiterNotFound => "DelimiterNotFound" | .other => "Other"

def showValue : Value → String
  | .unit => ""
  | .piece v => ":" ++ showView false v
  | .int n => s!":{n}"
  | .bool b => ":" ++ showBool b

/-- C13 observation of one step -/
def tok13 (base : Nat) : Res → String
  | .ok p _ => s!"ok:{p.startOffset}:{p.endOffset}:" ++ showView false ⟨p.startOffset - base, p.str.length⟩
  | .err e => s!"err:{e.offset}:{showDir e.errorDirection}"
  | .panic => "panic"

/-- C14 observation of one step (`p` = the parser the method was called on) -/
def tok14 (p : Parser) : Res → String
  | .ok p' v => "ok:" ++ showView false ⟨p'.startOffset - p.startOffset, p'.str.length⟩ ++ showValue v
  | .err e => "err:" ++ showKind e.kind
  | .panic => "panic"

/-- run a history on the model, rendering every step -/
def runModel (render : Parser → Res → String) : Parser → List Op → List String
  | _, [] => []
  | p, op :: ops =>
    let r := step op p
    render p r :: (match r.next p with
                   | some p' => runModel render p' ops
                   | none => [])

/-- the stored direction and `into_error(Other).offset()` after every step -/
def runDir : Parser → List Op → List String
  | _, [] => []
  | p, op :: ops =>
    match (step op p).next p with
    | some p' => s!"{showDir p'.dir}:{(p'.intoError .other).offset}" :: runDir p' ops
    | none => []

/-- the reference chain of C14 -/
def runRef : RefState → List Op → List String
  | _, [] => []
  | s, op :: ops =>
    match refStep op s with
    | .ok keep e v => ("ok:" ++ showView false keep ++ showValue v) :: runRef ⟨keep.apply s.rem, e⟩ ops
    | .err k => ("err:" ++ showKind k) :: runRef s ops

/-- iterate one split method until it fails (fuel bounds the number of pieces) -/
def protoModel (mk : List Nat → Op) (d : List Nat) : Nat → Parser → List String → List String × String
  | 0, _, acc => (acc.reverse, "unfinished")
  | fuel + 1, p, acc =>
    match step (mk d) p with
    | .ok p' (.piece v) => protoModel mk d fuel p' (showView false ⟨p.startOffset + v.off, v.len⟩ :: acc)
    | .ok _ _ => (acc.reverse, "novalue")
    | .err e => (acc.reverse, showKind e.kind)
    | .panic => (acc.reverse, "panic")

/-- views of the `split` pieces inside the haystack (front to back) -/
def frontViews (d : List Nat) : Nat → List (List Nat) → List String
  | _, [] => []
  | off, x :: xs => showView false ⟨off, x.length⟩ :: frontViews d (off + x.length + d.length) xs

/-- views of the `rsplit` pieces inside the haystack (back to front; `hi` = end of the piece) -/
def backViews (d : List Nat) : Nat → List (List Nat) → List String
  | _, [] => []
  | hi, x :: xs => showView false ⟨hi - x.length, x.length⟩ :: backViews d (hi - x.length - d.length) xs

def handle (op : String) (args : List String) : Option (String × String) := do
  if op == "par13" || op == "par14" || op == "pardir" then
    match args with
    | b :: hh :: opToks =>
      let base ← parseNat b
      let h ← parseHex hh
      let ops ← opToks.mapM parseOp
      let p0 := if base = 0 then Parser.new h else withStartOffset h base
      if op == "par13" then
        some (showList (runModel (fun _ r => tok13 base r) p0 ops), "?")
      else if op == "par14" then
        some (showList (runModel tok14 p0 ops), showList (runRef ⟨h, false⟩ ops))
      else
        some (showList (runDir p0 ops), "?")
    | _ => none
  else if op.startsWith "parproto." then
    let name := (op.drop 9).toString
    match args with
    | [hh, ph] =>
      let h ← parseHex hh
      let d ← parsePat ph
      let mk ← patMethod name
      let terminator := name == "split_terminator" || name == "rsplit_terminator"
      let back := name == "rsplit" || name == "rsplit_terminator"
      if !(name == "split" || name == "rsplit" || terminator) then none else
      let (pieces, kind) := protoModel mk d (h.length + 3) (Parser.new h) []
      let kindTok := if terminator && kind != "unfinished" && kind != "panic" && kind != "novalue" then "err" else kind
      let all := if back then rsplitSpec d h else splitSpec d h
      let shown := if terminator then terminated all else all
      let views := if back then backViews d h.length shown else frontViews d 0 shown
      some (showList pieces ++ "|" ++ kindTok,
            showList views ++ "|" ++ (if terminator then "err" else "SplitExhausted"))
    | _ => none
  else none

end Driver.C13
