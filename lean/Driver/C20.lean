import Driver.Util
import KonstVerif.Model.Concat
import KonstVerif.Model.ConcatHyg
import KonstVerif.Model.CStr
import KonstVerif.Spec.Concat
/-
  requests (C20):
    cstr.until_nul <hex> | cstr.with_nul <hex> | cstr.with_nul_kind <hex> | cstr.with_nul_kind_m <hex>
    cstr.to_bytes_with_nul <hex> | cstr.to_bytes <hex> | cstr.to_str <hex>
        (<hex> = the memory the CStr was made from with std's from_bytes_until_nul)
    cat.concat.<form> str <piece hex>* | cat.concat.<form> chr <scalar hex>* | cat.concat.lit
    cat.join.<form> c:<scalar hex>|s:<hex> <piece hex>*   | cat.join.lit c:..|s:..
    cat.slice.<ty> <[e;e;..]>*
    cat.from_iter.<chain> str <item hex>* | cat.from_iter.<chain> chr <scalar hex>*
    cat.k.slice_sum <[..]>* | cat.k.concat_slices <N> <[..]>*          (the phases called directly,
    cat.k.concat_sum str|chr .. | cat.k.concat_strs <N> str|chr ..      also with a wrong N; no std
    cat.k.join_sum <sep> <piece>* | cat.k.join_strs <N> <sep> <piece>*  counterpart: spec column `?`)
    cat.compile <macro> <frag> <decl>/<use> <NAME>     does the invocation compile (`accept`/`reject`) when
    cat.compile_m ..                                   the caller's item NAME (a const/static/fn/tyAlias)
        is mentioned inside the macro fragment `$frag`? model: `Hyg.transparent` on the expansion's
        skeleton; std has no reserved names (spec `accept`; `compile_m`: `?`)
  answer: model<TAB>spec
-/
namespace Driver.C20
open Konst Konst.Concat Konst.CStr Konst.Spec Konst.Spec.Concat Driver

def parseHexNat (s : String) : Option Nat :=
  if s.isEmpty then none else
  s.toList.foldlM (fun acc c => (hexVal c).map fun d => acc * 16 + d) 0

def showOut (o : Out (List Nat)) : String :=
  match o with
  | .ok bs => toHex bs
  | .panic _ => "panic"

/-- `<off>:<hex>`; the offset of an empty slice is not observable -/
def showSub (off : Nat) (bs : List Nat) : String :=
  if bs.isEmpty then "_:-" else s!"{off}:{toHex bs}"

def showViewIn (mem : List Nat) (v : View) : String := showSub v.off (v.apply mem)

def showKindM : WithNul → String
  | .ok _ => "ok"
  | .err (.internalNul p) => s!"interior:{p}"
  | .err .notNulTerminated => "nnt"
  | .panic => "panic"

def showKindS : Except NulError (List Nat) → String
  | .ok _ => "ok"
  | .error (.interiorNul p) => s!"interior:{p}"
  | .error .notNulTerminated => "nnt"

def handleCStr (fn : String) (bs : List Nat) : Option (String × String) :=
  match fn with
  | "until_nul" =>
    some ((match fromBytesUntilNul bs with
            | some v => "ok:" ++ showViewIn bs v
            | none => "err"),
          (match stdFromBytesUntilNul bs with
            | some c => "ok:" ++ showSub 0 c
            | none => "err"))
  | "with_nul" =>
    some ((match fromBytesWithNul bs with
            | .ok v => "ok:" ++ showViewIn bs v
            | .err _ => "err"
            | .panic => "panic"),
          (match stdFromBytesWithNul bs with
            | .ok c => "ok:" ++ showSub 0 c
            | .error _ => "err"))
  | "with_nul_kind" => some (showKindM (fromBytesWithNul bs), showKindS (stdFromBytesWithNul bs))
  | "with_nul_kind_m" => some (showKindM (fromBytesWithNul bs), "?")
  | "to_bytes_with_nul" =>
    match stdFromBytesUntilNul bs with
    | none => none
    | some c =>
      some ((match toBytesWithNul bs with
              | some v => showViewIn bs v
              | none => "oob"),
            showSub 0 (stdToBytesWithNul c))
  | "to_bytes" =>
    match stdFromBytesUntilNul bs with
    | none => none
    | some c =>
      some ((match toBytes bs with
              | .ok v => showViewIn bs v
              | .unreachable => "panic"
              | .oob => "oob"),
            showSub 0 (stdToBytes c))
  | "to_str" =>
    match stdFromBytesUntilNul bs with
    | none => none
    | some c =>
      some ((match toStr bs with
              | .ok v => "ok:" ++ showViewIn bs v
              | .err p => s!"err:{p}"
              | .unreachable => "panic"
              | .oob => "oob"),
            (match stdToStr c with
              | .ok s => "ok:" ++ showSub 0 s
              | .error p => s!"err:{p}"))
  | _ => none

def parseSep (s : String) : Option SepArg :=
  if s.startsWith "c:" then (parseHexNat (s.drop 2).toString).map SepArg.chr
  else if s.startsWith "s:" then (parseHex (s.drop 2).toString).map SepArg.str
  else none

/-- the std view of a separator: the bytes of the `&str`, or the UTF-8 encoding of the `char` -/
def sepSpecBytes : SepArg → List Nat
  | .chr c => Utf8.enc c
  | .str s => s

/-- `[a;b;c]` with opaque element tokens -/
def parseToks (s : String) : Option (List String) :=
  if s.startsWith "[" && s.endsWith "]" then
    let inner := ((s.drop 1).dropEnd 1).toString
    if inner.isEmpty then some [] else some (inner.splitOn ";")
  else none

def showOutNat : Out Nat → String
  | .ok n => toString n
  | .panic _ => "panic"

def parseArg : List String → Option ConcatArg
  | "str" :: ps => (ps.mapM parseHex).map ConcatArg.strs
  | "chr" :: cs => (cs.mapM parseHexNat).map ConcatArg.chars
  | _ => none

/-- the phase functions called directly -/
def handleKernel (fn : String) (args : List String) : Option String := do
  match fn, args with
  | "slice_sum", ps =>
    let ss ← ps.mapM parseToks
    some (showOutNat (sliceConcatSumLengths ss))
  | "concat_slices", n :: ps =>
    let n ← parseNat n
    let ss ← ps.mapM parseToks
    some (match concatSlices n ss with
          | .ok l => showList l
          | .panic _ => "panic")
  | "concat_sum", a =>
    let arg ← parseArg a
    some (showOutNat (concatSumLengths arg))
  | "concat_strs", n :: a =>
    let n ← parseNat n
    let arg ← parseArg a
    some (showOut (concatStrs n arg >>= asStr))
  | "join_sum", sep :: ps =>
    let sep ← parseSep sep
    let ss ← ps.mapM parseHex
    some (showOutNat (joinSumLengths sep ss))
  | "join_strs", n :: sep :: ps =>
    let n ← parseNat n
    let sep ← parseSep sep
    let ss ← ps.mapM parseHex
    some (showOut (joinStrs n sep ss >>= asStr))
  | _, _ => none

def parseDecl : String → Option Hyg.UserDecl
  | "const" => some .const
  | "static" => some .static
  | "fn" => some .fn
  | "tyAlias" => some .tyAlias
  | _ => none

/-- name hygiene of the expansions: `<macro> <frag> <decl>/<use> <NAME>` -/
def handleCompile (spec : String) : List String → Option (String × String)
  | [mac, frag, declUse, name] => do
    let sk ← Hyg.skOf mac
    let d ← parseDecl ((declUse.splitOn "/").headD "")
    if (Hyg.holes frag [] sk).isEmpty || name.isEmpty then none
    else some (if Hyg.transparent sk frag d name then "accept" else "reject", spec)
  | _ => none

def handleCat (op : String) (args : List String) : Option (String × String) := do
  let parts := op.splitOn "."
  match parts with
  | ["compile"] => handleCompile "accept" args
  | ["compile_m"] => handleCompile "?" args
  | ["k", fn] => (handleKernel fn args).map fun m => (m, "?")
  | ["concat", "lit"] =>
    if args.isEmpty then some (showOut (stringConcat .litEmpty), toHex (stdConcat ([] : List (List Nat))))
    else none
  | ["concat", _form] =>
    match args with
    | "str" :: ps =>
      let ss ← ps.mapM parseHex
      some (showOut (stringConcat (.expr (.strs ss))), toHex (stdConcat ss))
    | "chr" :: cs =>
      let cs ← cs.mapM parseHexNat
      some (showOut (stringConcat (.expr (.chars cs))), toHex (stdCollectChars cs))
    | _ => none
  | ["join", "lit"] =>
    match args with
    | [sep] =>
      let sep ← parseSep sep
      some (showOut (stringJoin .litEmpty), toHex (stdJoin (sepSpecBytes sep) []))
    | _ => none
  | ["join", _form] =>
    match args with
    | sep :: ps =>
      let sep ← parseSep sep
      let ss ← ps.mapM parseHex
      some (showOut (stringJoin (.expr sep ss)), toHex (stdJoin (sepSpecBytes sep) ss))
    | _ => none
  | ["slice", _ty] =>
    let ss ← args.mapM parseToks
    some ((match sliceConcat ss with
            | .ok l => showList l
            | .panic _ => "panic"),
          showList (stdConcat ss))
  | ["from_iter", _chain] =>
    match args with
    | "str" :: ps =>
      let ss ← ps.mapM parseHex
      some (showOut (strFromIter (ss.map .str)), toHex (stdCollectStrs ss))
    | "chr" :: cs =>
      let cs ← cs.mapM parseHexNat
      some (showOut (strFromIter (cs.map .chr)), toHex (stdCollectChars cs))
    | _ => none
  | _ => none

def handle (op : String) (args : List String) : Option (String × String) :=
  if op.startsWith "cstr." then
    match args with
    | [h] => (parseHex h).bind (handleCStr (op.drop 5).toString)
    | _ => none
  else if op.startsWith "cat." then handleCat (op.drop 4).toString args
  else none

end Driver.C20
