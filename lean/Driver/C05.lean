import Driver.Util
import KonstVerif.Model.Bytes
import KonstVerif.Model.StrFns
import KonstVerif.Spec.Bytes
/-
  C05 requests (prefix/suffix tests, stripping, trimming):
    b.<fn>  <kind> <hayhex> <needlehex>   fn ∈ starts_with ends_with strip_prefix strip_suffix
    st.<fn> <kind> <hayhex> <needlehex>        trim_start_matches trim_end_matches trim_matches
    b.<fn>  <hayhex>  /  st.<fn> <hayhex>      fn ∈ trim trim_start trim_end   (ASCII whitespace)
  answer: model<TAB>spec
-/
namespace Driver.C05
open Konst Konst.Spec.Bytes Driver

def knownKind (k : String) : Bool := k == "str" || k == "char" || k == "bytes" || k == "arr"

def handle (op : String) (args : List String) : Option (String × String) := do
  let (isStr, fn) ←
    if op.startsWith "b." then some (false, (op.drop 2).toString)
    else if op.startsWith "st." then some (true, (op.drop 3).toString)
    else none
  match args with
  | [hh] =>
    let h ← parseHex hh
    match isStr, fn with
    | false, "trim" =>
      some (showView false (Bytes.bytesTrim h), showTrimmed h (trimAsciiStartSpec h) (trimAsciiSpec h))
    | false, "trim_start" =>
      some (showView false (Bytes.bytesTrimStart h), showSuffixOf h (trimAsciiStartSpec h))
    | false, "trim_end" =>
      some (showView false (Bytes.bytesTrimEnd h), showPrefixOf (trimAsciiEndSpec h))
    | true, "trim" =>
      some (showView false (StrFns.trim h), showTrimmed h (trimAsciiStartSpec h) (trimAsciiSpec h))
    | true, "trim_start" =>
      some (showView false (StrFns.trimStart h), showSuffixOf h (trimAsciiStartSpec h))
    | true, "trim_end" =>
      some (showView false (StrFns.trimEnd h), showPrefixOf (trimAsciiEndSpec h))
    | _, _ => none
  | [kind, hh, nh] =>
    if !knownKind kind then none else
    let h ← parseHex hh
    let p ← parseHex nh
    match isStr, fn with
    | false, "starts_with" => some (showBool (Bytes.startsWith h p), showBool (startsWithSpec h p))
    | false, "ends_with" => some (showBool (Bytes.endsWith h p), showBool (endsWithSpec h p))
    | false, "strip_prefix" =>
      some (showOptView false (Bytes.stripPrefix h p), showOptSuffixOf h (stripPrefixSpec h p))
    | false, "strip_suffix" =>
      some (showOptView false (Bytes.stripSuffix h p), showOptPrefixOf (stripSuffixSpec h p))
    | false, "trim_start_matches" =>
      some (showView false (Bytes.trimStartMatches h p), showSuffixOf h (trimStartSpec p h))
    | false, "trim_end_matches" =>
      some (showView false (Bytes.trimEndMatches h p), showPrefixOf (trimEndSpec p h))
    | false, "trim_matches" =>
      some (showView false (Bytes.trimMatches h p), showTrimmed h (trimStartSpec p h) (trimMatchesSpec p h))
    | true, "starts_with" => some (showBool (StrFns.startsWith h p), showBool (startsWithSpec h p))
    | true, "ends_with" => some (showBool (StrFns.endsWith h p), showBool (endsWithSpec h p))
    | true, "strip_prefix" =>
      some (showOptView false (StrFns.stripPrefix h p), showOptSuffixOf h (stripPrefixSpec h p))
    | true, "strip_suffix" =>
      some (showOptView false (StrFns.stripSuffix h p), showOptPrefixOf (stripSuffixSpec h p))
    | true, "trim_start_matches" =>
      some (showView false (StrFns.trimStartMatches h p), showSuffixOf h (trimStartSpec p h))
    | true, "trim_end_matches" =>
      some (showView false (StrFns.trimEndMatches h p), showPrefixOf (trimEndSpec p h))
    | true, "trim_matches" =>
      some (showView false (StrFns.trimMatches h p), showTrimmed h (trimStartSpec p h) (trimMatchesSpec p h))
    | _, _ => none
  | _ => none

end Driver.C05
