import Driver.Util
import Driver.C02
import Driver.C10
import Driver.C18
import Driver.C08
import Driver.C12
import Driver.C19
import Driver.C03
import Driver.C07
import Driver.C04
import Driver.C05
import Driver.C17
import Driver.C16
import Driver.C20
import Driver.C11
import Driver.C11x
import Driver.C15
import Driver.C09
import Driver.C06
import Driver.C13
import Driver.C01
/-
  kdriver: one request per line on stdin, `model<TAB>spec` per line on stdout.
  Anything it cannot parse is answered `bad-op<TAB>bad-op` (never a default value).
-/
open Driver

def dispatch (line : String) : String :=
  let toks := (line.trimAscii.toString.splitOn " ").filter (· ≠ "")
  let r : Option (String × String) :=
    match toks with
    | [] => none
    | op :: args =>
      if op.startsWith "ub." then Driver.C01.handle (op.drop 3).toString args
      else if op.startsWith "s." then Driver.C02.handle (op.drop 2).toString args
      else if op == "chain" then Driver.C10.handle args
      else if op == "calls" || op == "hostile" then Driver.C10.handleCalls op args
      else if op == "pm" then Driver.C18.handle args
      else if op == "pm.compile" then Driver.C18.handleCompile args
      else if Driver.C18.owns op then Driver.C18.handleUse op args
      else if op.startsWith "it." then Driver.C08.handle (op.drop 3).toString args
      else if op.startsWith "pi." then Driver.C12.handle (op.drop 3).toString args
      else if Driver.C19.owns op then Driver.C19.handle op args
      else if op.startsWith "str." then Driver.C03.handle (op.drop 4).toString args
      else if op.startsWith "chr." then Driver.C07.handleChr (op.drop 4).toString args
      else if op.startsWith "chars." then Driver.C07.handleChars (op.drop 6).toString args
      else if op.startsWith "b." || op.startsWith "st." then (Driver.C04.handle op args).orElse fun _ => Driver.C05.handle op args
      else if op = "prog" ∨ op = "prog.v" then Driver.C17.handle op args
      else if op.startsWith "cmp." || op.startsWith "eq." || op.startsWith "assertc." then Driver.C16.handle op args
      else if op.startsWith "cstr." || op.startsWith "cat." then Driver.C20.handle op args
      else if op.startsWith "arr." then
        (Driver.C11x.handle (op.drop 4).toString args).orElse fun _ => Driver.C11.handle (op.drop 4).toString args
      else if op = "bld.hist" then Driver.C11.handleBld args
      else if op.startsWith "cons." then Driver.C15.handle "cons" (op.drop 5).toString args
      else if op.startsWith "led." then Driver.C15.handle "led" (op.drop 4).toString args
      else if op.startsWith "destr." then Driver.C15.handle "destr" (op.drop 6).toString args
      else if op.startsWith "rg." then Driver.C09.handle (op.drop 3).toString args
      else if op.startsWith "sp." then Driver.C06.handle (op.drop 3).toString args
      else if op.startsWith "par" then Driver.C13.handle op args
      else none
  match r with
  | some (m, s) => m ++ "\t" ++ s
  | none => "bad-op\tbad-op"

partial def loop (hin : IO.FS.Stream) (hout : IO.FS.Stream) : IO Unit := do
  let line ← hin.getLine
  if line.isEmpty then return ()
  hout.putStrLn (dispatch line)
  loop hin hout

def main : IO Unit := do
  let hin ← IO.getStdin
  let hout ← IO.getStdout
  loop hin hout
