import Driver.Util
import KonstVerif.Model.Cmp
import KonstVerif.Spec.Cmp
/-
  requests:  eq.<via> <ty> <a> <b>  |  cmp.<via> <ty> <a> <b>  |  assertc.eq <ty> <a> <b>  |  assertc.ne <ty> <a> <b>
    <via>  fn (named eq_*/cmp_* function), macro (const_eq!/const_cmp!),
           for | forkey | forcl | forpath (const_eq_for!/const_cmp_for! with the default / key /
           two-argument closure / path comparator), forimpl (slice of a user type declared with
           impl_cmp! whose const_eq/const_cmp delegate to u8's), impl (const_eq!/const_cmp! on that
           user type), macroarr (const_eq!/const_cmp! on arrays `[u8; N]`, all length pairs),
           opt (named eq_option_*/cmp_option_*), optmacro (const_eq!/const_cmp! on Options),
           optfor (const_eq_for!/const_cmp_for!(option; …)), optforimpl (the same on the user type)
    <ty>   u8 … i128 usize isize bool char | nzu8 … nzisize | ordering | str |
           slice_<scalar> | slice_str | slice_bytes | range_<scalar> | rangeinc_<scalar>
    values decimal integers (bool 0/1, char = scalar value), `lt|eq|gt`, strings/byte strings in
           hex (`-` empty), lists `[a;b;c]`, ranges `start|end`, inclusive ranges
           `start|end|<exhausted 0/1>`, Options `none` / `some:<v>`
  answer:  model<TAB>spec   with t/f, lt/eq/gt, ok/panic (`panic` also for a model-level panic)
-/
namespace Driver.C16
open Konst.Cmp Konst.Spec.Cmp Driver

inductive Kind where
  | scalar | nonzero | ordering | str | slice | sliceStr | sliceBytes | range | rangeInc
deriving DecidableEq

inductive Val where
  | int (i : Int)
  | ord (o : Ordering)
  | bytes (l : List Int)
  | bytess (l : List (List Int))
  | range (r : RangeV)
  | rangeInc (r : RangeIncV)
deriving DecidableEq

def scalars : List String :=
  ["u8", "u16", "u32", "u64", "u128", "usize", "i8", "i16", "i32", "i64", "i128", "isize", "bool", "char"]

def kindOf (ty : String) : Option Kind :=
  if scalars.contains ty then some .scalar
  else if ty.startsWith "nz" && scalars.contains (ty.drop 2).toString then some .nonzero
  else if ty = "ordering" then some .ordering
  else if ty = "str" then some .str
  else if ty = "slice_str" then some .sliceStr
  else if ty = "slice_bytes" then some .sliceBytes
  else if ty.startsWith "slice_" && scalars.contains (ty.drop 6).toString then some .slice
  else if ty.startsWith "range_" && scalars.contains (ty.drop 6).toString then some .range
  else if ty.startsWith "rangeinc_" && scalars.contains (ty.drop 9).toString then some .rangeInc
  else none

def parseOrd (s : String) : Option Ordering :=
  if s = "lt" then some .lt else if s = "eq" then some .eq else if s = "gt" then some .gt else none

def parseList {α : Type} (f : String → Option α) (s : String) : Option (List α) :=
  if s.startsWith "[" && s.endsWith "]" then
    let inner := ((s.drop 1).dropEnd 1).toString
    if inner = "" then some [] else (inner.splitOn ";").mapM f
  else none

def parseBytes (s : String) : Option (List Int) := (parseHex s).map fun l => l.map Int.ofNat

def parseVal (k : Kind) (s : String) : Option Val :=
  match k with
  | .scalar | .nonzero => (parseInt s).map .int
  | .ordering => (parseOrd s).map .ord
  | .str => (parseBytes s).map .bytes
  | .slice => (parseList parseInt s).map .bytes
  | .sliceStr | .sliceBytes => (parseList parseBytes s).map .bytess
  | .range =>
    match s.splitOn "|" with
    | [a, b] => do some (.range (← parseInt a, ← parseInt b))
    | _ => none
  | .rangeInc =>
    match s.splitOn "|" with
    | [a, b, x] => do
      let e ← if x = "0" then some false else if x = "1" then some true else none
      some (.rangeInc (← parseInt a, ← parseInt b, e))
    | _ => none

def parseOptVal (k : Kind) (s : String) : Option (Option Val) :=
  if s = "none" then some none
  else if s.startsWith "some:" then (parseVal k (s.drop 5).toString).map some
  else none

def showOB : Option Bool → String
  | some b => showBool b
  | none => "panic"

def showOrd : Ordering → String
  | .lt => "lt"
  | .eq => "eq"
  | .gt => "gt"

def showOO : Option Ordering → String
  | some o => showOrd o
  | none => "panic"

inductive Via where
  | fn | mac | for_
deriving DecidableEq

/-- the modelled equality reached for a (non-Option) value of kind `k` through `via`;
    `none` = this combination does not exist in konst -/
def eqModel (via : Via) (k : Kind) (a b : Val) : Option (Option Bool) :=
  match k, a, b with
  | .scalar, .int x, .int y =>
    match via with
    | .mac => some (some (eqPrim x y))          -- `CmpWrapper<$ty>::const_eq`
    | _ => none                                 -- there is no `eq_u8`, …
  | .nonzero, .int x, .int y => if via = .for_ then none else some (some (eqNonZero x y))
  | .ordering, .ord x, .ord y => if via = .for_ then none else some (some (eqOrdering x y))
  | .str, .bytes x, .bytes y => if via = .for_ then none else some (eqStr x y)
  | .slice, .bytes x, .bytes y =>
    match via with
    | .for_ => some (constEqForSlice (fun p q => some (eqPrim p q)) x y)
    | _ => some (eqSlice x y)
  | .sliceStr, .bytess x, .bytess y =>
    match via with
    | .for_ => some (constEqForSlice eqStr x y)
    | _ => some (eqSliceStr x y)
  | .sliceBytes, .bytess x, .bytess y =>
    match via with
    | .for_ => some (constEqForSlice eqSlice x y)
    | _ => some (eqSliceBytes x y)
  | .range, .range x, .range y =>
    match via with
    | .for_ => some (some (constEqForRange eqPrim x y))
    | _ => some (some (eqRange x y))
  | .rangeInc, .rangeInc x, .rangeInc y =>
    match via with
    | .for_ => some (some (constEqForRangeInc eqPrim x y))
    | _ => some (some (eqRangeInc x y))
  | _, _, _ => none

/-- the modelled ordering reached through `via` -/
def cmpModel (via : Via) (k : Kind) (a b : Val) : Option (Option Ordering) :=
  match k, a, b with
  | .scalar, .int x, .int y => if via = .for_ then none else some (some (cmpInt x y))
  | .nonzero, .int x, .int y => if via = .for_ then none else some (some (cmpNonZero x y))
  | .ordering, .ord x, .ord y => if via = .for_ then none else some (some (cmpOrdering x y))
  | .str, .bytes x, .bytes y => if via = .for_ then none else some (cmpStr x y)
  | .slice, .bytes x, .bytes y =>
    match via with
    | .for_ => some (constCmpForSlice (fun p q => some (cmpInt p q)) x y)
    | _ => some (cmpSlice x y)
  | .sliceStr, .bytess x, .bytess y =>
    match via with
    | .for_ => some (constCmpForSlice cmpStr x y)
    | _ => some (cmpSliceStr x y)
  | .sliceBytes, .bytess x, .bytess y =>
    match via with
    | .for_ => some (constCmpForSlice cmpSlice x y)
    | _ => some (cmpSliceBytes x y)
  | _, _, _ => none

/-- std `Ord::cmp` for a kind -/
def cmpSpec (k : Kind) (a b : Val) : Option Ordering :=
  match k, a, b with
  | .scalar, .int x, .int y | .nonzero, .int x, .int y => some (stdCmpScalar x y)
  | .ordering, .ord x, .ord y => some (stdCmpOrdering x y)
  | .str, .bytes x, .bytes y | .slice, .bytes x, .bytes y => some (lexCmp stdCmpScalar x y)
  | .sliceStr, .bytess x, .bytess y | .sliceBytes, .bytess x, .bytess y =>
    some (lexCmp (lexCmp stdCmpScalar) x y)
  | _, _, _ => none

/-- payload comparison of the `Option` functions / macro arms (`none` = panic): the named
    function's own expression (`l == r` for scalars), `CmpWrapper(l).const_eq(r)`, or the default
    `const_eq!` of `const_eq_for!` — all the same model function per kind. Values were parsed with
    kind `k`, so the constructors always match. -/
def payloadEq (k : Kind) (x y : Val) : Option Bool :=
  match k, x, y with
  | .scalar, .int p, .int q => some (decide (p = q))
  | _, _, _ => (eqModel .mac k x y).join

def payloadCmp (k : Kind) (x y : Val) : Option Ordering := (cmpModel .mac k x y).join

def parseVia (s : String) : Option Via :=
  if s = "fn" then some .fn else if s = "macro" || s = "macroarr" || s = "impl" then some .mac
  else if s = "for" || s = "forkey" || s = "forcl" || s = "forpath" || s = "forimpl" then some .for_
  else none

def revTok (s : String) : String :=
  if s = "lt" then "gt" else if s = "gt" then "lt" else if s = "eq" then "eq" else "?"

/-- same rendering as `laws_line` of harness/src/c16.rs: orderings of (a,b), (b,c), (a,c), (b,a) and
    whether totality / antisymmetry / transitivity hold on them -/
def lawsLine (ab bc ac ba : String) : String :=
  let isOrd := fun (s : String) => s = "lt" || s = "eq" || s = "gt"
  let total := isOrd ab && isOrd ba
  let antisym := revTok ab == ba
  let trans := !(ab == bc && ab != "eq") || ac == ab
  let transEq := !(ab == "eq") || ac == bc
  s!"{ab}|{bc}|{ac}|{ba}:" ++ (if total && antisym && trans && transEq then "ok" else "broken")

def handle (op : String) (args : List String) : Option (String × String) := do
  match args with
  | [ty, sa, sb, sc] =>
    if op ≠ "cmp.laws" then none else
    let k ← kindOf ty
    let a ← parseVal k sa
    let b ← parseVal k sb
    let c ← parseVal k sc
    let m := fun x y => (cmpModel .fn k x y).map showOO
    let s := fun x y => (cmpSpec k x y).map showOrd
    some (lawsLine (← m a b) (← m b c) (← m a c) (← m b a), lawsLine (← s a b) (← s b c) (← s a c) (← s b a))
  | [ty, sa, sb] =>
    let k ← kindOf ty
    match op.splitOn "." with
    | ["assertc", which] =>
      let a ← parseVal k sa
      let b ← parseVal k sb
      let e ← eqModel .mac k a b
      let isEq := stdEq a b
      if which = "eq" then
        some ((if assertcEq e = .ok then "ok" else "panic"), (if isEq then "ok" else "panic"))
      else if which = "ne" then
        some ((if assertcNe e = .ok then "ok" else "panic"), (if isEq then "panic" else "ok"))
      else none
    | [what, via] =>
      if via = "opt" || via = "optmacro" || via = "optfor" || via = "optforimpl" then
        let a ← parseOptVal k sa
        let b ← parseOptVal k sb
        if what = "eq" then
          let m := if via = "optfor" || via = "optforimpl" then constEqForOption (payloadEq k) a b else eqOption (payloadEq k) a b
          some (showOB m, showBool (stdEq a b))
        else if what = "cmp" then
          if k = .range || k = .rangeInc then none else
          let m := if via = "optfor" || via = "optforimpl" then constCmpForOption (payloadCmp k) a b else cmpOption (payloadCmp k) a b
          some (showOO m, showOrd (optCmp (fun x y => (cmpSpec k x y).getD .eq) a b))
        else none
      else
        let v ← parseVia via
        let a ← parseVal k sa
        let b ← parseVal k sb
        if what = "eq" then
          let m ← eqModel v k a b
          some (showOB m, showBool (stdEq a b))
        else if what = "cmp" then
          let m ← cmpModel v k a b
          let s ← cmpSpec k a b
          some (showOO m, showOrd s)
        else none
    | _ => none
  | _ => none

end Driver.C16
