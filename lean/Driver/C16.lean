import Driver.Util
import KonstVerif.Model.Cmp
import KonstVerif.Spec.Cmp
/-
  requests:  eq.<via> <ty> <a> <b>  |  cmp.<via> <ty> <a> <b>  |  assertc.eq <ty> <a> <b>  |  assertc.ne <ty> <a> <b>
    <via>  fn (named eq_*/cmp_* function), macro (const_eq!/const_cmp!),
           for | forkey | forcl | forpath (const_eq_for!/const_cmp_for! with the default / key /
           two-argument closure / path comparator), forimpl (slice of a user type declared with
           impl_cmp! whose const_eq/const_cmp delegate to u8's), impl (const_eq!/const_cmp! on that
           user type), macroarr (const_eq!/const_cmp! on arrays `[u8; N]`, all length pairs),
           opt (named eq_option_*/cmp_option_*), optmacro (const_eq!/const_cmp! on Options),
           optfor (const_eq_for!/const_cmp_for!(option; …)), optforimpl (the same on the user type)
    <ty>   u8 … i128 usize isize bool char | nzu8 … nzisize | ordering | str |
           slice_<scalar> | slice_str | slice_bytes | range_<scalar> | rangeinc_<scalar>
    values decimal integers (bool 0/1, char = scalar value), `lt|eq|gt`, strings/byte strings in
           hex (`-` empty), lists `[a;b;c]`, ranges `start|end`, inclusive ranges
           `start|end|<exhausted 0/1>`, Options `none` / `some:<v>`
  answer:  model<TAB>spec   with t/f, lt/eq/gt, ok/panic (`panic` also for a model-level panic)

  the macros as expressions of a program (generated programs, vlib/progs/c16.py):
    <eq|cmp>.<se|sb>.<via> <ty> <left stream> <right stream>   |   assertc.<se|sb>.<eq|ne> <ty> <left stream> <right stream>
           the argument expressions have side effects (`se`: a call advancing a cursor, `sb`: a block
           incrementing a counter); a stream `v0/v1/…` lists the values successive evaluations produce.
           <via> macro | optmacro | for | forkey | forcl | forpath | optfor | optforkey | optforcl | optforpath
           answer  <value>|<#evaluations of left>|<#evaluations of right>|<order, e.g. lr>   (model: `ArgUse` of
           the macro, the value of the macro on `ArgUse.operands`; spec: `ArgUse.once`, std on the first values)
    <eq|cmp>.at.<position>.<via> <ty> <a> <b> [<p1> <p2>]      |   assertc.at.stmt.<eq|ne> <ty> <a> <b>
           the macro call in a non-tail position; answer = the value of the surrounding function
           (`posOrd` / `posBool` / `posApply` below) applied to the model's / the spec's value of the macro
-/
namespace Driver.C16
open Konst.Cmp Konst.Spec.Cmp Driver

inductive Kind where
  | scalar | nonzero | ordering | str | slice | sliceStr | sliceBytes | range | rangeInc
deriving DecidableEq

inductive Val where
  | int (i : Int)
  | ord (o : Ordering)
  | bytes (l : List Int)
  | bytess (l : List (List Int))
  | range (r : RangeV)
  | rangeInc (r : RangeIncV)
deriving DecidableEq

def scalars : List String :=
  ["u8", "u16", "u32", "u64", "u128", "usize", "i8", "i16", "i32", "i64", "i128", "isize", "bool", "char"]

def kindOf (ty : String) : Option Kind :=
  if scalars.contains ty then some .scalar
  else if ty.startsWith "nz" && scalars.contains (ty.drop 2).toString then some .nonzero
  else if ty = "ordering" then some .ordering
  else if ty = "str" then some .str
  else if ty = "slice_str" then some .sliceStr
  else if ty = "slice_bytes" then some .sliceBytes
  else if ty.startsWith "slice_" && scalars.contains (ty.drop 6).toString then some .slice
  else if ty.startsWith "range_" && scalars.contains (ty.drop 6).toString then some .range
  else if ty.startsWith "rangeinc_" && scalars.contains (ty.drop 9).toString then some .rangeInc
  else none

def parseOrd (s : String) : Option Ordering :=
  if s = "lt" then some .lt else if s = "eq" then some .eq else if s = "gt" then some .gt else none

def parseList {α : Type} (f : String → Option α) (s : String) : Option (List α) :=
  if s.startsWith "[" && s.endsWith "]" then
    let inner := ((s.drop 1).dropEnd 1).toString
    if inner = "" then some [] else (inner.splitOn ";").mapM f
  else none

def parseBytes (s : String) : Option (List Int) := (parseHex s).map fun l => l.map Int.ofNat

def parseVal (k : Kind) (s : String) : Option Val :=
  match k with
  | .scalar | .nonzero => (parseInt s).map .int
  | .ordering => (parseOrd s).map .ord
  | .str => (parseBytes s).map .bytes
  | .slice => (parseList parseInt s).map .bytes
  | .sliceStr | .sliceBytes => (parseList parseBytes s).map .bytess
  | .range =>
    match s.splitOn "|" with
    | [a, b] => do some (.range (← parseInt a, ← parseInt b))
    | _ => none
  | .rangeInc =>
    match s.splitOn "|" with
    | [a, b, x] => do
      let e ← if x = "0" then some false else if x = "1" then some true else none
      some (.rangeInc (← parseInt a, ← parseInt b, e))
    | _ => none

def parseOptVal (k : Kind) (s : String) : Option (Option Val) :=
  if s = "none" then some none
  else if s.startsWith "some:" then (parseVal k (s.drop 5).toString).map some
  else none

def showOB : Option Bool → String
  | some b => showBool b
  | none => "panic"

def showOrd : Ordering → String
  | .lt => "lt"
  | .eq => "eq"
  | .gt => "gt"

def showOO : Option Ordering → String
  | some o => showOrd o
  | none => "panic"

inductive Via where
  | fn | mac | for_
deriving DecidableEq

/-- the modelled equality reached for a (non-Option) value of kind `k` through `via`;
    `none` = this combination does not exist in konst -/
def eqModel (via : Via) (k : Kind) (a b : Val) : Option (Option Bool) :=
  match k, a, b with
  | .scalar, .int x, .int y =>
    match via with
    | .mac => some (some (eqPrim x y))          -- `CmpWrapper<$ty>::const_eq`
    | _ => none                                 -- there is no `eq_u8`, …
  | .nonzero, .int x, .int y => if via = .for_ then none else some (some (eqNonZero x y))
  | .ordering, .ord x, .ord y => if via = .for_ then none else some (some (eqOrdering x y))
  | .str, .bytes x, .bytes y => if via = .for_ then none else some (eqStr x y)
  | .slice, .bytes x, .bytes y =>
    match via with
    | .for_ => some (constEqForSlice (fun p q => some (eqPrim p q)) x y)
    | _ => some (eqSlice x y)
  | .sliceStr, .bytess x, .bytess y =>
    match via with
    | .for_ => some (constEqForSlice eqStr x y)
    | _ => some (eqSliceStr x y)
  | .sliceBytes, .bytess x, .bytess y =>
    match via with
    | .for_ => some (constEqForSlice eqSlice x y)
    | _ => some (eqSliceBytes x y)
  | .range, .range x, .range y =>
    match via with
    | .for_ => some (some (constEqForRange eqPrim x y))
    | _ => some (some (eqRange x y))
  | .rangeInc, .rangeInc x, .rangeInc y =>
    match via with
    | .for_ => some (some (constEqForRangeInc eqPrim x y))
    | _ => some (some (eqRangeInc x y))
  | _, _, _ => none

/-- the modelled ordering reached through `via` -/
def cmpModel (via : Via) (k : Kind) (a b : Val) : Option (Option Ordering) :=
  match k, a, b with
  | .scalar, .int x, .int y => if via = .for_ then none else some (some (cmpInt x y))
  | .nonzero, .int x, .int y => if via = .for_ then none else some (some (cmpNonZero x y))
  | .ordering, .ord x, .ord y => if via = .for_ then none else some (some (cmpOrdering x y))
  | .str, .bytes x, .bytes y => if via = .for_ then none else some (cmpStr x y)
  | .slice, .bytes x, .bytes y =>
    match via with
    | .for_ => some (constCmpForSlice (fun p q => some (cmpInt p q)) x y)
    | _ => some (cmpSlice x y)
  | .sliceStr, .bytess x, .bytess y =>
    match via with
    | .for_ => some (constCmpForSlice cmpStr x y)
    | _ => some (cmpSliceStr x y)
  | .sliceBytes, .bytess x, .bytess y =>
    match via with
    | .for_ => some (constCmpForSlice cmpSlice x y)
    | _ => some (cmpSliceBytes x y)
  | _, _, _ => none

/-- std `Ord::cmp` for a kind -/
def cmpSpec (k : Kind) (a b : Val) : Option Ordering :=
  match k, a, b with
  | .scalar, .int x, .int y | .nonzero, .int x, .int y => some (stdCmpScalar x y)
  | .ordering, .ord x, .ord y => some (stdCmpOrdering x y)
  | .str, .bytes x, .bytes y | .slice, .bytes x, .bytes y => some (lexCmp stdCmpScalar x y)
  | .sliceStr, .bytess x, .bytess y | .sliceBytes, .bytess x, .bytess y =>
    some (lexCmp (lexCmp stdCmpScalar) x y)
  | _, _, _ => none

/-- payload comparison of the `Option` functions / macro arms (`none` = panic): the named
    function's own expression (`l == r` for scalars), `CmpWrapper(l).const_eq(r)`, or the default
    `const_eq!` of `const_eq_for!` — all the same model function per kind. Values were parsed with
    kind `k`, so the constructors always match. -/
def payloadEq (k : Kind) (x y : Val) : Option Bool :=
  match k, x, y with
  | .scalar, .int p, .int q => some (decide (p = q))
  | _, _, _ => (eqModel .mac k x y).join

def payloadCmp (k : Kind) (x y : Val) : Option Ordering := (cmpModel .mac k x y).join

def parseVia (s : String) : Option Via :=
  if s = "fn" then some .fn else if s = "macro" || s = "macroarr" || s = "impl" then some .mac
  else if s = "for" || s = "forkey" || s = "forcl" || s = "forpath" || s = "forimpl" then some .for_
  else none

def revTok (s : String) : String :=
  if s = "lt" then "gt" else if s = "gt" then "lt" else if s = "eq" then "eq" else "?"

/-- same rendering as `laws_line` of harness/src/c16.rs: orderings of (a,b), (b,c), (a,c), (b,a) and
    whether totality / antisymmetry / transitivity hold on them -/
def lawsLine (ab bc ac ba : String) : String :=
  let isOrd := fun (s : String) => s = "lt" || s = "eq" || s = "gt"
  let total := isOrd ab && isOrd ba
  let antisym := revTok ab == ba
  let trans := !(ab == bc && ab != "eq") || ac == ab
  let transEq := !(ab == "eq") || ac == bc
  s!"{ab}|{bc}|{ac}|{ba}:" ++ (if total && antisym && trans && transEq then "ok" else "broken")

/-- `const_eq_for!` / `const_cmp_for!(option; …)` with the default / key / two-argument closure /
    path comparator (all comparing the payloads like the payload type's own comparison), and on
    the user type -/
def isOptFor (via : String) : Bool :=
  via = "optfor" || via = "optforkey" || via = "optforcl" || via = "optforpath" || via = "optforimpl"

/-- requests on VALUES: `eq.<via>`, `cmp.<via>`, `assertc.eq|ne`, `cmp.laws` -/
def handleBase (op : String) (args : List String) : Option (String × String) := do
  match args with
  | [ty, sa, sb, sc] =>
    if op ≠ "cmp.laws" then none else
    let k ← kindOf ty
    let a ← parseVal k sa
    let b ← parseVal k sb
    let c ← parseVal k sc
    let m := fun x y => (cmpModel .fn k x y).map showOO
    let s := fun x y => (cmpSpec k x y).map showOrd
    some (lawsLine (← m a b) (← m b c) (← m a c) (← m b a), lawsLine (← s a b) (← s b c) (← s a c) (← s b a))
  | [ty, sa, sb] =>
    let k ← kindOf ty
    match op.splitOn "." with
    | ["assertc", which] =>
      let a ← parseVal k sa
      let b ← parseVal k sb
      let e ← eqModel .mac k a b
      let isEq := stdEq a b
      if which = "eq" then
        some ((if assertcEq e = .ok then "ok" else "panic"), (if isEq then "ok" else "panic"))
      else if which = "ne" then
        some ((if assertcNe e = .ok then "ok" else "panic"), (if isEq then "panic" else "ok"))
      else none
    | [what, via] =>
      if via = "opt" || via = "optmacro" || isOptFor via then
        let a ← parseOptVal k sa
        let b ← parseOptVal k sb
        if what = "eq" then
          let m := if isOptFor via then constEqForOption (payloadEq k) a b else eqOption (payloadEq k) a b
          some (showOB m, showBool (stdEq a b))
        else if what = "cmp" then
          if k = .range || k = .rangeInc then none else
          let m := if isOptFor via then constCmpForOption (payloadCmp k) a b else cmpOption (payloadCmp k) a b
          some (showOO m, showOrd (optCmp (fun x y => (cmpSpec k x y).getD .eq) a b))
        else none
      else
        let v ← parseVia via
        let a ← parseVal k sa
        let b ← parseVal k sb
        if what = "eq" then
          let m ← eqModel v k a b
          some (showOB m, showBool (stdEq a b))
        else if what = "cmp" then
          let m ← cmpModel v k a b
          let s ← cmpSpec k a b
          some (showOO m, showOrd s)
        else none
    | _ => none
  | _ => none

/-! ### the macros as expressions of a program (generated programs, vlib/progs/c16.py) -/

/-- which expansion a `<what>.<via>` names (`none`: not a macro) -/
def argUseOf (what via : String) : Option ArgUse :=
  if what = "assertc" then (if via = "eq" || via = "ne" then some cmpAssertArgs else none)
  else
    let plain := via = "macro" || via = "optmacro"
    let for_ := via = "for" || via = "forkey" || via = "forcl" || via = "forpath" ||
      via = "optfor" || via = "optforkey" || via = "optforcl" || via = "optforpath"
    if what = "eq" then (if plain then some constEqArgs else if for_ then some constEqForArgs else none)
    else if what = "cmp" then (if plain then some constCmpArgs else if for_ then some constCmpForArgs else none)
    else none

/-- `v0/v1/…`: the values successive evaluations of an argument expression produce -/
def parseStream (s : String) : Option (ArgExpr String) :=
  match s.splitOn "/" with
  | x :: xs => if (x :: xs).any (· = "") then none else some ⟨x, xs⟩
  | [] => none

def showEvals (l : List Arg) : String :=
  String.ofList (l.map fun a => if a = .left then 'l' else 'r')

def showUse (u : ArgUse) : String :=
  s!"{u.count .left}|{u.count .right}|{showEvals u.evals}"

/-- `<what>.<se|sb>.<via> <ty> <left stream> <right stream>`: the value of the macro on the operands its
    expansion reads, the number of evaluations of each argument expression and their order; the
    std side evaluates `left` then `right` once each and compares those two values -/
def handleStreams (what via : String) (args : List String) : Option (String × String) := do
  match args with
  | [ty, sl, sr] =>
    let u ← argUseOf what via
    let l ← parseStream sl
    let r ← parseStream sr
    let (a, b) := u.operands l r
    let (m, _) ← handleBase s!"{what}.{via}" [ty, a, b]
    let (a0, b0) := ArgUse.once.operands l r
    let (_, s) ← handleBase s!"{what}.{via}" [ty, a0, b0]
    some (m ++ "|" ++ showUse u, s ++ "|" ++ showUse .once)
  | _ => none

def parseBoolTok (s : String) : Option Bool :=
  if s = "t" then some true else if s = "f" then some false else none

/-- the rest of the generated function around an `Ordering`-valued macro call (`o` its value, `os`
    its value on the swapped arguments, `key` the second key) -/
def posOrd (pos : String) (o os : Ordering) (key : Option (Int × Int)) : Option String :=
  if pos = "tail" then some (showOrd o)                                         -- the macro call is the function's tail
  else if pos = "rev" || pos = "constrev" then some (showOrd o.swap)           -- `.reverse()`
  else if pos = "islt" || pos = "eqlt" then some (showBool (o = .lt))           -- `matches!(.., Less)`, `== Less`
  else if pos = "ifv" then some (if o = .lt then "11" else "10")                -- `if let Less = .. { n += 1 }`
  else if pos = "match" then some (match o with | .lt => "-1" | .eq => "0" | .gt => "1")
  else if pos = "loop" then some (if o = .lt then "30" else "3")               -- three rounds of `if let Less = .. { n += 10; continue } n += 1`
  else if pos = "let2" then some (showOrd o ++ "|" ++ showOrd os)
  else if pos = "closure" then some (showOrd o)
  else if pos = "key2" then                                                     -- a second key with priority
    match key with
    | some (p1, p2) => some (showOrd (if p1 ≠ p2 then (if p1 < p2 then .lt else .gt) else o))
    | none => none
  else none

/-- the same for a `bool`-valued macro call -/
def posBool (pos : String) (e es : Bool) (key : Option (Int × Int)) : Option String :=
  if pos = "not" || pos = "constnot" then some (showBool (!e))
  else if pos = "ifv" then some (if e then "11" else "10")
  else if pos = "match" then some (if e then "1" else "0")
  else if pos = "loop" then some (if e then "30" else "3")
  else if pos = "let2" then some (showBool e ++ "|" ++ showBool es)
  else if pos = "closure" then some (showBool e)
  else if pos = "key2" then
    match key with
    | some (p1, p2) => some (showBool (!(e && decide (p1 = p2))))
    | none => none
  else none

/-- post-processing of the tokens of the macro's value (`x`) and of its value on the swapped
    arguments (`xs`); a panic of the macro is a panic of the whole function -/
def posApply (what pos x xs : String) (key : Option (Int × Int)) : Option String :=
  if x = "panic" || (pos = "let2" && xs = "panic") then some "panic"
  else if what = "cmp" then do posOrd pos (← parseOrd x) (← parseOrd xs) key
  else if what = "eq" then do posBool pos (← parseBoolTok x) (← parseBoolTok xs) key
  else if what = "assertc" then
    if pos = "stmt" then (if x = "ok" then some "7" else none) else none      -- `{ assertc_*!(l, r); 7 }`
  else none

/-- `<what>.at.<position>.<via> <ty> <a> <b> [<p1> <p2>]` -/
def handleAt (what pos via : String) (args : List String) : Option (String × String) := do
  let (ty, a, b, key) ← match args with
    | [ty, a, b] => some (ty, a, b, none)
    | [ty, a, b, p1, p2] => do some (ty, a, b, some (← parseInt p1, ← parseInt p2))
    | _ => none
  -- `fortry`: a comparator closure built from `try_equal!` over (high nibble, low nibble) — the order of the bytes,
  -- i.e. the value of the `forcl` form
  let via := if via = "fortry" then "forcl" else via
  if (pos = "key2") ≠ key.isSome then none else
  if (argUseOf what via).isNone then none else
  let (m, s) ← handleBase s!"{what}.{via}" [ty, a, b]
  let (ms, ss) ← handleBase s!"{what}.{via}" [ty, b, a]
  some (← posApply what pos m ms key, ← posApply what pos s ss key)

def handle (op : String) (args : List String) : Option (String × String) :=
  match op.splitOn "." with
  | [what, shape, via] =>
    if shape = "se" || shape = "sb" then handleStreams what via args else handleBase op args
  | [what, "at", pos, via] => handleAt what pos via args
  | _ => handleBase op args

end Driver.C16
