import Driver.Util
import KonstVerif.Model.Split
import KonstVerif.Spec.Split
/-
  requests:  sp.<it> <kind> <hayhex> <delimhex> [<hist>]
               it   = split | rsplit | split_terminator | rsplit_terminator | split.rev | rsplit.rev
               kind = str | char   (how the harness passes the delimiter to konst; the model and the
                                    spec work on its bytes)
             without <hist>: iterate `next` to exhaustion
                 -> [<piece-view>|<remainder-view>;…;none]          (or `panic` / `fuel`)
             with <hist> over {f,b} (split, rsplit, split.rev, rsplit.rev only): one entry per step
                 -> [<piece-view or none>|<remainder-view>;…]
  answer:    model<TAB>spec      spec = `?` for histories whose delimiter can overlap itself or is
                                 empty (std has no double-ended split for those; see Props/C06.lean)
-/
namespace Driver.C06
open Konst Konst.Split Konst.Spec.Split Driver

def showStr (x : Str) : String := showView false x.view
def showP (x : PStr) : String := showView false ⟨x.1, x.2.length⟩

def showRun : Run → String
  | .done l => showList (l.map (fun p => showStr p.1 ++ "|" ++ showStr p.2) ++ ["none"])
  | .panic => "panic"
  | .fuel => "fuel"

def showSteps (l : List (PStr × PStr)) : String :=
  showList (l.map (fun p => showP p.1 ++ "|" ++ showP p.2) ++ ["none"])

def showHist (l : List Obs) : String :=
  if l.any (fun o => match o with | .panic => true | _ => false) then "panic" else
  showList (l.map fun o => match o with
    | .item p r => showStr p ++ "|" ++ showStr r
    | .none r => "none|" ++ showStr r
    | .panic => "panic")

def showHistSpec (l : List (Option PStr × PStr)) : String :=
  showList (l.map fun p => (match p.1 with | some x => showP x | none => "none") ++ "|" ++ showP p.2)

def flip : Dir → Dir
  | .f => .b
  | .b => .f

def handle (it : String) (args : List String) : Option (String × String) := do
  match args with
  | [kind, hh, dh] =>
    if kind ≠ "str" ∧ kind ≠ "char" then none
    let s ← parseHex hh
    let d ← parseHex dh
    let n := s.length + 3
    let dl := d.length
    match it with
    | "split" =>
      some (showRun (collect Iter.next Iter.remainder n (split s d)), showSteps (stepsFwd dl 0 s (splitSpec s d)))
    | "rsplit" =>
      some (showRun (collect Iter.next Iter.remainder n (rsplit s d)), showSteps (stepsBwd dl 0 s (rsplitSpec s d)))
    | "split.rev" =>
      some (showRun (collect Iter.next Iter.remainder n (split s d).rev), showSteps (stepsBwd dl 0 s (rsplitSpec s d)))
    | "rsplit.rev" =>
      some (showRun (collect Iter.next Iter.remainder n (rsplit s d).rev), showSteps (stepsFwd dl 0 s (splitSpec s d)))
    | "split_terminator" =>
      some (showRun (collect TIter.next TIter.remainder n (splitTerminator s d)),
            showSteps (stepsFwd dl 0 s (splitTerminatorSpec s d)))
    | "rsplit_terminator" =>
      some (showRun (collect TIter.rnext TIter.remainder n (rsplitTerminator s d)),
            showSteps (stepsBwd dl 0 s (rsplitTerminatorSpec s d)))
    | _ => none
  | [kind, hh, dh, hist] =>
    if kind ≠ "str" ∧ kind ≠ "char" then none
    let s ← parseHex hh
    let d ← parseHex dh
    let h ← parseHist hist
    let dl := d.length
    let start ← match it with
      | "split" => some (split s d, true)
      | "rsplit" => some (rsplit s d, false)
      | "split.rev" => some ((split s d).rev, false)
      | "rsplit.rev" => some ((rsplit s d).rev, true)
      | _ => none
    let m := showHist (runHist start.1 h)
    let sp := if d.isEmpty || hasBorder d then "?"
      else showHistSpec (histSpec dl 0 s (splitSpec s d) (if start.2 then h else h.map flip))
    some (m, sp)
  | _ => none

end Driver.C06
