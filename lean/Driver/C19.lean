import Driver.Util
import KonstVerif.Model.OptRes
import KonstVerif.Spec.OptRes
import KonstVerif.Model.OptResEval
import KonstVerif.Spec.OptResEval
/-
  C19 requests (printed by the generated Rust programs of vlib/progs/c19.py):
    opt.<macro> <none|some:v|some:none|some:some:v> <form> [<extra>]  -> <value>|calls:<n>
    res.<macro> <ok:v|err:e> <form>                                    -> <value>|calls:<n>
    try.<macro> <value> <form>                                         -> ret:<residual>|calls:<n> / val:<v>|calls:<n>
    rebind.<macro> <ok:v1,..,vn | err:e:n> <[b:]kinds | ->             -> accept:<flow>:<slot;..> / reject
    rebind.<macro> <ok:v1,..,vn | err:e:n> o:<place>,..                -> accept:<flow>:<xs>;<tp>;<arr>;<lets|-> / reject
    mm.<macro> <form> <akey>:<aid> <bkey>:<bid>                        -> id of the returned argument
  answer: model<TAB>spec.  The closure library below is the one of the generated programs' prelude.
-/
namespace Driver.C19
open Konst Driver
open Konst.OptRes (Ev)

def owns (op : String) : Bool :=
  op.startsWith "opt." || op.startsWith "res." || op.startsWith "try." || op.startsWith "rebind." ||
  op.startsWith "mm." || op.startsWith "ev." || op.startsWith "evo." || op.startsWith "hy."

/-! closure library (same as PRELUDE in vlib/progs/c19.py) -/
def fb0 : Unit → Int := fun _ => 7
def fbe0 : Unit → Int := fun _ => 77
def fbs0 : Unit → Option Int := fun _ => some 7
def fbn0 : Unit → Option Int := fun _ => none
def m1 (x : Int) : Int := x * 3 + 1
def at1 (x : Int) : Option Int := if x ≥ 0 then some (x + 1) else none
def pred (x : Int) : Bool := decide (x > 0)
def e1 (e : Int) : Int := e * 2 + 1
def rat1 (x : Int) : Except Int Int := if x ≥ 0 then .ok (x + 1) else .error (x - 1)
def roe1 (e : Int) : Except Int Int := if e ≥ 0 then .ok (e + 2) else .error (e - 2)

/-! rendering -/
def fi (x : Int) : String := toString x
def fo : Option Int → String
  | none => "none"
  | some x => s!"some:{x}"
def fr : Except Int Int → String
  | .ok x => s!"ok:{x}"
  | .error e => s!"err:{e}"
def wc (v : String) (n : Nat) : String := s!"{v}|calls:{n}"
def wcp {α : Type} (f : α → String) (p : α × Nat) : String := wc (f p.1) p.2

/-! parsing -/
def parseOpt (s : String) : Option (Option Int) :=
  if s = "none" then some none
  else if s.startsWith "some:" then (parseInt (s.drop 5).toString).map some
  else none

def parseOptOpt (s : String) : Option (Option (Option Int)) :=
  if s = "none" then some none
  else if s.startsWith "some:" then (parseOpt (s.drop 5).toString).map some
  else none

def parseRes (s : String) : Option (Except Int Int) :=
  if s.startsWith "ok:" then (parseInt (s.drop 3).toString).map .ok
  else if s.startsWith "err:" then (parseInt (s.drop 4).toString).map .error
  else none

/-! ## opt. -/
def handleOpt (mac : String) (args : List String) : Option (String × String) :=
  match mac, args with
  | "flatten", [v, "m"] => do
    let o ← parseOptOpt v
    some (wc (fo (OptRes.optFlatten o)) 0, wc (fo (Spec.OptRes.optFlatten o)) 0)
  | _, v :: rest => do
    let o ← parseOpt v
    match mac, rest with
    | "unwrap", ["m"] =>
      some (wc (match OptRes.optUnwrap o with | .val x => fi x | .panic => "panic") 0,
            wc (match Spec.OptRes.optUnwrap o with | some x => fi x | none => "panic") 0)
    | "unwrap_or", ["val"] =>
      -- the argument expression `fb0()` is evaluated (one call) before std's method runs
      some (wcp fi (OptRes.optUnwrapOr o (Ev.call fb0 ())).run, wc (fi (Spec.OptRes.optUnwrapOr o (fb0 ()))) 1)
    | "unwrap_or_else", [form] =>
      if form ∈ ["cl", "fn", "var"] then
        some (wcp fi (OptRes.optUnwrapOrElse o fb0).run, wcp fi (Spec.OptRes.optUnwrapOrElse o fb0))
      else none
    | "ok_or", ["val"] =>
      some (wcp fr (OptRes.optOkOr o (Ev.call fbe0 ())).run, wc (fr (Spec.OptRes.optOkOr o (fbe0 ()))) 1)
    | "ok_or_else", [form] =>
      if form ∈ ["cl", "fn", "var"] then
        some (wcp fr (OptRes.optOkOrElse o fbe0).run, wcp fr (Spec.OptRes.optOkOrElse o fbe0))
      else none
    | "map", [form] =>
      if form ∈ ["cl", "fn", "var"] then
        some (wcp fo (OptRes.optMap o m1).run, wcp fo (Spec.OptRes.optMap o m1))
      else none
    | "and_then", [form] =>
      if form ∈ ["cl", "fn"] then
        some (wcp fo (OptRes.optAndThen o at1).run, wcp fo (Spec.OptRes.optAndThen o at1))
      else none
    | "or_else", [form, ex] =>
      if form ∈ ["cl", "fn"] then do
        let f ← if ex = "s" then some fbs0 else if ex = "n" then some fbn0 else none
        some (wcp fo (OptRes.optOrElse o f).run, wcp fo (Spec.OptRes.optOrElse o f))
      else none
    | "filter", [form] =>
      if form ∈ ["cl", "clref", "fn"] then
        some (wcp fo (OptRes.optFilter o pred).run, wcp fo (Spec.OptRes.optFilter o pred))
      else none
    | "copied", ["fn"] =>
      some (wc (fo (OptRes.optCopied o)) 0, wc (fo (Spec.OptRes.optCopied o)) 0)
    | _, _ => none
  | _, _ => none

/-! ## res. -/
def handleRes (mac : String) (args : List String) : Option (String × String) :=
  match args with
  | [v, form] => do
    let r ← parseRes v
    let clfn := form ∈ ["cl", "fn"]
    match mac with
    | "unwrap_or" =>
      if form = "val" then
        some (wcp fi (OptRes.resUnwrapOr r (Ev.call fb0 ())).run, wc (fi (Spec.OptRes.resUnwrapOr r (fb0 ()))) 1)
      else none
    | "unwrap_or_else" =>
      if form ∈ ["cl", "fn", "var"] then
        some (wcp fi (OptRes.resUnwrapOrElse r e1).run, wcp fi (Spec.OptRes.resUnwrapOrElse r e1))
      else none
    | "unwrap_err_or_else" =>
      if clfn then some (wcp fi (OptRes.resUnwrapErrOrElse r e1).run, wcp fi (Spec.OptRes.resUnwrapErrOrElse r e1))
      else none
    | "ok" => if form = "m" then some (wc (fo (OptRes.resOk r)) 0, wc (fo (Spec.OptRes.resOk r)) 0) else none
    | "err" => if form = "m" then some (wc (fo (OptRes.resErr r)) 0, wc (fo (Spec.OptRes.resErr r)) 0) else none
    | "map" =>
      if clfn then some (wcp fr (OptRes.resMap r m1).run, wcp fr (Spec.OptRes.resMap r m1)) else none
    | "map_err" =>
      if clfn then some (wcp fr (OptRes.resMapErr r e1).run, wcp fr (Spec.OptRes.resMapErr r e1)) else none
    | "and_then" =>
      if clfn then some (wcp fr (OptRes.resAndThen r rat1).run, wcp fr (Spec.OptRes.resAndThen r rat1)) else none
    | "or_else" =>
      if clfn then some (wcp fr (OptRes.resOrElse r roe1).run, wcp fr (Spec.OptRes.resOrElse r roe1)) else none
    | _ => none
  | _ => none

/-! ## try. — the rest of the enclosing function is `Ok(v)` / `Some(v)` -/
def showFlowRes : OptRes.Flow (Except Int Int) Int → String
  | .ret r => "ret:" ++ fr r
  | .value v => s!"val:{v}"

def showRetRes : Except Int Int → String
  | .ok v => s!"val:{v}"
  | .error e => s!"ret:err:{e}"

def handleTry (mac : String) (args : List String) : Option (String × String) :=
  match mac, args with
  | "try_", [v, form] => do
    let r ← parseRes v
    let k : Int → Except Int Int := fun v => .ok v
    match form with
    | "plain" => some (wc (showFlowRes (OptRes.try_ r)) 0, wc (showRetRes (Spec.OptRes.questionRes r k)) 0)
    | "me" => some (wcp showFlowRes (OptRes.tryMapErr r e1).run, wcp showRetRes (Spec.OptRes.questionMapErr r e1 k))
    | "me0" =>
      let c : Int → Int := fun _ => 77
      some (wcp showFlowRes (OptRes.tryMapErr r c).run, wcp showRetRes (Spec.OptRes.questionMapErr r c k))
    | _ => none
  | "try_opt", [v, "plain"] => do
    let o ← parseOpt v
    let m : String := match (OptRes.tryOpt o : OptRes.Flow (Option Int) Int) with
      | .ret r => "ret:" ++ fo r
      | .value v => s!"val:{v}"
    let s : String := match Spec.OptRes.questionOpt o (fun v => some v) with
      | some v => s!"val:{v}"
      | none => "ret:none"
    some (wc m 0, wc s 0)
  | _, _ => none

/-! ## rebind. -/
def parseKind (s : String) : Option OptRes.PatKind :=
  match s with
  | "p" => some .place
  | "e" => some .exprPlace
  | "l" => some .letP
  | "t" => some .typedLet
  | "w" => some .wild
  | "u" => some .typedWild
  | "q" => some .typedPlace
  | _ => none

/-- `[b:]k1,k2,..[,]` (a trailing comma is the user's trailing comma, absorbed by `$(, $($rem:tt)*)?`);
    `-` is the empty list `()` -/
def parseKinds (s : String) : Option OptRes.UserPat :=
  if s = "-" then some ⟨false, []⟩ else
  let bare := s.startsWith "b:"
  let body := if bare then (s.drop 2).toString else s
  let parts := body.splitOn ","
  let parts := if parts.getLast? = some "" then parts.dropLast else parts
  (parts.mapM parseKind).map fun ks => ⟨bare, ks⟩

/-- `ok:v1,..,vn` / `err:e:n` -/
def parsePayload (s : String) : Option (Except Int (List Int) × Nat) :=
  if s.startsWith "ok:" then
    (((s.drop 3).toString.splitOn ",").mapM parseInt).map fun vs => (.ok vs, vs.length)
  else if s.startsWith "err:" then
    match (s.drop 4).toString.splitOn ":" with
    | [e, n] => do
      let e ← parseInt e
      let n ← parseNat n
      some (.error e, n)
    | _ => none
  else none

def showVal : OptRes.Val → String
  | .scalar v => toString v
  | .tuple vs => "(" ++ ",".intercalate (vs.map toString) ++ ")"

def isPlace (k : OptRes.PatKind) : Bool := k == .place || k == .typedPlace || k == .exprPlace
def isLet (k : OptRes.PatKind) : Bool := k == .letP || k == .typedLet

/-- the generated program's initial value of the place at pattern position `j` -/
def initVal (slotArity j : Nat) : OptRes.Val :=
  let v : Int := -(100 + (j : Int))
  if slotArity = 1 then .scalar v else .tuple (List.replicate slotArity v)

/-- one slot per pattern position: places show their final value, `let` bindings their value when
    the code after the walker runs and can see them, wildcards `_` -/
def showSlots (u : OptRes.UserPat) (n : Nat) (letsVisible : Bool) (ws : List (OptRes.Lhs × OptRes.Val)) : String :=
  let slotArity := if u.pats.length = 1 then n else 1
  let slots := u.pats.zipIdx.map fun (k, j) =>
    -- the last write to position j wins
    let w := (ws.filter fun (l, _) => l.pos = j).getLast?.map (·.2)
    if isPlace k then showVal (w.getD (initVal slotArity j))
    else if isLet k then (if letsVisible then (w.map showVal).getD "-" else "-")
    else "_"
  ";".intercalate slots

def showRebind (u : OptRes.UserPat) (n : Nat) (hasCode : Bool) : OptRes.RebindOut → String
  | .reject => "reject"
  | .ret e => s!"accept:ret:{e}:" ++ showSlots u n false []
  | .skip => "accept:skip:" ++ showSlots u n false []
  | .ok ws => "accept:ok:" ++ showSlots u n hasCode ws

/-! ### order-observing rebind requests (`o:<place>,<place>,..`)

  The generated program's test bench is a small store: `x0 x1 x2 : i64`, `tp : (i64, i64)`,
  `arr : [i64; 8]`; `ix(v) = v.rem_euclid(8)`.  One descriptor per listed pattern:
    xN  place `xN`                 aN  place `arr[ix(xN)]`      (xN as bound where the statement runs)
    t0/t1  place `tp.0` / `tp.1`   at  place `arr[ix(tp.0)]`
    lN  `let xN`                   LN  `let xN: i64`            (shadows the outer xN from there on)
    w   `_`
  The ordered write list of the model (`RebindOut.ok ws`) is run on the store with `runWrites`;
  the oracle side is `Spec.OptRes.assignSeq` (`p0 = t.0; p1 = t.1; …`). -/
inductive PlaceD where
  | x (n : Nat) | a (n : Nat) | t (n : Nat) | at | l (n : Nat) | tl (n : Nat) | w
deriving Repr, DecidableEq

structure Store where
  xs : List Int             -- x0 x1 x2 (outer variables)
  lets : List (Option Int)  -- `let xN` bindings made by the walker (shadow the outer xN)
  tp : Int × Int
  arr : List Int
deriving Repr

/-- initial values of the generated programs (vlib/progs/c19.py, `ORDER_DECL`) -/
def store0 : Store :=
  ⟨[96, 101, 104], [none, none, none], (109, 110), [-200, -201, -202, -203, -204, -205, -206, -207]⟩

def parsePlaceD (s : String) : Option PlaceD :=
  let var (c : Char) : Option Nat := if c = '0' then some 0 else if c = '1' then some 1 else if c = '2' then some 2 else none
  match s.toList with
  | ['w'] => some .w
  | ['a', 't'] => some .at
  | ['x', c] => (var c).map .x
  | ['a', c] => (var c).map .a
  | ['l', c] => (var c).map .l
  | ['L', c] => (var c).map .tl
  | ['t', '0'] => some (.t 0)
  | ['t', '1'] => some (.t 1)
  | _ => none

/-- the `__priv_assign_tuple` arm a descriptor's tokens take -/
def PlaceD.kind : PlaceD → OptRes.PatKind
  | .x _ => .place          -- one identifier: `$e:tt`
  | .a _ | .t _ | .at => .exprPlace   -- several token trees: `$e:expr`
  | .l _ => .letP
  | .tl _ => .typedLet
  | .w => .wild

def ix (v : Int) : Nat := (v % 8).toNat

/-- the value `xN` denotes where a statement runs: the walker's `let xN` if there is one already -/
def Store.readVar (s : Store) (n : Nat) : Int := (s.lets.getD n none).getD (s.xs.getD n 0)

/-- `<place> = v;` / `let xN = v;` / `let _ = v;` on the store (the place expression is evaluated in `s`) -/
def Store.assign (s : Store) (d : PlaceD) (v : Int) : Store :=
  match d with
  | .x n => { s with xs := s.xs.set n v }
  | .a n => { s with arr := s.arr.set (ix (s.readVar n)) v }
  | .t 0 => { s with tp := (v, s.tp.2) }
  | .t _ => { s with tp := (s.tp.1, v) }
  | .at => { s with arr := s.arr.set (ix s.tp.1) v }
  | .l n | .tl n => { s with lets := s.lets.set n (some v) }
  | .w => s

/-- resolution of the `pos`-th listed pattern; `none` = something the bench cannot express
    (a whole-tuple value in a scalar cell) -/
def writeD (ds : List PlaceD) (s : Option Store) (l : OptRes.Lhs) (v : OptRes.Val) : Option Store :=
  match s, ds[l.pos]?, v with
  | some s, some d, .scalar v => some (s.assign d v)
  | _, _, _ => none

def showInts (l : List Int) : String := ",".intercalate (l.map toString)

/-- `<x0>,<x1>,<x2>;<tp.0>,<tp.1>;<arr>;<let values, by listed position | ->` -/
def showStore (ds : List PlaceD) (letsVisible : Bool) (s : Store) : String :=
  let lets := ds.filterMap fun d => match d with
    | .l n | .tl n => some (toString ((s.lets.getD n none).getD 0))
    | _ => none
  let ls := if letsVisible && !lets.isEmpty then ",".intercalate lets else "-"
  showInts s.xs ++ ";" ++ showInts [s.tp.1, s.tp.2] ++ ";" ++ showInts s.arr ++ ";" ++ ls

def showRebindOrder (ds : List PlaceD) (hasCode : Bool) : OptRes.RebindOut → String
  | .reject => "reject"
  | .ret e => s!"accept:ret:{e}:" ++ showStore ds false store0
  | .skip => "accept:skip:" ++ showStore ds false store0
  | .ok ws =>
    match OptRes.runWrites (writeD ds) (some store0) ws with
    | some s => "accept:ok:" ++ showStore ds hasCode s
    | none => "unsupported"

/-- a variable is either assigned as a place (`xN`) or `let`-bound by the walker, not both (the
    binding is immutable); 2..=6 patterns -/
def orderWellFormed (ds : List PlaceD) : Bool :=
  decide (2 ≤ ds.length ∧ ds.length ≤ 6) &&
  [0, 1, 2].all fun n => !(ds.contains (.x n) && (ds.contains (.l n) || ds.contains (.tl n)))

def handleRebindOrder (isTry hasCode : Bool) (r : Except Int (List Int)) (n : Nat) (body : String) :
    Option (String × String) := do
  let ds ← (body.splitOn ",").mapM parsePlaceD
  if !orderWellFormed ds then none else
  let u : OptRes.UserPat := ⟨false, ds.map PlaceD.kind⟩
  let out := if isTry then OptRes.tryRebind u n false r else OptRes.rebindIfOk u n false r
  let model := showRebindOrder ds hasCode out
  let spec :=
    if ds.length = n then
      match r with
      | .error e => showRebindOrder ds hasCode (if isTry then .ret e else .skip)
      | .ok vs =>
        let targets : List OptRes.Lhs := u.pats.zipIdx.map fun (kd, j) => ⟨j, kd⟩
        match Spec.OptRes.assignSeq (writeD ds) OptRes.payloadVal OptRes.Val.scalar (some store0) targets vs with
        | some s => "accept:ok:" ++ showStore ds hasCode s
        | none => "unsupported"
    else "?"
  some (model, spec)

def handleRebind (mac : String) (args : List String) : Option (String × String) :=
  match args with
  | [pl, ks] => do
    let (r, n) ← parsePayload pl
    if ks.startsWith "o:" then
      let (isTry, hasCode) ← match mac with
        | "try_rebind" => some (true, true)
        | "rebind_if_ok" => some (false, true)
        | "rebind_if_ok_nc" => some (false, false)
        | _ => none
      handleRebindOrder isTry hasCode r n (ks.drop 2).toString
    else
    let u ← parseKinds ks
    let k := u.pats.length
    -- the generator annotates typed patterns with the slot type: the payload type iff there is a
    -- single pattern (or the payload is a scalar anyway)
    let annot := k == 1 || n == 1
    let (isTry, hasCode) ← match mac with
      | "try_rebind" => some (true, true)
      | "rebind_if_ok" => some (false, true)
      | "rebind_if_ok_nc" => some (false, false)
      | _ => none
    let out := if isTry then OptRes.tryRebind u n annot r else OptRes.rebindIfOk u n annot r
    let model := showRebind u n hasCode out
    -- oracle side: `let <tuple pattern> = r?;` / `if let Ok(<tuple pattern>) = r` + plain assignments
    let spec :=
      if 1 ≤ k ∧ k ≤ 6 ∧ (k = n ∨ k = 1) then
        match r with
        | .error e => showRebind u n hasCode (if isTry then .ret e else .skip)
        | .ok vs =>
          let targets : List OptRes.Lhs := u.pats.zipIdx.map fun (kd, j) => ⟨j, kd⟩
          showRebind u n hasCode (.ok (Spec.OptRes.destructure OptRes.payloadVal OptRes.Val.scalar targets vs))
      else "?"
    some (model, spec)
  | _ => none

/-! ## mm. -/
def parseKeyed (s : String) : Option (Int × Nat) :=
  match s.splitOn ":" with
  | [k, i] => do
    let k ← parseInt k
    let i ← parseNat i
    some (k, i)
  | _ => none

def handleMm (mac : String) (args : List String) : Option (String × String) :=
  -- `mm.order.*` (order of evaluation of the argument expressions) is not modelled: the model is silent
  if mac.startsWith "order." then some ("?", "?") else
  -- `mm.evals.*`: the macros bind both argument expressions once (`match ($left, $right) { (left, right) => .. }`),
  -- so each is evaluated exactly once, as the arguments of std's functions are
  if mac.startsWith "evals." then some ("ab", "ab") else
  match args with
  | [form, a, b] => do
    let a ← parseKeyed a
    let b ← parseKeyed b
    let cmpV : (Int × Nat) → (Int × Nat) → Ordering := fun x y => compare x.1 y.1
    let key : (Int × Nat) → Int := fun x => x.1
    let cmpK : Int → Int → Ordering := compare
    let byForms := ["cl", "clt", "clp", "clr", "fn"]
    let r : Option ((Int × Nat) × (Int × Nat)) :=
      match mac with
      | "min" => if form = "cc" then some (OptRes.minBy cmpV a b, Spec.OptRes.min cmpV a b) else none
      | "max" => if form = "cc" then some (OptRes.maxBy cmpV a b, Spec.OptRes.max cmpV a b) else none
      | "min_by" => if form ∈ byForms then some (OptRes.minBy cmpV a b, Spec.OptRes.minBy cmpV a b) else none
      | "max_by" => if form ∈ byForms then some (OptRes.maxBy cmpV a b, Spec.OptRes.maxBy cmpV a b) else none
      | "min_by_key" =>
        if form ∈ byForms then some (OptRes.minByKey key cmpK a b, Spec.OptRes.minByKey key cmpK a b) else none
      | "max_by_key" =>
        if form ∈ byForms then some (OptRes.maxByKey key cmpK a b, Spec.OptRes.maxByKey key cmpK a b) else none
      | _ => none
    r.map fun (m, s) => (toString m.2, toString s.2)
  | _ => none

/-! ## ev. / evo. — argument expressions with side effects (vlib/progs/c19_hyg.py)

  `ev.<fam>.<macro>.<form>.<shape> <stream1> [<stream2>]` -> `<value>|o<k>d<k>c<k>n<k>` (min/max: `<id>|a<k>b<k>`)
  `evo.<same>`                                            -> the event log (order), `-` when empty
  Streams are `/`-separated values; the k-th evaluation of an argument expression yields the k-th value.
  Events: o d (the two argument expressions), c (closure body / function called), f (a function-valued argument
  expression evaluated), a b (min/max arguments), k q (key function applied to an argument with an odd / even id). -/
section Ev
open Konst.Trace
open Konst.OptRes (Eval.optUnwrapOr)

def splitStream (s : String) : List String := s.splitOn "/"

def parsePair (s : String) : Option (Except Int (List Int)) :=
  if s.startsWith "ok:" then (((s.drop 3).toString.splitOn ",").mapM parseInt).map .ok
  else if s.startsWith "err:" then (parseInt (s.drop 4).toString).map .error
  else none

def cntc (c : Char) (l : Log) : Nat := l.count c
def showLog (l : Log) : String := if l.isEmpty then "-" else String.ofList l

/-- in-scope rendering: counts of o, d, c; `n` = the closure's captured counter (closure-literal forms only) -/
def showEv (closureLit : Bool) (v : String) (l : Log) : String :=
  s!"{v}|o{cntc 'o' l}d{cntc 'd' l}c{cntc 'c' l}n{if closureLit then cntc 'c' l else 0}"

/-- the function-valued argument of form `cl` / `fn` (no effect of its own) or `fx` (logs `f`) -/
def fxOf {φ : Type} (form : String) (f : φ) : Option (Tr φ) :=
  if form = "cl" ∨ form = "fn" then some (quiet f)
  else if form = "fx" then some (fun l => (f, l ++ ['f']))
  else none

/-- model and spec computations of one option::/result:: form, rendered -/
def evPair {γ : Type} (sh : γ → String) (lit : Bool) (m s : Tr γ) : (String × Log) × (String × Log) :=
  let a := m.run
  let b := s.run
  ((showEv lit (sh a.1) a.2, a.2), (showEv lit (sh b.1) b.2, b.2))

def evOptRes (fam mac form : String) (args : List String) : Option ((String × Log) × (String × Log)) := do
  let lit := form = "cl"
  let ds : Tr Int ← match args with
    | [_, s2] => do let v ← (splitStream s2).mapM parseInt; some (stream 'd' v 0)
    | [_] => some (quiet 0)
    | _ => none
  let s1 ← args.head?
  let unitFn {β : Type} (f : Unit → β) : Unit → Tr β := logged 'c' f
  if fam = "opt" ∧ mac = "flatten" then
    let v ← (splitStream s1).mapM parseOptOpt
    let e := stream 'o' v none
    some (evPair fo lit (OptRes.Eval.optFlatten e) (Spec.OptResEval.call1 e fun o => pure (Spec.OptRes.optFlatten o)))
  else if fam = "opt" then
    let v ← (splitStream s1).mapM parseOpt
    let e : Tr (Option Int) := stream 'o' v none
    match mac with
    | "unwrap_or" => some (evPair fi lit (OptRes.Eval.optUnwrapOr e ds)
        (Spec.OptResEval.call2 e ds fun o d => pure (Spec.OptRes.optUnwrapOr o d)))
    | "ok_or" => some (evPair fr lit (OptRes.Eval.optOkOr e ds)
        (Spec.OptResEval.call2 e ds fun o d => pure (Spec.OptRes.optOkOr o d)))
    | "unwrap_or_else" => do
      let fx ← fxOf form (unitFn fb0)
      some (evPair fi lit (OptRes.Eval.optUnwrapOrElse e fx) (Spec.OptResEval.call2 e fx Spec.OptResEval.unwrapOrElseM))
    | "ok_or_else" => do
      let fx ← fxOf form (unitFn fbe0)
      some (evPair fr lit (OptRes.Eval.optOkOrElse e fx) (Spec.OptResEval.call2 e fx Spec.OptResEval.okOrElseM))
    | "map" => do
      let fx ← fxOf form (logged 'c' m1)
      some (evPair fo lit (OptRes.Eval.optMap e fx) (Spec.OptResEval.call2 e fx Spec.OptResEval.mapM))
    | "and_then" => do
      let fx ← fxOf form (logged 'c' at1)
      some (evPair fo lit (OptRes.Eval.optAndThen e fx) (Spec.OptResEval.call2 e fx Spec.OptResEval.andThenM))
    | "or_else" => do
      let fx ← fxOf form (unitFn fbs0)
      some (evPair fo lit (OptRes.Eval.optOrElse e fx) (Spec.OptResEval.call2 e fx Spec.OptResEval.orElseM))
    | "filter" => do
      let fx ← fxOf form (logged 'c' pred)
      some (evPair fo lit (OptRes.Eval.optFilter e fx) (Spec.OptResEval.call2 e fx Spec.OptResEval.filterM))
    | "copied" => some (evPair fo lit (OptRes.Eval.optCopied e) (Spec.OptResEval.call1 e fun o => pure (Spec.OptRes.optCopied o)))
    | _ => none
  else if fam = "res" then
    let v ← (splitStream s1).mapM parseRes
    let e : Tr (Except Int Int) := stream 'o' v (.ok 0)
    match mac with
    | "unwrap_or" => some (evPair fi lit (OptRes.Eval.resUnwrapOr e ds)
        (Spec.OptResEval.call2 e ds fun r d => pure (Spec.OptRes.resUnwrapOr r d)))
    | "unwrap_or_else" => do
      let fx ← fxOf form (logged 'c' e1)
      some (evPair fi lit (OptRes.Eval.resUnwrapOrElse e fx) (Spec.OptResEval.call2 e fx Spec.OptResEval.resUnwrapOrElseM))
    | "unwrap_err_or_else" => do
      let fx ← fxOf form (logged 'c' e1)
      some (evPair fi lit (OptRes.Eval.resUnwrapErrOrElse e fx) (Spec.OptResEval.call2 e fx Spec.OptResEval.resUnwrapErrOrElseM))
    | "ok" => some (evPair fo lit (OptRes.Eval.resOk e) (Spec.OptResEval.call1 e fun r => pure (Spec.OptRes.resOk r)))
    | "err" => some (evPair fo lit (OptRes.Eval.resErr e) (Spec.OptResEval.call1 e fun r => pure (Spec.OptRes.resErr r)))
    | "map" => do
      let fx ← fxOf form (logged 'c' m1)
      some (evPair fr lit (OptRes.Eval.resMap e fx) (Spec.OptResEval.call2 e fx Spec.OptResEval.resMapM))
    | "map_err" => do
      let fx ← fxOf form (logged 'c' e1)
      some (evPair fr lit (OptRes.Eval.resMapErr e fx) (Spec.OptResEval.call2 e fx Spec.OptResEval.resMapErrM))
    | "and_then" => do
      let fx ← fxOf form (logged 'c' rat1)
      some (evPair fr lit (OptRes.Eval.resAndThen e fx) (Spec.OptResEval.call2 e fx Spec.OptResEval.resAndThenM))
    | "or_else" => do
      let fx ← fxOf form (logged 'c' roe1)
      some (evPair fr lit (OptRes.Eval.resOrElse e fx) (Spec.OptResEval.call2 e fx Spec.OptResEval.resOrElseM))
    | _ => none
  else if fam = "try" then
    let k : Int → Except Int Int := fun v => .ok v
    match mac, form with
    | "try_", "plain" => do
      let v ← (splitStream s1).mapM parseRes
      let e : Tr (Except Int Int) := stream 'o' v (.ok 0)
      some (evPair id false (do let f ← OptRes.Eval.try_ e; pure (showFlowRes f))
        (Spec.OptResEval.call1 e fun r => pure (showRetRes (Spec.OptRes.questionRes r k))))
    | "try_", "me" => do
      let v ← (splitStream s1).mapM parseRes
      let e : Tr (Except Int Int) := stream 'o' v (.ok 0)
      some (evPair id true (do let f ← OptRes.Eval.tryMapErr e (logged 'c' e1); pure (showFlowRes f))
        (Spec.OptResEval.call2 e (quiet (logged 'c' e1)) fun r f => do
          let r' ← Spec.OptResEval.resMapErrM r f
          pure (showRetRes (Spec.OptRes.questionRes r' k))))
    | "try_opt", "plain" => do
      let v ← (splitStream s1).mapM parseOpt
      let e : Tr (Option Int) := stream 'o' v none
      let shM : OptRes.Flow (Option Int) Int → String := fun f => match f with
        | .ret r => "ret:" ++ fo r
        | .value v => s!"val:{v}"
      let shS : Option Int → String := fun o => match o with
        | some v => s!"val:{v}"
        | none => "ret:none"
      some (evPair id false (do let f ← OptRes.Eval.tryOpt e; pure (shM f))
        (Spec.OptResEval.call1 e fun o => pure (shS (Spec.OptRes.questionOpt o fun v => some v))))
    | _, _ => none
  else if fam = "rebind" then
    let v ← (splitStream s1).mapM parsePair
    let e : Tr (Except Int (List Int)) := stream 'o' v (.error 0)
    let u : OptRes.UserPat := ⟨false, [.place, .letP]⟩
    let shOut : OptRes.RebindOut → String := fun o => match o with
      | .reject => "reject"
      | .ret e => s!"ret:{e}"
      | .skip => "skip"
      | .ok ws => "ok:" ++ ",".intercalate (ws.map fun w => showVal w.2)
    let isTry ← if mac = "try_rebind" then some true else if mac = "rebind_if_ok" then some false else none
    let specOut : Except Int (List Int) → String := fun r => match r with
      | .ok vs => "ok:" ++ ",".intercalate (vs.map toString)
      | .error e => if isTry then s!"ret:{e}" else "skip"
    some (evPair id false
      (do let o ← (if isTry then OptRes.Eval.tryRebind u 2 false e else OptRes.Eval.rebindIfOk u 2 false e); pure (shOut o))
      (Spec.OptResEval.call1 e fun r => pure (specOut r)))
  else none

def kqOf (x : Int × Nat) : Char := if x.2 % 2 = 1 then 'k' else 'q'

/-- min/max: (model value+log, spec value+log, is the ORDER of the key applications documented?) -/
def evMm (mac form : String) (args : List String) : Option (((Int × Nat) × Log) × ((Int × Nat) × Log) × Bool) := do
  let (sa, sb) ← match args with | [a, b] => some (a, b) | _ => none
  let va ← (splitStream sa).mapM parseKeyed
  let vb ← (splitStream sb).mapM parseKeyed
  let a : Tr (Int × Nat) := stream 'a' va (0, 0)
  let b : Tr (Int × Nat) := stream 'b' vb (0, 0)
  let cmpV : (Int × Nat) → (Int × Nat) → Ordering := fun x y => compare x.1 y.1
  let cmpT : (Int × Nat) → (Int × Nat) → Tr Ordering := fun x y l => (compare x.1 y.1, l ++ ['c'])
  let keyT : (Int × Nat) → Tr Int := fun x l => (x.1, l ++ [kqOf x])
  let cmpK : Int → Int → Ordering := compare
  match mac, form with
  | "min", "cc" => some ((OptRes.Eval.min cmpV a b).run,
      (Spec.OptResEval.call2 a b fun x y => pure (Spec.OptRes.minBy cmpV x y)).run, true)
  | "max", "cc" => some ((OptRes.Eval.max cmpV a b).run,
      (Spec.OptResEval.call2 a b fun x y => pure (Spec.OptRes.maxBy cmpV x y)).run, true)
  | "min_by", _ => do
    let fx ← fxOf form cmpT
    let m := if form = "cl" then OptRes.Eval.minBy a b cmpT else OptRes.Eval.minByFn a b fx
    some (m.run, (Spec.OptResEval.call3 a b fx Spec.OptResEval.minByM).run, true)
  | "max_by", _ => do
    let fx ← fxOf form cmpT
    let m := if form = "cl" then OptRes.Eval.maxBy a b cmpT else OptRes.Eval.maxByFn a b fx
    some (m.run, (Spec.OptResEval.call3 a b fx Spec.OptResEval.maxByM).run, true)
  | "min_by_key", _ => do
    let fx ← fxOf form keyT
    let m := if form = "cl" then OptRes.Eval.minByKey cmpK a b keyT else OptRes.Eval.minByKeyFn cmpK a b fx
    some (m.run, (Spec.OptResEval.call3 a b fx (Spec.OptResEval.minByKeyM cmpK)).run, false)
  | "max_by_key", _ => do
    let fx ← fxOf form keyT
    let m := if form = "cl" then OptRes.Eval.maxByKey cmpK a b keyT else OptRes.Eval.maxByKeyFn cmpK a b fx
    some (m.run, (Spec.OptResEval.call3 a b fx (Spec.OptResEval.maxByKeyM cmpK)).run, false)
  | _, _ => none

def handleEv (order : Bool) (path : String) (args : List String) : Option (String × String) :=
  match path.splitOn "." with
  | [fam, mac, form, shape] =>
    if shape ≠ "se" ∧ shape ≠ "sb" then none
    else if fam = "mm" then do
      let (m, s, orderDocumented) ← evMm mac form args
      if order then some (showLog m.2, if orderDocumented then showLog s.2 else "?")
      else
        let sh : (Int × Nat) × Log → String := fun r => s!"{r.1.2}|a{cntc 'a' r.2}b{cntc 'b' r.2}"
        some (sh m, sh s)
    else do
      let (m, s) ← evOptRes fam mac form args
      if order then some (showLog m.2, showLog s.2) else some (m.1, s.1)
  | _ => none
end Ev

/-! ## hy. — positions / names / caller items: `hy.<tag> <base request>` answers what the base request answers,
    except where a caller item collides with an identifier pattern of the expansion (`OptRes.Eval.verdict`) -/

/-- `..|calls:n` -> `..|calls:-` (const contexts have no call counter) -/
def dropCalls (s : String) : String :=
  match s.splitOn "|calls:" with
  | [v, _] => v ++ "|calls:-"
  | _ => s

def parseDecl (s : String) : Option OptRes.Eval.Decl :=
  match s with
  | "const" => some .const_
  | "static" => some .static_
  | "ustruct" => some .unitStruct
  | "fn" => some .fn_
  | "var" => some .local_
  | _ => none

def handleHy (base : String → List String → Option (String × String)) (tag : String) (args : List String) :
    Option (String × String) :=
  match args with
  | bop :: rest => do
    let (m, s) ← base bop rest
    if tag = "kfn" ∨ tag = "kit" then some (dropCalls m, dropCalls s)
    else if tag = "tc" ∧ !OptRes.Eval.trailingCommaOk bop then some ("reject", s)
    else if tag.startsWith "ret." then some ("?", "?")            -- documented, not modelled
    else if tag.startsWith "syn." ∨ tag.startsWith "fnx." then some ("?", s)   -- the macro matchers are not modelled
    else if tag.startsWith "item." then
      match tag.splitOn "." with
      | [_, d, name] => do
        let decl ← parseDecl d
        -- the arm: the form token of the base request (opt/res/try: after the value; mm: first; rebind: none)
        let form := if bop.startsWith "mm." then rest.head?.getD "" else if bop.startsWith "rebind." then "" else (rest.drop 1).head?.getD ""
        match OptRes.Eval.verdict bop form decl name with
        | .transparent => some (m, s)
        | .reject => some ("reject", s)
      | _ => none
    else some (m, s)
  | [] => none

def handleBase (op : String) (args : List String) : Option (String × String) :=
  if op.startsWith "opt." then handleOpt (op.drop 4).toString args
  else if op.startsWith "res." then handleRes (op.drop 4).toString args
  else if op.startsWith "try." then handleTry (op.drop 4).toString args
  else if op.startsWith "rebind." then handleRebind (op.drop 7).toString args
  else if op.startsWith "mm." then handleMm (op.drop 3).toString args
  else none

def handle (op : String) (args : List String) : Option (String × String) :=
  if op.startsWith "ev." then handleEv false (op.drop 3).toString args
  else if op.startsWith "evo." then handleEv true (op.drop 4).toString args
  else if op.startsWith "hy." then handleHy handleBase (op.drop 3).toString args
  else handleBase op args

end Driver.C19
