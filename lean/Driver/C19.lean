import Driver.Util
import KonstVerif.Model.OptRes
import KonstVerif.Spec.OptRes
/-
  C19 requests (printed by the generated Rust programs of vlib/progs/c19.py):
    opt.<macro> <none|some:v|some:none|some:some:v> <form> [<extra>]  -> <value>|calls:<n>
    res.<macro> <ok:v|err:e> <form>                                    -> <value>|calls:<n>
    try.<macro> <value> <form>                                         -> ret:<residual>|calls:<n> / val:<v>|calls:<n>
    rebind.<macro> <ok:v1,..,vn | err:e:n> <[b:]kinds | ->             -> accept:<flow>:<slot;..> / reject
    rebind.<macro> <ok:v1,..,vn | err:e:n> o:<place>,..                -> accept:<flow>:<xs>;<tp>;<arr>;<lets|-> / reject
    mm.<macro> <form> <akey>:<aid> <bkey>:<bid>                        -> id of the returned argument
  answer: model<TAB>spec.  The closure library below is the one of the generated programs' prelude.
-/
namespace Driver.C19
open Konst Driver
open Konst.OptRes (Ev)

def owns (op : String) : Bool :=
  op.startsWith "opt." || op.startsWith "res." || op.startsWith "try." || op.startsWith "rebind." ||
  op.startsWith "mm."

/-! closure library (same as PRELUDE in vlib/progs/c19.py) -/
def fb0 : Unit → Int := fun _ => 7
def fbe0 : Unit → Int := fun _ => 77
def fbs0 : Unit → Option Int := fun _ => some 7
def fbn0 : Unit → Option Int := fun _ => none
def m1 (x : Int) : Int := x * 3 + 1
def at1 (x : Int) : Option Int := if x ≥ 0 then some (x + 1) else none
def pred (x : Int) : Bool := decide (x > 0)
def e1 (e : Int) : Int := e * 2 + 1
def rat1 (x : Int) : Except Int Int := if x ≥ 0 then .ok (x + 1) else .error (x - 1)
def roe1 (e : Int) : Except Int Int := if e ≥ 0 then .ok (e + 2) else .error (e - 2)

/-! rendering -/
def fi (x : Int) : String := toString x
def fo : Option Int → String
  | none => "none"
  | some x => s!"some:{x}"
def fr : Except Int Int → String
  | .ok x => s!"ok:{x}"
  | .error e => s!"err:{e}"
def wc (v : String) (n : Nat) : String := s!"{v}|calls:{n}"
def wcp {α : Type} (f : α → String) (p : α × Nat) : String := wc (f p.1) p.2

/-! parsing -/
def parseOpt (s : String) : Option (Option Int) :=
  if s = "none" then some none
  else if s.startsWith "some:" then (parseInt (s.drop 5).toString).map some
  else none

def parseOptOpt (s : String) : Option (Option (Option Int)) :=
  if s = "none" then some none
  else if s.startsWith "some:" then (parseOpt (s.drop 5).toString).map some
  else none

def parseRes (s : String) : Option (Except Int Int) :=
  if s.startsWith "ok:" then (parseInt (s.drop 3).toString).map .ok
  else if s.startsWith "err:" then (parseInt (s.drop 4).toString).map .error
  else none

/-! ## opt. -/
def handleOpt (mac : String) (args : List String) : Option (String × String) :=
  match mac, args with
  | "flatten", [v, "m"] => do
    let o ← parseOptOpt v
    some (wc (fo (OptRes.optFlatten o)) 0, wc (fo (Spec.OptRes.optFlatten o)) 0)
  | _, v :: rest => do
    let o ← parseOpt v
    match mac, rest with
    | "unwrap", ["m"] =>
      some (wc (match OptRes.optUnwrap o with | .val x => fi x | .panic => "panic") 0,
            wc (match Spec.OptRes.optUnwrap o with | some x => fi x | none => "panic") 0)
    | "unwrap_or", ["val"] =>
      -- the argument expression `fb0()` is evaluated (one call) before std's method runs
      some (wcp fi (OptRes.optUnwrapOr o (Ev.call fb0 ())).run, wc (fi (Spec.OptRes.optUnwrapOr o (fb0 ()))) 1)
    | "unwrap_or_else", [form] =>
      if form ∈ ["cl", "fn", "var"] then
        some (wcp fi (OptRes.optUnwrapOrElse o fb0).run, wcp fi (Spec.OptRes.optUnwrapOrElse o fb0))
      else none
    | "ok_or", ["val"] =>
      some (wcp fr (OptRes.optOkOr o (Ev.call fbe0 ())).run, wc (fr (Spec.OptRes.optOkOr o (fbe0 ()))) 1)
    | "ok_or_else", [form] =>
      if form ∈ ["cl", "fn", "var"] then
        some (wcp fr (OptRes.optOkOrElse o fbe0).run, wcp fr (Spec.OptRes.optOkOrElse o fbe0))
      else none
    | "map", [form] =>
      if form ∈ ["cl", "fn", "var"] then
        some (wcp fo (OptRes.optMap o m1).run, wcp fo (Spec.OptRes.optMap o m1))
      else none
    | "and_then", [form] =>
      if form ∈ ["cl", "fn"] then
        some (wcp fo (OptRes.optAndThen o at1).run, wcp fo (Spec.OptRes.optAndThen o at1))
      else none
    | "or_else", [form, ex] =>
      if form ∈ ["cl", "fn"] then do
        let f ← if ex = "s" then some fbs0 else if ex = "n" then some fbn0 else none
        some (wcp fo (OptRes.optOrElse o f).run, wcp fo (Spec.OptRes.optOrElse o f))
      else none
    | "filter", [form] =>
      if form ∈ ["cl", "clref", "fn"] then
        some (wcp fo (OptRes.optFilter o pred).run, wcp fo (Spec.OptRes.optFilter o pred))
      else none
    | "copied", ["fn"] =>
      some (wc (fo (OptRes.optCopied o)) 0, wc (fo (Spec.OptRes.optCopied o)) 0)
    | _, _ => none
  | _, _ => none

/-! ## res. -/
def handleRes (mac : String) (args : List String) : Option (String × String) :=
  match args with
  | [v, form] => do
    let r ← parseRes v
    let clfn := form ∈ ["cl", "fn"]
    match mac with
    | "unwrap_or" =>
      if form = "val" then
        some (wcp fi (OptRes.resUnwrapOr r (Ev.call fb0 ())).run, wc (fi (Spec.OptRes.resUnwrapOr r (fb0 ()))) 1)
      else none
    | "unwrap_or_else" =>
      if form ∈ ["cl", "fn", "var"] then
        some (wcp fi (OptRes.resUnwrapOrElse r e1).run, wcp fi (Spec.OptRes.resUnwrapOrElse r e1))
      else none
    | "unwrap_err_or_else" =>
      if clfn then some (wcp fi (OptRes.resUnwrapErrOrElse r e1).run, wcp fi (Spec.OptRes.resUnwrapErrOrElse r e1))
      else none
    | "ok" => if form = "m" then some (wc (fo (OptRes.resOk r)) 0, wc (fo (Spec.OptRes.resOk r)) 0) else none
    | "err" => if form = "m" then some (wc (fo (OptRes.resErr r)) 0, wc (fo (Spec.OptRes.resErr r)) 0) else none
    | "map" =>
      if clfn then some (wcp fr (OptRes.resMap r m1).run, wcp fr (Spec.OptRes.resMap r m1)) else none
    | "map_err" =>
      if clfn then some (wcp fr (OptRes.resMapErr r e1).run, wcp fr (Spec.OptRes.resMapErr r e1)) else none
    | "and_then" =>
      if clfn then some (wcp fr (OptRes.resAndThen r rat1).run, wcp fr (Spec.OptRes.resAndThen r rat1)) else none
    | "or_else" =>
      if clfn then some (wcp fr (OptRes.resOrElse r roe1).run, wcp fr (Spec.OptRes.resOrElse r roe1)) else none
    | _ => none
  | _ => none

/-! ## try. — the rest of the enclosing function is `Ok(v)` / `Some(v)` -/
def showFlowRes : OptRes.Flow (Except Int Int) Int → String
  | .ret r => "ret:" ++ fr r
  | .value v => s!"val:{v}"

def showRetRes : Except Int Int → String
  | .ok v => s!"val:{v}"
  | .error e => s!"ret:err:{e}"

def handleTry (mac : String) (args : List String) : Option (String × String) :=
  match mac, args with
  | "try_", [v, form] => do
    let r ← parseRes v
    let k : Int → Except Int Int := fun v => .ok v
    match form with
    | "plain" => some (wc (showFlowRes (OptRes.try_ r)) 0, wc (showRetRes (Spec.OptRes.questionRes r k)) 0)
    | "me" => some (wcp showFlowRes (OptRes.tryMapErr r e1).run, wcp showRetRes (Spec.OptRes.questionMapErr r e1 k))
    | "me0" =>
      let c : Int → Int := fun _ => 77
      some (wcp showFlowRes (OptRes.tryMapErr r c).run, wcp showRetRes (Spec.OptRes.questionMapErr r c k))
    | _ => none
  | "try_opt", [v, "plain"] => do
    let o ← parseOpt v
    let m : String := match (OptRes.tryOpt o : OptRes.Flow (Option Int) Int) with
      | .ret r => "ret:" ++ fo r
      | .value v => s!"val:{v}"
    let s : String := match Spec.OptRes.questionOpt o (fun v => some v) with
      | some v => s!"val:{v}"
      | none => "ret:none"
    some (wc m 0, wc s 0)
  | _, _ => none

/-! ## rebind. -/
def parseKind (s : String) : Option OptRes.PatKind :=
  match s with
  | "p" => some .place
  | "e" => some .exprPlace
  | "l" => some .letP
  | "t" => some .typedLet
  | "w" => some .wild
  | "u" => some .typedWild
  | "q" => some .typedPlace
  | _ => none

/-- `[b:]k1,k2,..[,]` (a trailing comma is the user's trailing comma, absorbed by `$(, $($rem:tt)*)?`);
    `-` is the empty list `()` -/
def parseKinds (s : String) : Option OptRes.UserPat :=
  if s = "-" then some ⟨false, []⟩ else
  let bare := s.startsWith "b:"
  let body := if bare then (s.drop 2).toString else s
  let parts := body.splitOn ","
  let parts := if parts.getLast? = some "" then parts.dropLast else parts
  (parts.mapM parseKind).map fun ks => ⟨bare, ks⟩

/-- `ok:v1,..,vn` / `err:e:n` -/
def parsePayload (s : String) : Option (Except Int (List Int) × Nat) :=
  if s.startsWith "ok:" then
    (((s.drop 3).toString.splitOn ",").mapM parseInt).map fun vs => (.ok vs, vs.length)
  else if s.startsWith "err:" then
    match (s.drop 4).toString.splitOn ":" with
    | [e, n] => do
      let e ← parseInt e
      let n ← parseNat n
      some (.error e, n)
    | _ => none
  else none

def showVal : OptRes.Val → String
  | .scalar v => toString v
  | .tuple vs => "(" ++ ",".intercalate (vs.map toString) ++ ")"

def isPlace (k : OptRes.PatKind) : Bool := k == .place || k == .typedPlace || k == .exprPlace
def isLet (k : OptRes.PatKind) : Bool := k == .letP || k == .typedLet

/-- the generated program's initial value of the place at pattern position `j` -/
def initVal (slotArity j : Nat) : OptRes.Val :=
  let v : Int := -(100 + (j : Int))
  if slotArity = 1 then .scalar v else .tuple (List.replicate slotArity v)

/-- one slot per pattern position: places show their final value, `let` bindings their value when
    the code after the walker runs and can see them, wildcards `_` -/
def showSlots (u : OptRes.UserPat) (n : Nat) (letsVisible : Bool) (ws : List (OptRes.Lhs × OptRes.Val)) : String :=
  let slotArity := if u.pats.length = 1 then n else 1
  let slots := u.pats.zipIdx.map fun (k, j) =>
    -- the last write to position j wins
    let w := (ws.filter fun (l, _) => l.pos = j).getLast?.map (·.2)
    if isPlace k then showVal (w.getD (initVal slotArity j))
    else if isLet k then (if letsVisible then (w.map showVal).getD "-" else "-")
    else "_"
  ";".intercalate slots

def showRebind (u : OptRes.UserPat) (n : Nat) (hasCode : Bool) : OptRes.RebindOut → String
  | .reject => "reject"
  | .ret e => s!"accept:ret:{e}:" ++ showSlots u n false []
  | .skip => "accept:skip:" ++ showSlots u n false []
  | .ok ws => "accept:ok:" ++ showSlots u n hasCode ws

/-! ### order-observing rebind requests (`o:<place>,<place>,..`)

  The generated program's test bench is a small store: `x0 x1 x2 : i64`, `tp : (i64, i64)`,
  `arr : [i64; 8]`; `ix(v) = v.rem_euclid(8)`.  One descriptor per listed pattern:
    xN  place `xN`                 aN  place `arr[ix(xN)]`      (xN as bound where the statement runs)
    t0/t1  place `tp.0` / `tp.1`   at  place `arr[ix(tp.0)]`
    lN  `let xN`                   LN  `let xN: i64`            (shadows the outer xN from there on)
    w   `_`
  The ordered write list of the model (`RebindOut.ok ws`) is run on the store with `runWrites`;
  the oracle side is `Spec.OptRes.assignSeq` (`p0 = t.0; p1 = t.1; …`). -/
inductive PlaceD where
  | x (n : Nat) | a (n : Nat) | t (n : Nat) | at | l (n : Nat) | tl (n : Nat) | w
deriving Repr, DecidableEq

structure Store where
  xs : List Int             -- x0 x1 x2 (outer variables)
  lets : List (Option Int)  -- `let xN` bindings made by the walker (shadow the outer xN)
  tp : Int × Int
  arr : List Int
deriving Repr

/-- initial values of the generated programs (vlib/progs/c19.py, `ORDER_DECL`) -/
def store0 : Store :=
  ⟨[96, 101, 104], [none, none, none], (109, 110), [-200, -201, -202, -203, -204, -205, -206, -207]⟩

def parsePlaceD (s : String) : Option PlaceD :=
  let var (c : Char) : Option Nat := if c = '0' then some 0 else if c = '1' then some 1 else if c = '2' then some 2 else none
  match s.toList with
  | ['w'] => some .w
  | ['a', 't'] => some .at
  | ['x', c] => (var c).map .x
  | ['a', c] => (var c).map .a
  | ['l', c] => (var c).map .l
  | ['L', c] => (var c).map .tl
  | ['t', '0'] => some (.t 0)
  | ['t', '1'] => some (.t 1)
  | _ => none

/-- the `__priv_assign_tuple` arm a descriptor's tokens take -/
def PlaceD.kind : PlaceD → OptRes.PatKind
  | .x _ => .place          -- one identifier: `$e:tt`
  | .a _ | .t _ | .at => .exprPlace   -- several token trees: `$e:expr`
  | .l _ => .letP
  | .tl _ => .typedLet
  | .w => .wild

def ix (v : Int) : Nat := (v % 8).toNat

/-- the value `xN` denotes where a statement runs: the walker's `let xN` if there is one already -/
def Store.readVar (s : Store) (n : Nat) : Int := (s.lets.getD n none).getD (s.xs.getD n 0)

/-- `<place> = v;` / `let xN = v;` / `let _ = v;` on the store (the place expression is evaluated in `s`) -/
def Store.assign (s : Store) (d : PlaceD) (v : Int) : Store :=
  match d with
  | .x n => { s with xs := s.xs.set n v }
  | .a n => { s with arr := s.arr.set (ix (s.readVar n)) v }
  | .t 0 => { s with tp := (v, s.tp.2) }
  | .t _ => { s with tp := (s.tp.1, v) }
  | .at => { s with arr := s.arr.set (ix s.tp.1) v }
  | .l n | .tl n => { s with lets := s.lets.set n (some v) }
  | .w => s

/-- resolution of the `pos`-th listed pattern; `none` = something the bench cannot express
    (a whole-tuple value in a scalar cell) -/
def writeD (ds : List PlaceD) (s : Option Store) (l : OptRes.Lhs) (v : OptRes.Val) : Option Store :=
  match s, ds[l.pos]?, v with
  | some s, some d, .scalar v => some (s.assign d v)
  | _, _, _ => none

def showInts (l : List Int) : String := ",".intercalate (l.map toString)

/-- `<x0>,<x1>,<x2>;<tp.0>,<tp.1>;<arr>;<let values, by listed position | ->` -/
def showStore (ds : List PlaceD) (letsVisible : Bool) (s : Store) : String :=
  let lets := ds.filterMap fun d => match d with
    | .l n | .tl n => some (toString ((s.lets.getD n none).getD 0))
    | _ => none
  let ls := if letsVisible && !lets.isEmpty then ",".intercalate lets else "-"
  showInts s.xs ++ ";" ++ showInts [s.tp.1, s.tp.2] ++ ";" ++ showInts s.arr ++ ";" ++ ls

def showRebindOrder (ds : List PlaceD) (hasCode : Bool) : OptRes.RebindOut → String
  | .reject => "reject"
  | .ret e => s!"accept:ret:{e}:" ++ showStore ds false store0
  | .skip => "accept:skip:" ++ showStore ds false store0
  | .ok ws =>
    match OptRes.runWrites (writeD ds) (some store0) ws with
    | some s => "accept:ok:" ++ showStore ds hasCode s
    | none => "unsupported"

/-- a variable is either assigned as a place (`xN`) or `let`-bound by the walker, not both (the
    binding is immutable); 2..=6 patterns -/
def orderWellFormed (ds : List PlaceD) : Bool :=
  decide (2 ≤ ds.length ∧ ds.length ≤ 6) &&
  [0, 1, 2].all fun n => !(ds.contains (.x n) && (ds.contains (.l n) || ds.contains (.tl n)))

def handleRebindOrder (isTry hasCode : Bool) (r : Except Int (List Int)) (n : Nat) (body : String) :
    Option (String × String) := do
  let ds ← (body.splitOn ",").mapM parsePlaceD
  if !orderWellFormed ds then none else
  let u : OptRes.UserPat := ⟨false, ds.map PlaceD.kind⟩
  let out := if isTry then OptRes.tryRebind u n false r else OptRes.rebindIfOk u n false r
  let model := showRebindOrder ds hasCode out
  let spec :=
    if ds.length = n then
      match r with
      | .error e => showRebindOrder ds hasCode (if isTry then .ret e else .skip)
      | .ok vs =>
        let targets : List OptRes.Lhs := u.pats.zipIdx.map fun (kd, j) => ⟨j, kd⟩
        match Spec.OptRes.assignSeq (writeD ds) OptRes.payloadVal OptRes.Val.scalar (some store0) targets vs with
        | some s => "accept:ok:" ++ showStore ds hasCode s
        | none => "unsupported"
    else "?"
  some (model, spec)

def handleRebind (mac : String) (args : List String) : Option (String × String) :=
  match args with
  | [pl, ks] => do
    let (r, n) ← parsePayload pl
    if ks.startsWith "o:" then
      let (isTry, hasCode) ← match mac with
        | "try_rebind" => some (true, true)
        | "rebind_if_ok" => some (false, true)
        | "rebind_if_ok_nc" => some (false, false)
        | _ => none
      handleRebindOrder isTry hasCode r n (ks.drop 2).toString
    else
    let u ← parseKinds ks
    let k := u.pats.length
    -- the generator annotates typed patterns with the slot type: the payload type iff there is a
    -- single pattern (or the payload is a scalar anyway)
    let annot := k == 1 || n == 1
    let (isTry, hasCode) ← match mac with
      | "try_rebind" => some (true, true)
      | "rebind_if_ok" => some (false, true)
      | "rebind_if_ok_nc" => some (false, false)
      | _ => none
    let out := if isTry then OptRes.tryRebind u n annot r else OptRes.rebindIfOk u n annot r
    let model := showRebind u n hasCode out
    -- oracle side: `let <tuple pattern> = r?;` / `if let Ok(<tuple pattern>) = r` + plain assignments
    let spec :=
      if 1 ≤ k ∧ k ≤ 6 ∧ (k = n ∨ k = 1) then
        match r with
        | .error e => showRebind u n hasCode (if isTry then .ret e else .skip)
        | .ok vs =>
          let targets : List OptRes.Lhs := u.pats.zipIdx.map fun (kd, j) => ⟨j, kd⟩
          showRebind u n hasCode (.ok (Spec.OptRes.destructure OptRes.payloadVal OptRes.Val.scalar targets vs))
      else "?"
    some (model, spec)
  | _ => none

/-! ## mm. -/
def parseKeyed (s : String) : Option (Int × Nat) :=
  match s.splitOn ":" with
  | [k, i] => do
    let k ← parseInt k
    let i ← parseNat i
    some (k, i)
  | _ => none

def handleMm (mac : String) (args : List String) : Option (String × String) :=
  -- `mm.order.*` (order of evaluation of the argument expressions) is not modelled: the model is silent
  if mac.startsWith "order." then some ("?", "?") else
  -- `mm.evals.*`: the macros bind both argument expressions once (`match ($left, $right) { (left, right) => .. }`),
  -- so each is evaluated exactly once, as the arguments of std's functions are
  if mac.startsWith "evals." then some ("ab", "ab") else
  match args with
  | [form, a, b] => do
    let a ← parseKeyed a
    let b ← parseKeyed b
    let cmpV : (Int × Nat) → (Int × Nat) → Ordering := fun x y => compare x.1 y.1
    let key : (Int × Nat) → Int := fun x => x.1
    let cmpK : Int → Int → Ordering := compare
    let byForms := ["cl", "clt", "clp", "clr", "fn"]
    let r : Option ((Int × Nat) × (Int × Nat)) :=
      match mac with
      | "min" => if form = "cc" then some (OptRes.minBy cmpV a b, Spec.OptRes.min cmpV a b) else none
      | "max" => if form = "cc" then some (OptRes.maxBy cmpV a b, Spec.OptRes.max cmpV a b) else none
      | "min_by" => if form ∈ byForms then some (OptRes.minBy cmpV a b, Spec.OptRes.minBy cmpV a b) else none
      | "max_by" => if form ∈ byForms then some (OptRes.maxBy cmpV a b, Spec.OptRes.maxBy cmpV a b) else none
      | "min_by_key" =>
        if form ∈ byForms then some (OptRes.minByKey key cmpK a b, Spec.OptRes.minByKey key cmpK a b) else none
      | "max_by_key" =>
        if form ∈ byForms then some (OptRes.maxByKey key cmpK a b, Spec.OptRes.maxByKey key cmpK a b) else none
      | _ => none
    r.map fun (m, s) => (toString m.2, toString s.2)
  | _ => none

def handle (op : String) (args : List String) : Option (String × String) :=
  if op.startsWith "opt." then handleOpt (op.drop 4).toString args
  else if op.startsWith "res." then handleRes (op.drop 4).toString args
  else if op.startsWith "try." then handleTry (op.drop 4).toString args
  else if op.startsWith "rebind." then handleRebind (op.drop 7).toString args
  else if op.startsWith "mm." then handleMm (op.drop 3).toString args
  else none

end Driver.C19
