import Driver.Util
import KonstVerif.Model.SliceIter
import KonstVerif.Spec.SliceIter
/-
  requests:
    it.<kind>[.rev] <elem> <len> <n> <hist>
    it.copy.<kind>[.rev] <elem> <len> <n> <hist1> <hist2> <hist3>
  <kind> ∈ iter (also into_iter, into_iter_ref, into_iter_arr, into_iter_arr_ref: the same `Iter`
           obtained through `into_iter!` from &[T], &&[T], &[T;N], &&[T;N]), copied, windows, chunks, rchunks, chunks_exact, rchunks_exact, array_chunks
  <elem> ∈ u8, zst;  the slice is `[0, 1, .., len-1]` (positions);  <hist> over f (next), b (next_back),
  r (rev), `-` = empty.  `.rev` = `.rev()` applied to the fresh iterator.
  answer (one segment per history, segments joined by `|`):
    <obs>;<item>/<obs>;…     item = view | none | r (a rev step);  obs = as_slice()/remainder() view
                             (start `-`, later `/<obs>` omitted, where the type has no such method);
                             whole answer `panic` if anything panics
  copy: segment 1 = hist1 on the iterator, then `c = it.copy()`, segment 2 = hist2 on `it`,
        segment 3 = hist3 on `c`.
-/
namespace Driver.C08
open Konst Konst.SliceIter Konst.Spec Driver

/-- `<item>/<obs>`, or just `<item>` where the type has no observer method (`obs = ""`) -/
def withObs (item obs : String) : String := if obs.isEmpty then item else item ++ "/" ++ obs

def parseHistX (s : String) : Option (List (Option Dir)) :=
  if s = "-" then some [] else
  s.toList.mapM fun c =>
    if c = 'f' then some (some Dir.f) else if c = 'b' then some (some Dir.b)
    else if c = 'r' then some none else none

/-- model side: one segment (starting observation, then one token per operation) -/
def modelSeg {σ ι : Type} (B : Blocks σ ι) (si : ι → String) (obs : It σ → String) :
    It σ → List (Option Dir) → List String → Option (List String × It σ)
  | it, [], acc => some (acc.reverse, it)
  | it, none :: h, acc => modelSeg B si obs it.rev h (withObs "r" (obs it.rev) :: acc)
  | it, some d :: h, acc =>
    match It.step B d it with
    | .panic => none
    | .none => modelSeg B si obs it h (withObs "none" (obs it) :: acc)
    | .some x it' => modelSeg B si obs it' h (withObs (si x) (obs it') :: acc)

/-- spec side: the deque in its current orientation + whether it is reversed w.r.t. the slice -/
def specSeg {ι : Type} (si : ι → String) (obs : Bool → List ι → String) :
    List ι → Bool → List (Option Dir) → List String → List String × List ι × Bool
  | q, fl, [], acc => (acc.reverse, q, fl)
  | q, fl, none :: h, acc => specSeg si obs q.reverse (!fl) h (withObs "r" (obs (!fl) q.reverse) :: acc)
  | q, fl, some d :: h, acc =>
    let (o, q') := pop d q
    let tok := match o with | none => "none" | some x => si x
    specSeg si obs q' fl h (withObs tok (obs fl q') :: acc)

def seg (start : String) (toks : List String) : String :=
  ";".intercalate ((if start.isEmpty then "-" else start) :: toks)

def answer {σ ι : Type} (B : Blocks σ ι) (si : ι → String) (obsM : It σ → String)
    (obsS : Bool → List ι → String) (init : Option (It σ)) (specInit : Option (List ι))
    (rev0 : Bool) (hs : List (List (Option Dir))) : Option (String × String) :=
  let model : Option String :=
    match init with
    | none => some "panic"
    | some it =>
      let it0 := if rev0 then it.rev else it
      match hs with
      | [h] =>
        match modelSeg B si obsM it0 h [] with
        | none => some "panic"
        | some (t, _) => some (seg (obsM it0) t)
      | [h1, h2, h3] =>
        match modelSeg B si obsM it0 h1 [] with
        | none => some "panic"
        | some (t1, it1) =>
          let c := it1.copy
          match modelSeg B si obsM it1 h2 [], modelSeg B si obsM c h3 [] with
          | some (t2, _), some (t3, _) =>
            some (seg (obsM it0) t1 ++ "|" ++ seg (obsM it1) t2 ++ "|" ++ seg (obsM c) t3)
          | _, _ => some "panic"
      | _ => none
  let spec : Option String :=
    match specInit with
    | none => some "panic"
    | some q =>
      let q0 := if rev0 then q.reverse else q
      match hs with
      | [h] =>
        let (t, _, _) := specSeg si obsS q0 rev0 h []
        some (seg (obsS rev0 q0) t)
      | [h1, h2, h3] =>
        let (t1, q1, f1) := specSeg si obsS q0 rev0 h1 []
        let (t2, _, _) := specSeg si obsS q1 f1 h2 []
        let (t3, _, _) := specSeg si obsS q1 f1 h3 []
        some (seg (obsS rev0 q0) t1 ++ "|" ++ seg (obsS f1 q1) t2 ++ "|" ++ seg (obsS f1 q1) t3)
      | _ => none
  match model, spec with
  | some m, some s => some (m, s)
  | _, _ => none

def handle (fn : String) (args : List String) : Option (String × String) := do
  let (isCopy, fn) := if fn.startsWith "copy." then (true, (fn.drop 5).toString) else (false, fn)
  let (rev0, kind) := if fn.endsWith ".rev" then (true, (fn.dropEnd 4).toString) else (false, fn)
  match args with
  | elem :: lenS :: nS :: hists =>
    let zst ← (if elem == "zst" then some true else if elem == "u8" then some false else none)
    let len ← parseNat lenS
    let n ← parseNat nS
    let hs ← hists.mapM parseHistX
    if (isCopy && hs.length ≠ 3) || (!isCopy && hs.length ≠ 1) then none
    -- a slice of zero-sized elements can be 2^64 - 1 long; the list-based model cannot hold that many elements:
    -- such rows are implementation vs std only (`?` = no model answer)
    if len > 1000000 then return ("?", "?")
    let l := List.range len
    let sl := showIdxList zst
    let s1 : Nat → String := fun x => sl [x]
    let noObs : String := ""
    -- the remaining elements in slice order (what `as_slice` shows)
    let restS : Bool → List Nat → String := fun fl q => sl (if fl then q.reverse else q)
    let sized (q : List (List Nat)) : Option (List (List Nat)) := if n = 0 then none else some q
    match kind with
    | "iter" | "into_iter" | "into_iter_ref" | "into_iter_arr" | "into_iter_arr_ref" =>
      answer Iter.blocks s1 (fun it => sl (Iter.asSlice it)) restS (some (iter l)) (some (iterSpec l)) rev0 hs
    | "copied" =>
      answer IterCopied.blocks s1 (fun it => sl (IterCopied.asSlice it)) restS
        (some (iterCopied l)) (some (iterSpec l)) rev0 hs
    | "windows" =>
      answer Windows.blocks sl (fun _ => noObs) (fun _ _ => noObs) (windows l n) (sized (windowsSpec n l)) rev0 hs
    | "chunks" =>
      answer Chunks.blocks sl (fun _ => noObs) (fun _ _ => noObs) (chunks l n) (sized (chunksSpec n l)) rev0 hs
    | "rchunks" =>
      answer RChunks.blocks sl (fun _ => noObs) (fun _ _ => noObs) (rchunks l n) (sized (rchunksSpec n l)) rev0 hs
    | "chunks_exact" =>
      answer ChunksExact.blocks sl (fun it => sl (ChunksExact.remainder it)) (fun _ _ => sl (chunksExactRem n l))
        (chunksExact l n) (sized (chunksExactSpec n l)) rev0 hs
    | "rchunks_exact" =>
      answer RChunksExact.blocks sl (fun it => sl (RChunksExact.remainder it)) (fun _ _ => sl (rchunksExactRem n l))
        (rchunksExact l n) (sized (rchunksExactSpec n l)) rev0 hs
    | "array_chunks" =>
      -- `remainder()` exists on `ArrayChunks` only, not on `ArrayChunksRev`
      answer ArrayChunks.blocks sl (fun it => if it.fwd then sl (ArrayChunks.remainder it) else noObs)
        (fun fl _ => if fl then noObs else sl (chunksExactRem n l))
        (arrayChunks l n) (sized (arrayChunksSpec n l)) rev0 hs
    | _ => none
  | _ => none

end Driver.C08
