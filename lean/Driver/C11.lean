import Driver.Util
import KonstVerif.Model.ArrayMacros
import KonstVerif.Spec.ArrayStd
/-
  C11 requests (prefixes `arr.` and `bld.`; the prefix is stripped by Main):

    arr.<mac> <ctx> <elem> <n> <exit>     mac  ∈ map | from_fn | map_ | from_fn_
                                           ctx  ∈ fn | const      (macro inside a fn / as a const initialiser)
                                           elem ∈ copy | log      (not used by the model)
                                           exit ∈ none | <kind>@<k>, kind ∈ brk cont cont1 ret lbrk lcont panic
          closure library (shared with the programs): map input = [10, 11, …], value = 2·x + 1;
          from_fn value = 3·i + 2; `cont1` = `continue` on the first visit of index k only;
          `ret`/`lbrk`/`lcont` leave the expansion (`return`, `break 'outer`, `continue 'outer`).
          answer: `[v;…]` | panic | timeout | returned | does-not-compile
    arr.cc <chain> <n> <exit>             collect_const!(usize => 0..n, [filter(even),] map(closure)), chain ∈ plain | filter
          answer: `[v;…]` | does-not-compile
    arr.safe.<mac> …                      same arguments as arr.<mac> with a reached early exit other than cont1:
                                          answer `noarray` unless an array is returned (then its value)
    bld.hist <n> <ops> [zst]              ops over p (push) c (clone, drop original) k (clone, drop clone)
                                          0..9 (clone with an element `Clone` that panics on its j-th call, caught;
                                          a clone that completes is dropped),
                                          A..H (a SECOND builder `t` gets m = 0..7 pushes, each caught;
                                          `cur.clone_from(&t)`; `t` dropped) and S..Z (`t` gets m = 0..7 pushes;
                                          `t.clone_from(&cur)`; `cur` dropped; continue with `t`): their step shows
                                          one more field, the SOURCE's `as_slice` after the call;
                                          last char b (build) | d (drop); `-` for none
          answer: per step `<op>=<ok|panic>,<len>,<t|f>,[ids]` joined by `;`, then `|b=[ids]`/`|b=panic`/`|d`,
                  then `|L=[id:m;id:d;…]` (ledger in event order; ids are creation numbers)
          with the third argument `zst` the elements are ZERO-SIZED tokens without identity: the same model
          run is observed as COUNTS — `[ids]` becomes the number of elements, `b=[ids]` becomes `b=arr:<n>`,
          the ledger becomes `Z=<created>,<dropped>,<moved>`
          elem ∈ zst | unit in arr.<mac>: zero-sized outputs, an array is shown as `[z;…;z]`
-/
namespace Driver.C11
open Konst Konst.ArrayMacros Konst.Spec.ArrayStd Driver

inductive Kind where
  | none | brk | cont | cont1 | ret | panic
deriving DecidableEq

def parseExit (s : String) : Option (Kind × Nat) :=
  if s = "none" then some (.none, 0) else
  match s.splitOn "@" with
  | [k, i] => do
    let i ← i.toNat?
    let k ← (match k with
      | "brk" => some Kind.brk | "cont" => some Kind.cont | "cont1" => some Kind.cont1
      | "ret" => some Kind.ret | "lbrk" => some Kind.ret | "lcont" => some Kind.ret
      | "panic" => some Kind.panic | _ => Option.none)
    some (k, i)
  | _ => Option.none

/-- outcome of the library closure at call `t`, index `i`, computing `v` -/
def outcome (kind : Kind) (k : Nat) (t i v : Nat) : Outcome Nat :=
  if i = k then
    match kind with
    | .none => .value v
    | .brk => .brk
    | .cont => .cont
    | .cont1 => if t = k then .cont else .value v
    | .ret => .ret
    | .panic => .panic
  else .value v

def showNats (l : List Nat) : String := showList (l.map toString)

def showRes : Res Nat → String
  | .array l => showNats l
  | .panic => "panic"
  | .diverge => "timeout"
  | .returned => "returned"
  | .ub => "UB"

def showVerdict : Verdict Nat → String
  | .value l => showNats l
  | .doesNotCompile => "does-not-compile"
  | .timeout => "timeout"

def showCC : CCRes Nat → String
  | .array l => showNats l
  | .constPanic => "does-not-compile"
  | .typeError => "does-not-compile"
  | .ub => "UB"

def FUEL : Nat := 4096

def mapF (x : Nat) : Nat := 2 * x + 1
def fromF (i : Nat) : Nat := 3 * i + 2

def handleArr (mac : String) (args : List String) : Option (String × String) := do
  match args with
  | [ctx, elem, n, exit] =>
    let zst := elem = "zst" ∨ elem = "unit"
    let showNats := fun (l : List Nat) => if zst then showList (l.map fun _ => "z") else showNats l
    let showRes := fun (r : Res Nat) => match r with | .array l => showNats l | r => showRes r
    let showVerdict := fun (v : Verdict Nat) => match v with | .value l => showNats l | v => showVerdict v
    let n ← n.toNat?
    let (kind, k) ← parseExit exit
    let xs := (List.range n).map (· + 10)
    let res : Res Nat ← (match mac with
      | "map" => some (arrayMap FUEL xs (fun t a => outcome kind k t (a - 10) (mapF a)))
      | "from_fn" => some (arrayFromFn FUEL n (fun t i => outcome kind k t i (fromF i)))
      | "map_" => some (arrayMapByVal FUEL xs (fun t a => outcome kind k t (a - 10) (mapF a))).res
      | "from_fn_" => some (arrayFromFnByVal FUEL n (fun t i => outcome kind k t i (fromF i))).res
      | _ => none)
    let model ← (match ctx with
      | "fn" => some (showRes res)
      | "const" => some (showVerdict (constVerdict res))
      | _ => none)
    let hostile := kind ≠ .none ∧ k < n
    let spec :=
      if ¬ hostile then
        (if mac = "map" ∨ mac = "map_" then showNats (stdMap mapF xs) else showNats (stdFromFn n fromF))
      else if kind = .panic then (if ctx = "fn" then "panic" else "does-not-compile")
      else "?"
    some (model, spec)
  | _ => none

def handleCC (args : List String) : Option (String × String) := do
  match args with
  | [chain, n, exit] =>
    let n ← n.toNat?
    let (kind, k) ← parseExit exit
    let items ← (match chain with
      | "plain" => some (List.range n)
      | "filter" => some ((List.range n).filter (· % 2 = 0))
      | _ => none)
    -- the closure is inlined once per item: call number = position in the item stream
    let src := items.mapIdx fun t i => outcome kind k (if kind = .cont1 then k else t) i (fromF i)
    let hostile := (kind ≠ .none ∧ items.contains k) ∨ kind = .ret
    let spec := if ¬ hostile then showNats (items.map fromF) else "?"
    some (showCC (collectConstProgram (kind = .ret) src), spec)
  | _ => none

/-- rendering of one builder history from a step function (shared by model and reference) -/
structure BTrace where
  steps : List String := []
  ledger : List String := []

def stepStr (zst : Bool) (op : Char) (ok : Bool) (len : Nat) (full : Bool) (sl : List Nat) : String :=
  s!"{op}={if ok then "ok" else "panic"},{len},{showBool full},{if zst then toString sl.length else showNats sl}"

/-- the ledger column: events in order, or (zero-sized tokens) created / dropped / moved counts -/
def ledgerStr (zst : Bool) (created : Nat) (led : List String) : String :=
  if zst then
    s!"Z={created},{(led.filter (·.endsWith ":d")).length},{(led.filter (·.endsWith ":m")).length}"
  else "L=" ++ showList led

def handleBldK (zst : Bool) (n ops : String) : Option (String × String) := do
    let stepStr := stepStr zst
    let showArr := fun (l : List Nat) => if zst then s!"arr:{l.length}" else showNats l
    let showSl := fun (l : List Nat) => if zst then toString l.length else showNats l
    let n ← n.toNat?
    let chars := if ops = "-" then [] else ops.toList
    let fresh : Nat → Nat → Nat := fun k _ => k
    -- model
    let rec goM : List Char → (ArrayBuilder.Builder Nat × Nat) → BTrace → Option String
      | [], _, _ => none
      | ch :: r, st, tr =>
        let obsStep := fun (op : ArrayBuilder.Op Nat) =>
          let res := ArrayBuilder.step fresh st op
          match res.2 with
          | .ub => (none : Option ((ArrayBuilder.Builder Nat × Nat) × BTrace))
          | .pushed ok =>
            let sl := (ArrayBuilder.asSlice res.1.1).getD []
            some (res.1, { steps := tr.steps ++ [stepStr ch ok (ArrayBuilder.len res.1.1) (ArrayBuilder.isFull res.1.1) sl],
                           ledger := tr.ledger ++ (if ok then [] else [s!"{st.2}:d"]) })
          | .cloned dr =>
            let sl := (ArrayBuilder.asSlice res.1.1).getD []
            some (res.1, { steps := tr.steps ++ [stepStr ch true (ArrayBuilder.len res.1.1) (ArrayBuilder.isFull res.1.1) sl],
                           ledger := tr.ledger ++ dr.map fun i => s!"{i}:d" })
          | .panicked dr =>
            let sl := (ArrayBuilder.asSlice res.1.1).getD []
            some (res.1, { steps := tr.steps ++ [stepStr ch false (ArrayBuilder.len res.1.1) (ArrayBuilder.isFull res.1.1) sl],
                           ledger := tr.ledger ++ dr.map fun i => s!"{i}:d" })
          | .clonedFrom rej old src =>
            let sl := (ArrayBuilder.asSlice res.1.1).getD []
            some (res.1, { steps := tr.steps ++ [stepStr ch true (ArrayBuilder.len res.1.1) (ArrayBuilder.isFull res.1.1) sl ++ "," ++ showSl src],
                           ledger := tr.ledger ++ (rej ++ old ++ src).map fun i => s!"{i}:d" })
        let fin := fun (f : String) (led : List String) =>
          (if tr.steps.isEmpty then "-" else ";".intercalate tr.steps) ++ "|" ++ f ++ "|" ++ ledgerStr zst st.2 (tr.ledger ++ led)
        match ch with
        | 'p' => (obsStep (.push st.2)).bind fun (s, t) => goM r s t
        | 'c' => (obsStep .clone).bind fun (s, t) => goM r s t
        | 'k' => (obsStep .cloneDrop).bind fun (s, t) => goM r s t
        | 'b' =>
          if r ≠ [] then none else
          match ArrayBuilder.build st.1 with
          | .array l => some (fin ("b=" ++ showArr l) (l.map fun i => s!"{i}:m"))
          | .panic => (ArrayBuilder.dropped st.1).map fun d => fin "b=panic" (d.map fun i => s!"{i}:d")
          | .ub => some "UB"
        | 'd' =>
          if r ≠ [] then none else
          (ArrayBuilder.dropped st.1).map fun d => fin "d" (d.map fun i => s!"{i}:d")
        | _ =>
          if ch.isDigit then (obsStep (.clonePanic (ch.toNat - '0'.toNat))).bind fun (s, t) => goM r s t
          else if 'A' ≤ ch ∧ ch ≤ 'H' then
            (obsStep (.cloneFrom ((List.range (ch.toNat - 'A'.toNat)).map (st.2 + ·)))).bind fun (s, t) => goM r s t
          else if 'S' ≤ ch ∧ ch ≤ 'Z' then
            (obsStep (.cloneInto ((List.range (ch.toNat - 'S'.toNat)).map (st.2 + ·)))).bind fun (s, t) => goM r s t
          else none
    -- reference: bounded vector
    let rec goS : List Char → (List Nat × Nat) → BTrace → Option String
      | [], _, _ => none
      | ch :: r, st, tr =>
        let obsStep := fun (op : ArrayBuilder.Op Nat) =>
          let res := bvStep fresh n st op
          match res.2 with
          | .ub => (none : Option ((List Nat × Nat) × BTrace))
          | .pushed ok =>
            some (res.1, { steps := tr.steps ++ [stepStr ch ok res.1.1.length (res.1.1.length == n) res.1.1],
                           ledger := tr.ledger ++ (if ok then [] else [s!"{st.2}:d"]) })
          | .cloned dr =>
            some (res.1, { steps := tr.steps ++ [stepStr ch true res.1.1.length (res.1.1.length == n) res.1.1],
                           ledger := tr.ledger ++ dr.map fun i => s!"{i}:d" })
          | .panicked dr =>
            some (res.1, { steps := tr.steps ++ [stepStr ch false res.1.1.length (res.1.1.length == n) res.1.1],
                           ledger := tr.ledger ++ dr.map fun i => s!"{i}:d" })
          | .clonedFrom rej old src =>
            some (res.1, { steps := tr.steps ++ [stepStr ch true res.1.1.length (res.1.1.length == n) res.1.1 ++ "," ++ showSl src],
                           ledger := tr.ledger ++ (rej ++ old ++ src).map fun i => s!"{i}:d" })
        let fin := fun (f : String) (led : List String) =>
          (if tr.steps.isEmpty then "-" else ";".intercalate tr.steps) ++ "|" ++ f ++ "|" ++ ledgerStr zst st.2 (tr.ledger ++ led)
        match ch with
        | 'p' => (obsStep (.push st.2)).bind fun (s, t) => goS r s t
        | 'c' => (obsStep .clone).bind fun (s, t) => goS r s t
        | 'k' => (obsStep .cloneDrop).bind fun (s, t) => goS r s t
        | 'b' =>
          if r ≠ [] then none else
          match bvBuild n st.1 with
          | some l => some (fin ("b=" ++ showArr l) (l.map fun i => s!"{i}:m"))
          | none => some (fin "b=panic" (st.1.map fun i => s!"{i}:d"))
        | 'd' =>
          if r ≠ [] then none else some (fin "d" (st.1.map fun i => s!"{i}:d"))
        | _ =>
          if ch.isDigit then (obsStep (.clonePanic (ch.toNat - '0'.toNat))).bind fun (s, t) => goS r s t
          else if 'A' ≤ ch ∧ ch ≤ 'H' then
            (obsStep (.cloneFrom ((List.range (ch.toNat - 'A'.toNat)).map (st.2 + ·)))).bind fun (s, t) => goS r s t
          else if 'S' ≤ ch ∧ ch ≤ 'Z' then
            (obsStep (.cloneInto ((List.range (ch.toNat - 'S'.toNat)).map (st.2 + ·)))).bind fun (s, t) => goS r s t
          else none
    let m ← goM chars (ArrayBuilder.new n, 0) {}
    let s ← goS chars ([], 0) {}
    some (m, s)

def handleBld (args : List String) : Option (String × String) :=
  match args with
  | [n, ops] => handleBldK false n ops
  | [n, ops, "zst"] => handleBldK true n ops
  | _ => none

/-- `arr.safe.<mac> …`: the same invocation observed only as "an array came back" (then its value) or
    `noarray` (panic / timeout / returned / does-not-compile); the documented oracle for a reached early
    exit is `noarray` -/
def handleSafe (mac : String) (args : List String) : Option (String × String) := do
  let (m, _) ← handleArr mac args
  some (if m.startsWith "[" then m else "noarray", "noarray")

def handle (fn : String) (args : List String) : Option (String × String) :=
  if fn = "cc" then handleCC args
  else if fn.startsWith "safe." then handleSafe (fn.drop 5).toString args
  else handleArr fn args

end Driver.C11
