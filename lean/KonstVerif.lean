import KonstVerif.Model.Basic
import KonstVerif.Model.Slice
import KonstVerif.Spec.Slice
import KonstVerif.Props.C02
import KonstVerif.Spec.Utf8
import KonstVerif.Props.C10
