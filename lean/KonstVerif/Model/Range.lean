import KonstVerif.Model.Basic
/-
  Model of konst's range iterators (C09), mirroring
    konst_kernel/src/step_kk.rs                    (`Step`, `StepRet`, `increment`, `decrement`,
                                                    `code_for_step!`, `declare_step_witness!`)
    konst_kernel/src/into_iter/range_into_iter.rs  (`RangeIter(+Rev)`, `RangeInclusiveIter(+Rev)`,
                                                    `RangeFromIter`, `const_into_iter`)
    konst_kernel/src/macros/into_iter_macros.rs    (`iterator_shared!`: `next`/`next_back`/`rev`/`copy`)
  as the code is in /repo now.

  * The twelve integer types are the instances `intStep MIN MAX` (values are `Int`s; the only thing
    the code knows about a type is its `MIN`/`MAX` and two's-complement wrap-around), the `char`
    arm is `charStep` (values are `Nat` scalar values).  The type-witness dispatch of
    `increment<T>`/`decrement<T>` becomes the record `Step α` that is passed explicitly.
  * A panic (`opt_unwrap!` on `None`, a failing `debug_assert!`) is the outcome `panic`, never a
    default value.  `debug_assert!` is modelled as active (the harness builds konst with
    `debug-assertions = true`; const evaluation of a debug build behaves the same).
  * By-value `next(self) -> Option<(T, Self)>` becomes `σ → Outcome α σ`.
-/
namespace Konst.Range

/-- `StepRet<T>` (step_kk.rs) -/
structure StepRet (α : Type) where
  finishedInclusive : Bool
  finishedExclusive : Bool
  overflowed : Bool
  next : α
deriving Repr, DecidableEq

/-- `trait Step` (`MIN_VAL`, `MAX_VAL`) together with the arm of `increment`/`decrement` that the
    type witness selects for the type.  `none` = the call panicked. -/
structure Step (α : Type) where
  minVal : α
  maxVal : α
  increment : α → α → Option (StepRet α)
  decrement : α → α → Option (StepRet α)

/-! ### integer arm of `code_for_step!` -/

/-- `x.overflowing_add(1)` for an integer type with range `MIN..=MAX` (two's-complement wrap) -/
def overflowingAdd1 (MIN MAX : Int) (x : Int) : Int × Bool :=
  let n := x + 1
  if n > MAX then (n - (MAX - MIN + 1), true) else (n, false)

/-- `x.overflowing_sub(1)` -/
def overflowingSub1 (MIN MAX : Int) (x : Int) : Int × Bool :=
  let n := x - 1
  if n < MIN then (n + (MAX - MIN + 1), true) else (n, false)

/-- `code_for_step!(int, increment, start, end, ..)` -/
def intIncrement (MIN MAX : Int) (start end_ : Int) : Option (StepRet Int) :=
  let (next, overflowed) := overflowingAdd1 MIN MAX start
  some { finishedInclusive := decide (start > end_)
         finishedExclusive := decide (start ≥ end_)
         overflowed := overflowed
         next := next }

/-- `code_for_step!(int, decrement, start, end, ..)` -/
def intDecrement (MIN MAX : Int) (start end_ : Int) : Option (StepRet Int) :=
  let (next, overflowed) := overflowingSub1 MIN MAX end_
  some { finishedInclusive := decide (end_ < start)
         finishedExclusive := decide (end_ ≤ start)
         overflowed := overflowed
         next := next }

/-- `impl Step for $int` : `MIN_VAL = <$ty>::MIN`, `MAX_VAL = <$ty>::MAX` -/
def intStep (MIN MAX : Int) : Step Int :=
  { minVal := MIN, maxVal := MAX, increment := intIncrement MIN MAX, decrement := intDecrement MIN MAX }

/-! ### char arm of `code_for_step!` -/

/-- `chr::from_u32` (konst_kernel/src/chr.rs) on scalar values -/
def fromU32 (n : Nat) : Option Nat :=
  if n < 0xD800 ∨ (0xE000 ≤ n ∧ n ≤ 0x10FFFF) then some n else none

/-- `code_for_step!(char, increment, start, end, ..)`; `opt_unwrap!` panics on `None` -/
def charIncrement (start end_ : Nat) : Option (StepRet Nat) :=
  let (nextNum, overflowed) :=
    if start = 0xD7FF then (0xE000, false)
    else if start = 0x10FFFF then (0, true)
    else (start + 1, false)
  match fromU32 nextNum with
  | none => none
  | some next =>
    some { finishedInclusive := decide (start > end_)
           finishedExclusive := decide (start ≥ end_)
           overflowed := overflowed
           next := next }

/-- `code_for_step!(char, decrement, start, end, ..)` -/
def charDecrement (start end_ : Nat) : Option (StepRet Nat) :=
  let (nextNum, overflowed) :=
    if end_ = 0 then (0x10FFFF, true)
    else if end_ = 0xE000 then (0xD7FF, false)
    else (end_ - 1, false)
  match fromU32 nextNum with
  | none => none
  | some next =>
    some { finishedInclusive := decide (end_ < start)
           finishedExclusive := decide (end_ ≤ start)
           overflowed := overflowed
           next := next }

/-- `impl Step for char` : `MIN_VAL = '\0'`, `MAX_VAL = char::MAX` -/
def charStep : Step Nat :=
  { minVal := 0, maxVal := 0x10FFFF, increment := charIncrement, decrement := charDecrement }

/-! ### the iterators -/

/-- result of one by-value step: `panic`, `None`, or `Some((item, iterator))` -/
inductive Outcome (α σ : Type) where
  | panic
  | done
  | item (x : α) (s : σ)
deriving Repr, DecidableEq

/-- `fields = {start, end}` of `RangeIter`, `RangeIterRev`, `RangeInclusiveIter`, `RangeInclusiveIterRev` -/
structure Fields (α : Type) where
  start : α
  end_ : α
deriving Repr, DecidableEq

/-- `int_range_shared!`: the `next(self)` block -/
def rangeNextBlock {α} (S : Step α) (s : Fields α) : Outcome α (Fields α) :=
  match S.increment s.start s.end_ with
  | none => .panic
  | some r =>
    if r.finishedExclusive then .done
    else .item s.start { s with start := r.next }

/-- `int_range_shared!`: the `next_back` block (`debug_assert!(!overflowed)`, then yields the new end) -/
def rangeNextBackBlock {α} (S : Step α) (s : Fields α) : Outcome α (Fields α) :=
  match S.decrement s.start s.end_ with
  | none => .panic
  | some r =>
    if r.finishedExclusive then .done
    else if r.overflowed then .panic
    else .item r.next { s with end_ := r.next }

/-- `int_range_inc_shared!`: the `next(self)` block, including the `(MAX_VAL, MIN_VAL)` exhausted encoding -/
def rangeIncNextBlock {α} (S : Step α) (s : Fields α) : Outcome α (Fields α) :=
  match S.increment s.start s.end_ with
  | none => .panic
  | some r =>
    if r.finishedInclusive then .done
    else
      .item s.start (if r.overflowed then { start := S.maxVal, end_ := S.minVal }
                     else { s with start := r.next })

/-- `int_range_inc_shared!`: the `next_back` block -/
def rangeIncNextBackBlock {α} (S : Step α) (s : Fields α) : Outcome α (Fields α) :=
  match S.decrement s.start s.end_ with
  | none => .panic
  | some r =>
    if r.finishedInclusive then .done
    else
      .item s.end_ (if r.overflowed then { start := S.maxVal, end_ := S.minVal }
                    else { s with end_ := r.next })

/-- `__choose!($is_forward a b)` -/
def choose {β : Type} (isForward : Bool) (a b : β) : β := if isForward then a else b

/-- a `RangeIter<T>` (`isForward = true`) or `RangeIterRev<T>` (`isForward = false`): same fields,
    the type-level `is_forward` of `iterator_shared!` as a value -/
structure Iter (α : Type) where
  isForward : Bool
  fields : Fields α
deriving Repr, DecidableEq

/-- `IntoIterWrapper<Range<T>>::const_into_iter` / `…<RangeInclusive<T>>…` (both copy the two bounds) -/
def Iter.ofBounds {α} (a b : α) : Iter α := { isForward := true, fields := { start := a, end_ := b } }

/-- `iterator_shared!`: `rev(self)` moves the same fields into the other type -/
def Iter.rev {α} (it : Iter α) : Iter α := { it with isForward := !it.isForward }

def liftFields {α} (fwd : Bool) : Outcome α (Fields α) → Outcome α (Iter α)
  | .panic => .panic
  | .done => .done
  | .item x f => .item x { isForward := fwd, fields := f }

/-- `RangeIter::next` / `RangeIterRev::next` -/
def RangeIter.next {α} (S : Step α) (it : Iter α) : Outcome α (Iter α) :=
  liftFields it.isForward (choose it.isForward (rangeNextBlock S it.fields) (rangeNextBackBlock S it.fields))

/-- `RangeIter::next_back` / `RangeIterRev::next_back` -/
def RangeIter.nextBack {α} (S : Step α) (it : Iter α) : Outcome α (Iter α) :=
  liftFields it.isForward (choose it.isForward (rangeNextBackBlock S it.fields) (rangeNextBlock S it.fields))

/-- `RangeInclusiveIter::next` / `RangeInclusiveIterRev::next` -/
def RangeInclusiveIter.next {α} (S : Step α) (it : Iter α) : Outcome α (Iter α) :=
  liftFields it.isForward (choose it.isForward (rangeIncNextBlock S it.fields) (rangeIncNextBackBlock S it.fields))

/-- `RangeInclusiveIter::next_back` / `RangeInclusiveIterRev::next_back` -/
def RangeInclusiveIter.nextBack {α} (S : Step α) (it : Iter α) : Outcome α (Iter α) :=
  liftFields it.isForward (choose it.isForward (rangeIncNextBackBlock S it.fields) (rangeIncNextBlock S it.fields))

/-- `RangeFromIter::next`: `increment(self.start, T::MAX_VAL)`, `debug_assert!(!overflowed)`; never `None` -/
def RangeFromIter.next {α} (S : Step α) (start : α) : Outcome α α :=
  match S.increment start S.maxVal with
  | none => .panic
  | some r => if r.overflowed then .panic else .item start r.next

/-! ### histories -/

/-- a front/back history applied to a by-value double-ended iterator; `none` = some call panicked,
    otherwise the answer of every call (`some x` / `none`; after `None` the iterator is unchanged) -/
def run {α σ} (next nextBack : σ → Outcome α σ) : σ → List Dir → Option (List (Option α))
  | _, [] => some []
  | s, d :: h =>
    match (match d with | .f => next s | .b => nextBack s) with
    | .panic => none
    | .done => (run next nextBack s h).map (none :: ·)
    | .item x s' => (run next nextBack s' h).map (some x :: ·)

def runRange {α} (S : Step α) (it : Iter α) (h : List Dir) : Option (List (Option α)) :=
  run (RangeIter.next S) (RangeIter.nextBack S) it h

def runRangeInc {α} (S : Step α) (it : Iter α) (h : List Dir) : Option (List (Option α)) :=
  run (RangeInclusiveIter.next S) (RangeInclusiveIter.nextBack S) it h

/-- `k` calls of `RangeFromIter::next` -/
def runRangeFrom {α} (S : Step α) : α → Nat → Option (List α)
  | _, 0 => some []
  | s, k + 1 =>
    match RangeFromIter.next S s with
    | .panic => none
    | .done => some []
    | .item x s' => (runRangeFrom S s' k).map (x :: ·)

/-- the loop the iteration macros (`for_each!`, `iter::eval!`, `collect_const!`) emit around an iterator:
    `loop { if let Some((elem, next)) = iter.next() { iter = next; … } else { break } }`.
    `fuel` bounds the number of turns; `none` = a call panicked or the fuel ran out. -/
def drain {α σ} (next : σ → Outcome α σ) : Nat → σ → Option (List α)
  | 0, _ => none
  | fuel + 1, s =>
    match next s with
    | .panic => none
    | .done => some []
    | .item x s' => (drain next fuel s').map (x :: ·)

/-! ### `a..` observed step by step, up to and past `MAX_VAL`

What a consumer of an iteration sees at each step: an item, a panic, or the END of the iteration (`None`
from the source while the consumer still wanted items).  The loops below are the ones the macros emit
(konst_kernel/src/iter.rs `__cim_take_guard!`, iter/combinator_methods.rs `take`/`zip`, iter_eval_macro.rs
`nth`/`next`/`find`) around
`iter.next()`, generic in the source iterator `next : σ → Outcome α σ`; the harness instantiates them with
`RangeFromIter::next`, which has no `None` branch at all: at `MAX_VAL` it panics (`debug_assert!`). -/

/-- one observation -/
inductive Tok (α : Type) where
  | v (x : α)
  | panic
  | end_
  | runaway      -- the harness's own guard: the closure of `find` was called more often than its limit
deriving Repr, DecidableEq

/-- `vals` yielded, then a panic (`true`) or nothing more asked (`false`) -/
def Tok.ofRun {α} (r : List α × Bool) : List (Tok α) := r.1.map .v ++ (if r.2 then [.panic] else [])

/-- `k` by-value calls of `next` (`it.copy().next()`), stopping at the first panic or `None` -/
def pulls {α σ} (next : σ → Outcome α σ) : σ → Nat → List (Tok α)
  | _, 0 => []
  | s, k + 1 =>
    match next s with
    | .panic => [.panic]
    | .done => [.end_]
    | .item x s' => .v x :: pulls next s' k

/-- `for_each!{x in it => { push(x); if pushed == k { break } }}` for `k ≥ 1`; `rem = k - pushed` at the loop
    head.  Leaving the loop through `None` with fewer than `k` items is the observation `end`. -/
def forEachBreak {α σ} (next : σ → Outcome α σ) : σ → Nat → List (Tok α)
  | _, 0 => []
  | s, rem + 1 =>
    match next s with
    | .panic => [.panic]
    | .done => [.end_]
    | .item x s' => .v x :: (if rem = 0 then [] else forEachBreak next s' rem)

/-- `it, take(k)` as emitted since 9827f8a / 7ecb606 (`__cim_take_guard!` in iter.rs, `take` in
    combinator_methods.rs):
    `loop { if rem == 0 { break }; let item = next() else break; if rem == 0 { break } else { rem -= 1 }; body }` —
    the countdown is tested at the TOP of the loop, before the source is pulled, so exactly `k` items are pulled
    (`takeLoop_eq_pulls`); the test `take` emits in place after the pull is still there and can no longer be true.
    `None` from the source (only reached with `rem > 0`: fewer than `k` items got to the body) is the
    observation `end`. -/
def takeLoop {α σ} (next : σ → Outcome α σ) : σ → Nat → List (Tok α)
  | s, rem =>
    if rem = 0 then []                 -- `__cim_take_guard!`: `if rem == 0 { break }` before `next()`
    else
      match next s with
      | .panic => [.panic]
      | .done => [.end_]
      | .item x s' =>
        match rem with
        | 0 => []                      -- `take`'s own `if rem == 0 { break }`: dead after the guard
        | rem + 1 => .v x :: takeLoop next s' rem

/-- `it, zip(other)` where `other` still has `m` items:
    `loop { let item = next() else break; let item = if let Some(e) = other.next() { (item, e) } else { break }; body }` -/
def zipLoop {α σ} (next : σ → Outcome α σ) : σ → Nat → List (Tok α)
  | s, m =>
    match next s with
    | .panic => [.panic]
    | .done => if m = 0 then [] else [.end_]
    | .item x s' =>
      match m with
      | 0 => []
      | m + 1 => .v x :: zipLoop next s' m

/-- `outer, zip(it)` where `outer` still has `m` items: `outer.next()` first (`None` ⇒ break), then `it.next()`
    (`None` ⇒ break: fewer than `m` items, the observation `end`) -/
def zipInLoop {α σ} (next : σ → Outcome α σ) : σ → Nat → List (Tok α)
  | _, 0 => []
  | s, m + 1 =>
    match next s with
    | .panic => [.panic]
    | .done => [.end_]
    | .item x s' => .v x :: zipInLoop next s' m

/-- `eval!(it, nth(n))`: `loop { let item = next() else break; if nth == 0 { ret = Some(item); break } else { nth -= 1 } }`;
    `eval!(it, next())` is the same code without the counter (`nthLoop · · 0`) -/
def nthLoop {α σ} (next : σ → Outcome α σ) : σ → Nat → Tok α
  | s, n =>
    match next s with
    | .panic => .panic
    | .done => .end_
    | .item x s' =>
      match n with
      | 0 => .v x
      | n + 1 => nthLoop next s' n

/-- `eval!(it, find(p))`: `loop { let item = next() else break; if p(&item) { ret = Some(item); break } }`;
    `fuel` = how many more calls of `p` the harness's guard allows -/
def findLoop {α σ} (next : σ → Outcome α σ) (p : α → Bool) : σ → Nat → Tok α
  | s, fuel =>
    match next s with
    | .panic => .panic
    | .done => .end_
    | .item x s' =>
      match fuel with
      | 0 => .runaway
      | fuel + 1 => if p x then .v x else findLoop next p s' fuel

end Konst.Range

namespace Konst.Range

/-- `konst::for_range!{x in start..end => body}` (konst_kernel/src/macros/control_flow.rs):
    `let Range{mut start, end} = range; while start < end { let x = start; start += 1; body }`.
    The values bound to `x`, in order (`fuel` bounds the number of turns). -/
def forRange (start end_ : Int) : Nat → List Int
  | 0 => []
  | fuel + 1 => if start < end_ then start :: forRange (start + 1) end_ fuel else []

end Konst.Range
