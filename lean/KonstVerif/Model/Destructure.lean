/-
  Model of `konst::destructure!` (konst/src/macros/destructuring.rs), import-free.  The macro has no
  logic beyond its field list; the model is correspondingly thin:

    * the value is wrapped in `ManuallyDrop`, so nothing is dropped except what the macro reads out;
    * one `ptr::read`/`read_unaligned` per LISTED field, in the order listed
      (`__destructure_struct`, `__destructure_tuple`, `__destructure_array__read_elems`);
    * a guard pattern (`let val @ Struct { f: _, … } = $val`, `let val @ (_, …, _): (_, …, _)`,
      `let [_, rem @ .., _] = array`) makes rustc reject the invocation unless the listed fields are
      exactly the fields of the aggregate — modelled as `guard*`, a verdict, not a theorem about rustc;
    * a field read into a `_` pattern is a temporary dropped at the end of its `let` statement
      ("immediately"); a bound field becomes a variable of the caller.

  Not modelled (a fact about pointers, not about which field is read): struct fields are read with
  `read_unaligned` because a `#[repr(packed)]` struct may hold them at misaligned offsets.  It is OBSERVED:
  the generated programs destructure packed structs with misaligned u16/u32/u64/String fields inside
  `const` items / `const fn`s (the const evaluator rejects a misaligned typed read, E0080) and, in the
  thorough tier, under Miri (`destr.const`, `destr.miri`, vlib/progs/c15.py).
-/
namespace Konst.Destructure

inductive Pat where
  | bind | wild
deriving Repr, DecidableEq

variable {α : Type}

/-- braced structs: `listed` = (field index, pattern) in the order the user wrote the fields.
    Guard `let val @ Path { f0: _, f1: _, … } = $val`: every field named exactly once (E0027/E0025/E0026
    otherwise); `..` is rejected by a `compile_error!` arm, so it cannot be written at all. -/
def guardStruct (nfields : Nat) (listed : List Nat) : Bool :=
  listed.isPerm (List.range nfields)

/-- the sequence of reads `let PAT = ptr::read_unaligned(&raw mut (*ptr).field)`, in statement order -/
def readsStruct (fields : List α) (listed : List (Nat × Pat)) : List (Pat × α) :=
  listed.filterMap fun (i, p) => fields[i]?.map fun v => (p, v)

def destructureStruct (fields : List α) (listed : List (Nat × Pat)) : Option (List (Pat × α)) :=
  if guardStruct fields.length (listed.map (·.1)) then some (readsStruct fields listed) else none

/-- tuples and tuple structs: positional patterns, field names `0 1 2 … 15` are attached in order
    (`__destructure__tuple_field_names`): at most 16, and the guard pattern fixes the arity -/
def destructureTuple (fields : List α) (pats : List Pat) : Option (List (Pat × α)) :=
  if pats.length ≤ 16 && pats.length == fields.length then some (pats.zip fields) else none

/-- arrays: `[prefix…, rest (`r @ ..` or `..`), suffix…]`; without a rest pattern the counts must agree -/
structure ArrayPat where
  pre : List Pat
  rest : Option Pat
  suf : List Pat
deriving Repr

/-- `__destructure_array__read_elems`: `let PAT = ptr::read(ptr.add(i)); i += 1;` for each pattern -/
def readElems (elems : List α) : List Pat → Nat → List (Pat × List α) × Nat
  | [], i => ([], i)
  | p :: r, i =>
    let rest := readElems elems r (i + 1)
    ((p, (elems.drop i).take 1) :: rest.1, rest.2)

/-- `__destructure_array`: prefix reads, then the rest is read as one `[T; M]` at `ptr.add(i)` with
    `M` fixed by the guard pattern `[_, …, rem @ .., _, …] = array`, `i += M`, then suffix reads.
    Each entry is one `let`: (pattern, elements moved by that read). -/
def destructureArray (elems : List α) (p : ArrayPat) : Option (List (Pat × List α)) :=
  match p.rest with
  | none =>
    if p.pre.length + p.suf.length == elems.length then
      some ((readElems elems p.pre 0).1 ++ (readElems elems p.suf (readElems elems p.pre 0).2).1)
    else none
  | some rp =>
    if p.pre.length + p.suf.length ≤ elems.length then
      let m := elems.length - (p.pre.length + p.suf.length)
      let a := readElems elems p.pre 0
      some (a.1 ++ [(rp, (elems.drop a.2).take m)] ++ (readElems elems p.suf (a.2 + m)).1)
    else none

/-- elements dropped inside the macro's own statements (`_` patterns), in order -/
def immediate (reads : List (Pat × α)) : List α :=
  (reads.filter (·.1 == .wild)).map (·.2)

/-- elements that end up in variables of the caller, in order -/
def bound (reads : List (Pat × α)) : List α :=
  (reads.filter (fun r => !(r.1 == .wild))).map (·.2)

end Konst.Destructure
