import KonstVerif.Model.Basic
import KonstVerif.Model.Utf8
import KonstVerif.Model.Chr
import KonstVerif.Model.Hist
/-
  Model of `konst::string::{chars, char_indices}` and their iterators.
  The `this: &str` field is a `View` into the string `s` the iterator was created from (so that
  `as_str` can be compared by position, not only by content); every function takes `s` explicitly.

  mirrors (konst/src/string/chars_methods.rs, konst_kernel/src/macros/into_iter_macros.rs):
    chars, Chars::{next, next_back, as_str, rev, copy}, RChars::{next, next_back, rev, copy},
    char_indices, CharIndices::{..}, RCharIndices::{..}
  `iterator_shared!` gives the reversed types the same fields and swaps the two blocks.
-/
namespace Konst.Chars

open Konst Konst.Utf8 Konst.Chr Konst.Hist

/-- `Chars { this }` (also the fields of `RChars`) -/
structure Chars where
  this : View
deriving Repr, DecidableEq, Inhabited

/-- `chars(string) = Chars { this: string }` -/
def chars (s : List Nat) : Chars := ⟨⟨0, s.length⟩⟩

/-- `Chars::next` block:
    `if this.is_empty() { return None }`
    `let split_at = __find_next_char_boundary(this.as_bytes(), 0);`
    `let (prev, next) = string::split_at(this, split_at);`
    `Some((string_to_char(prev), Self { this: next }))` -/
def Chars.next (s : List Nat) (it : Chars) : Except Panic (Option (Nat × Chars)) :=
  let this := it.this.apply s
  if this.isEmpty then .ok none
  else
    let splitAt_ := findNextCharBoundary this 0
    match Utf8.splitAt this splitAt_ with
    | .error p => .error p
    | .ok (prev, next) => .ok (some (stringToChar (prev.apply this), ⟨it.this.comp next⟩))

/-- `Chars::next_back` block:
    `let split_at = __find_prev_char_boundary(this.as_bytes(), this.len());`
    `let (prev, next) = string::split_at(this, split_at);`
    `Some((string_to_char(next), Self { this: prev }))`
    (arithmetic underflow inside `__find_prev_char_boundary` is reported as a panic at index 0) -/
def Chars.nextBack (s : List Nat) (it : Chars) : Except Panic (Option (Nat × Chars)) :=
  let this := it.this.apply s
  if this.isEmpty then .ok none
  else
    match findPrevCharBoundary this this.length with
    | none => .error ⟨"underflow", 0⟩
    | some splitAt_ =>
      match Utf8.splitAt this splitAt_ with
      | .error p => .error p
      | .ok (prev, next) => .ok (some (stringToChar (next.apply this), ⟨it.this.comp prev⟩))

/-- `Chars::as_str` -/
def Chars.asStr (it : Chars) : View := it.this
/-- `copy` -/
def Chars.copy (it : Chars) : Chars := ⟨it.this⟩

/-- `RChars` has the same field; `rev` moves it over -/
structure RChars where
  this : View
deriving Repr, DecidableEq, Inhabited

def Chars.rev (it : Chars) : RChars := ⟨it.this⟩
def RChars.rev (it : RChars) : Chars := ⟨it.this⟩
def RChars.copy (it : RChars) : RChars := ⟨it.this⟩

/-- the reversed types run the other block and wrap the new fields in their own type -/
def mapSt {ι σ τ : Type} (f : σ → τ) :
    Except Panic (Option (ι × σ)) → Except Panic (Option (ι × τ))
  | .error p => .error p
  | .ok none => .ok none
  | .ok (some (x, s)) => .ok (some (x, f s))

/-- `RChars::next` is the `next_back` block (`__choose!(false ..)`) -/
def RChars.next (s : List Nat) (it : RChars) : Except Panic (Option (Nat × RChars)) :=
  mapSt Chars.rev (Chars.nextBack s it.rev)
/-- `RChars::next_back` is the `next` block -/
def RChars.nextBack (s : List Nat) (it : RChars) : Except Panic (Option (Nat × RChars)) :=
  mapSt Chars.rev (Chars.next s it.rev)

/-- `CharIndices { this, start_offset }` (also the fields of `RCharIndices`) -/
structure CharIndices where
  this : View
  startOffset : Nat
deriving Repr, DecidableEq, Inhabited

/-- `char_indices(string)` -/
def charIndices (s : List Nat) : CharIndices := ⟨⟨0, s.length⟩, 0⟩

/-- `CharIndices::next` block: item `(self.start_offset, char)`, new state
    `{ this: next, start_offset: self.start_offset + split_at }` -/
def CharIndices.next (s : List Nat) (it : CharIndices) :
    Except Panic (Option ((Nat × Nat) × CharIndices)) :=
  let this := it.this.apply s
  if this.isEmpty then .ok none
  else
    let splitAt_ := findNextCharBoundary this 0
    match Utf8.splitAt this splitAt_ with
    | .error p => .error p
    | .ok (prev, next) =>
      let ret : CharIndices := ⟨it.this.comp next, it.startOffset + splitAt_⟩
      .ok (some ((it.startOffset, stringToChar (prev.apply this)), ret))

/-- `CharIndices::next_back` block: item `(self.start_offset + split_at, char)`, new state
    `{ this: prev, start_offset: self.start_offset }` -/
def CharIndices.nextBack (s : List Nat) (it : CharIndices) :
    Except Panic (Option ((Nat × Nat) × CharIndices)) :=
  let this := it.this.apply s
  if this.isEmpty then .ok none
  else
    match findPrevCharBoundary this this.length with
    | none => .error ⟨"underflow", 0⟩
    | some splitAt_ =>
      match Utf8.splitAt this splitAt_ with
      | .error p => .error p
      | .ok (prev, next) =>
        let ret : CharIndices := ⟨it.this.comp prev, it.startOffset⟩
        .ok (some ((it.startOffset + splitAt_, stringToChar (next.apply this)), ret))

def CharIndices.asStr (it : CharIndices) : View := it.this
def CharIndices.copy (it : CharIndices) : CharIndices := ⟨it.this, it.startOffset⟩

/-- `RCharIndices` has the same fields; `rev` moves them over -/
structure RCharIndices where
  this : View
  startOffset : Nat
deriving Repr, DecidableEq, Inhabited

def CharIndices.rev (it : CharIndices) : RCharIndices := ⟨it.this, it.startOffset⟩
def RCharIndices.rev (it : RCharIndices) : CharIndices := ⟨it.this, it.startOffset⟩
def RCharIndices.copy (it : RCharIndices) : RCharIndices := ⟨it.this, it.startOffset⟩

/-- `RCharIndices::next` is the `next_back` block -/
def RCharIndices.next (s : List Nat) (it : RCharIndices) :
    Except Panic (Option ((Nat × Nat) × RCharIndices)) :=
  mapSt CharIndices.rev (CharIndices.nextBack s it.rev)
/-- `RCharIndices::next_back` is the `next` block -/
def RCharIndices.nextBack (s : List Nat) (it : RCharIndices) :
    Except Panic (Option ((Nat × Nat) × RCharIndices)) :=
  mapSt CharIndices.rev (CharIndices.next s it.rev)

/-- running a history on the forward types: `f` = `next`, `b` = `next_back`; on the reversed
    types (`.rev()` first) the two blocks are swapped, so the same runner is used with the
    directions exchanged — `rev` itself only moves the fields. -/
def Chars.steps (s : List Nat) (it : Chars) (h : List Dir) : List (Obs Nat × Chars) :=
  Hist.steps (Chars.next s) (Chars.nextBack s) it h

def CharIndices.steps (s : List Nat) (it : CharIndices) (h : List Dir) :
    List (Obs (Nat × Nat) × CharIndices) :=
  Hist.steps (CharIndices.next s) (CharIndices.nextBack s) it h

/-- history on `RChars` (the iterator obtained by `.rev()`) -/
def RChars.steps (s : List Nat) (it : RChars) (h : List Dir) : List (Obs Nat × RChars) :=
  Hist.steps (RChars.next s) (RChars.nextBack s) it h

def RCharIndices.steps (s : List Nat) (it : RCharIndices) (h : List Dir) :
    List (Obs (Nat × Nat) × RCharIndices) :=
  Hist.steps (RCharIndices.next s) (RCharIndices.nextBack s) it h

end Konst.Chars
