/-
  C19 — model of konst's Option/Result macros, `try_!`/`try_opt!`, the tuple walker behind
  `try_rebind!`/`rebind_if_ok!`, and `min!`/`max!` with their `_by`/`_by_key` forms.
  Import-free (core Lean only).  Mirrors /repo at HEAD (after bac3b9b, the F4 repair — the walker as it
  was before is kept in `Legacy/Rebind.lean` — and a6790b3, the F19 repair, `Legacy/OptResCapture.lean`).

  Conventions
  * `Option<T>` is `Option α`; `Result<T, E>` is `Except ε α` (`Ok` = `.ok`, `Err` = `.error`).
  * A closure / function argument is an arbitrary total function.  Evaluation happens in `Ev`, a
    state-passing computation whose state is the NUMBER OF CALLS made so far: calling the argument is
    `Ev.call`, so "how often was the fallback evaluated" is an output of every model function.
    (A pseudo-closure `|| expr` is inlined by the macros, a function path is called as `$f()`;
    both evaluate the argument's body once at the place where it is written — one `Ev.call`.)
  * The eager forms (`unwrap_or!(e, v)`, `ok_or!(e, v)`) take the already-built computation of `v`
    and run it once, before the `match`, as the `match ($e, $v)` tuple does.
  * `return` out of the enclosing function is an explicit outcome (`Flow.ret`).
-/
namespace Konst.OptRes

/-! ## evaluation with a call counter -/

/-- a computation that threads the number of closure calls made so far -/
def Ev (α : Type) : Type := Nat → α × Nat

namespace Ev
variable {α β : Type}

def pure (a : α) : Ev α := fun n => (a, n)
def bind (m : Ev α) (f : α → Ev β) : Ev β := fun n => f (m n).1 (m n).2
instance : Monad Ev where
  pure := Ev.pure
  bind := Ev.bind

/-- one call of a closure / function argument -/
def call (f : α → β) (x : α) : Ev β := fun n => (f x, n + 1)

/-- run from a counter of zero: (value, number of calls) -/
def run (m : Ev α) : α × Nat := m 0

end Ev

variable {α β ε φ : Type}

/-! ## konst_kernel/src/macros/option_macros_.rs -/

/-- outcome of a macro that may panic -/
inductive OrPanic (α : Type) where
  | val (a : α)
  | panic
deriving Repr, DecidableEq

/-- `opt_unwrap!`: `Some(x) => x, None => panic!(..)` -/
def optUnwrap : Option α → OrPanic α
  | some x => .val x
  | none => .panic

/-- `opt_unwrap_or!`: `match ($e, $v) { (Some(x), _) => x, (None, value) => value }` — building the
    tuple evaluates `$v` once whatever `$e` is -/
def optUnwrapOr (o : Option α) (v : Ev α) : Ev α := do
  let value ← v
  match o, value with
  | some x, _ => pure x
  | none, value => pure value

/-- `opt_unwrap_or_else!`, arm `|| $v` (body inlined in the `None` arm) and arm `$v:expr` (`$v()` in
    the `None` arm) -/
def optUnwrapOrElse (o : Option α) (f : Unit → α) : Ev α :=
  match o with
  | some x => pure x
  | none => Ev.call f ()

/-- `opt_ok_or!`: `match ($e, $v) { (Some(x), _) => Ok(x), (None, value) => Err(value) }` -/
def optOkOr (o : Option α) (v : Ev ε) : Ev (Except ε α) := do
  let value ← v
  match o, value with
  | some x, _ => pure (.ok x)
  | none, value => pure (.error value)

/-- `opt_ok_or_else!`, arms `|| $v` and `$v:expr` -/
def optOkOrElse (o : Option α) (f : Unit → ε) : Ev (Except ε α) :=
  match o with
  | some x => pure (.ok x)
  | none => do let e ← Ev.call f (); pure (.error e)

/-- `opt_map!`, arms `|$param| $mapper` (`Some($param) => Some($mapper)`) and `$function:path`
    (`Some(x) => Some($function(x))`) -/
def optMap (o : Option α) (f : α → β) : Ev (Option β) :=
  match o with
  | some x => do let y ← Ev.call f x; pure (some y)
  | none => pure none

/-- `opt_and_then!`, arms `|$param| $mapper` and `$function:path` -/
def optAndThen (o : Option α) (f : α → Option β) : Ev (Option β) :=
  match o with
  | some x => Ev.call f x
  | none => pure none

/-- `opt_flatten!`: `Some(x) => x, None => None` -/
def optFlatten (o : Option (Option α)) : Option α :=
  match o with
  | some x => x
  | none => none

/-- `opt_or_else!`, arms `|| $mapper` and `$function:path` (`None => $function()`) -/
def optOrElse (o : Option α) (f : Unit → Option α) : Ev (Option α) :=
  match o with
  | some x => pure (some x)
  | none => Ev.call f ()

/-- `opt_filter!`: `Some(x) => if <predicate on &x> { Some(x) } else { None }, None => None` (arm
    `|$param| $v` binds `let $param = &x;` and inlines `$v`; arm `$function:path` calls `$function(&x)`;
    exhaustive since a6790b3) -/
def optFilter (o : Option α) (p : α → Bool) : Ev (Option α) :=
  match o with
  | some x => do
    let keep ← Ev.call p x
    if keep then pure (some x) else pure none
  | none => pure none

/-- `konst::option::copied`: `Some(x) => Some(*x), None => None` (a reference is modelled by its
    referent) -/
def optCopied (o : Option α) : Option α :=
  match o with
  | some x => some x
  | none => none

/-! ## konst_kernel/src/macros/result_macros_.rs -/

/-- `res_unwrap_or!`: `match ($res, $v) { (Ok(x), _) => x, (Err(_), value) => value }` -/
def resUnwrapOr (r : Except ε α) (v : Ev α) : Ev α := do
  let value ← v
  match r, value with
  | .ok x, _ => pure x
  | .error _, value => pure value

/-- `res_unwrap_or_else!`, arms `|$param| $expr` and `$function:expr` -/
def resUnwrapOrElse (r : Except ε α) (f : ε → α) : Ev α :=
  match r with
  | .ok x => pure x
  | .error e => Ev.call f e

/-- `res_unwrap_err_or_else!`: `Ok($param) => $expr, Err(x) => x` -/
def resUnwrapErrOrElse (r : Except ε α) (f : α → ε) : Ev ε :=
  match r with
  | .ok x => Ev.call f x
  | .error e => pure e

/-- `res_ok!` -/
def resOk (r : Except ε α) : Option α :=
  match r with
  | .ok x => some x
  | .error _ => none

/-- `res_err!` -/
def resErr (r : Except ε α) : Option ε :=
  match r with
  | .ok _ => none
  | .error e => some e

/-- `res_and_then!` -/
def resAndThen (r : Except ε α) (f : α → Except ε β) : Ev (Except ε β) :=
  match r with
  | .ok x => Ev.call f x
  | .error e => pure (.error e)

/-- `res_map!` -/
def resMap (r : Except ε α) (f : α → β) : Ev (Except ε β) :=
  match r with
  | .ok x => do let y ← Ev.call f x; pure (.ok y)
  | .error e => pure (.error e)

/-- `res_map_err!` -/
def resMapErr (r : Except ε α) (f : ε → φ) : Ev (Except φ α) :=
  match r with
  | .ok x => pure (.ok x)
  | .error e => do let e' ← Ev.call f e; pure (.error e')

/-- `res_or_else!` -/
def resOrElse (r : Except ε α) (f : ε → Except φ α) : Ev (Except φ α) :=
  match r with
  | .ok x => pure (.ok x)
  | .error e => Ev.call f e

/-! ## konst/src/macros/unwrapping.rs -/

/-- what a statement-like macro does to the enclosing function: `return r`, or go on with `v` -/
inductive Flow (ρ α : Type) where
  | ret (r : ρ)
  | value (v : α)
deriving Repr, DecidableEq

/-- the rest of the enclosing function, as a continuation -/
def Flow.andThen {ρ : Type} (fl : Flow ρ α) (k : α → ρ) : ρ :=
  match fl with
  | .ret r => r
  | .value v => k v

/-- `try_!($e)`: `Ok(x) => x, Err(e) => return Err(e)` -/
def try_ (r : Except ε α) : Flow (Except ε β) α :=
  match r with
  | .ok x => .value x
  | .error e => .ret (.error e)

/-- `try_!($e, map_err = |$pat| $v)`: `Ok(x) => x, Err{0: $pat, ..} => return Err($v)`; without a
    parameter (`map_err = | | $v`) the pattern is `Err{..}` and `$v` cannot mention the error
    (the caller passes a constant function) -/
def tryMapErr (r : Except ε α) (f : ε → φ) : Ev (Flow (Except φ β) α) :=
  match r with
  | .ok x => pure (.value x)
  | .error e => do let e' ← Ev.call f e; pure (.ret (.error e'))

/-- `try_opt!($opt)`: `Some(x) => x, None => return None` -/
def tryOpt (o : Option α) : Flow (Option β) α :=
  match o with
  | some x => .value x
  | none => .ret none

/-! ## konst/src/macros/parsing_macros.rs — the tuple walker, at token level -/

/-- the tokens that can occur in the field list handed from one walker step to the next -/
inductive Tok where
  | idx (n : Nat)     -- an integer literal, used as a tuple index
  | colon             -- `:`
  | ttkw              -- the identifier `tt`
deriving Repr, DecidableEq

/-- the literal `(0 1 2 3 4 5)` of `__priv_ai_preprocess_pattern` -/
def fields0 : List Tok := [.idx 0, .idx 1, .idx 2, .idx 3, .idx 4, .idx 5]

/-- one element of the user's comma-separated pattern list, by the `__priv_assign_tuple` arm it takes -/
inductive PatKind where
  | typedLet      -- arm 1  `let $pat:tt : $ty`        lhs tokens `(let $pat: $ty)`
  | letP          -- arm 2  `let $pat:pat_param`       lhs tokens `(let $pat)`
  | wild          -- arm 3  `_`                        lhs tokens `(let _)`
  | typedWild     -- arm 3  `_ : $ty`                  lhs tokens `(let _ : $ty)`
  | place         -- arm 4  `$e:tt`                    lhs tokens `($e)`
  | typedPlace    -- arm 4  `$e:tt : $ty`              emits `let _: $ty = $var;` first
  | exprPlace     -- arm 5  `$e:expr` (e.g. `s.f`)     lhs tokens `($e)`
deriving Repr, DecidableEq

/-- the left-hand side of an emitted assignment: which user pattern (by position) it came from -/
structure Lhs where
  pos : Nat
  kind : PatKind
deriving Repr, DecidableEq

/-- right-hand side of an emitted assignment: `$var` or `$var.$field` -/
inductive Rhs where
  | whole
  | field (t : Tok)
deriving Repr, DecidableEq

/-- emitted statements -/
inductive Stmt where
  | assign (l : Lhs) (r : Rhs)     -- `$($lhs)* = $var;` / `$($lhs)* = $var.$field;`
  | assertTy (pos : Nat)           -- `let _: $ty = $var;` (typed place, arm 4)
deriving Repr, DecidableEq

/-- `__priv_assign_tuple!($var, $fields, <patterns>)` followed by `__priv_next_ai_access!`.
    `pos` is bookkeeping (the index of the head pattern in the user's list); `none` = no macro arm
    matches (a compile error).  The three `match` alternatives on `fields, rem` are the three arms of
    `__priv_next_ai_access`, in order; its third arm transcribes the remaining field tokens
    `$($rem_fields)*` unchanged. -/
def assignTuple (fields : List Tok) (pos : Nat) : List PatKind → Option (List Stmt)
  | [] => none
  | p :: rem =>
    let pre : List Stmt := if p = .typedPlace then [.assertTy pos] else []
    let lhs : Lhs := ⟨pos, p⟩
    match fields, rem with
    | .idx 0 :: _, [] => some (pre ++ [.assign lhs .whole])
    | f :: _, [] => some (pre ++ [.assign lhs (.field f)])
    | f :: remFields, _ :: _ =>
      (assignTuple remFields (pos + 1) rem).map fun rest => pre ++ .assign lhs (.field f) :: rest
    | [], _ => none

/-- how the user wrote the pattern before `=`: a parenthesised, comma-separated list, or one bare
    token tree (for `rebind_if_ok!` optionally followed by `: ty`) -/
structure UserPat where
  bare : Bool
  pats : List PatKind
deriving Repr, DecidableEq

/-- `try_rebind!`'s matcher `$pattern:tt = $expression:expr`: a bare pattern must be ONE token tree -/
def tryRebindMatches (u : UserPat) : Bool :=
  !u.bare || u.pats == [.place] || u.pats == [.wild]

/-- `rebind_if_ok!`'s matcher `$pattern:tt $(:$ty:ty)? = $expression:expr` -/
def rebindIfOkMatches (u : UserPat) : Bool :=
  !u.bare || u.pats == [.place] || u.pats == [.wild] || u.pats == [.typedPlace] || u.pats == [.typedWild]

/-- `__priv_ai_preprocess_pattern!`: both arms (parenthesised list / anything else) start the walker
    with the full field list -/
def preprocess (u : UserPat) : Option (List Stmt) := assignTuple fields0 0 u.pats

/-- rustc's judgement of one emitted statement (a verdict table, not part of konst): the payload is
    a scalar (`n = 1`) or an `n`-tuple of scalars; `annotIsPayloadTy` says whether the type written
    after a typed place is the payload's type -/
def stmtOk (n : Nat) (annotIsPayloadTy : Bool) : Stmt → Bool
  | .assign _ .whole => true
  | .assign _ (.field (.idx i)) => decide (2 ≤ n ∧ i < n)
  | .assign _ (.field _) => false
  | .assertTy _ => annotIsPayloadTy

/-- a value moved into a place / binding -/
inductive Val where
  | scalar (v : Int)
  | tuple (vs : List Int)
deriving Repr, DecidableEq

/-- the `Ok` payload as one value -/
def payloadVal : List Int → Val
  | [v] => .scalar v
  | vs => .tuple vs

def evalRhs (vs : List Int) : Rhs → Option Val
  | .whole => some (payloadVal vs)
  | .field (.idx i) => if 2 ≤ vs.length then vs[i]?.map .scalar else none
  | .field _ => none

/-- run the emitted statements on a payload: the list of writes (target, value) in order -/
def exec (vs : List Int) : List Stmt → Option (List (Lhs × Val))
  | [] => some []
  | .assertTy _ :: rest => exec vs rest
  | .assign l r :: rest =>
    match evalRhs vs r, exec vs rest with
    | some v, some ws => some ((l, v) :: ws)
    | _, _ => none

/-- the emitted statements run one after the other, in the order the walker emitted them (the order
    of the list `exec` returns): every write is applied to the store its predecessors left behind.
    `write` — how the place expression of the `l.pos`-th user pattern is resolved against the CURRENT
    store (`arr[idx]` reads `idx` at that moment, the same variable may be listed twice, a `let`
    shadows) — is the caller's; the model fixes only the sequencing. -/
def runWrites {σ : Type} (write : σ → Lhs → Val → σ) (s : σ) (ws : List (Lhs × Val)) : σ :=
  ws.foldl (fun s w => write s w.1 w.2) s

/-- the user-pattern positions assigned by a statement list, in statement order -/
def assignOrder : List Stmt → List Nat
  | [] => []
  | .assign l _ :: rest => l.pos :: assignOrder rest
  | .assertTy _ :: rest => assignOrder rest

/-- observable outcome of a rebind macro -/
inductive RebindOut where
  | reject                              -- does not compile
  | ret (e : Int)                       -- `return Err(e)` (try_rebind!)
  | skip                                -- the `if let Ok` did not match (rebind_if_ok!)
  | ok (writes : List (Lhs × Val))      -- assignments done (then `$code` runs / execution goes on)
deriving Repr, DecidableEq

/-- the statements a rebind macro emits, if it expands and type-checks for a payload of arity `n` -/
def emitted (outerMatches : Bool) (u : UserPat) (n : Nat) (annotIsPayloadTy : Bool) : Option (List Stmt) :=
  if outerMatches then
    match preprocess u with
    | some stmts => if stmts.all (stmtOk n annotIsPayloadTy) then some stmts else none
    | none => none
  else none

/-- `try_rebind!{pattern = expr}`:
    `let tuple = match expr { Ok(tuple) => tuple, Err(_e) => return Err(_e) }; <walker>` -/
def tryRebind (u : UserPat) (n : Nat) (annotIsPayloadTy : Bool) (r : Except Int (List Int)) : RebindOut :=
  match emitted (tryRebindMatches u) u n annotIsPayloadTy with
  | none => .reject
  | some stmts =>
    match r with
    | .error e => .ret e
    | .ok vs => match exec vs stmts with
      | some ws => .ok ws
      | none => .reject

/-- `rebind_if_ok!{pattern = expr => code}`: `match expr { Ok(tuple) => { <walker> code } Err(_) => {} }` -/
def rebindIfOk (u : UserPat) (n : Nat) (annotIsPayloadTy : Bool) (r : Except Int (List Int)) : RebindOut :=
  match emitted (rebindIfOkMatches u) u n annotIsPayloadTy with
  | none => .reject
  | some stmts =>
    match r with
    | .error _ => .skip
    | .ok vs => match exec vs stmts with
      | some ws => .ok ws
      | none => .reject

/-! ## konst/src/macros/minmax_macros.rs -/

/-- `min!`/`__min_by!`: `if let Greater = <cmp of left, right> { right } else { left }` -/
def minBy (cmp : α → α → Ordering) (left right : α) : α :=
  if cmp left right = .gt then right else left

/-- `max!`/`__max_by!`: `if let Greater = <cmp of left, right> { left } else { right }` -/
def maxBy (cmp : α → α → Ordering) (left right : α) : α :=
  if cmp left right = .gt then left else right

/-- `__minmax_by_key!($left, $right, $ord, key)`: keys of left then right, then
    `if let $ord = const_cmp!(left_key, right_key) { right } else { left }` -/
def minmaxByKey {κ : Type} (ord : Ordering) (key : α → κ) (cmpK : κ → κ → Ordering) (left right : α) : α :=
  let leftKey := key left
  let rightKey := key right
  if cmpK leftKey rightKey = ord then right else left

/-- `min_by_key!($left, $right, f)` = `__minmax_by_key!($left, $right, Greater, f)` -/
def minByKey {κ : Type} (key : α → κ) (cmpK : κ → κ → Ordering) (a b : α) : α :=
  minmaxByKey .gt key cmpK a b

/-- `max_by_key!($left, $right, f)` = `__minmax_by_key!($right, $left, Less, f)` (arguments swapped) -/
def maxByKey {κ : Type} (key : α → κ) (cmpK : κ → κ → Ordering) (a b : α) : α :=
  minmaxByKey .lt key cmpK b a

end Konst.OptRes
