/-
  Shared vocabulary of the konst model (import-free: core Lean only).

  * `usize` is modelled as `Nat` below `USIZE = 2^64`.
  * a sub-slice handed back by konst is a `View` (offset, length) *relative to the
    slice/str argument it was derived from*; `View.apply` gives the elements.
-/
namespace Konst

/-- `usize::MAX + 1` on the 64-bit targets the harness runs on. -/
def USIZE : Nat := 2 ^ 64

/-- `isize::MAX`: an upper bound on the byte size (hence the length) of every Rust slice. -/
def ISIZE_MAX : Nat := 2 ^ 63 - 1

/-- `usize::overflowing_sub` exactly as Rust defines it (wrapped value, overflow flag). -/
def overflowingSub (a b : Nat) : Nat × Bool :=
  if b ≤ a then (a - b, false) else (a + USIZE - b, true)

/-- (offset, length) of a returned sub-slice, relative to the argument slice. -/
structure View where
  off : Nat
  len : Nat
deriving Repr, DecidableEq, Inhabited

/-- the elements a view denotes -/
def View.apply {α : Type} (v : View) (s : List α) : List α := (s.drop v.off).take v.len

/-- view composition: `w` is a view into the slice denoted by `v`. -/
def View.comp (v w : View) : View := ⟨v.off + w.off, w.len⟩

/-- the view stays inside a slice of length `n` -/
def View.InBounds (v : View) (n : Nat) : Prop := v.off + v.len ≤ n

/-- direction of one step of a double-ended history -/
inductive Dir where
  | f | b
deriving Repr, DecidableEq, Inhabited

end Konst
