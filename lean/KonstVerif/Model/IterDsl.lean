import KonstVerif.Model.Basic
/-
  Model of the code that konst's iterator DSL macros EMIT
  (`konst::iter::{eval!, for_each!, collect_const!}`), not of the intended result.

  mirrors:
    konst_kernel/src/iter.rs                    __cim_preprocess_methods (hoisted variables, and the
                                                `[next_back next]` accumulator: the source is driven by
                                                `next_back` iff ANY reversing method occurs)
    konst_kernel/src/iter/combinator_methods.rs __call_iter_methods (per-adapter code, `continue`,
                                                `break 'label`, `rev` flips the `$next_fn` token,
                                                flat_map/flatten = nested unlabelled loop with the rest
                                                of the chain inside), __cim_flat_map, __cim_break
    konst_kernel/src/iter/iter_eval_macro.rs    __iter_eval consumers (__ie_any, __ie_all, count,
                                                __ie_position, __ie_find_map, __ie_find, __ie_fold,
                                                next, nth, for_each)
    konst_kernel/src/collect_const.rs           __iter_collect_const (`@each`: write item, length += 1)

  Shape of the emitted code (one source item `x` per turn of the outer labelled loop):

      'label: loop {
          let item = if let Some((e, n)) = iter.$next_fn() { iter = n; e } else { break 'label };
          <code of adapter 1>  <code of adapter 2> ...      -- `continue` / `break 'label`
          <nested `loop` for flat_map/flatten, containing the rest>
          <consumer code>                                     -- may `break 'label`
      }

  All counters (`rem` of take/skip, `i` of enumerate, `still_skipping`, the zip iterator) are
  declared ONCE, outside the outermost loop, also for adapters that sit inside a nested flat_map
  loop.  The model keeps the chain static and those hoisted variables in a separate state list `St`
  aligned with the chain (one `Cell` per adapter).  Per source item, `feed` returns the new state,
  the items that reach the consumer position (in order) and whether `break 'label` was executed by
  an adapter.  Closures are arbitrary pure total functions on a universal item type `Val`
  (the closures are pure; WHICH closure is evaluated on WHICH argument, how often and in which order
  is an output of `feedKL`/`konstEvalL` below).
-/
namespace Konst.Iter

/-- universal item type: numbers and tuples (`enumerate` → `(i, x)`, `zip` → `(x, y)`);
    an item that is itself iterable (for `flatten`) is a right-nested tuple list, see `unseq` -/
inductive Val where
  | n (i : Int)
  | pair (a b : Val)
deriving Repr, Inhabited, DecidableEq

/-- the elements of an iterable item (right-nested pairs ended by a number) -/
def unseq : Val → List Val
  | .n _ => []
  | .pair a r => a :: unseq r

/-- inverse direction, used by the closure library of the driver -/
def toSeq : List Val → Val
  | [] => .n 0
  | a :: r => .pair a (toSeq r)

/-- the adapter methods -/
inductive Ad where
  | copied
  | enumerate
  | filter (p : Val → Bool)
  | filterMap (f : Val → Option Val)
  | flatMap (f : Val → List Val)      -- the closure's result as the finite list its iterator yields
  | flatten
  | map (f : Val → Val)
  | rev
  | skip (k : Nat)
  | skipWhile (p : Val → Bool)
  | take (k : Nat)
  | takeWhile (p : Val → Bool)
  | zip (other : List Val)

/-- one hoisted variable -/
inductive Cell where
  | u                       -- adapter without a variable
  | nat (k : Nat)           -- `rem` (take/skip), `i` (enumerate)
  | flag (b : Bool)         -- `still_skipping`
  | lst (l : List Val)      -- the zip iterator (what it has not yielded yet)
deriving Repr, Inhabited, DecidableEq

abbrev St := List Cell

/-- initial values of the hoisted variables (`__cim_preprocess_methods`) -/
def initSt : List Ad → St
  | [] => []
  | .enumerate :: r => .nat 0 :: initSt r
  | .skip k :: r => .nat k :: initSt r
  | .take k :: r => .nat k :: initSt r
  | .skipWhile _ :: r => .flag true :: initSt r
  | .zip l :: r => .lst l :: initSt r
  | _ :: r => .u :: initSt r

/-- `iter.$next_fn()` on a finite iterator: `next` pops the head, `next_back` the last element -/
def pop (back : Bool) (l : List Val) : Option (Val × List Val) :=
  if back then
    match l.getLast? with
    | none => none
    | some e => some (e, l.dropLast)
  else
    match l with
    | [] => none
    | e :: r => some (e, r)

/-- the order in which an inner iterator is walked by the nested loop -/
def walk (back : Bool) (l : List Val) : List Val := if back then l.reverse else l

/-- nested `loop { let item = inner.$next_fn() else break; <rest> }`:
    push the inner items through `step`, stop at `break 'label` -/
def foldItems (step : St → Val → St × List Val × Bool) : St → List Val → St × List Val × Bool
  | st, [] => (st, [], false)
  | st, y :: ys =>
    match step st y with
    | (st', out, true) => (st', out, true)
    | (st', out, false) =>
      match foldItems step st' ys with
      | (st'', out', b') => (st'', out ++ out', b')

/-- one item pushed through the emitted adapter code. `back` is the `$next_fn` token in force
    (`true` = `next_back`).  Result: (hoisted variables, items reaching the consumer, `break 'label`) -/
def feed : List Ad → Bool → St → Val → St × List Val × Bool
  | [], _, st, x => (st, [x], false)
  | _ :: _, _, [], _ => ([], [], true)        -- unreachable for aligned states (`WF`)
  | .copied :: r, d, c :: st, x =>             -- `let item = *item;`
      match feed r d st x with | (st', out, b) => (c :: st', out, b)
  | .enumerate :: r, d, c :: st, x =>          -- `let item = (i, item); i += 1;`
      match c with
      | .nat i => match feed r d st (.pair (.n i) x) with | (st', out, b) => (.nat (i + 1) :: st', out, b)
      | _ => (c :: st, [], true)
  | .filter p :: r, d, c :: st, x =>           -- `if !cond { continue }`
      if p x then match feed r d st x with | (st', out, b) => (c :: st', out, b)
      else (c :: st, [], false)
  | .filterMap f :: r, d, c :: st, x =>        -- `match val { Some(x) => x, None => continue }`
      match f x with
      | some y => match feed r d st y with | (st', out, b) => (c :: st', out, b)
      | none => (c :: st, [], false)
  | .flatMap f :: r, d, c :: st, x =>          -- nested loop over `into_iter!(f(item))` via `$next_fn`
      match foldItems (feed r d) st (walk d (f x)) with | (st', out, b) => (c :: st', out, b)
  | .flatten :: r, d, c :: st, x =>
      match foldItems (feed r d) st (walk d (unseq x)) with | (st', out, b) => (c :: st', out, b)
  | .map f :: r, d, c :: st, x =>
      match feed r d st (f x) with | (st', out, b) => (c :: st', out, b)
  | .rev :: r, d, c :: st, x =>                -- emits no code; flips `$next_fn` for what follows
      match feed r (!d) st x with | (st', out, b) => (c :: st', out, b)
  | .skip _ :: r, d, c :: st, x =>             -- `if rem != 0 { rem -= 1; continue }`
      match c with
      | .nat k =>
        if k ≠ 0 then (.nat (k - 1) :: st, [], false)
        else match feed r d st x with | (st', out, b) => (.nat k :: st', out, b)
      | _ => (c :: st, [], true)
  | .skipWhile p :: r, d, c :: st, x =>        -- `s = s && pred(&item); if s { continue }`
      match c with
      | .flag s =>
        if s && p x then (.flag true :: st, [], false)
        else match feed r d st x with | (st', out, b) => (.flag false :: st', out, b)
      | _ => (c :: st, [], true)
  | .take _ :: r, d, c :: st, x =>             -- `if rem == 0 { break 'label } else { rem -= 1 }`
      match c with
      | .nat k =>
        if k = 0 then (.nat k :: st, [], true)
        else match feed r d st x with | (st', out, b) => (.nat (k - 1) :: st', out, b)
      | _ => (c :: st, [], true)
  | .takeWhile p :: r, d, c :: st, x =>        -- `if !cond { break 'label }`
      if p x then match feed r d st x with | (st', out, b) => (c :: st', out, b)
      else (c :: st, [], true)
  | .zip _ :: r, d, c :: st, x =>              -- `if let Some((e, n)) = zipped.$next_fn() {..} else { break 'label }`
      match c with
      | .lst l =>
        match pop d l with
        | some (e, l') => match feed r d st (.pair x e) with | (st', out, b) => (.lst l' :: st', out, b)
        | none => (.lst l :: st, [], true)
      | _ => (c :: st, [], true)

/-! ### consumers (`__iter_eval`, `for_each!`, `collect_const!`) -/

inductive Cons where
  | forEach                               -- the side-effect log: every item that reaches the body
  | collect                               -- `collect_const!`
  | all (p : Val → Bool)
  | any (p : Val → Bool)
  | count
  | find (p : Val → Bool)
  | findMap (f : Val → Option Val)
  | rfind (p : Val → Bool)
  | fold (init : Val) (f : Val → Val → Val)
  | rfold (init : Val) (f : Val → Val → Val)
  | next
  | nth (k : Nat)
  | position (p : Val → Bool)
  | rposition (p : Val → Bool)

/-- value of a macro invocation -/
inductive Res where
  | items (l : List Val)
  | bool (b : Bool)
  | nat (k : Nat)
  | opt (o : Option Val)
  | onat (o : Option Nat)
  | val (v : Val)
deriving Repr, Inhabited, DecidableEq

/-- the consumer's variables: the return variable and the counter (`nth` / position `i`) -/
structure CAcc where
  ret : Res
  k : Nat
deriving Repr, Inhabited, DecidableEq

/-- `rfind`, `rfold`, `rposition` are reversing methods for `__cim_preprocess_methods` -/
def Cons.isRev : Cons → Bool
  | .rfind _ | .rfold _ _ | .rposition _ => true
  | _ => false

/-- `let mut $ret_var = $ret_val;` and the `var(..)` of `nth` / `position` -/
def consInit : Cons → CAcc
  | .forEach => ⟨.items [], 0⟩
  | .collect => ⟨.items [], 0⟩
  | .all _ => ⟨.bool true, 0⟩
  | .any _ => ⟨.bool false, 0⟩
  | .count => ⟨.nat 0, 0⟩
  | .find _ => ⟨.opt none, 0⟩
  | .findMap _ => ⟨.opt none, 0⟩
  | .rfind _ => ⟨.opt none, 0⟩
  | .fold i _ => ⟨.val i, 0⟩
  | .rfold i _ => ⟨.val i, 0⟩
  | .next => ⟨.opt none, 0⟩
  | .nth k => ⟨.opt none, k⟩
  | .position _ => ⟨.onat none, 0⟩
  | .rposition _ => ⟨.onat none, 0⟩

/-- the consumer's code for one item; `true` = `__ie_break!` (`break 'label`) -/
def consStep : Cons → CAcc → Val → CAcc × Bool
  | .forEach, a, x => (match a.ret with | .items l => ⟨.items (l ++ [x]), a.k⟩ | _ => a, false)
  | .collect, a, x => (match a.ret with | .items l => ⟨.items (l ++ [x]), a.k + 1⟩ | _ => a, false)
  | .all p, a, x => if !p x then (⟨.bool false, a.k⟩, true) else (a, false)
  | .any p, a, x => if p x then (⟨.bool true, a.k⟩, true) else (a, false)
  | .count, a, _ => (match a.ret with | .nat c => ⟨.nat (c + 1), a.k⟩ | _ => a, false)
  | .find p, a, x => if p x then (⟨.opt (some x), a.k⟩, true) else (a, false)
  | .rfind p, a, x => if p x then (⟨.opt (some x), a.k⟩, true) else (a, false)
  | .findMap f, a, x =>                    -- `ret = f(item); if let Some(_) = ret { break }`
      match f x with
      | some y => (⟨.opt (some y), a.k⟩, true)
      | none => (⟨.opt none, a.k⟩, false)
  | .fold _ f, a, x => (match a.ret with | .val acc => ⟨.val (f acc x), a.k⟩ | _ => a, false)
  | .rfold _ f, a, x => (match a.ret with | .val acc => ⟨.val (f acc x), a.k⟩ | _ => a, false)
  | .next, a, x => (⟨.opt (some x), a.k⟩, true)
  | .nth _, a, x => if a.k = 0 then (⟨.opt (some x), a.k⟩, true) else (⟨a.ret, a.k - 1⟩, false)
  | .position p, a, x => if p x then (⟨.onat (some a.k), a.k⟩, true) else (⟨a.ret, a.k + 1⟩, false)
  | .rposition p, a, x => if p x then (⟨.onat (some a.k), a.k⟩, true) else (⟨a.ret, a.k + 1⟩, false)

/-- the consumer code run on the items that reach it during one turn of the outer loop -/
def consMany (c : Cons) : CAcc → List Val → CAcc × Bool
  | a, [] => (a, false)
  | a, x :: xs =>
    match consStep c a x with
    | (a', true) => (a', true)
    | (a', false) => consMany c a' xs

/-- does any reversing method occur (`[next_back next]` accumulator of the pre-pass) -/
def hasRev : List Ad → Bool
  | [] => false
  | .rev :: _ => true
  | _ :: r => hasRev r

/-- number of reversing methods (two or more are rejected at compile time: `__assert_first_rev`) -/
def revCount : List Ad → Nat
  | [] => 0
  | .rev :: r => revCount r + 1
  | _ :: r => revCount r

/-- the outer labelled loop over the source items *in the order the source yields them* -/
def runLoop (c : List Ad) (d : Bool) (cons : Cons) : St → CAcc → List Val → CAcc
  | _, a, [] => a
  | st, a, x :: xs =>
    match feed c d st x with
    | (st', out, b) =>
      match consMany cons a out with
      | (a', true) => a'
      | (a', false) => if b then a' else runLoop c d cons st' a' xs

/-- value of `eval!(src, c.., cons)` / the log of `for_each!` / the array of `collect_const!`.
    The source is driven by `next_back` for the WHOLE loop iff a reversing method occurs anywhere. -/
def konstEval (c : List Ad) (cons : Cons) (src : List Val) : Res :=
  let d := hasRev c || cons.isRev
  (runLoop c d cons (initSt c) (consInit cons) (walk d src)).ret

/-! ### the literal shape of the emitted code: consumer code INSIDE the innermost loop

`feed`/`consMany` above first compute the items one source item contributes and then run the
consumer code over them.  The macros emit the consumer code at the innermost position of the loop
nest, and its `break 'label` leaves the whole nest immediately.  `feedK` is that literal shape;
`Lemmas/IterDsl.feedK_spec` / `konstEvalK_eq` prove the two formulations equal (closures are pure),
and the driver executes `konstEvalK`. -/

/-- nested `loop` over an inner iterator with the consumer's accumulator threaded through -/
def foldItemsK (step : St → CAcc → Val → St × CAcc × Bool) : St → CAcc → List Val → St × CAcc × Bool
  | st, a, [] => (st, a, false)
  | st, a, y :: ys =>
    match step st a y with
    | (st', a', true) => (st', a', true)
    | (st', a', false) => foldItemsK step st' a' ys

/-- one source item pushed through adapters AND consumer; `true` = some `break 'label` ran -/
def feedK (cons : Cons) : List Ad → Bool → St → CAcc → Val → St × CAcc × Bool
  | [], _, st, a, x => match consStep cons a x with | (a', b) => (st, a', b)
  | _ :: _, _, [], a, _ => ([], a, true)
  | .copied :: r, d, c :: st, a, x =>
      match feedK cons r d st a x with | (st', a', b) => (c :: st', a', b)
  | .enumerate :: r, d, c :: st, a, x =>
      match c with
      | .nat i => match feedK cons r d st a (.pair (.n i) x) with | (st', a', b) => (.nat (i + 1) :: st', a', b)
      | _ => (c :: st, a, true)
  | .filter p :: r, d, c :: st, a, x =>
      if p x then match feedK cons r d st a x with | (st', a', b) => (c :: st', a', b)
      else (c :: st, a, false)
  | .filterMap f :: r, d, c :: st, a, x =>
      match f x with
      | some y => match feedK cons r d st a y with | (st', a', b) => (c :: st', a', b)
      | none => (c :: st, a, false)
  | .flatMap f :: r, d, c :: st, a, x =>
      match foldItemsK (feedK cons r d) st a (walk d (f x)) with | (st', a', b) => (c :: st', a', b)
  | .flatten :: r, d, c :: st, a, x =>
      match foldItemsK (feedK cons r d) st a (walk d (unseq x)) with | (st', a', b) => (c :: st', a', b)
  | .map f :: r, d, c :: st, a, x =>
      match feedK cons r d st a (f x) with | (st', a', b) => (c :: st', a', b)
  | .rev :: r, d, c :: st, a, x =>
      match feedK cons r (!d) st a x with | (st', a', b) => (c :: st', a', b)
  | .skip _ :: r, d, c :: st, a, x =>
      match c with
      | .nat k =>
        if k ≠ 0 then (.nat (k - 1) :: st, a, false)
        else match feedK cons r d st a x with | (st', a', b) => (.nat k :: st', a', b)
      | _ => (c :: st, a, true)
  | .skipWhile p :: r, d, c :: st, a, x =>
      match c with
      | .flag s =>
        if s && p x then (.flag true :: st, a, false)
        else match feedK cons r d st a x with | (st', a', b) => (.flag false :: st', a', b)
      | _ => (c :: st, a, true)
  | .take _ :: r, d, c :: st, a, x =>
      match c with
      | .nat k =>
        if k = 0 then (.nat k :: st, a, true)
        else match feedK cons r d st a x with | (st', a', b) => (.nat (k - 1) :: st', a', b)
      | _ => (c :: st, a, true)
  | .takeWhile p :: r, d, c :: st, a, x =>
      if p x then match feedK cons r d st a x with | (st', a', b) => (c :: st', a', b)
      else (c :: st, a, true)
  | .zip _ :: r, d, c :: st, a, x =>
      match c with
      | .lst l =>
        match pop d l with
        | some (e, l') => match feedK cons r d st a (.pair x e) with | (st', a', b) => (.lst l' :: st', a', b)
        | none => (.lst l :: st, a, true)
      | _ => (c :: st, a, true)

/-- the outer labelled loop, literal shape -/
def runLoopK (c : List Ad) (d : Bool) (cons : Cons) : St → CAcc → List Val → CAcc
  | _, a, [] => a
  | st, a, x :: xs =>
    match feedK cons c d st a x with
    | (_, a', true) => a'
    | (st', a', false) => runLoopK c d cons st' a' xs

/-- value of the macro invocation computed by the literal loop nest -/
def konstEvalK (c : List Ad) (cons : Cons) (src : List Val) : Res :=
  let d := hasRev c || cons.isRev
  (runLoopK c d cons (initSt c) (consInit cons) (walk d src)).ret

/-! ### closure calls as an OUTPUT of the emitted code

The macros paste each closure body inline at the place where `feedK` evaluates `p x` / `f x`; which
closure is evaluated on which argument, how often and in which order is therefore determined by the
emitted control flow (`&&` short circuit of `skip_while`, `continue`, `break 'label`, the nested
loops).  `feedKL` is `feedK` that additionally returns the calls made while one source item is
pushed through, in order.  A call is `(position, argument)`: the position of the method in the
macro invocation (source methods first, the consumer last; `copied()` is method 0 in every generated
program) and the value the closure's parameter pattern is bound to.
It also has the guard over the `take` counters at the top of every loop (`takeGuard`, fixes 9827f8a and
7ecb606); the value model `feedK` above does not (it pulls the item and breaks at the `take` position).  `Lemmas/IterCalls.runLoopKL_erase` proves that the values are the same. -/

abbrev Call := Nat × Val
abbrev Log := List Call

/-- the call the consumer's code makes for one item that reaches it (`__ie_*`: the closure body is
    evaluated exactly once per item, before any `break`); `fold`'s closure is bound to `(accum, item)` -/
def consCall (pos : Nat) : Cons → CAcc → Val → Log
  | .forEach, _, x => [(pos, x)]                -- the loop body of `for_each!`
  | .collect, _, _ => []
  | .all _, _, x => [(pos, x)]
  | .any _, _, x => [(pos, x)]
  | .count, _, _ => []
  | .find _, _, x => [(pos, x)]
  | .findMap _, _, x => [(pos, x)]
  | .rfind _, _, x => [(pos, x)]
  | .fold _ _, a, x => (match a.ret with | .val acc => [(pos, .pair acc x)] | _ => [])
  | .rfold _ _, a, x => (match a.ret with | .val acc => [(pos, .pair acc x)] | _ => [])
  | .next, _, _ => []
  | .nth _, _, _ => []
  | .position _, _, x => [(pos, x)]
  | .rposition _, _, x => [(pos, x)]

/-- `__cim_take_guard!` (fixes 9827f8a, 7ecb606): EVERY loop — the outermost one and each nested
    `flat_map`/`flatten` loop — starts, before its next item is produced, with
    `if rem == 0 { break 'label }` for each `take` among the methods that come after the point where
    the loop is created (all nesting levels).  `takeGuard c st` = one of the `take`s of `c` has counted
    down to 0. -/
def takeGuard : List Ad → St → Bool
  | [], _ => false
  | _ :: _, [] => false
  | .take _ :: r, c :: st => (match c with | .nat k => k == 0 | _ => false) || takeGuard r st
  | _ :: r, _ :: st => takeGuard r st

/-- nested `loop { <take guard>; let item = inner.$next_fn() else break; <rest> }`
    over an inner iterator, calls concatenated in execution order; `stop` = the guard at the top -/
def foldItemsKL (stop : St → Bool) (step : St → CAcc → Val → St × CAcc × Log × Bool) :
    St → CAcc → List Val → St × CAcc × Log × Bool
  | st, a, [] => if stop st then (st, a, [], true) else (st, a, [], false)
  | st, a, y :: ys =>
    if stop st then (st, a, [], true) else
    match step st a y with
    | (st', a', l, true) => (st', a', l, true)
    | (st', a', l, false) =>
      match foldItemsKL stop step st' a' ys with
      | (st'', a'', l', b) => (st'', a'', l ++ l', b)

/-- one source item pushed through adapters AND consumer (literal loop nest, as `feedK`), with the
    closure calls made on the way.  `pos` = position of the head adapter. -/
def feedKL (cons : Cons) : List Ad → Nat → Bool → St → CAcc → Val → St × CAcc × Log × Bool
  | [], pos, _, st, a, x => match consStep cons a x with | (a', b) => (st, a', consCall pos cons a x, b)
  | _ :: _, _, _, [], a, _ => ([], a, [], true)
  | .copied :: r, pos, d, c :: st, a, x =>
      match feedKL cons r (pos + 1) d st a x with | (st', a', l, b) => (c :: st', a', l, b)
  | .enumerate :: r, pos, d, c :: st, a, x =>
      match c with
      | .nat i => match feedKL cons r (pos + 1) d st a (.pair (.n i) x) with
                  | (st', a', l, b) => (.nat (i + 1) :: st', a', l, b)
      | _ => (c :: st, a, [], true)
  | .filter p :: r, pos, d, c :: st, a, x =>       -- `let cond = pred(&item); if !cond { continue }`
      if p x then match feedKL cons r (pos + 1) d st a x with | (st', a', l, b) => (c :: st', a', (pos, x) :: l, b)
      else (c :: st, a, [(pos, x)], false)
  | .filterMap f :: r, pos, d, c :: st, a, x =>
      match f x with
      | some y => match feedKL cons r (pos + 1) d st a y with | (st', a', l, b) => (c :: st', a', (pos, x) :: l, b)
      | none => (c :: st, a, [(pos, x)], false)
  | .flatMap f :: r, pos, d, c :: st, a, x =>      -- `into_iter!(f(item))` once, then the nested loop
      match foldItemsKL (takeGuard r) (feedKL cons r (pos + 1) d) st a (walk d (f x)) with
      | (st', a', l, b) => (c :: st', a', (pos, x) :: l, b)
  | .flatten :: r, pos, d, c :: st, a, x =>
      match foldItemsKL (takeGuard r) (feedKL cons r (pos + 1) d) st a (walk d (unseq x)) with
      | (st', a', l, b) => (c :: st', a', l, b)
  | .map f :: r, pos, d, c :: st, a, x =>
      match feedKL cons r (pos + 1) d st a (f x) with | (st', a', l, b) => (c :: st', a', (pos, x) :: l, b)
  | .rev :: r, pos, d, c :: st, a, x =>
      match feedKL cons r (pos + 1) (!d) st a x with | (st', a', l, b) => (c :: st', a', l, b)
  | .skip _ :: r, pos, d, c :: st, a, x =>
      match c with
      | .nat k =>
        if k ≠ 0 then (.nat (k - 1) :: st, a, [], false)
        else match feedKL cons r (pos + 1) d st a x with | (st', a', l, b) => (.nat k :: st', a', l, b)
      | _ => (c :: st, a, [], true)
  | .skipWhile p :: r, pos, d, c :: st, a, x =>    -- `s = s && pred(&item);`: `&&` evaluates `pred` only while `s`
      match c with
      | .flag s =>
        if s then
          if p x then (.flag true :: st, a, [(pos, x)], false)
          else match feedKL cons r (pos + 1) d st a x with | (st', a', l, b) => (.flag false :: st', a', (pos, x) :: l, b)
        else match feedKL cons r (pos + 1) d st a x with | (st', a', l, b) => (.flag false :: st', a', l, b)
      | _ => (c :: st, a, [], true)
  | .take _ :: r, pos, d, c :: st, a, x =>         -- the chunk at the `take` position (the guards at the loop tops: `takeGuard`)
      match c with
      | .nat k =>
        if k = 0 then (.nat k :: st, a, [], true)
        else match feedKL cons r (pos + 1) d st a x with | (st', a', l, b) => (.nat (k - 1) :: st', a', l, b)
      | _ => (c :: st, a, [], true)
  | .takeWhile p :: r, pos, d, c :: st, a, x =>    -- `let cond = pred(&item); if !cond { break 'label }`
      if p x then match feedKL cons r (pos + 1) d st a x with | (st', a', l, b) => (c :: st', a', (pos, x) :: l, b)
      else (c :: st, a, [(pos, x)], true)
  | .zip _ :: r, pos, d, c :: st, a, x =>
      match c with
      | .lst l0 =>
        match pop d l0 with
        | some (e, l') => match feedKL cons r (pos + 1) d st a (.pair x e) with
                          | (st', a', l, b) => (.lst l' :: st', a', l, b)
        | none => (.lst l0 :: st, a, [], true)
      | _ => (c :: st, a, [], true)

/-- the outer labelled loop with the calls of all turns in order -/
def runLoopKL (c : List Ad) (d : Bool) (cons : Cons) : St → CAcc → List Val → CAcc × Log
  | _, a, [] => (a, [])
  | st, a, x :: xs =>
    if takeGuard c st then (a, []) else       -- the guard, before the source is asked for `x`
    match feedKL cons c 0 d st a x with
    | (_, a', l, true) => (a', l)
    | (st', a', l, false) => match runLoopKL c d cons st' a' xs with | (a'', l') => (a'', l ++ l')

/-- value AND closure calls of a macro invocation -/
def konstEvalL (c : List Ad) (cons : Cons) (src : List Val) : Res × Log :=
  let d := hasRev c || cons.isRev
  match runLoopKL c d cons (initSt c) (consInit cons) (walk d src) with
  | (a, l) => (a.ret, l)

/-- closures that panic when a call satisfies `poison` (and are otherwise the same pure functions): the
    invocation unwinds at the FIRST such call.  `inl` = the calls made up to and including that one,
    `inr` = no such call is made and the invocation completes. -/
def hostile (poison : Call → Bool) (r : Res × Log) : Sum Log (Res × Log) :=
  match r.2.findIdx? poison with
  | some i => .inl (r.2.take (i + 1))
  | none => .inr r

/-- `collect_const!` runs the same loop twice (ComputeLength with CAP = 0, then BuildArray with
    CAP = that length) and asserts `length == CAP` before `array_assume_init`; `none` = that assert
    fails -/
def collectConst (c : List Ad) (src : List Val) : Option (List Val) :=
  let d := hasRev c
  let pass1 := runLoop c d .collect (initSt c) (consInit .collect) (walk d src)
  let cap := pass1.k
  let pass2 := runLoop c d .collect (initSt c) (consInit .collect) (walk d src)
  match pass2.ret with
  | .items l => if pass2.k = cap ∧ l.length = cap then some l else none
  | _ => none

/-- the macro-level guard: at most one reversing method in the whole invocation -/
def accepted (c : List Ad) (cons : Cons) : Bool := revCount c + (if cons.isRev then 1 else 0) ≤ 1

end Konst.Iter
