/-
  Model of `konst::array::ArrayBuilder<T, N>` (konst/src/array/array_builder.rs), import-free.

  The builder is the state machine the Rust struct is:
      array  : [MaybeUninit<T>; N]   ↦  `slots : List (Option α)` (`none` = never written)
      inited : usize                 ↦  `inited : Nat`
  Reading a slot "as initialised" (`from_raw_parts`, the `[T; N]` read in `build`, `drop_in_place`)
  is `readInit`; reading a `none` slot is the explicit outcome `ub` / `Option.none` — it is never
  totalised away.  The theorems (Props/C11, Props/C15) show that outcome is unreachable.

  Also defines the ledger vocabulary (`Event`) shared by the by-value models (C15).
-/
namespace Konst.ArrayBuilder

/-- one entry of the ownership ledger: the element `id` was handed to the caller / was dropped -/
inductive Event where
  | moved (id : Nat)
  | dropped (id : Nat)
deriving Repr, DecidableEq, Inhabited

def Event.id : Event → Nat
  | .moved i => i
  | .dropped i => i

/-- reading a run of `MaybeUninit<T>` slots as `T`s (`assume_init` / `from_raw_parts` / the cast read):
    `none` iff some slot was never written (undefined behaviour in Rust) -/
def readInit {α : Type} : List (Option α) → Option (List α)
  | [] => some []
  | none :: _ => none
  | some v :: r => (readInit r).map (v :: ·)

/-- numbered clones of a run of elements: the `j`-th element of `l` is cloned by `fresh (i + j)` -/
def mapFrom {α : Type} (fresh : Nat → α → α) : Nat → List α → List α
  | _, [] => []
  | i, x :: r => fresh i x :: mapFrom fresh (i + 1) r

structure Builder (α : Type) where
  n : Nat
  slots : List (Option α)
  inited : Nat
deriving Repr

variable {α : Type}

/-- `ArrayBuilder::new`: `uninit_array()`, `inited: 0` -/
def new (n : Nat) : Builder α := ⟨n, List.replicate n none, 0⟩

/-- `len` -/
def len (b : Builder α) : Nat := b.inited

/-- `is_full`: `self.inited == N` -/
def isFull (b : Builder α) : Bool := b.inited == b.n

/-- `as_slice` / `as_mut_slice`: `from_raw_parts(self.array.as_ptr().cast::<T>(), self.inited)` -/
def asSlice (b : Builder α) : Option (List α) := readInit (b.slots.take b.inited)

inductive PushRes (α : Type) where
  | ok (b : Builder α)
  | panic                      -- the assert fired: the builder is unchanged, `val` is dropped by unwinding
deriving Repr

/-- `push`: `assert!(self.inited < N)`; `self.array[self.inited] = MaybeUninit::new(val)`; `self.inited += 1` -/
def push (b : Builder α) (v : α) : PushRes α :=
  if b.inited < b.n then
    .ok { b with slots := b.slots.set b.inited (some v), inited := b.inited + 1 }
  else .panic

inductive BuildRes (α : Type) where
  | array (l : List α)
  | panic                      -- `assert!(self.is_full())` fired; `self` is dropped by unwinding
  | ub                         -- a never-written slot was read as `T`
deriving Repr, DecidableEq

/-- `build`: `assert!(self.is_full())`, then the whole `[MaybeUninit<T>; N]` is read as `[T; N]` -/
def build (b : Builder α) : BuildRes α :=
  if isFull b then
    match readInit b.slots with
    | some l => .array l
    | none => .ub
  else .panic

/-- `Drop::drop`: `slice_from_raw_parts_mut(ptr, inited).drop_in_place()` — the elements dropped, in order -/
def dropped (b : Builder α) : Option (List α) := readInit (b.slots.take b.inited)

/-- the loop of `Clone::clone`: `for elem in self.as_slice() { this.push(elem.clone()) }`;
    `fresh i x` is the clone of `x`, made as the `i`-th clone call -/
def cloneLoop (fresh : Nat → α → α) : List α → Nat → Builder α → Option (Builder α)
  | [], _, this => some this
  | x :: r, i, this =>
    match push this (fresh i x) with
    | .ok this' => cloneLoop fresh r (i + 1) this'
    | .panic => none

/-- `Clone::clone`: `none` = UB in `as_slice` or a panicking push (both shown unreachable) -/
def clone (fresh : Nat → α → α) (b : Builder α) : Option (Builder α) :=
  match asSlice b with
  | some l => cloneLoop fresh l 0 (new b.n)
  | none => none

/-- `Clone::clone_from(&mut self, source: &Self)`.  `impl Clone for ArrayBuilder` defines only `clone`, so
    this is the trait's provided method `*self = source.clone()`: the clone is made FIRST (the clone
    calls of the elements, in order), then the assignment drops the old value of `*self` (its `Drop`:
    the `inited` elements, in order) and moves the clone in.  Afterwards `self` is exactly a clone of
    `source`, whatever it held before (more, fewer or as many elements).
    Result: the new `self` and the elements of the old `self` that were dropped; `none` = UB / a
    panicking push inside `clone` (shown unreachable). -/
def cloneFrom (fresh : Nat → α → α) (self source : Builder α) : Option (Builder α × List α) :=
  match clone fresh source, dropped self with
  | some c, some old => some (c, old)
  | _, _ => none

/-- a run of `push`es, each one caught: the builder afterwards and the rejected values (each dropped by
    the unwinding of its own `push`) -/
def pushAll (b : Builder α) : List α → Builder α × List α
  | [] => (b, [])
  | v :: r =>
    match push b v with
    | .ok b' => pushAll b' r
    | .panic => ((pushAll b r).1, v :: (pushAll b r).2)

/-! ### `Clone::clone` with an element `Clone` that may PANIC

  `T::clone` is user code: it may panic part-way through `ArrayBuilder::clone` / `ArrayConsumer::clone`.
  Unwinding then drops the half-built clone `this` (a local of `clone`), i.e. runs ITS `Drop` on ITS
  current state; the original (`&self`) is not touched.  The element `Clone` is modelled as
  `Nat → α → Option α` (call number → element → copy, `none` = this call panics). -/

/-- an element `Clone` that panics on its `j`-th call (calls are numbered from 0) and otherwise makes the
    copy `fresh i x` -/
def panicAt (fresh : Nat → α → α) (j : Nat) : Nat → α → Option α :=
  fun i x => if i = j then none else some (fresh i x)

/-- result of a `Clone::clone` whose element `Clone` may panic -/
inductive CloneRes (σ α : Type) where
  | done (c : σ)                   -- the clone
  | panicked (dropped : List α)    -- `T::clone` panicked: what unwinding dropped with the half-built clone
  | ub                             -- a never-written slot was dropped / a push on a full clone (shown unreachable)
deriving Repr

/-- the loop of `Clone::clone` with a panicking element `Clone`:
    `for elem in self.as_slice() { this.push(elem.clone()) }` — `elem.clone()` is evaluated BEFORE the
    push; if it panics, `this` (holding the copies pushed so far, `inited` = their number) is dropped -/
def cloneLoopP (fresh : Nat → α → Option α) : List α → Nat → Builder α → CloneRes (Builder α) α
  | [], _, this => .done this
  | x :: r, i, this =>
    match fresh i x with
    | none =>
      match dropped this with
      | some d => .panicked d
      | none => .ub
    | some v =>
      match push this v with
      | .ok this' => cloneLoopP fresh r (i + 1) this'
      | .panic => .ub

/-- `Clone::clone` with a panicking element `Clone` -/
def cloneP (fresh : Nat → α → Option α) (b : Builder α) : CloneRes (Builder α) α :=
  match asSlice b with
  | some l => cloneLoopP fresh l 0 (new b.n)
  | none => .ub

/-! ### histories -/

/-- operations of a builder history (observations `len`/`is_full`/`as_slice` do not change the state) -/
inductive Op (α : Type) where
  | push (v : α)
  | clone                      -- clone, drop the ORIGINAL, continue with the clone
  | cloneDrop                  -- clone, drop the CLONE, continue with the original
  | clonePanic (j : Nat)       -- clone with an element `Clone` that panics on its `j`-th call (caught);
                               -- a clone that completes (`j ≥ len`) is dropped; continue with the original
  | cloneFrom (vs : List α)    -- a SECOND builder `t` (same `N`) is made by pushing `vs` (each push caught);
                               -- `self.clone_from(&t)`; `t` is dropped; continue with `self`
  | cloneInto (vs : List α)    -- a second builder `t` is made by pushing `vs`; `t.clone_from(&self)`;
                               -- `self` is dropped; continue with `t`
deriving Repr

/-- what one operation shows to the caller -/
inductive Obs (α : Type) where
  | pushed (ok : Bool)                -- `false`: the assert fired (the value is dropped by unwinding)
  | cloned (dropped : List α)         -- the elements dropped with the builder that was let go
  | panicked (dropped : List α)       -- `T::clone` panicked inside `clone`: the copies dropped by unwinding
  | clonedFrom (rejected old source : List α)
                                      -- `target.clone_from(&source)` between two builders: the values the second
                                      -- builder rejected while it was filled, the OLD elements of the target
                                      -- dropped by the assignment, and the elements of the source when it is
                                      -- dropped afterwards (= its `as_slice` after the call: it is unchanged)
  | ub
deriving Repr, DecidableEq

/-- one step. The second state component counts the elements created so far (pushed values and
    clones): `fresh k x` is the clone of `x` created as the `k`-th element. -/
def step (fresh : Nat → α → α) (st : Builder α × Nat) : Op α → (Builder α × Nat) × Obs α
  | .push v =>
    match push st.1 v with
    | .ok b' => ((b', st.2 + 1), .pushed true)
    | .panic => ((st.1, st.2 + 1), .pushed false)
  | .clone =>
    match clone (fun i => fresh (st.2 + i)) st.1, dropped st.1 with
    | some c, some old => ((c, st.2 + st.1.inited), .cloned old)
    | _, _ => (st, .ub)
  | .cloneDrop =>
    match clone (fun i => fresh (st.2 + i)) st.1 with
    | some c =>
      match dropped c with
      | some cl => ((st.1, st.2 + st.1.inited), .cloned cl)
      | none => (st, .ub)
    | none => (st, .ub)
  | .clonePanic j =>
    match cloneP (panicAt (fun i => fresh (st.2 + i)) j) st.1 with
    | .panicked d => ((st.1, st.2 + d.length), .panicked d)
    | .done c =>
      match dropped c with
      | some cl => ((st.1, st.2 + st.1.inited), .cloned cl)
      | none => (st, .ub)
    | .ub => (st, .ub)
  | .cloneFrom vs =>
    let t := pushAll (new st.1.n) vs
    match cloneFrom (fun i => fresh (st.2 + vs.length + i)) st.1 t.1, dropped t.1 with
    | some (c, old), some src => ((c, st.2 + vs.length + t.1.inited), .clonedFrom t.2 old src)
    | _, _ => (st, .ub)
  | .cloneInto vs =>
    let t := pushAll (new st.1.n) vs
    match cloneFrom (fun i => fresh (st.2 + vs.length + i)) t.1 st.1, dropped st.1 with
    | some (c, old), some src => ((c, st.2 + vs.length + st.1.inited), .clonedFrom t.2 old src)
    | _, _ => (st, .ub)

/-- run a history from a state, collecting what each step showed -/
def run (fresh : Nat → α → α) : Builder α × Nat → List (Op α) → (Builder α × Nat) × List (Obs α)
  | st, [] => (st, [])
  | st, op :: r =>
    let res := step fresh st op
    let rest := run fresh res.1 r
    (rest.1, res.2 :: rest.2)

end Konst.ArrayBuilder
