import KonstVerif.Model.ParserMethod
/-
  What the `parser_method!` expansion does with the things the CALLER hands it, besides the literals:
  the PLACE expression, the branch BODIES, and the caller's scope.

  mirrors (konst/src/macros/parser_method.rs, as it is in /repo now, i.e. after ff38c77 and 5e6c5eb; the as-found
  treatment of bodies and binders is in Legacy/ParserMethodUse.lean):
    __priv_pa_bytes_accessor   (get, ..)            `$place.remainder().as_bytes()`
                               (set, .., rem)       `$place = $place.skip[_back]($place.remainder().len() - $rem.len())`
    __priv_pa_strip_prefix / __priv_pa_strip_suffix  bodies pasted into the arms of a `match`
    __priv_pa_find_skip_either                       a search `loop` without caller code, then the bodies pasted into
                                                     the arms of a `match` (as the strip forms)
    __priv_pa_trim_matches_inner                     `let mut bytes = get; while let .. = bytes {..}; set(bytes)`
    the identifiers these arms bind with identifier patterns: `__konst_pm_bytes`, `__konst_pm_rem` (handed to the
    proc macro, which emits `__konst_pm_rem @ ..`), `__konst_pm_brem` (`[_, __konst_pm_brem @ ..]` / `[.. @ .., _]`)
-/
namespace Konst.PM.Use
open Konst Konst.PM

inductive Form
  | stripPrefix | stripSuffix | findSkip | rfindSkip | trimStart | trimEnd
deriving DecidableEq, Repr, Inhabited

/-- the `FromStart` / `FromEnd` parse direction `parser_method!` passes along -/
def Form.fromEnd : Form → Bool
  | .stripSuffix | .rfindSkip | .trimEnd => true
  | _ => false

/-- the part of the expansion between `get` and `set`: from the bytes `get` returned, the branch that is
    chosen and the `rem` handed to `set`; `none` = the `_ =>` default (no `set`).  The trim forms always `set`. -/
def matchPart : Form → List (Nat × List Nat) → List Nat → Option (Nat × List Nat)
  | .stripPrefix, arms, bytes => firstArm matchStart arms bytes
  | .stripSuffix, arms, bytes => firstArm matchEnd arms bytes
  | .findSkip, arms, bytes => firstArm matchStart arms (searchLoop arms bytes)
  | .rfindSkip, arms, bytes => firstArm matchEnd arms (rsearchLoop arms bytes.length bytes)
  | .trimStart, arms, bytes => some (0, trimLoop matchStart arms (bytes.length + 1) bytes)
  | .trimEnd, arms, bytes => some (0, trimLoop matchEnd arms (bytes.length + 1) bytes)

/-- `set`: `recv.skip[_back](lenOf.remainder().len() - rem.len())`; `recv` and `lenOf` are the values of two separate
    evaluations of `$place`.  `none` = the `usize` subtraction overflows (a panic with overflow checks on). -/
def setFrom (f : Form) (recv lenOf : PState) (rem : List Nat) : Option PState :=
  if lenOf.rem.length < rem.length then none
  else some (if f.fromEnd then skipBack recv (lenOf.rem.length - rem.length)
             else skip recv (lenOf.rem.length - rem.length))

/-- the expansion when every evaluation of `$place` designates the same parser `p` -/
def run (f : Form) (arms : List (Nat × List Nat)) (p : PState) : Outcome :=
  match matchPart f arms p.rem with
  | none => (none, p)
  | some (b, rem) => (some b, (setFrom f p p rem).getD p)

/-! ### the place expression -/

/-- the parser the k-th evaluation of the place expression designates: k-th index of the stream, last repeated -/
def idxAt (st : List Nat) (k : Nat) : Nat := st.getD k (st.getLastD 0)

inductive FxOut
  | done (branch : Option Nat) (evals : Nat) (parsers : List PState)
  | panic (evals : Nat)
deriving DecidableEq, Repr

/-- As in the code: `get` evaluates `$place` (1st evaluation, read).  When a branch matches (always, for the trim
    forms) `set` evaluates it three more times: Rust evaluates the right operand of the assignment first — the
    receiver of `skip` (2nd, read), the `$place.remainder().len()` of the argument (3rd, read) — and the assignee
    last (4th, WRITTEN). -/
def placeRun (f : Form) (arms : List (Nat × List Nat)) (ps : List PState) (st : List Nat) : FxOut :=
  let p0 := ps.getD (idxAt st 0) default
  match matchPart f arms p0.rem with
  | none => .done none 1 ps
  | some (b, rem) =>
    match setFrom f (ps.getD (idxAt st 1) default) (ps.getD (idxAt st 2) default) rem with
    | none => .panic 3
    | some q => .done (some b) 4 (ps.set (idxAt st 3) q)

/-- what a method call on the place does: the receiver expression is evaluated once, that parser is read and written -/
def placeOnce (step : PState → Outcome) (ps : List PState) (st : List Nat) : FxOut :=
  let i := idxAt st 0
  let (b, q) := step (ps.getD i default)
  .done b 1 (ps.set i q)

/-! ### the branch bodies -/

/-- Is a branch body pasted inside a loop of the expansion (so that an unlabeled `break` / `continue` written in
    it would target that loop instead of the caller's)?  No form does: the strip forms paste the bodies into `match`
    arms, and since 5e6c5eb so do the find forms (their search loop runs first, without caller code).  The trim
    forms take no bodies.  (As found: `Legacy.PMUse.bodiesInHiddenLoop`.) -/
def bodiesInHiddenLoop : Form → Bool
  | _ => false

/-! ### the caller's scope -/

/-- identifiers the expansion introduces by identifier patterns (`let mut __konst_pm_bytes`, `__konst_pm_rem @ ..`,
    `__konst_pm_brem @ ..`; mangled since ff38c77, as found they were `bytes`, `rem`, `brem`) -/
def binders : Form → List String
  | .stripPrefix | .stripSuffix => ["__konst_pm_rem"]
  | .findSkip | .rfindSkip => ["__konst_pm_bytes", "__konst_pm_rem", "__konst_pm_brem"]
  | .trimStart | .trimEnd => ["__konst_pm_bytes", "__konst_pm_rem"]

/-- macro_rules hygiene covers locals, not items: an identifier pattern whose name is a constant, static or unit
    struct in scope at the invocation is not a fresh binding (error E0530); functions and locals do not interfere -/
def itemRejects (bs : Form → List String) (f : Form) (kind name : String) : Bool :=
  (kind = "const" || kind = "static" || kind = "unit") && (bs f).contains name

def callerItemRejects : Form → String → String → Bool := itemRejects binders

end Konst.PM.Use
