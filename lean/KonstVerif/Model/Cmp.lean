/-
  Model of konst's comparison functions and macros (C16), mirroring /repo at HEAD (i.e. *after*
  the repair 5d1d77b "slice comparison is lexicographic instead of length-first"; the as-found
  comparator lives in `KonstVerif/Legacy/Cmp.lean`).

  Conventions
  * values of every integer type, of `bool` (`false = 0`, `true = 1`) and of `char` (its scalar
    value) are mathematical integers (`Int`); the built-in `==`, `!=`, `<`, `>` on them are the
    ones of `Int`. `&[T]` for those `T`, and `&str` (its UTF-8 bytes), are `List Int`.
  * `Option α` as a *result* type of a model function means "value or panic" (`none` = the Rust
    code panicked, here: an out-of-bounds index). Rust `Option` *arguments* are Lean `Option`s too;
    the doc comment of each definition says which is which.
  * `usize` lengths are `Nat`.
-/
namespace Konst.Cmp

/-! ### `konst/src/__for_cmp_impls.rs` -/

/-- `pub struct U8Ordering(pub u8)` -/
structure U8Ordering where
  val : Nat
deriving DecidableEq, Repr

namespace U8Ordering
/-- `U8Ordering::LESS` -/
def LESS : U8Ordering := ⟨0⟩
/-- `U8Ordering::GREATER` -/
def GREATER : U8Ordering := ⟨1⟩
/-- `U8Ordering::EQUAL` -/
def EQUAL : U8Ordering := ⟨2⟩

/-- `U8Ordering::to_ordering`: `match self { LESS => Less, GREATER => Greater, _ => Equal }` -/
def toOrdering (o : U8Ordering) : Ordering :=
  if o = LESS then .lt else if o = GREATER then .gt else .eq
end U8Ordering

/-- `(b as u8)` for a `bool` -/
def boolAsU8 (b : Bool) : Nat := if b then 1 else 0

/-- `__priv_ret_if_ne!{l, r}`: `if l != r { return U8Ordering((l > r) as u8) }`.
    `some o` = the early `return o`; `none` = fall through. Used at `Int` (elements) and `Nat`
    (lengths). -/
def retIfNe {α : Type} [DecidableEq α] [LT α] [DecidableLT α] (l r : α) : Option U8Ordering :=
  if l ≠ r then some ⟨boolAsU8 (decide (l > r))⟩ else none

/-! ### `konst/src/macros/declare_cmp_fn_macros.rs` -/

/-- the loop shared (textually) by `eq_str` and every `eq_slice_*` / `eq_bytes`:
    `while i != left.len() { if left[i] != right[i] { return false } i += 1 } true`.
    Result: `none` = index panic. -/
def eqLoop (left right : List Int) (i : Nat) : Option Bool :=
  if i = left.length then some true
  else if h : i < left.length then
    match right[i]? with
    | some b => if left[i] ≠ b then some false else eqLoop left right (i + 1)
    | none => none            -- `right[i]` out of bounds
  else none                   -- `left[i]` out of bounds
termination_by left.length - i

/-- `__declare_slice_cmp_fns! … $eq_fn_name` (`eq_bytes` = `eq_slice_u8`, `eq_slice_u16`, …,
    `eq_slice_char`): length test, then the index loop. Result: `none` = panic. -/
def eqSlice (left right : List Int) : Option Bool :=
  if left.length ≠ right.length then some false else eqLoop left right 0

/-- `__declare_string_cmp_fns! … eq_str` on the UTF-8 bytes (same text as `eqSlice`) -/
def eqStr (left right : List Int) : Option Bool :=
  if left.length ≠ right.length then some false else eqLoop left right 0

/-- `while i < min_len { __priv_ret_if_ne!{left[i], right[i]}; i += 1 }` followed by `tail`
    (the code after the loop, which does not depend on `i`). Result: `none` = index panic. -/
def elemLoop (left right : List Int) (minLen : Nat) (tail : U8Ordering) (i : Nat) : Option U8Ordering :=
  if i < minLen then
    match left[i]?, right[i]? with
    | some a, some b =>
      match retIfNe a b with
      | some o => some o                -- early `return`
      | none => elemLoop left right minLen tail (i + 1)
    | _, _ => none                      -- index out of bounds
  else some tail
termination_by minLen - i

/-- the code after the loop of `cmp_inner`:
    `__priv_ret_if_ne!{left_len, right_len}; U8Ordering::EQUAL` -/
def lenTail (leftLen rightLen : Nat) : U8Ordering :=
  match retIfNe leftLen rightLen with
  | some o => o
  | none => U8Ordering.EQUAL

/-- `cmp_inner` of `__declare_slice_cmp_fns!` (repaired order: elements up to the shorter length,
    then the lengths) -/
def cmpSliceInner (left right : List Int) : Option U8Ordering :=
  let leftLen := left.length
  let rightLen := right.length
  let minLen := if leftLen < rightLen then leftLen else rightLen
  elemLoop left right minLen (lenTail leftLen rightLen) 0

/-- `cmp_slice_*` / `cmp_bytes`: `cmp_inner(left, right).to_ordering()` -/
def cmpSlice (left right : List Int) : Option Ordering :=
  (cmpSliceInner left right).map U8Ordering.toOrdering

/-- `cmp_str_inner` of `__declare_string_cmp_fns!` -/
def cmpStrInner (left right : List Int) : Option U8Ordering :=
  let leftLen := left.length
  let rightLen := right.length
  let (minLen, onNe) :=
    if leftLen < rightLen then (leftLen, U8Ordering.LESS) else (rightLen, U8Ordering.GREATER)
  elemLoop left right minLen (if leftLen = rightLen then U8Ordering.EQUAL else onNe) 0

/-- `cmp_str`: `cmp_str_inner(left.as_bytes(), right.as_bytes()).to_ordering()` -/
def cmpStr (left right : List Int) : Option Ordering :=
  (cmpStrInner left right).map U8Ordering.toOrdering

/-- `__impl_option_cmp_fns! … $eq_fn_name`; `eq` may panic (`none`), the arguments are Rust
    `Option`s -/
def eqOption {α : Type} (eq : α → α → Option Bool) : Option α → Option α → Option Bool
  | some l, some r => eq l r
  | none, none => some true
  | _, _ => some false

/-- `__impl_option_cmp_fns! … $cmp_fn_name` -/
def cmpOption {α : Type} (cmp : α → α → Option Ordering) : Option α → Option α → Option Ordering
  | some l, some r => cmp l r
  | some _, none => some .gt
  | none, some _ => some .lt
  | none, none => some .eq

/-! ### `konst/src/macros/const_ord_macros.rs`, `konst/src/cmp/cmp_wrapper.rs` -/

/-- `cmp_int!(l, r)`: `if l == r {Equal} else if l < r {Less} else {Greater}`
    (`cmp_u8 … cmp_i128`, `cmp_usize`, `cmp_isize`, `cmp_bool`, `cmp_char`) -/
def cmpInt (l r : Int) : Ordering :=
  if l = r then .eq else if l < r then .lt else .gt

/-- `std_kind_impls! … CmpWrapper<$ty>::const_eq`: `self.0 == *other` -/
def eqPrim (l r : Int) : Bool := decide (l = r)

/-! ### `konst/src/nonzero/cmp.rs` (a NonZero value is its `.get()`) -/

/-- `eq_nonzero*`: `left.get() == right.get()` -/
def eqNonZero (l r : Int) : Bool := decide (l = r)

/-- `cmp_nonzero*`: `cmp_int!(left.get(), right.get())` -/
def cmpNonZero (l r : Int) : Ordering := cmpInt l r

/-! ### `konst/src/other/cmp.rs` -/

/-- `ordering as i8` -/
def orderingAsI8 : Ordering → Int
  | .lt => -1
  | .eq => 0
  | .gt => 1

/-- `eq_ordering`: `left as i8 == right as i8` -/
def eqOrdering (l r : Ordering) : Bool := decide (orderingAsI8 l = orderingAsI8 r)

/-- `cmp_ordering`: `cmp_int!(left as i8, right as i8)` -/
def cmpOrdering (l r : Ordering) : Ordering := cmpInt (orderingAsI8 l) (orderingAsI8 r)

/-! ### `konst/src/range/cmp.rs` -/

/-- `eq_range_*`: `left.start == right.start && left.end == right.end`; a `Range` is
    `(start, end)`. `CmpWrapper<Range<_>>` is rebuilt from `start`/`end` by `coerce`. -/
def eqRange (l r : Int × Int) : Bool := decide (l.1 = r.1) && decide (l.2 = r.2)

/-- `eq_rangeinc_*`: `*left.start() == *right.start() && *left.end() == *right.end()`; a
    `RangeInclusive` is `(start, end, exhausted)` — the code has no access to `exhausted` and
    `coerce` rebuilds the range with `RangeInclusive::new(start, end)`. -/
def eqRangeInc (l r : Int × Int × Bool) : Bool := decide (l.1 = r.1) && decide (l.2.1 = r.2.1)

/-! ### `const_eq_for!` (`konst/src/macros/const_eq_macros.rs`) -/

/-- loop of `const_eq_for!(slice; …)`:
    `while i != left.len() { if !eq(left[i], right[i]) { returned = false; break } i += 1 }`;
    the element comparison may panic -/
def constEqForLoop {α : Type} (eq : α → α → Option Bool) (left right : List α) (i : Nat) : Option Bool :=
  if i = left.length then some true
  else if h : i < left.length then
    match right[i]? with
    | some b =>
      match eq left[i] b with
      | some true => constEqForLoop eq left right (i + 1)
      | some false => some false
      | none => none
    | none => none
  else none
termination_by left.length - i

/-- `const_eq_for!(slice; left, right, eq)`:
    `let mut returned = left.len() == right.len(); if returned { loop }; returned` -/
def constEqForSlice {α : Type} (eq : α → α → Option Bool) (left right : List α) : Option Bool :=
  if left.length = right.length then constEqForLoop eq left right 0 else some false

/-- `const_eq_for!(option; left, right, eq)` -/
def constEqForOption {α : Type} (eq : α → α → Option Bool) : Option α → Option α → Option Bool
  | some l, some r => eq l r
  | none, none => some true
  | _, _ => some false

/-- `const_eq_for!(range; l, r, eq)`: `eq(l.start, r.start) && eq(l.end, r.end)` -/
def constEqForRange (eq : Int → Int → Bool) (l r : Int × Int) : Bool :=
  eq l.1 r.1 && eq l.2 r.2

/-- `const_eq_for!(range_inclusive; l, r, eq)`: `eq(l.start(), r.start()) && eq(l.end(), r.end())` -/
def constEqForRangeInc (eq : Int → Int → Bool) (l r : Int × Int × Bool) : Bool :=
  eq l.1 r.1 && eq l.2.1 r.2.1

/-! ### `const_cmp_for!` (`konst/src/macros/const_ord_macros.rs`) -/

/-- `const_cmp_for!(slice; left, right, cmp)` (repaired): a loop over slice patterns
    `([l, l_rem@..], [r, r_rem@..]) => { …; if ord != Equal { break ord } }`,
    `([], []) => Equal`, `([], _) => Less`, `(_, []) => Greater` -/
def constCmpForSlice {α : Type} (cmp : α → α → Option Ordering) : List α → List α → Option Ordering
  | l :: lRem, r :: rRem =>
    match cmp l r with
    | some ord => if ord ≠ .eq then some ord else constCmpForSlice cmp lRem rRem
    | none => none
  | [], [] => some .eq
  | [], _ :: _ => some .lt
  | _ :: _, [] => some .gt

/-- `const_cmp_for!(option; left, right, cmp)` -/
def constCmpForOption {α : Type} (cmp : α → α → Option Ordering) : Option α → Option α → Option Ordering
  | some l, some r => cmp l r
  | some _, none => some .gt
  | none, some _ => some .lt
  | none, none => some .eq

/-! ### `konst/src/slice/cmp.rs`: slices of strings and of byte slices -/

/-- `eq_slice_str`: `const_eq_for!(slice; l, r, eq_str)` -/
def eqSliceStr (l r : List (List Int)) : Option Bool := constEqForSlice eqStr l r
/-- `cmp_slice_str`: `const_cmp_for!(slice; left, right, cmp_str)` -/
def cmpSliceStr (l r : List (List Int)) : Option Ordering := constCmpForSlice cmpStr l r
/-- `eq_slice_bytes`: `const_eq_for!(slice; l, r, eq_slice_u8)` -/
def eqSliceBytes (l r : List (List Int)) : Option Bool := constEqForSlice eqSlice l r
/-- `cmp_slice_bytes`: `const_cmp_for!(slice; left, right, cmp_slice_u8)` -/
def cmpSliceBytes (l r : List (List Int)) : Option Ordering := constCmpForSlice cmpSlice l r

/-! ### the ARGUMENT EXPRESSIONS of the comparison macros

  A macro receives *expressions*, not values. Evaluating an argument expression may have side
  effects (`next_chunk(&mut rest, 3)`, `{ n += 1; n }`), so successive evaluations may produce
  different values. std's `==` / `Ord::cmp` / `assert_eq!` evaluate each operand exactly once, the
  left one first. What an expansion does with `$left` / `$right` is described by an `ArgUse`. -/

/-- one of the two argument expressions of a comparison macro -/
inductive Arg where
  | left | right
deriving DecidableEq, Repr

/-- an argument expression seen from outside: the values its successive evaluations produce
    (`first`, then those of `later`; afterwards the last one is repeated). A variable, a constant,
    a pure call is `⟨v, []⟩`. -/
structure ArgExpr (α : Type) where
  first : α
  later : List α

/-- value of the `k`-th (0-based) evaluation -/
def ArgExpr.eval {α : Type} (e : ArgExpr α) (k : Nat) : α :=
  (e.first :: e.later).getD (min k e.later.length) e.first

/-- how an expansion uses its two argument expressions: `evals` lists them in the order in which
    the expansion evaluates them; the comparison reads the value of the `useLeft`-th evaluation of
    `$left` and of the `useRight`-th evaluation of `$right` (0-based, counted per argument) -/
structure ArgUse where
  evals : List Arg
  useLeft : Nat
  useRight : Nat
deriving DecidableEq, Repr

/-- each argument expression evaluated exactly once, `$left` before `$right`, and bound:
    `match (&$left, &$right) { (left, right) => … }` -/
def ArgUse.once : ArgUse := ⟨[.left, .right], 0, 0⟩

/-- number of evaluations of one argument expression -/
def ArgUse.count (u : ArgUse) (a : Arg) : Nat := (u.evals.filter (· = a)).length

/-- the two values the comparison is applied to -/
def ArgUse.operands {α : Type} (u : ArgUse) (l r : ArgExpr α) : α × α :=
  (l.eval u.useLeft, r.eval u.useRight)

/-- `const_eq!($left, $right)`: `match coerce_to_cmp!($left, $right) { (left, right) => … }`, and
    `coerce_to_cmp!` with two arguments is `match (&$left, &$right) { (left, right) => … }` -/
def constEqArgs : ArgUse := .once

/-- `const_cmp!($left, $right)`: the same `coerce_to_cmp!($left, $right)` -/
def constCmpArgs : ArgUse := .once

/-- `const_eq_for!`: `slice;` binds `match ($left_slice, $right_slice) { (left_slice, right_slice) => …`,
    `option;` / `range;` / `range_inclusive;` bind `match (&$left, &$right) { … }`; every later use
    (`.len()`, `[i]`, `.start`, `.end()`) is of the bound names -/
def constEqForArgs : ArgUse := .once

/-- `const_cmp_for!`: `slice;` binds `match ($left_slice, $right_slice) { (mut left_slice, mut right_slice) => …`,
    `option;` binds `match (&$left_opt, &$right_opt) { … }` -/
def constCmpForArgs : ArgUse := .once

/-- `__cmp_assert_inner!` (`assertc_eq!` / `assertc_ne!`), after the repair e16d62f:
    `match (&$left, &$right) { (left, right) => if let $is_equal = coerce_to_cmp!(*left).const_eq(right) { panic … } }`
    — both argument expressions are bound once; the comparison and the panic message use the
    bound references. (As found, the arm wrote `coerce_to_cmp!($left)`: see
    `Konst.Legacy.Cmp.legacyCmpAssertArgs`, finding F10.) -/
def cmpAssertArgs : ArgUse := .once

/-! ### `assertc_eq!` / `assertc_ne!` (`konst/src/macros/assert_cmp_macros.rs`) -/

/-- outcome of an assertion macro -/
inductive Assert where
  | ok | panic
deriving DecidableEq, Repr

/-- `__cmp_assert_inner!{l, r, $is_equal, …}`: `if let $is_equal = const_eq(l, r) { panic }`;
    `assertc_eq!` passes `false`, `assertc_ne!` passes `true`. `eq = none`: the comparison
    itself panicked. -/
def cmpAssertInner (isEqual : Bool) (eq : Option Bool) : Assert :=
  match eq with
  | some b => if b = isEqual then .panic else .ok
  | none => .panic

/-- `assertc_eq!(l, r)` given the value of `const_eq(l, r)` -/
def assertcEq (eq : Option Bool) : Assert := cmpAssertInner false eq
/-- `assertc_ne!(l, r)` -/
def assertcNe (eq : Option Bool) : Assert := cmpAssertInner true eq

end Konst.Cmp
