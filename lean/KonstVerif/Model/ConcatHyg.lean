/-
  Name resolution inside the expansions of `str_concat!` / `str_join!` / `slice_concat!` /
  `string::from_iter!` (C20): does an identifier the CALLER wrote inside a macro argument still
  mean the caller's item once the argument has been pasted into the expansion?

  mirrors (block structure and every identifier the expansion declares or binds):
    konst_kernel/src/string/string_for_konst.rs   string_concat!, string_join!, str_from_iter!
    konst_kernel/src/slice/slice_for_konst.rs     slice_concat!
    konst_kernel/src/collect_const.rs             __collect_const_iter_with!, __iter_collect_const!
    konst_kernel/src/iter/combinator_methods.rs   the loop skeleton of __process_iter_args! that every
                                                  from_iter! expansion contains (iter, elem_, next_, ..)

  Rust's rules for `macro_rules!` (mixed-site hygiene) that the model encodes:
    * ITEMS (`const`, `fn`) and generic parameters an expansion declares are NOT hygienic: they are
      visible, under their plain name, in the whole block (resp. item) that declares them — also to
      the argument tokens pasted inside that block. An identifier of the caller that meets such a
      declaration on its way out resolves to the expansion's item instead of the caller's
      (`Hyg.holes`: the declarations every occurrence of a fragment sees).
    * LOCAL variables (`let`, match-arm and parameter patterns) ARE hygienic, but an identifier
      pattern whose name is a `const`/`static` in scope is not a binding at all (E0530 "let bindings
      cannot shadow constants" or a refutable constant pattern). Items of the caller are visible
      everywhere in the expansion, nested `fn` items included, so such a caller item clashes with the
      binder wherever it is (`Hyg.binders`); functions and type aliases can be shadowed freely.
    * the expansion's OWN mentions of its items are resolved at the call site too. A bare identifier
      written as a generic argument (`CollectorCmd<.., CAP_KO9Y329U2U>`; `ArrayStr<LEN>` before 450faa1) is looked up
      in the TYPE namespace first: a type (alias) of the caller with that name is taken instead of
      the expansion's constant (`Hyg.gargsFree`), whether or not the argument mentions it.
    * labels live in their own namespace.
-/
namespace Konst.Concat.Hyg

/-- the namespace an identifier is looked up in -/
inductive Ns where
  | val   -- constants, statics, functions, locals, const generics
  | ty    -- types, type generics
deriving DecidableEq, Repr

/-- skeleton of one macro arm's expansion: exactly what matters for name resolution -/
inductive Sk where
  /-- `{ .. }`: the items declared directly in it are visible in all of it -/
  | block (body : List Sk)
  /-- `const NAME: <ty> = <init>;` / `const fn NAME<generics>(<params>) -> .. { .. }`;
      `inner` is everything between the name and the end of the item -/
  | item (ns : Ns) (name : String) (generics : List (Ns × String)) (inner : List Sk)
  /-- an identifier pattern (`let NAME`, `let mut NAME`, a match-arm binding, a parameter) -/
  | bind (name : String)
  /-- the macro fragment `$frag` is pasted here -/
  | hole (frag : String)
  /-- the expansion writes the bare identifier `name`, one of its own CONSTANTS, as a generic
      argument (`Foo<NAME>`, `f::<_, NAME>()`) -/
  | garg (name : String)

/-- the declaration a skeleton node contributes to the block that directly contains it -/
def decl : Sk → List (Ns × String)
  | .item ns n _ _ => [(ns, n)]
  | _ => []

mutual
/-- for every occurrence of `$frag`: the expansion-declared names in scope there (innermost first);
    `env` = what the enclosing nodes already declared -/
def holes (frag : String) (env : List (Ns × String)) : Sk → List (List (Ns × String))
  | .block body => holesL frag (body.flatMap decl ++ env) body
  | .item _ _ gens inner => holesL frag (gens ++ env) inner
  | .bind _ => []
  | .hole f => if f = frag then [env] else []
  | .garg _ => []
def holesL (frag : String) (env : List (Ns × String)) : List Sk → List (List (Ns × String))
  | [] => []
  | s :: r => holes frag env s ++ holesL frag env r
end

mutual
/-- every identifier pattern of the expansion -/
def binders : Sk → List String
  | .block body => bindersL body
  | .item _ _ _ inner => bindersL inner
  | .bind n => [n]
  | .hole _ => []
  | .garg _ => []
def bindersL : List Sk → List String
  | [] => []
  | s :: r => binders s ++ bindersL r
end

mutual
/-- the constants the expansion mentions as a bare generic argument at a place where the expansion
    itself declares no TYPE of that name (so that a type of the caller is what rustc finds first) -/
def gargsFree (env : List (Ns × String)) : Sk → List String
  | .block body => gargsFreeL (body.flatMap decl ++ env) body
  | .item _ _ gens inner => gargsFreeL (gens ++ env) inner
  | .bind _ => []
  | .hole _ => []
  | .garg n => if env.contains (.ty, n) then [] else [n]
def gargsFreeL (env : List (Ns × String)) : List Sk → List String
  | [] => []
  | s :: r => gargsFree env s ++ gargsFreeL env r
end

/-- what the caller declared under the name (in the block around the macro invocation) -/
inductive UserDecl where
  | const | static | fn | tyAlias
deriving DecidableEq, Repr

def UserDecl.ns : UserDecl → Ns
  | .tyAlias => .ty
  | _ => .val

/-- can a `let`/match binding of that name shadow the caller's item? (E0530 otherwise) -/
def UserDecl.shadowable : UserDecl → Bool
  | .const => false
  | .static => false
  | .fn => true
  | .tyAlias => true

/-- some occurrence of `$frag` sees an expansion-declared `name`: the caller's identifier is captured -/
def captured (sk : Sk) (frag : String) (d : UserDecl) (name : String) : Bool :=
  (holes frag [] sk).any fun env => env.contains (d.ns, name)

/-- an identifier pattern of the expansion has the name of a caller item that cannot be shadowed -/
def binderClash (sk : Sk) (d : UserDecl) (name : String) : Bool :=
  !d.shadowable && (binders sk).contains name

/-- a type of the caller has the name of a constant the expansion passes as a generic argument -/
def gargClash (sk : Sk) (d : UserDecl) (name : String) : Bool :=
  d.ns == .ty && (gargsFree [] sk).contains name

/-- the invocation means what the caller wrote: the caller's `name`, mentioned inside `$frag`, is
    neither captured by a declaration of the expansion nor in the way of one of its bindings or of
    one of its own generic arguments -/
def transparent (sk : Sk) (frag : String) (d : UserDecl) (name : String) : Bool :=
  !captured sk frag d name && !binderClash sk d name && !gargClash sk d name

/-! ## the four expansions (non-literal arms) -/

/-- the three helper constants of the inner block of `string_concat!` / `string_join!`:
    `const __LEN_81608BFNA5: usize = ..; const __CONC_81608BFNA5: &ArrayStr<{ __LEN_81608BFNA5 }> = ..;
     const __STR_81608BFNA5: &str = __CONC_81608BFNA5.as_str();`
    (the length is passed in braces, i.e. as an expression: looked up in the value namespace only,
    hence no `garg` node; before commit 450faa1 the constants were called `LEN`, `CONC`, `STR` and the
    second one read `&ArrayStr<LEN>`) -/
def lenConcStr : List Sk :=
  [.item .val "__LEN_81608BFNA5" [] [], .item .val "__CONC_81608BFNA5" [] [],
   .item .val "__STR_81608BFNA5" [] []]

/-- `string_concat!($slice)`:
    `{ const __ARGS_81608BFNA5: .. = ..($slice).conv(); { const __LEN_..; const __CONC_..; const __STR_..; __STR_.. } }` -/
def stringConcatSk : Sk :=
  .block [.item .val "__ARGS_81608BFNA5" [] [.hole "slice"], .block lenConcStr]

/-- `string_join!($sep, $slice)`:
    `{ const __ARGS_81608BFNA5: StrJoinArgs = StrJoinArgs { sep: ..($sep).conv(), slice: $slice }; { __LEN_; __CONC_; __STR_ } }` -/
def stringJoinSk : Sk :=
  .block [.item .val "__ARGS_81608BFNA5" [] [.hole "sep", .hole "slice"], .block lenConcStr]

/-- `slice_concat!($elem_ty, $slice)`:
    `{ const __ARGS_81608BFNA5: &[&[$elem_ty]] = $slice;
       { const __LEN_81608BFNA5 ..; const __CONC_81608BFNA5: [$elem_ty; __LEN_81608BFNA5] = ..; __CONC_81608BFNA5 } }`
    (the element type is pasted a second time INSIDE the inner block, whose constants are mangled) -/
def sliceConcatSk : Sk :=
  .block [.item .val "__ARGS_81608BFNA5" [] [.hole "elem_ty", .hole "slice"],
          .block [.item .val "__LEN_81608BFNA5" [] [],
                  .item .val "__CONC_81608BFNA5" [] [.hole "elem_ty"]]]

/-- `str_from_iter!($($rem)*)` = `__collect_const_iter_with!` + the `__STR81608BFNA5` constant:
    the iterator arguments are pasted inside the body of the `const fn __func_zxe7hgbnjs` -/
def strFromIterSk : Sk :=
  .block [
    .item .val "__func_zxe7hgbnjs" [(.ty, "Ret_KO9Y329U2U"), (.val, "CAP_KO9Y329U2U")]
      [-- `cmd: CollectorCmd<Ret_KO9Y329U2U, $Item, CAP_KO9Y329U2U>`
       .garg "Ret_KO9Y329U2U", .garg "CAP_KO9Y329U2U", .bind "cmd",
       .block [
         -- `let mut array = uninit_array::<_, CAP_KO9Y329U2U>();`
         .bind "array", .garg "CAP_KO9Y329U2U", .bind "written_length",
         -- __process_iter_args!: `match (..$rem..) { ((mut iter,), ()) => 'zxe7hgbnjs: loop { .. } }`
         .hole "rem",
         .bind "iter", .bind "elem_phantom_ty", .bind "item", .bind "elem_", .bind "next_",
         -- __iter_collect_const!{@each}: `if let BuildArray(teq) = cmd { <elem_initer> }`
         .bind "teq",
         .bind "byteser", .bind "bytes", .bind "item_len", .bind "i", .bind "j",
         -- `match cmd { ComputeLength(teq) => .., BuildArray(teq) => { .. let array = .. } }`
         .bind "teq", .bind "teq", .bind "array"]],
    .item .val "__COUNT81608BFNA5" [] [],
    .item .val "__ARR81608BFNA5" [] [],
    .item .val "__STR81608BFNA5" [] [.bind "x"]]

def skOf : String → Option Sk
  | "str_concat" => some stringConcatSk
  | "str_join" => some stringJoinSk
  | "slice_concat" => some sliceConcatSk
  | "from_iter" => some strFromIterSk
  | _ => none

end Konst.Concat.Hyg
