/-
  A log of evaluation events, for the properties that speak about HOW OFTEN and IN WHICH ORDER the argument
  expressions of a macro are evaluated (C19: `ev.` / `evo.` requests).  Import-free.

  `Tr α` = a computation that appends events (one character each) to a log and yields an `α`.
  An argument EXPRESSION with a side effect is a `Tr`; evaluating it once = running it once.
-/
namespace Konst.Trace

abbrev Log := List Char

/-- a computation that logs evaluation events -/
def Tr (α : Type) : Type := Log → α × Log

namespace Tr
variable {α β : Type}

def pure (a : α) : Tr α := fun l => (a, l)
def bind (m : Tr α) (f : α → Tr β) : Tr β := fun l => f (m l).1 (m l).2
instance : Monad Tr where
  pure := Tr.pure
  bind := Tr.bind

/-- log one event -/
def note (c : Char) : Tr Unit := fun l => ((), l ++ [c])

/-- run from the empty log: (value, events in order) -/
def run (m : Tr α) : α × Log := m []

@[simp] theorem pure_apply (a : α) (l : Log) : (Pure.pure a : Tr α) l = (a, l) := rfl
@[simp] theorem bind_apply (m : Tr α) (f : α → Tr β) (l : Log) : (m >>= f) l = f (m l).1 (m l).2 := rfl

end Tr

/-- an argument expression whose k-th evaluation yields the k-th value of `vals` (the last one repeated) and logs
    `tag`: `pop(&mut cursor)` / `{ k += 1; note(tag); vals[k - 1] }` of the generated programs.  How often it has been
    evaluated so far is read off the log. -/
def stream {α : Type} (tag : Char) (vals : List α) (dflt : α) : Tr α := fun l =>
  (vals.getD (min (l.count tag) (vals.length - 1)) dflt, l ++ [tag])

/-- a closure body / function that logs `tag` when it runs and computes `f x` -/
def logged {α β : Type} (tag : Char) (f : α → β) : α → Tr β := fun x l => (f x, l ++ [tag])

/-- an expression without side effects -/
def quiet {α : Type} (a : α) : Tr α := Tr.pure a

end Konst.Trace
