import KonstVerif.Model.Basic
/-
  Running a front/back history on a by-value double-ended iterator whose step functions may
  panic (`next(self) -> Option<(Item, Self)>` becomes `σ → Except ε (Option (ι × σ))`).
  Executable (used by the driver) and generic (used by the refinement lemmas).
-/
namespace Konst.Hist

open Konst

/-- what one step of a history shows: an item, `None`, or a panic -/
inductive Obs (ι : Type) where
  | item (x : ι)
  | done
  | panic
deriving Repr, DecidableEq

/-- a by-value step function -/
abbrev StepFn (ε σ ι : Type) := σ → Except ε (Option (ι × σ))

/-- `next` for a front step, `next_back` for a back step -/
def pick {ε σ ι : Type} (next back : StepFn ε σ ι) : Dir → StepFn ε σ ι
  | .f => next
  | .b => back

/-- the observation of every step of a history together with the iterator state after it
    (`None` leaves the state as it is: the caller still owns its copy); a panic ends the run. -/
def steps {ε σ ι : Type} (next back : StepFn ε σ ι) : σ → List Dir → List (Obs ι × σ)
  | _, [] => []
  | s, d :: h =>
    match pick next back d s with
    | .error _ => [(.panic, s)]
    | .ok none => (.done, s) :: steps next back s h
    | .ok (some (x, s')) => (.item x, s') :: steps next back s' h

/-- `Option` items of the reference deque as observations -/
def Obs.ofOption {ι : Type} : Option ι → Obs ι
  | none => .done
  | some x => .item x

end Konst.Hist
