import KonstVerif.Model.Basic
import KonstVerif.Model.Slice
import KonstVerif.Spec.Concat
/-
  Model of konst::ffi::cstr (C20).

  mirrors konst/src/ffi/cstr.rs:
    from_bytes_until_nul_inner, from_bytes_until_nul, from_bytes_with_nul (four match arms, in
    order), to_bytes_with_nul (pointer walk), to_bytes, to_str.

  A `&CStr` handed back by a constructor is a `View` into the `bytes` argument (the sub-slice given
  to `CStr::from_bytes_with_nul_unchecked`). The conversions take the memory that starts at the
  CStr's first byte (`this.as_ptr()`), because `to_bytes_with_nul` walks raw memory and does not use
  the CStr's stored length.
-/
namespace Konst.CStr
open Konst Konst.Slice

/-- `for_range!{i in 0..bytes.len() => if bytes[i] == 0 { .. return Ok(CStrAndLen{..}) }}` then
    `Err(FromBytesUntilNulError(()))`; `len` is `bytes.len()`, the list is `bytes[i..]`.
    Result: (`cstr` = `slice_up_to(bytes, i + 1)`, `length_with_nul` = `i + 1`). -/
def untilNulLoop (len : Nat) : List Nat → Nat → Option (View × Nat)
  | [], _ => none
  | b :: rest, i =>
    if b = 0 then some (sliceUpTo len (i + 1), i + 1)
    else untilNulLoop len rest (i + 1)

/-- `from_bytes_until_nul_inner(bytes)`; `none` = `Err(FromBytesUntilNulError(()))` -/
def fromBytesUntilNulInner (bytes : List Nat) : Option (View × Nat) :=
  untilNulLoop bytes.length bytes 0

/-- `from_bytes_until_nul`: drops `length_with_nul` -/
def fromBytesUntilNul (bytes : List Nat) : Option View :=
  match fromBytesUntilNulInner bytes with
  | some (cstr, _) => some cstr
  | none => none

/-- `HuntNulError` -/
inductive HuntNulError where
  | internalNul (pos : Nat)
  | notNulTerminated
deriving DecidableEq, Repr

/-- result of `from_bytes_with_nul`; `panic` is the bounds check of `bytes[bytes.len() - 1]`
    (and the `usize` underflow of `bytes.len() - 1`) in the guard of the second arm -/
inductive WithNul where
  | ok (cstr : View)
  | err (kind : HuntNulError)
  | panic
deriving DecidableEq, Repr

/-- `from_bytes_with_nul`: the four arms in source order
    1. `Ok(CStrAndLen{cstr, length_with_nul}) if length_with_nul == bytes.len() => Ok(cstr)`
    2. `Ok(_) if bytes[bytes.len() - 1] != 0 => NotNulTerminated`
    3. `Err(_) => NotNulTerminated`
    4. `Ok(CStrAndLen{length_with_nul, ..}) => InternalNul(length_with_nul - 1)` -/
def fromBytesWithNul (bytes : List Nat) : WithNul :=
  match fromBytesUntilNulInner bytes with
  | some (cstr, lengthWithNul) =>
    if lengthWithNul = bytes.length then .ok cstr
    else
      match bytes.getLast? with
      | none => .panic
      | some last =>
        if last ≠ 0 then .err .notNulTerminated
        else .err (.internalNul (lengthWithNul - 1))
  | none => .err .notNulTerminated

/-- `while *start.add(i) != 0 { i += 1; }` over the memory beginning at `start`;
    `none` = the walk left the allocation (an out-of-bounds read, UB) -/
def walk : List Nat → Nat → Option Nat
  | [], _ => none
  | b :: rest, i => if b ≠ 0 then walk rest (i + 1) else some i

/-- `to_bytes_with_nul(this)`: `from_raw_parts(start, i + 1)` as a view from the CStr's start -/
def toBytesWithNul (mem : List Nat) : Option View :=
  (walk mem 0).map fun i => ⟨0, i + 1⟩

/-- outcome of `to_bytes`: the `_ => unreachable!()` arm is kept -/
inductive ToBytes where
  | ok (v : View)
  | unreachable
  | oob
deriving DecidableEq, Repr

/-- `to_bytes(this)`: `match to_bytes_with_nul(this) { [rem @ .., 0] => rem, _ => unreachable!() }` -/
def toBytes (mem : List Nat) : ToBytes :=
  match toBytesWithNul mem with
  | none => .oob
  | some v =>
    match (v.apply mem).getLast? with
    | some 0 => .ok ⟨v.off, v.len - 1⟩
    | _ => .unreachable

/-- outcome of `to_str` -/
inductive ToStr where
  | ok (v : View)
  | err (validUpTo : Nat)
  | unreachable
  | oob
deriving DecidableEq, Repr

/-- `to_str(this) = crate::string::from_utf8(to_bytes(this))`, which is `core::str::from_utf8`
    with the error re-wrapped -/
def toStr (mem : List Nat) : ToStr :=
  match toBytes mem with
  | .ok v =>
    match Spec.Concat.stdFromUtf8 (v.apply mem) with
    | .ok _ => .ok v
    | .error p => .err p
  | .unreachable => .unreachable
  | .oob => .oob

end Konst.CStr
