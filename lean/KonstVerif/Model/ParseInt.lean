/-
  Model of konst's integer / bool parsing (property C12).  Import-free (core Lean only).

  mirrors:
    konst/src/parsing/primitive_parsing.rs   parse_integer! (main arm, @parse_signed, @apply_sign),
                                             Parser::parse_{u8..u128,usize,i8..i128,isize}, Parser::parse_bool
    konst/src/macros/parsing_macros.rs       try_parsing! / throw_out! / enable_if_start! (FromStart instance only)
    konst/src/parsing/parse_errors.rs        ParseError::new, ParseError::offset (FromStart)
    konst/src/parsing/non_parsing_methods.rs Parser::new, Parser::with_start_offset, Parser::is_empty
    konst/src/primitive/parse.rs             define_parse_methods! (parse_u8 … parse_bool: "remainder empty")
    konst/src/parsing/get_parser.rs          StdParser::<T>::parse_with = Parser::parse_<T> (pure delegation; no
                                             separate definition: `parserParseInt` / `parserParseBool` are the model)

  An integer type is a pair `(signed : Bool, bits : Nat)`; `$uns` (the unsigned twin) holds naturals
  below `2^bits`, `$type` holds `Int`s in `[-2^(bits-1), 2^(bits-1))` resp. `[0, 2^bits)`.
  u8 = (false, 8) … u128 = (false, 128), usize = (false, 64), i8 = (true, 8) … isize = (true, 64).
  Byte strings are `List Nat`.

  ── Functions exported for the full `Parser` model (C13/C14 import these) ─────────────────────────────
    parseIntegerPrefix (signed : Bool) (bits : Nat) (bytes : List Nat) : Option (Int × Nat)
        body of `parse_integer!` : `some (value, consumedLen)` or `none` = `throw!(ErrorKind::ParseInteger)`;
        the new remainder is `bytes.drop consumedLen`
    parseIntegerBody   signed bits bytes : Option (Int × List Nat)     same, returning the remaining bytes
    parseBoolPrefix    (bytes : List Nat) : Option (Bool × Nat)        body of `Parser::parse_bool`
    parserParseInt / parserParseBool : MiniParser → Except MiniError (_ × MiniParser)
        the same bodies wrapped in the model of `try_parsing!{self, FromStart, ret; …}`
    parseWhole signed bits s : Option Int,  parseBoolWhole s : Option Bool
        `konst::primitive::parse_*` (whole-string wrappers)
-/
namespace Konst.ParseInt

/-! ### machine arithmetic of the unsigned twin type `$uns` and of `$type` -/

/-- the pattern `b'0'..=b'9'` -/
def isDigit (b : Nat) : Bool := 48 ≤ b && b ≤ 57

/-- `(*byte - b'0') as $uns`: `u8` subtraction, then an `as` cast into `$uns` (which truncates
    modulo `2^bits`; the identity for every real type since `bits ≥ 8`) -/
def digitAs (bits b : Nat) : Nat := (b - 48) % 2 ^ bits

/-- `$uns::overflowing_mul`: (wrapped product, overflow flag) -/
def overflowingMul (bits a b : Nat) : Nat × Bool := ((a * b) % 2 ^ bits, decide (2 ^ bits ≤ a * b))

/-- `$uns::overflowing_add`: (wrapped sum, overflow flag) -/
def overflowingAdd (bits a b : Nat) : Nat × Bool := ((a + b) % 2 ^ bits, decide (2 ^ bits ≤ a + b))

/-- `<$type>::MAX` and `<$type>::MIN` of the signed type -/
def tMax (bits : Nat) : Int := ((2 ^ (bits - 1) : Nat) : Int) - 1
def tMin (bits : Nat) : Int := -((2 ^ (bits - 1) : Nat) : Int)

/-- `x as $uns` for a signed `x` (two's complement reinterpretation) -/
def asUnsigned (bits : Nat) (x : Int) : Nat := (x % (2 ^ bits : Nat)).toNat

/-- `n as $type` for an unsigned `n < 2^bits` (two's complement reinterpretation) -/
def asSigned (bits : Nat) (n : Nat) : Int := if n < 2 ^ (bits - 1) then (n : Int) else (n : Int) - (2 ^ bits : Nat)

/-- `$type::wrapping_neg`: `-x`, except that `MIN` stays `MIN` -/
def wrappingNeg (bits : Nat) (x : Int) : Int := if x = tMin bits then x else -x

/-- `const MAX_POS: $uns = <$type>::MAX as $uns;` -/
def maxPos (bits : Nat) : Nat := asUnsigned bits (tMax bits)
/-- `const MAX_NEG: $uns = <$type>::MIN as $uns;` -/
def maxNeg (bits : Nat) : Nat := asUnsigned bits (tMin bits)

/-! ### `parse_integer!` -/

/-- `@parse_signed signed`: `if let [b'-', rem @ ..] = bytes { bytes = rem; true } else { false }`;
    `@parse_signed unsigned` has no such step (`isneg` is never bound). -/
def parseSign (signed : Bool) (bytes : List Nat) : Bool × List Nat :=
  if signed then
    match bytes with
    | 45 :: rem => (true, rem)
    | _ => (false, bytes)
  else (false, bytes)

/-- `@parse_signed unsigned`: `num = if let [byte @ b'0'..=b'9', rem @ ..] = bytes { bytes = rem; (*byte - b'0') as $uns }
    else { throw!(ErrorKind::ParseInteger) }`;  `none` = the throw -/
def firstDigit (bits : Nat) (bytes : List Nat) : Option (Nat × List Nat) :=
  match bytes with
  | b :: rem => if isDigit b then some (digitAs bits b, rem) else none
  | [] => none

/-- `while let [byte @ b'0'..=b'9', rem @ ..] = bytes { bytes = rem; … num = next_add; }`
    returns `(num, bytes)` at loop exit; `none` = `throw!(ErrorKind::ParseInteger)` when
    `overflowed_mul | overflowed_add`. -/
def accLoop (bits : Nat) : List Nat → Nat → Option (Nat × List Nat)
  | [], num => some (num, [])
  | b :: rest, num =>
    if isDigit b then
      let (nextMul, overflowedMul) := overflowingMul bits num 10
      let (nextAdd, overflowedAdd) := overflowingAdd bits nextMul (digitAs bits b)
      if overflowedMul || overflowedAdd then none else accLoop bits rest nextAdd
    else some (num, b :: rest)

/-- `@apply_sign`: for signed types the `MAX_NEG` / `MAX_POS` comparison, the `as $type` cast and
    `wrapping_neg`; for unsigned types nothing (the value is `num`).  `none` = the throw. -/
def applySign (signed : Bool) (bits : Nat) (num : Nat) (isneg : Bool) : Option Int :=
  if signed then
    if isneg then
      if num ≤ maxNeg bits then some (wrappingNeg bits (asSigned bits num)) else none
    else
      if num ≤ maxPos bits then some (asSigned bits num) else none
  else some (num : Int)

/-- the code block of `parse_integer!` up to (excluding) the remainder update:
    `some (value, bytes left)` or `none` = `throw!(ErrorKind::ParseInteger)` -/
def parseIntegerBody (signed : Bool) (bits : Nat) (bytes : List Nat) : Option (Int × List Nat) :=
  let (isneg, b1) := parseSign signed bytes
  match firstDigit bits b1 with
  | none => none
  | some (num0, b2) =>
    match accLoop bits b2 num0 with
    | none => none
    | some (num, rest) =>
      match applySign signed bits num isneg with
      | none => none
      | some v => some (v, rest)

/-- … with `$parser.str = str_from($parser.str, $parser.str.len() - bytes.len())`: the number of
    bytes taken off the front -/
def parseIntegerPrefix (signed : Bool) (bits : Nat) (bytes : List Nat) : Option (Int × Nat) :=
  (parseIntegerBody signed bits bytes).map fun (v, rest) => (v, bytes.length - rest.length)

/-! ### `Parser::parse_bool` -/

/-- `match self.str.as_bytes() { [b't',b'r',b'u',b'e', ..] => (str_from 4, true),
    [b'f',b'a',b'l',b's',b'e', ..] => (str_from 5, false), _ => throw!(ErrorKind::ParseBool) }` -/
def parseBoolPrefix (bytes : List Nat) : Option (Bool × Nat) :=
  match bytes with
  | 116 :: 114 :: 117 :: 101 :: _ => some (true, 4)
  | 102 :: 97 :: 108 :: 115 :: 101 :: _ => some (false, 5)
  | _ => none

/-! ### the part of `Parser` that `parse_*` touches -/

inductive ParseDirection where
  | fromStart | fromEnd | fromBoth
deriving Repr, DecidableEq, Inhabited

inductive ErrorKind where
  | parseInteger | parseBool
deriving Repr, DecidableEq, Inhabited

/-- `Parser { parse_direction, start_offset, str }` (`yielded_last_split` is neither read nor written
    by `parse_*`).  `start_offset: u32` is a `Nat` here: assumption `start_offset + str.len() < 2^32`. -/
structure MiniParser where
  dir : ParseDirection
  startOffset : Nat
  str : List Nat
deriving Repr, DecidableEq, Inhabited

/-- `ParseError { start_offset, end_offset, direction, kind }` -/
structure MiniError where
  startOffset : Nat
  endOffset : Nat
  dir : ParseDirection
  kind : ErrorKind
deriving Repr, DecidableEq, Inhabited

/-- `Parser::with_start_offset` (`Parser::new` = offset 0) -/
def MiniParser.new (s : List Nat) (startOffset : Nat := 0) : MiniParser := ⟨.fromStart, startOffset, s⟩

/-- `ParseError::new(parser, kind)` -/
def MiniError.new (p : MiniParser) (kind : ErrorKind) : MiniError :=
  ⟨p.startOffset, p.startOffset + p.str.length, p.dir, kind⟩

/-- `ParseError::offset` -/
def MiniError.offset (e : MiniError) : Nat :=
  match e.dir with
  | .fromStart | .fromBoth => e.startOffset
  | .fromEnd => e.endOffset

/-- `try_parsing!{self, FromStart, ret; body}` where `body` either throws `kind` or sets
    `self.str = str_from(self.str, n)` and evaluates to a value:
    `self.parse_direction = FromStart; let copy = self;` … on a throw `Err(ParseError::new(copy, kind))`,
    otherwise `self.start_offset += (copy.str.len() - self.str.len()) as u32; Ok((ret, self))`. -/
def tryParsingFromStart {α : Type} (self : MiniParser) (kind : ErrorKind)
    (body : List Nat → Option (α × Nat)) : Except MiniError (α × MiniParser) :=
  let self := { self with dir := .fromStart }
  let copy := self
  match body self.str with
  | none => .error (MiniError.new copy kind)
  | some (ret, n) =>
    let self := { self with str := self.str.drop n }
    let self := { self with startOffset := self.startOffset + (copy.str.length - self.str.length) }
    .ok (ret, self)

/-- `Parser::parse_u8` … `Parser::parse_isize` -/
def parserParseInt (signed : Bool) (bits : Nat) (self : MiniParser) : Except MiniError (Int × MiniParser) :=
  tryParsingFromStart self .parseInteger (parseIntegerPrefix signed bits)

/-- `Parser::parse_bool` -/
def parserParseBool (self : MiniParser) : Except MiniError (Bool × MiniParser) :=
  tryParsingFromStart self .parseBool parseBoolPrefix

/-! ### `konst::primitive::parse_*` -/

/-- `match Parser::new(s).parse_T() { Ok((num, parser)) if parser.is_empty() => Ok(num), _ => Err(ParseIntError) }` -/
def parseWhole (signed : Bool) (bits : Nat) (s : List Nat) : Option Int :=
  match parserParseInt signed bits (MiniParser.new s) with
  | .ok (num, parser) => if parser.str.isEmpty then some num else none
  | .error _ => none

/-- `konst::primitive::parse_bool` -/
def parseBoolWhole (s : List Nat) : Option Bool :=
  match parserParseBool (MiniParser.new s) with
  | .ok (b, parser) => if parser.str.isEmpty then some b else none
  | .error _ => none

end Konst.ParseInt
