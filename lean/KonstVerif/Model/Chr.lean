import KonstVerif.Model.Basic
import KonstVerif.Model.Slice
/-
  Model of konst's char conversions.  A `char`/`u32` is a `Nat`, a `u8` is a `Nat < 256`.

  mirrors:
    konst_kernel/src/chr/char_formatting.rs   encode_utf8, Utf8Encoded::as_bytes
    konst_kernel/src/chr.rs                   from_u32, from_u32_unchecked (a transmute: identity)
    konst/src/string/chars_methods.rs         string_to_usv, string_to_char
-/
namespace Konst.Chr

open Konst

/-- `x as u8` for `x : u32` (truncation) -/
def asU8 (x : Nat) : Nat := x % 256

/-- `Utf8Encoded { encoded: [u8; 4], len: u8 }` -/
structure Utf8Encoded where
  encoded : List Nat
  len : Nat
deriving Repr, DecidableEq, Inhabited

/-- `encode_utf8`: the four `match u32 { .. }` arms with their bit operations; in Rust `as` binds
    tighter than `|`, so each byte is `CONST | ((expr) as u8)`. -/
def encodeUtf8 (u32 : Nat) : Utf8Encoded :=
  if u32 ≤ 127 then ⟨[asU8 u32, 0, 0, 0], 1⟩
  else if u32 ≤ 0x7FF then
    let b0 := 0b11000000 ||| asU8 (u32 >>> 6)
    let b1 := 0b10000000 ||| asU8 (u32 &&& 0b00111111)
    ⟨[b0, b1, 0, 0], 2⟩
  else if u32 ≤ 0xFFFF then
    let b0 := 0b11100000 ||| asU8 (u32 >>> 12)
    let b1 := 0b10000000 ||| asU8 ((u32 >>> 6) &&& 0b00111111)
    let b2 := 0b10000000 ||| asU8 (u32 &&& 0b00111111)
    ⟨[b0, b1, b2, 0], 3⟩
  else
    let b0 := 0b11110000 ||| asU8 (u32 >>> 18)
    let b1 := 0b10000000 ||| asU8 ((u32 >>> 12) &&& 0b00111111)
    let b2 := 0b10000000 ||| asU8 ((u32 >>> 6) &&& 0b00111111)
    let b3 := 0b10000000 ||| asU8 (u32 &&& 0b00111111)
    ⟨[b0, b1, b2, b3], 4⟩

/-- `Utf8Encoded::as_bytes = slice_up_to(&self.encoded, self.len as usize)` -/
def Utf8Encoded.asBytes (e : Utf8Encoded) : List Nat :=
  (Slice.sliceUpTo e.encoded.length e.len).apply e.encoded

/-- `from_u32`: `if n < 0xD800 || 0xE000 <= n && n <= 0x10FFFF { Some(transmute(n)) } else { None }` -/
def fromU32 (n : Nat) : Option Nat :=
  if n < 0xD800 || (0xE000 ≤ n && n ≤ 0x10FFFF) then some n else none

/-- `string_to_usv`: slice-pattern match on the bytes of a one-character string; the fall-through
    arm is `0` when the `debug` feature is off (the modelled configuration; with `debug` it panics).
    It is unreachable from `Chars`/`CharIndices` on valid strings (theorem `C07.chars_step_*`). -/
def stringToUsv : List Nat → Nat
  | [a] => a
  | [a, b] => ((a &&& 0x1F) <<< 6) ||| (b &&& 0x7F)
  | [a, b, c] => ((a &&& 0xF) <<< 12) ||| ((b &&& 0x3F) <<< 6) ||| (c &&& 0x3F)
  | [a, b, c, d] =>
    ((a &&& 0x7) <<< 18) ||| ((b &&& 0x3F) <<< 12) ||| ((c &&& 0x3F) <<< 6) ||| (d &&& 0x3F)
  | _ => 0

/-- `string_to_char = from_u32_unchecked(string_to_usv(s))` (the cast is the identity on the value;
    it is sound only if the value is a scalar value — that is theorem `C07.chars_refines_deque`). -/
def stringToChar (s : List Nat) : Nat := stringToUsv s

end Konst.Chr
