import KonstVerif.Model.Basic
import KonstVerif.Model.Slice
import KonstVerif.Model.Bytes
/-
  Model of the str-level pattern functions of `konst::string` (namespace `Konst.StrFns`).
  A `&str` is its byte list (`List Nat`); `__from_u8_subslice_of_str` / `from_utf8_unchecked`
  is the identity on bytes (its `debug`-feature assertions are not modelled), so almost every
  function is the byte function of `Model/Bytes.lean` applied to `as_bytes()`.
  `string::pattern::PatternNorm::new` + `as_bytes`/`as_str` is the identity on the pattern's
  bytes (`&str` -> itself, `char` -> the bytes of `chr::encode_utf8`, modelled elsewhere).

  Rust item (konst/src/string.rs)      Lean definition          result
  ----------------------------------------------------------------------------------------
  string::starts_with                  StrFns.startsWith        Bool
  string::ends_with                    StrFns.endsWith          Bool
  string::find                         StrFns.find              Option Nat   (byte offset)
  string::contains                     StrFns.contains          Bool
  string::rfind                        StrFns.rfind             Option Nat
  string::rcontains                    StrFns.rcontains         Bool
  string::strip_prefix                 StrFns.stripPrefix       Option View  (view into the str)
  string::strip_suffix                 StrFns.stripSuffix       Option View
  string::trim / trim_start / trim_end StrFns.trim / trimStart / trimEnd            View
  string::trim_matches                 StrFns.trimMatches       View
  string::trim_start_matches           StrFns.trimStartMatches  View
  string::trim_end_matches             StrFns.trimEndMatches    View
  string::find_skip / find_keep        StrFns.findSkip / findKeep                   Option View
  string::rfind_skip / rfind_keep      StrFns.rfindSkip / rfindKeep                 Option View
  konst/src/string/split_once.rs:
  string::split_once                   StrFns.splitOnce         Except Unit (Option (View × View))
  string::rsplit_once                  StrFns.rsplitOnce        Except Unit (Option (View × View))
  konst_kernel/src/string.rs (used by split_once; the C03 property owns their theorems):
  __is_char_boundary_forgiving         StrFns.isCharBoundaryForgiving
  str_up_to / str_from                 StrFns.strUpTo / strFrom : Except Unit View
  string::split_at                     StrFns.splitAt           Except Unit (View × View)
  `Except.error ()` = the `non_char_boundary_panic`.
-/
namespace Konst.StrFns

open Konst

/-- `u8 as i8` -/
def asI8 (b : Nat) : Int := if b < 128 then (b : Int) else (b : Int) - 256

/-- `byte_is_char_boundary!`: `($b as i8) >= -0x40` -/
def byteIsCharBoundary (b : Nat) : Bool := decide (asI8 b ≥ -64)

/-- `__is_char_boundary_forgiving`: `position >= bytes.len() || byte_is_char_boundary!(bytes[position])` -/
def isCharBoundaryForgiving (bytes : List Nat) (position : Nat) : Bool :=
  match bytes[position]? with
  | none => true
  | some b => byteIsCharBoundary b

/-- `str_up_to`: the `slice_up_to` view, or the panic -/
def strUpTo (s : List Nat) (len : Nat) : Except Unit View :=
  if isCharBoundaryForgiving s len then .ok (Slice.sliceUpTo s.length len) else .error ()

/-- `str_from`: the `slice_from` view, or the panic -/
def strFrom (s : List Nat) (start : Nat) : Except Unit View :=
  if isCharBoundaryForgiving s start then .ok (Slice.sliceFrom s.length start) else .error ()

/-- `string::split_at`: `(str_up_to(string, at), str_from(string, at))` -/
def splitAt (s : List Nat) (at_ : Nat) : Except Unit (View × View) := do
  let a ← strUpTo s at_
  let b ← strFrom s at_
  pure (a, b)

def startsWith (left pat : List Nat) : Bool := Bytes.startsWith left pat
def endsWith (left pat : List Nat) : Bool := Bytes.endsWith left pat
def find (left pat : List Nat) : Option Nat := Bytes.bytesFind left pat
/-- `matches!(__bytes_find(..), Some(_))` -/
def contains (left pat : List Nat) : Bool := (Bytes.bytesFind left pat).isSome
def rfind (left pat : List Nat) : Option Nat := Bytes.bytesRfind left pat
/-- `matches!(__bytes_rfind(..), Some(_))` -/
def rcontains (left pat : List Nat) : Bool := (Bytes.bytesRfind left pat).isSome
def stripPrefix (s pat : List Nat) : Option View := Bytes.stripPrefix s pat
def stripSuffix (s pat : List Nat) : Option View := Bytes.stripSuffix s pat
def trim (this : List Nat) : View := Bytes.bytesTrim this
def trimStart (this : List Nat) : View := Bytes.bytesTrimStart this
def trimEnd (this : List Nat) : View := Bytes.bytesTrimEnd this
def trimMatches (this needle : List Nat) : View := Bytes.trimMatches this needle
def trimStartMatches (this needle : List Nat) : View := Bytes.trimStartMatches this needle
def trimEndMatches (this needle : List Nat) : View := Bytes.trimEndMatches this needle
def findSkip (this needle : List Nat) : Option View := Bytes.findSkip this needle
def findKeep (this needle : List Nat) : Option View := Bytes.findKeep this needle
def rfindSkip (this needle : List Nat) : Option View := Bytes.rfindSkip this needle
def rfindKeep (this needle : List Nat) : Option View := Bytes.rfindKeep this needle

/-- `split_once`: `if delim.is_empty() { Some(split_at(this, 0)) } else
    map!(find(this, delim), |pos| (str_up_to(this, pos), str_from(this, pos + delim.len())))` -/
def splitOnce (this delim : List Nat) : Except Unit (Option (View × View)) :=
  if delim.isEmpty then (splitAt this 0).map some
  else match find this delim with
    | none => .ok none
    | some pos => do
      let a ← strUpTo this pos
      let b ← strFrom this (pos + delim.length)
      pure (some (a, b))

/-- `rsplit_once`: `split_at(this, this.len())` for an empty delimiter, else as `split_once`
    at the `rfind` position -/
def rsplitOnce (this delim : List Nat) : Except Unit (Option (View × View)) :=
  if delim.isEmpty then (splitAt this this.length).map some
  else match rfind this delim with
    | none => .ok none
    | some pos => do
      let a ← strUpTo this pos
      let b ← strFrom this (pos + delim.length)
      pure (some (a, b))

end Konst.StrFns
