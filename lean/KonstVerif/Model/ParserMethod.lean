import KonstVerif.Model.Utf8
/-
  Model of the code `parser_method!` expands to.

  mirrors:
    konst/src/macros/parser_method.rs      __priv_pa_strip_prefix/_suffix, __priv_pa_find_skip_either (as of 5e6c5eb),
                                           __priv_pa_trim_matches_inner, __priv_pa_bytes_accessor
    konst_proc_macros/src/lib.rs           bstr_pattern: literal -> `[b0, b1, .., rem @ ..]` (Start)
                                           or `[rem @ .., b0, b1, ..]` (End)
    konst/src/parsing/non_parsing_methods.rs  Parser::skip, Parser::skip_back (what `set` calls)

  A parser is (start_offset, remainder bytes); the end offset is start_offset + |remainder|.
  The arms of the macro are a list of (branch number, literal bytes) in source order, `|`-alternatives
  of one branch flattened in order (Rust tries or-pattern alternatives left to right).
-/
namespace Konst.PM
open Konst Konst.Utf8

structure PState where
  start : Nat
  rem : List Nat
deriving Repr, DecidableEq, Inhabited

/-- slice pattern `[b0, b1, .., rem @ ..]` -/
def matchStart (lit bytes : List Nat) : Option (List Nat) :=
  if lit.isPrefixOf bytes then some (bytes.drop lit.length) else none

/-- slice pattern `[rem @ .., b0, b1, ..]` -/
def matchEnd (lit bytes : List Nat) : Option (List Nat) :=
  if lit.isSuffixOf bytes then some (bytes.take (bytes.length - lit.length)) else none

/-- a `match` whose arms are tried in order; result = (branch number, `rem`) -/
def firstArm (m : List Nat → List Nat → Option (List Nat)) :
    List (Nat × List Nat) → List Nat → Option (Nat × List Nat)
  | [], _ => none
  | (i, lit) :: r, bytes =>
    match m lit bytes with
    | some rem => some (i, rem)
    | none => firstArm m r bytes

/-- `Parser::skip(byte_count)`: clamp, else round up to the next char boundary -/
def skip (p : PState) (byteCount : Nat) : PState :=
  let n :=
    if byteCount > p.rem.length then p.rem.length
    else
      -- `while !__is_char_boundary_bytes(bytes, byte_count) { byte_count += 1 }`
      let rec up (fuel n : Nat) : Nat :=
        match fuel with
        | 0 => n
        | f + 1 => if isCharBoundaryBytes p.rem n then n else up f (n + 1)
      up (p.rem.length + 1) byteCount
  ⟨p.start + n, p.rem.drop n⟩

/-- `Parser::skip_back(byte_count)`: `pos = len.saturating_sub(byte_count)`, round down -/
def skipBack (p : PState) (byteCount : Nat) : PState :=
  let pos0 := p.rem.length - byteCount
  let rec down : Nat → Nat
    | 0 => 0
    | n + 1 => if isCharBoundaryBytes p.rem (n + 1) then n + 1 else down n
  ⟨p.start, p.rem.take (down pos0)⟩

/-- `__priv_pa_bytes_accessor!(set, .., rem)` -/
def setStart (p : PState) (rem : List Nat) : PState := skip p (p.rem.length - rem.length)
def setEnd (p : PState) (rem : List Nat) : PState := skipBack p (p.rem.length - rem.length)

/-- result of a match-like form: which branch ran (`none` = the `_ =>` default) and the parser -/
abbrev Outcome := Option Nat × PState

/-- `parser_method!{p, strip_prefix; ..}` -/
def stripPrefix (arms : List (Nat × List Nat)) (p : PState) : Outcome :=
  match firstArm matchStart arms p.rem with
  | some (i, rem) => (some i, setStart p rem)
  | none => (none, p)

/-- `parser_method!{p, strip_suffix; ..}` -/
def stripSuffix (arms : List (Nat × List Nat)) (p : PState) : Outcome :=
  match firstArm matchEnd arms p.rem with
  | some (i, rem) => (some i, setEnd p rem)
  | none => (none, p)

/-- the search `loop` of `__priv_pa_find_skip_either` with `[_, brem @ ..]` (since 5e6c5eb it contains no caller
    code): `match bytes { pats => break, _ => if let [_, brem @ ..] = bytes { bytes = brem } else { break } }`.
    Result = the `bytes` the loop leaves: the first tail at whose start an alternative matches, else `[]`. -/
def searchLoop (arms : List (Nat × List Nat)) : List Nat → List Nat
  | [] => []
  | b :: brem =>
    match firstArm matchStart arms (b :: brem) with
    | some _ => b :: brem
    | none => searchLoop arms brem

/-- the same loop with `[brem @ .., _]` (fuel = number of bytes that can still be dropped) -/
def rsearchLoop (arms : List (Nat × List Nat)) : Nat → List Nat → List Nat
  | fuel, bytes =>
    match firstArm matchEnd arms bytes with
    | some _ => bytes
    | none =>
      match fuel with
      | 0 => bytes
      | f + 1 => if bytes = [] then bytes else rsearchLoop arms f bytes.dropLast

/-- The search loop and the `match bytes { pats(rem) => .., _ => default }` that follows it, FUSED into one loop
    (this is literally the loop as it was before 5e6c5eb, when the bodies were pasted inside it).  The theorems
    about the find forms are stated on this form; `Props.C18.search_then_match` proves it equal to what the
    code does now (`firstArm matchStart arms (searchLoop arms bytes)`). -/
def findLoop (arms : List (Nat × List Nat)) : List Nat → Option (Nat × List Nat)
  | [] => firstArm matchStart arms []
  | b :: brem =>
    match firstArm matchStart arms (b :: brem) with
    | some r => some r
    | none => findLoop arms brem

def rfindLoop (arms : List (Nat × List Nat)) : Nat → List Nat → Option (Nat × List Nat)
  | fuel, bytes =>
    match firstArm matchEnd arms bytes with
    | some r => some r
    | none =>
      match fuel with
      | 0 => none
      | f + 1 => if bytes = [] then none else rfindLoop arms f bytes.dropLast

/-- `parser_method!{p, find_skip; ..}`: search loop, then the `match` that runs `set` and the chosen body -/
def findSkip (arms : List (Nat × List Nat)) (p : PState) : Outcome :=
  match firstArm matchStart arms (searchLoop arms p.rem) with
  | some (i, rem) => (some i, setStart p rem)
  | none => (none, p)

def rfindSkip (arms : List (Nat × List Nat)) (p : PState) : Outcome :=
  match firstArm matchEnd arms (rsearchLoop arms p.rem.length p.rem) with
  | some (i, rem) => (some i, setEnd p rem)
  | none => (none, p)

/-- `while let pat1 | pat2 | .. = bytes { if rem.len() == bytes.len() { break } else { bytes = rem } }` -/
def trimLoop (m : List Nat → List Nat → Option (List Nat)) (lits : List (Nat × List Nat)) :
    Nat → List Nat → List Nat
  | 0, bytes => bytes
  | fuel + 1, bytes =>
    match firstArm m lits bytes with
    | none => bytes
    | some (_, rem) => if rem.length = bytes.length then bytes else trimLoop m lits fuel rem

def trimStartMatches (lits : List (Nat × List Nat)) (p : PState) : PState :=
  setStart p (trimLoop matchStart lits (p.rem.length + 1) p.rem)

def trimEndMatches (lits : List (Nat × List Nat)) (p : PState) : PState :=
  setEnd p (trimLoop matchEnd lits (p.rem.length + 1) p.rem)

end Konst.PM
