import KonstVerif.Model.Basic
import KonstVerif.Spec.Utf8
import KonstVerif.Spec.Concat
/-
  Model of konst's constant concatenation / join / collect-to-string macros (C20).

  mirrors:
    konst_kernel/src/chr/*.rs                       encode_utf8, Utf8Encoded::{as_bytes, as_str}
    konst_kernel/src/string/string_for_konst.rs     __StrConcatArg, __SepArg(::len), __ElemDispatch::{len,
                                                    as_bytesable}, string_concat!, concat_sum_lengths,
                                                    concat_strs, string_join!, join_sum_lengths, join_strs,
                                                    str_from_iter!, ArrayStr::as_str
    konst_kernel/src/collect_const.rs               __collect_const_iter_with! / __iter_collect_const!
                                                    (length pass, fill pass, the final assert), as
                                                    instantiated by str_from_iter!
    konst_kernel/src/slice/slice_for_konst.rs       slice_concat!, concat_sum_lengths, concat_slices,
                                                    first_elem

  Bytes are `Nat`s below 256, a `char` is its scalar value, `usize` arithmetic is checked (const
  evaluation / the harness profile turn an overflow into an error: outcome `Panic.overflow`).
  Every macro is two const evaluations: the first computes `LEN`, the second fills a `[_; LEN]`
  buffer by *index* (`out[out_i] = ..; out_i += 1`), so the model keeps the buffer and the write index
  and an out-of-range write is the outcome `Panic.index`.
-/
namespace Konst.Concat
open Konst

/-- why a const evaluation stopped (each is a compile error when the macro is used in a const) -/
inductive Panic where
  | overflow     -- usize arithmetic overflow
  | index        -- `out[out_i]` with `out_i >= N`
  | utf8         -- `from_utf8` of the filled buffer failed ("bug: konst made an invalid string")
  | noElem       -- `first_elem`: "there was no element in any slice"
  | lenMismatch  -- `assert!(length == CAP, "initialization was skipped somehow")`
  | uninit       -- `array_assume_init` on a buffer with an unwritten slot (would be UB, not a panic)
deriving DecidableEq, Repr

/-- outcome of a const evaluation -/
inductive Out (α : Type) where
  | ok (a : α)
  | panic (p : Panic)
deriving DecidableEq, Repr

def Out.bind {α β : Type} : Out α → (α → Out β) → Out β
  | .ok a, f => f a
  | .panic p, _ => .panic p

instance : Monad Out where
  pure := Out.ok
  bind := Out.bind

@[simp] theorem Out.ok_bind {α β : Type} (a : α) (f : α → Out β) : (Out.ok a >>= f) = f a := rfl
@[simp] theorem Out.panic_bind {α β : Type} (p : Panic) (f : α → Out β) :
    ((Out.panic p : Out α) >>= f) = .panic p := rfl
@[simp] theorem Out.pure_eq {α : Type} (a : α) : (pure a : Out α) = .ok a := rfl

/-- `a + b` on `usize` where overflow is an error -/
def ckAdd (a b : Nat) : Out Nat := if a + b < USIZE then .ok (a + b) else .panic .overflow
/-- `a * b` on `usize` where overflow is an error -/
def ckMul (a b : Nat) : Out Nat := if a * b < USIZE then .ok (a * b) else .panic .overflow

/-! ### chars -/

/-- `char::len_utf8` -/
def lenUtf8 (c : Nat) : Nat :=
  if c < 0x80 then 1 else if c < 0x800 then 2 else if c < 0x10000 then 3 else 4

/-- `Utf8Encoded { encoded: [u8; 4], len: u8 }` -/
structure Utf8Encoded where
  encoded : List Nat
  len : Nat
deriving DecidableEq, Repr

/-- `x as u8` -/
def asU8 (x : Nat) : Nat := x % 256

/-- `encode_utf8(char)`: the four `match u32 { .. }` arms with their shifts and masks -/
def encodeUtf8 (c : Nat) : Utf8Encoded :=
  if c ≤ 127 then ⟨[asU8 c, 0, 0, 0], 1⟩
  else if c ≤ 0x7FF then
    ⟨[0xC0 ||| asU8 (c >>> 6), 0x80 ||| asU8 (c &&& 0x3F), 0, 0], 2⟩
  else if c ≤ 0xFFFF then
    ⟨[0xE0 ||| asU8 (c >>> 12), 0x80 ||| asU8 ((c >>> 6) &&& 0x3F), 0x80 ||| asU8 (c &&& 0x3F), 0], 3⟩
  else
    ⟨[0xF0 ||| asU8 (c >>> 18), 0x80 ||| asU8 ((c >>> 12) &&& 0x3F),
      0x80 ||| asU8 ((c >>> 6) &&& 0x3F), 0x80 ||| asU8 (c &&& 0x3F)], 4⟩

/-- `Utf8Encoded::as_bytes = slice_up_to(&self.encoded, self.len)` (`as_str` is the same bytes) -/
def Utf8Encoded.asBytes (e : Utf8Encoded) : List Nat := e.encoded.take e.len

/-! ### elements and separators -/

/-- what `__ElemDispatch` wraps: a `char`/`&char` or a `&str`/`&&str` -/
inductive Elem where
  | chr (c : Nat)
  | str (s : List Nat)
deriving DecidableEq, Repr

/-- `__ElemDispatch::len`: `len_utf8()` / `str::len()` -/
def Elem.len : Elem → Nat
  | .chr c => lenUtf8 c
  | .str s => s.length

/-- `__ElemDispatch::as_bytesable().as_bytes()`: `encode_utf8(c)` / the str itself -/
def Elem.bytes : Elem → List Nat
  | .chr c => (encodeUtf8 c).asBytes
  | .str s => s

/-- `__StrConcatArg`: `Char(&[char])` or `Str(&[&str])` -/
inductive ConcatArg where
  | chars (cs : List Nat)
  | strs (ss : List (List Nat))
deriving DecidableEq, Repr

/-- the `slices` bound by `__with_str_concat_slices!`, each element seen through `__ElemDispatch` -/
def ConcatArg.elems : ConcatArg → List Elem
  | .chars cs => cs.map .chr
  | .strs ss => ss.map .str

/-- `__SepArg` -/
inductive SepArg where
  | chr (c : Nat)
  | str (s : List Nat)
deriving DecidableEq, Repr

/-- `__SepArg::len` -/
def SepArg.len : SepArg → Nat
  | .chr c => lenUtf8 c
  | .str s => s.length

/-! ### phase 1 of `string_concat!`: `concat_sum_lengths` -/

/-- `for_range!{i in 0..slices.len() => sum += __ElemDispatch(slices[i]).len();}` -/
def sumLoop : List Elem → Nat → Out Nat
  | [], sum => .ok sum
  | e :: es, sum => do
    let sum ← ckAdd sum e.len
    sumLoop es sum

/-- `concat_sum_lengths(arg)` -/
def concatSumLengths (arg : ConcatArg) : Out Nat := sumLoop arg.elems 0

/-! ### phase 2: `concat_strs::<N>` -/

/-- `for_range!{i in 0..slice.len() => out[out_i] = slice[i]; out_i += 1;}` on the buffer `out`
    with write index `outI`; the bounds check of `out[out_i]` is the `index` panic -/
def writeBytes {α : Type} : List α → List α → Nat → Out (List α × Nat)
  | [], out, outI => .ok (out, outI)
  | b :: bs, out, outI =>
    if outI < out.length then writeBytes bs (out.set outI b) (outI + 1)
    else .panic .index

/-- the outer `for_range!{si in 0..slices.len() => .. }` of `concat_strs` -/
def fillLoop : List Elem → List Nat → Nat → Out (List Nat × Nat)
  | [], out, outI => .ok (out, outI)
  | e :: es, out, outI => do
    let (out, outI) ← writeBytes e.bytes out outI
    fillLoop es out outI

/-- `concat_strs::<N>(arg)`: `let mut out = [0u8; N]; let mut out_i = 0;` … `ArrayStr(out)` -/
def concatStrs (n : Nat) (arg : ConcatArg) : Out (List Nat) := do
  let (out, _) ← fillLoop arg.elems (List.replicate n 0) 0
  pure out

/-- `ArrayStr::as_str`: `match core::str::from_utf8(&self.0) { Ok(s) => s, Err(_) => panic!(..) }`
    (the std function is taken from the specification side) -/
def asStr (buf : List Nat) : Out (List Nat) :=
  match Spec.Concat.stdFromUtf8 buf with
  | .ok s => .ok s
  | .error _ => .panic .utf8

/-- how `string_concat!` was invoked: the first macro arm matches the literal tokens `[]` / `&[]`
    and expands to `""` without evaluating anything; every other expression takes the second arm -/
inductive ConcatCall where
  | litEmpty
  | expr (arg : ConcatArg)
deriving DecidableEq, Repr

/-- `string_concat!`: `LEN = concat_sum_lengths(ARGS)`, `CONC = &concat_strs::<LEN>(ARGS)`,
    `STR = CONC.as_str()` -/
def stringConcat : ConcatCall → Out (List Nat)
  | .litEmpty => .ok []
  | .expr arg => do
    let len ← concatSumLengths arg
    let conc ← concatStrs len arg
    asStr conc

/-! ### `string_join!` -/

/-- `join_sum_lengths(StrJoinArgs { sep, slice })` -/
def joinSumLengths (sep : SepArg) (slice : List (List Nat)) : Out Nat :=
  if slice.isEmpty then .ok 0
  else do
    let a ← concatSumLengths (.strs slice)
    let b ← ckMul sep.len (slice.length - 1)
    ckAdd a b

/-- the `match sep { Char(c) => { utf8e = encode_utf8(c); utf8e.as_str() } Str(s) => s }` -/
def SepArg.bytes : SepArg → List Nat
  | .chr c => (encodeUtf8 c).asBytes
  | .str s => s

/-- `for_range!{si in 0..rem_slices.len() => write_str!{sep} write_str!{rem_slices[si]}}` -/
def joinRemLoop (sep : List Nat) : List (List Nat) → List Nat → Nat → Out (List Nat × Nat)
  | [], out, outI => .ok (out, outI)
  | s :: ss, out, outI => do
    let (out, outI) ← writeBytes sep out outI
    let (out, outI) ← writeBytes s out outI
    joinRemLoop sep ss out outI

/-- `join_strs::<N>(args)` -/
def joinStrs (n : Nat) (sep : SepArg) (slices : List (List Nat)) : Out (List Nat) :=
  let out := List.replicate n 0
  let sepB := sep.bytes
  match slices with
  | first :: rem => do
    let (out, outI) ← writeBytes first out 0
    let (out, _) ← joinRemLoop sepB rem out outI
    pure out
  | [] => .ok out

/-- how `string_join!` was invoked (first arm: literal `[]` / `&[]` expands to `""`) -/
inductive JoinCall where
  | litEmpty
  | expr (sep : SepArg) (slice : List (List Nat))
deriving DecidableEq, Repr

/-- `string_join!` -/
def stringJoin : JoinCall → Out (List Nat)
  | .litEmpty => .ok []
  | .expr sep slice => do
    let len ← joinSumLengths sep slice
    let conc ← joinStrs len sep slice
    asStr conc

/-! ### `slice_concat!` (generic element type) -/

/-- `slice::concat_sum_lengths`: `sum += slice[i].len()` -/
def sliceSumLoop {α : Type} : List (List α) → Nat → Out Nat
  | [], sum => .ok sum
  | s :: ss, sum => do
    let sum ← ckAdd sum s.length
    sliceSumLoop ss sum

def sliceConcatSumLengths {α : Type} (slices : List (List α)) : Out Nat := sliceSumLoop slices 0

/-- `first_elem`: the first element of the first non-empty inner slice, else the panic -/
def firstElem {α : Type} : List (List α) → Out α
  | [] => .panic .noElem
  | [] :: ss => firstElem ss
  | (x :: _) :: _ => .ok x

/-- the fill loop of `concat_slices` -/
def sliceFillLoop {α : Type} : List (List α) → List α → Nat → Out (List α × Nat)
  | [], out, outI => .ok (out, outI)
  | s :: ss, out, outI => do
    let (out, outI) ← writeBytes s out outI
    sliceFillLoop ss out outI

/-- `concat_slices::<T, N>(slices)`: the `N == 0` early return (`try_into_array_func::<T, N>(&[])`
    succeeds exactly when `0 == N`), then `[*first_elem(slices); N]` as the initial buffer -/
def concatSlices {α : Type} (n : Nat) (slices : List (List α)) : Out (List α) :=
  if 0 = n then .ok []
  else do
    let first ← firstElem slices
    let (out, _) ← sliceFillLoop slices (List.replicate n first) 0
    pure out

/-- `slice_concat!`: `LEN = concat_sum_lengths(ARGS)`, `CONC: [T; LEN] = concat_slices(ARGS)` -/
def sliceConcat {α : Type} (slices : List (List α)) : Out (List α) := do
  let len ← sliceConcatSumLengths slices
  concatSlices len slices

/-! ### `str_from_iter!` on the sequence of items the iterator chain yields

  `__collect_const_iter_with!` defines one function that runs the iterator loop and is evaluated
  twice: with `CollectorCmd::ComputeLength` (`CAP = 0`, only `length += elem_length`) and with
  `CollectorCmd::BuildArray` (`CAP = COUNT`; each item is also written into a `[MaybeUninit<u8>; CAP]`
  at `array[written_length + j]`). A slot of the buffer is `none` while unwritten. -/

/-- the `elem_initer` of `str_from_iter!`: `let mut i = written_length; let mut j = 0;`
    `while j < item_len { array[i] = MaybeUninit::new(bytes[j]); i += 1; j += 1; }` -/
def initElem : List Nat → List (Option Nat) → Nat → Out (List (Option Nat))
  | [], arr, _ => .ok arr
  | b :: bs, arr, i =>
    if i < arr.length then initElem bs (arr.set i (some b)) (i + 1)
    else .panic .index

/-- the per-item body `__iter_collect_const!{@each ..}` folded over the yielded items:
    `if let BuildArray(..) = cmd { elem_initer }  length += elem_length;` -/
def collectLoop (build : Bool) : List Elem → List (Option Nat) → Nat → Out (List (Option Nat) × Nat)
  | [], arr, length => .ok (arr, length)
  | e :: es, arr, length => do
    let arr ← if build then initElem e.bytes arr length else pure arr
    let length ← ckAdd length e.len
    collectLoop build es arr length

/-- `array_assume_init` -/
def assumeInit : List (Option Nat) → Out (List Nat)
  | [] => .ok []
  | none :: _ => .panic .uninit
  | some b :: r => do
    let r ← assumeInit r
    pure (b :: r)

/-- `str_from_iter!`: `__COUNT = func(ComputeLength)`, `__ARR: [u8; __COUNT] = func(BuildArray)`
    (with its `assert!(length == CAP)`), then `from_utf8(&__ARR)` or the panic -/
def strFromIter (items : List Elem) : Out (List Nat) := do
  let (_, count) ← collectLoop false items [] 0
  let (arr, length) ← collectLoop true items (List.replicate count none) 0
  if length ≠ count then .panic .lenMismatch
  else do
    let arr ← assumeInit arr
    match Spec.Concat.stdFromUtf8 arr with
    | .ok s => .ok s
    | .error _ => .panic .utf8

end Konst.Concat
