import KonstVerif.Model.Basic
/-
  Model of konst's slice indexing / splitting functions.
  Every definition works on the *length* of the argument slice and returns views; the
  element type never matters to the code (it is generic `T`), so neither to the model.

  mirrors:
    konst_kernel/src/slice.rs             __slice_from_impl, __slice_up_to_impl, slice_from,
                                          slice_up_to, slice_range
    konst/src/slice/slice_const_methods.rs  get, get_from, get_up_to, get_range, split_at,
                                          *_mut twins, split_at_mut, first_mut, last_mut,
                                          split_first_mut, split_last_mut
    konst_kernel/src/slice/slice_for_konst.rs  try_into_array_func(_mut)
    konst/src/slice/slice_as_chunks.rs    as_chunks, as_rchunks
-/
namespace Konst.Slice

open Konst

/-- `__slice_from_impl!`: `let (rem, overflowed) = len.overflowing_sub(start);`
    `none` = the `$on_overflow` exit; otherwise `from_raw_parts(ptr.offset(start), rem)`. -/
def sliceFromImpl (len start : Nat) : Option View :=
  let (rem, overflowed) := overflowingSub len start
  if overflowed then none else some ⟨start, rem⟩

/-- `__slice_up_to_impl!`: `from_raw_parts(ptr, len)` unless `slice.len() - len` overflows. -/
def sliceUpToImpl (slen len : Nat) : Option View :=
  let (_rem, overflowed) := overflowingSub slen len
  if overflowed then none else some ⟨0, len⟩

/-- `slice_from`: on overflow returns `&[]`. -/
def sliceFrom (len start : Nat) : View := (sliceFromImpl len start).getD ⟨0, 0⟩
/-- `slice_up_to`: on overflow returns the whole slice. -/
def sliceUpTo (slen len : Nat) : View := (sliceUpToImpl slen len).getD ⟨0, slen⟩
/-- `slice_range = slice_from(slice_up_to(slice, end), start)` -/
def sliceRange (len start end_ : Nat) : View :=
  let u := sliceUpTo len end_
  u.comp (sliceFrom u.len start)

/-- `get_from`: `Some(__slice_from_impl!(.., None))` -/
def getFrom (len start : Nat) : Option View := sliceFromImpl len start
def getUpTo (slen len : Nat) : Option View := sliceUpToImpl slen len
/-- `get_range`: `let x = try_opt!(get_up_to(slice, end)); get_from(x, start)` -/
def getRange (len start end_ : Nat) : Option View :=
  match getUpTo len end_ with
  | none => none
  | some u => (getFrom u.len start).map u.comp

/-- `get`: `if slice.len() > index { Some(&slice[index]) } else { None }` (view of length 1) -/
def get (len index : Nat) : Option View := if len > index then some ⟨index, 1⟩ else none

/-- `split_at = (slice_up_to(slice, at), slice_from(slice, at))` -/
def splitAt (len at_ : Nat) : View × View := (sliceUpTo len at_, sliceFrom len at_)

/-- `split_at_mut`: separate code path (`if at > len { return (slice, &mut []) }`). -/
def splitAtMut (len at_ : Nat) : View × View :=
  if at_ > len then (⟨0, len⟩, ⟨0, 0⟩)
  else
    let suffixLen := len - at_
    (⟨0, at_⟩, ⟨at_, suffixLen⟩)

/-- `first_mut`: `if let [first, ..] = slice` -/
def first (len : Nat) : Option View := if len = 0 then none else some ⟨0, 1⟩
/-- `last_mut`: `if let [.., last] = slice` -/
def last (len : Nat) : Option View := if len = 0 then none else some ⟨len - 1, 1⟩
/-- `split_first_mut`: `(first, rem)` -/
def splitFirst (len : Nat) : Option (View × View) :=
  if len = 0 then none else some (⟨0, 1⟩, ⟨1, len - 1⟩)
/-- `split_last_mut`: `(last, rem)` -/
def splitLast (len : Nat) : Option (View × View) :=
  if len = 0 then none else some (⟨len - 1, 1⟩, ⟨0, len - 1⟩)

/-- `try_into_array_func::<T, N>`: `if slice.len() == N` then the whole slice as an array. -/
def tryIntoArray (len n : Nat) : Option View := if len = n then some ⟨0, n⟩ else none

/-- result of `as_chunks::<N>`: `none` = the `assert!(N != 0)` panic;
    otherwise (view of the part re-typed as `[[T;N]]`, number of arrays, view of the remainder) -/
def asChunks (len n : Nat) : Option (View × Nat × View) :=
  if n = 0 then none
  else
    let arrsLen := len / n
    let (arrsIn, rem) := splitAt len (arrsLen * n)
    some (arrsIn, arrsLen, rem)

/-- `as_rchunks::<N>`: (remainder view, arrays view, number of arrays) -/
def asRchunks (len n : Nat) : Option (View × View × Nat) :=
  if n = 0 then none
  else
    let arrsLen := len / n
    let remLen := len % n
    let (rem, arrsIn) := splitAt len remLen
    some (rem, arrsIn, arrsLen)

end Konst.Slice
