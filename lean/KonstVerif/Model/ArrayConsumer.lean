import KonstVerif.Model.ArrayBuilder
/-
  Model of `konst::array::ArrayConsumer<T, N>` (konst/src/array/array_consumer.rs) as an OWNERSHIP
  LEDGER, import-free.

      array       : [MaybeUninit<T>; N]  ↦ `slots : List (Option α)` (`none` = never written; a slot whose
                                            element was moved out keeps its bits, exactly as in Rust)
      taken_front : usize                ↦ `takenFront`
      taken_back  : usize                ↦ `takenBack`

  Every element that leaves the consumer is reported: `next`/`next_back` hand it to the caller,
  `Drop` drops `array[taken_front .. N - taken_back]`, `mem::forget` reports nothing (a leak of what
  is still owned).  Reading a never-written slot is the explicit outcome `ub`.
  `N - taken_front - taken_back` is `usize` arithmetic in Rust; the model uses truncated `Nat`
  subtraction, which coincides with it under the invariant `taken_front + taken_back ≤ N` that the
  theorems establish for every reachable state.
-/
namespace Konst.ArrayConsumer
open Konst.ArrayBuilder (readInit Event CloneRes panicAt)

structure Consumer (α : Type) where
  n : Nat
  slots : List (Option α)
  takenFront : Nat
  takenBack : Nat
deriving Repr

variable {α : Type}

/-- `ArrayConsumer::new(array)`: `array_into_md(array)`, nothing taken -/
def new (xs : List α) : Consumer α := ⟨xs.length, xs.map some, 0, 0⟩

/-- `ArrayConsumer::empty()`: `uninit_array()`, `taken_front: N` -/
def empty (n : Nat) : Consumer α := ⟨n, List.replicate n none, n, 0⟩

/-- `slice_len`: `N - self.taken_front - self.taken_back` -/
def sliceLen (c : Consumer α) : Nat := c.n - c.takenFront - c.takenBack

/-- `is_empty` -/
def isEmpty (c : Consumer α) : Bool := sliceLen c == 0

inductive Take (α : Type) where
  | none
  | some (v : α) (c : Consumer α)
  | ub                         -- `assume_init_read` of a never-written slot / index out of bounds
deriving Repr

/-- `next`: `if self.is_empty() { return None }`; `self.array[self.taken_front].assume_init_read()`;
    `self.taken_front += 1` -/
def next (c : Consumer α) : Take α :=
  if isEmpty c then .none
  else match c.slots[c.takenFront]? with
    | some (some v) => .some v { c with takenFront := c.takenFront + 1 }
    | _ => .ub

/-- `next_back`: `let index = N - self.taken_back - 1`; read; `self.taken_back += 1` -/
def nextBack (c : Consumer α) : Take α :=
  if isEmpty c then .none
  else match c.slots[c.n - c.takenBack - 1]? with
    | some (some v) => .some v { c with takenBack := c.takenBack + 1 }
    | _ => .ub

/-- `as_slice` / `as_mut_slice`: `from_raw_parts(ptr.add(taken_front), slice_len())` -/
def asSlice (c : Consumer α) : Option (List α) :=
  readInit ((c.slots.drop c.takenFront).take (sliceLen c))

/-- `Drop::drop`: `slice_from_raw_parts_mut(ptr.add(taken_front), slice_len).drop_in_place()` -/
def dropped (c : Consumer α) : Option (List α) :=
  readInit ((c.slots.drop c.takenFront).take (sliceLen c))

/-- the loop of `Clone::clone`: `this.array[i] = MaybeUninit::new(elem); this.taken_back -= 1` -/
def cloneLoop (fresh : Nat → α → α) : List α → Nat → Consumer α → Consumer α
  | [], _, this => this
  | x :: r, i, this =>
    cloneLoop fresh r (i + 1)
      { this with slots := this.slots.set i (some (fresh i x)), takenBack := this.takenBack - 1 }

/-- `Clone::clone`: starts from `{uninit, taken_front: 0, taken_back: N}` and fills from index 0 -/
def clone (fresh : Nat → α → α) (c : Consumer α) : Option (Consumer α) :=
  match asSlice c with
  | some l => some (cloneLoop fresh l 0 ⟨c.n, List.replicate c.n none, 0, c.n⟩)
  | none => none

/-- the loop of `Clone::clone` with an element `Clone` that may PANIC (`none` = this call panics):
    `for (i, elem) in self.as_slice().iter().cloned().enumerate()` — the copy is made BEFORE the write;
    if `T::clone` panics, unwinding drops the half-built clone `this`, i.e. runs `Drop` on its CURRENT
    `taken_front = 0`, `taken_back` (decremented once per element written so far): exactly the written
    prefix `array[0 .. N - taken_back]`.  (This is why `taken_back` must be decremented per element:
    a `taken_back` set to its final value before the loop would make `Drop` read unwritten slots.) -/
def cloneLoopP (fresh : Nat → α → Option α) : List α → Nat → Consumer α → CloneRes (Consumer α) α
  | [], _, this => .done this
  | x :: r, i, this =>
    match fresh i x with
    | none =>
      match dropped this with
      | some d => .panicked d
      | none => .ub
    | some v =>
      cloneLoopP fresh r (i + 1)
        { this with slots := this.slots.set i (some v), takenBack := this.takenBack - 1 }

/-- `Clone::clone` with a panicking element `Clone` -/
def cloneP (fresh : Nat → α → Option α) (c : Consumer α) : CloneRes (Consumer α) α :=
  match asSlice c with
  | some l => cloneLoopP fresh l 0 ⟨c.n, List.replicate c.n none, 0, c.n⟩
  | none => .ub

/-! ### histories -/

inductive Op where
  | next | nextBack
  | clone                      -- clone, drop the ORIGINAL, continue with the clone
  | cloneDrop                  -- clone, drop the CLONE, continue with the original
  | clonePanic (j : Nat)       -- clone with an element `Clone` that panics on its `j`-th call (caught);
                               -- a clone that completes (`j ≥ slice_len`) is dropped; continue with the original
deriving Repr, DecidableEq

/-- how a history ends -/
inductive End where
  | drop                       -- the value goes out of scope
  | forget                     -- `mem::forget(consumer)`
  | assertEmpty                -- `assert_is_empty(self)`: assert, then forget; on failure `self` is dropped
deriving Repr, DecidableEq

/-- what the caller sees / what reaches the ledger in one step -/
inductive Obs (α : Type) where
  | front (v : Option α)       -- result of `next`
  | back (v : Option α)        -- result of `next_back`
  | cloned (dropped : List α)  -- elements dropped with the consumer that was let go
  | panicked (dropped : List α) -- `T::clone` panicked inside `clone`: the copies dropped by unwinding
  | ub
deriving Repr

/-- one step; the `Nat` counts the elements created so far (`fresh k x` = clone of `x`, `k`-th element) -/
def step (fresh : Nat → α → α) (st : Consumer α × Nat) : Op → (Consumer α × Nat) × Obs α
  | .next =>
    match next st.1 with
    | .none => (st, .front none)
    | .some v c => ((c, st.2), .front (some v))
    | .ub => (st, .ub)
  | .nextBack =>
    match nextBack st.1 with
    | .none => (st, .back none)
    | .some v c => ((c, st.2), .back (some v))
    | .ub => (st, .ub)
  | .clone =>
    match clone (fun i => fresh (st.2 + i)) st.1, dropped st.1 with
    | some c, some old => ((c, st.2 + sliceLen st.1), .cloned old)
    | _, _ => (st, .ub)
  | .cloneDrop =>
    match clone (fun i => fresh (st.2 + i)) st.1 with
    | some c =>
      match dropped c with
      | some cl => ((st.1, st.2 + sliceLen st.1), .cloned cl)
      | none => (st, .ub)
    | none => (st, .ub)
  | .clonePanic j =>
    match cloneP (panicAt (fun i => fresh (st.2 + i)) j) st.1 with
    | .panicked d => ((st.1, st.2 + d.length), .panicked d)
    | .done c =>
      match dropped c with
      | some cl => ((st.1, st.2 + sliceLen st.1), .cloned cl)
      | none => (st, .ub)
    | .ub => (st, .ub)

def run (fresh : Nat → α → α) : Consumer α × Nat → List Op → (Consumer α × Nat) × List (Obs α)
  | st, [] => (st, [])
  | st, op :: r =>
    let res := step fresh st op
    let rest := run fresh res.1 r
    (rest.1, res.2 :: rest.2)

/-- result of the final operation: did it panic, what was dropped, what was leaked (still owned, never
    dropped); `none` = UB -/
structure Final (α : Type) where
  panicked : Bool
  dropped : List α
  leaked : List α
deriving Repr

def finish (c : Consumer α) : End → Option (Final α)
  | .drop => (dropped c).map fun d => ⟨false, d, []⟩
  | .forget => (asSlice c).map fun l => ⟨false, [], l⟩
  | .assertEmpty =>
    if isEmpty c then some ⟨false, [], []⟩          -- `mem::forget(self)` of an empty consumer
    else (dropped c).map fun d => ⟨true, d, []⟩     -- the assert fired, unwinding drops `self`

end Konst.ArrayConsumer
