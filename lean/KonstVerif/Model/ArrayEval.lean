import KonstVerif.Model.ArrayMacros
import KonstVerif.Model.ConcatHyg
/-
  The array macros as EXPRESSIONS of the caller's program (C11, part 2), import-free:

    1. ARGUMENT EXPRESSIONS.  `array::map!($array, $closure)` receives expressions, not values.  Which of them
       the expansion evaluates, how often and in which order is an `ArgUse`; std (`<[T; N]>::map(arr, f)`,
       `core::array::from_fn(f)`) evaluates each argument once, the array first.
           konst_kernel/src/macros/array_macros.rs   array_map!, array_from_fn!
           konst/src/array/__array_macros_2.rs       __array_map_by_val!, __array_from_fn2!
           konst_kernel/src/utils.rs                 __parse_closure_1! (closure literal / any other expression)
    2. CLOSURE CALLS.  `mapLoopL`: the loop of `__array_map` once more, recording every closure call
       (call number, argument) and keeping the value the loop bound evaluates to (`lenSeen`) apart from the real
       length of `out`.  Since /repo 76ed0a3 the bound is `$crate::__::array_len(&$array)`, a PATH call to a
       `const fn` that returns the const generic `N`, so `lenSeen = N` (`arrayMapN`, `arrayFromFnN`).  As found it
       was `$array.len()`, METHOD syntax, decided by the traits in scope at the call site (finding F11a:
       Legacy/ArrayEval.lean instantiates the same loop with `lenSeen ≠ N`).
    3. NAMES.  Skeletons (`Konst.Concat.Hyg.Sk`) of the five expansions: every identifier pattern and item
       they declare, and where the caller's fragments are pasted.
    4. METHOD CALLS of the expansions and the probing step at which rustc finds the intended method (the four array
       macros have none left since 76ed0a3).

  History: F11a (method syntax), F11b (`map_!` evaluated a function-valued closure argument before the array),
  F11c (plain binder names) were found with this model and repaired in /repo by 76ed0a3, 5af8e6b, c6bef38; the
  as-found definitions and their witnesses are in Legacy/ArrayEval.lean (no obligation).
-/
namespace Konst.ArrayEval
open Konst.ArrayMacros
open Konst.ArrayBuilder (readInit Builder)
open Konst.ArrayConsumer (Consumer)

/-! ### 1. argument expressions -/

/-- the two argument expressions of `map!` / `map_!` (`from_fn!`/`from_fn_!` have only the second) -/
inductive Arg where
  | arr   -- `$array`
  | fn    -- the closure argument when it is NOT a closure literal: a path, a call, a block, a variable
deriving DecidableEq, Repr

/-- an argument expression seen from outside: the values its successive evaluations produce (`first`, then
    those of `later`; afterwards the last one is repeated) -/
structure ArgExpr (α : Type) where
  first : α
  later : List α

/-- value of the `k`-th (0-based) evaluation -/
def ArgExpr.eval {α : Type} (e : ArgExpr α) (k : Nat) : α :=
  (e.first :: e.later).getD (min k e.later.length) e.first

/-- how an expansion uses its argument expressions: `evals` lists them in the order in which the expansion
    evaluates them; the loop runs over the value of the `useArr`-th evaluation of `$array` and calls the value
    of the `useFn`-th evaluation of the function expression -/
structure ArgUse where
  evals : List Arg
  useArr : Nat
  useFn : Nat
deriving DecidableEq, Repr

/-- number of evaluations of one argument expression -/
def ArgUse.count (u : ArgUse) (a : Arg) : Nat := (u.evals.filter (· = a)).length

/-- number of argument evaluations that happen before the `useFn`-th evaluation of the function expression
    (what a function expression that reads a shared counter sees); `evals.length` if there is none -/
def ArgUse.clockAtFn (u : ArgUse) : Nat :=
  let rec go : List Arg → Nat → Nat → Nat
    | [], _, t => t
    | .fn :: r, k, t => if k = 0 then t else go r (k - 1) (t + 1)
    | .arr :: r, k, t => go r k (t + 1)
  go u.evals u.useFn 0

/-- the two forms of the closure argument that `__parse_closure_1!` distinguishes -/
inductive ClosureArm where
  | literal   -- `|pat| body`, `|pat: T| -> U { .. }`: pattern and body are pasted into the loop, nothing is evaluated
  | expr      -- anything else (`$v:expr`): `match $v { func => <the loop calling func(__x)> }`
deriving DecidableEq, Repr

/-- std: `<[T; N]>::map(array, f)` / `array.map(f)`: receiver first, then the argument, once each -/
def stdMapArgs : ClosureArm → ArgUse
  | .literal => ⟨[.arr], 0, 0⟩
  | .expr => ⟨[.arr, .fn], 0, 0⟩

/-- std: `core::array::from_fn(f)` -/
def stdFromFnArgs : ClosureArm → ArgUse
  | .literal => ⟨[], 0, 0⟩
  | .expr => ⟨[.fn], 0, 0⟩

/-- `array_map!`: `match $array { ref array => { let array = assert_array(array); __parse_closure_1!{ .. $closure } } }`:
    `$array` is evaluated by the outer `match`; the `expr` arm's `match $v { func => .. }` is INSIDE it -/
def arrayMapArgs : ClosureArm → ArgUse
  | .literal => ⟨[.arr], 0, 0⟩
  | .expr => ⟨[.arr, .fn], 0, 0⟩

/-- `__array_map_by_val!` (`map_!`), since 5af8e6b:
    `match $array { __konst_am_array => __parse_closure_1!{ (__array_map2__with_parsed_closure) (__konst_am_array,) .., $closure } }`
    — `$array` is evaluated by the outer `match`; the `expr` arm's `match $v { __konst_pc_func => .. }` is INSIDE it.
    (As found `$array` was handed on unevaluated and the `expr` arm wrapped the whole expansion:
    `Konst.Legacy.ArrayEval.legacyArrayMapByValArgs`, finding F11b.) -/
def arrayMapByValArgs : ClosureArm → ArgUse
  | .literal => ⟨[.arr], 0, 0⟩
  | .expr => ⟨[.arr, .fn], 0, 0⟩

/-- `array_from_fn!` / `__array_from_fn2!`: no array argument; `expr` arm: `match $v { func => .. }` -/
def arrayFromFnArgs : ClosureArm → ArgUse
  | .literal => ⟨[], 0, 0⟩
  | .expr => ⟨[.fn], 0, 0⟩

/-! ### 2. closure calls, and the loop bound kept apart from the real length -/

/-- result of a run together with its closure calls `(call number, argument)` in order and the `out` array as
    it was left (`none` = never written) -/
structure Run (α β : Type) where
  res : Res β
  out : List (Option β)
  calls : List (Nat × α)

variable {α β : Type}

/-- `__array_map`'s loop
      `let len = <bound>; let mut out = uninit_array_of_len(&$array); let mut $i = 0;`
      `while $i < len { let pat = $get_input; out[$i] = MaybeUninit::new($mapper); $i += 1 }`
      `assert!($i == len); array_assume_init(out)`
    with `lenSeen` = the value of `<bound>` (`array_len(&$array)` = N now, `$array.len()` as found); the length
    of `out` is the real `N` (a const generic of
    `uninit_array_of_len`). `out[$i] = ..` is a bounds-checked write: it panics AFTER `$mapper` has been evaluated. -/
def mapLoopL (lenSeen : Nat) (get : Nat → Option α) (c : Nat → α → Outcome β) :
    Nat → Nat → Nat → List (Option β) → List (Nat × α) → Run α β
  | 0, _, _, out, calls => ⟨.diverge, out, calls⟩
  | fuel + 1, t, i, out, calls =>
    if i < lenSeen then
      match get i with
      | none => ⟨.panic, out, calls⟩                       -- `array[i]` out of bounds
      | some a =>
        match c t a with
        | .value v =>
          if i < out.length then mapLoopL lenSeen get c fuel (t + 1) (i + 1) (out.set i (some v)) (calls ++ [(t, a)])
          else ⟨.panic, out, calls ++ [(t, a)]⟩            -- `out[$i]` out of bounds
        | .cont => mapLoopL lenSeen get c fuel (t + 1) i out (calls ++ [(t, a)])
        | .brk => ⟨afterLoop lenSeen i out, out, calls ++ [(t, a)]⟩
        | .ret => ⟨.returned, out, calls ++ [(t, a)]⟩
        | .panic => ⟨.panic, out, calls ++ [(t, a)]⟩
    else ⟨afterLoop lenSeen i out, out, calls⟩

/-- `array::map!(xs, c)` when the loop bound evaluates to `lenSeen` -/
def arrayMapL (lenSeen fuel : Nat) (xs : List α) (c : Nat → α → Outcome β) : Run α β :=
  mapLoopL lenSeen (fun i => xs[i]?) c fuel 0 0 (List.replicate xs.length none) []

/-- `array::from_fn!(c)` for an array of length `n` when the loop bound evaluates to `lenSeen` -/
def arrayFromFnL (lenSeen fuel n : Nat) (c : Nat → Nat → Outcome β) : Run Nat β :=
  mapLoopL lenSeen (fun i => some i) c fuel 0 0 (List.replicate n none) []

/-- `array::map!(xs, c)`: `let __konst_am_len = $crate::__::array_len(&$array);` with
    `const fn array_len<T, const N: usize>(_: &[T; N]) -> usize { N }` -/
def arrayMapN (fuel : Nat) (xs : List α) (c : Nat → α → Outcome β) : Run α β := arrayMapL xs.length fuel xs c

/-- `array::from_fn!(c)` for an array of length `n` -/
def arrayFromFnN (fuel n : Nat) (c : Nat → Nat → Outcome β) : Run Nat β := arrayFromFnL n fuel n c

/-- the calls std makes: one per element, in index order, with the element at that index -/
def stdCalls (xs : List α) : List (Nat × α) :=
  let rec go : Nat → List α → List (Nat × α)
    | _, [] => []
    | i, a :: r => (i, a) :: go (i + 1) r
  go 0 xs

/-! ### 3. names: skeletons of the expansions -/

open Konst.Concat.Hyg

/-- `match $v { __konst_pc_func => <loop> }` of `__parse_closure_1!`'s `expr` arm, with
    `(__konst_pc_x) -> _ { __konst_pc_func(__konst_pc_x) }` as closure (plain `func` / `__x` before c6bef38) -/
def fnArmBinders : ClosureArm → List Sk
  | .literal => []
  | .expr => [.bind "__konst_pc_func", .bind "__konst_pc_x"]

/-- `array_map!`: `match $array { ref __konst_am_array => { let __konst_am_array = ..; [match $v { __konst_pc_func =>]
    { let __konst_am_len; let mut __konst_am_out; let mut __konst_am_i; while .. { let $pattern = ..; .. $mapper .. } } } }`;
    no items. (Binder names as of c6bef38; before: `array len out i`, see Legacy/ArrayEval.lean.) -/
def arrayMapSk (arm : ClosureArm) : Sk :=
  .block ([.hole "array", .bind "__konst_am_array", .bind "__konst_am_array", .hole "closure"] ++ fnArmBinders arm ++
    [.block [.bind "__konst_am_len", .bind "__konst_am_out", .bind "__konst_am_i", .hole "closure"]])

/-- `array_from_fn!`: `{ let __konst_am_input = unit_array(); let __konst_am_arr: $type = [match $v { .. =>]
    { let __konst_am_len; let mut __konst_am_out; let mut __konst_am_i; .. }; __konst_am_arr }` -/
def arrayFromFnSk (arm : ClosureArm) : Sk :=
  .block ([.bind "__konst_am_input", .bind "__konst_am_arr", .hole "type", .hole "closure"] ++ fnArmBinders arm ++
    [.block [.bind "__konst_am_len", .bind "__konst_am_out", .bind "__konst_am_i", .hole "closure"]])

/-- the loop of `__array_map2__with_parsed_closure!`: `match ArrayConsumer::new($array) { mut __konst_am_consumer => {
    let mut __konst_am_builder = ..; while let Some(__konst_am_elem) = ArrayConsumer::next(&mut ..) { let __konst_am_elem = ..;
    let $pattern = __konst_am_elem; let __konst_am_mapped = $mapper; ArrayBuilder::push(&mut .., ..); } .. } }` -/
def byValBody : List Sk :=
  [.bind "__konst_am_consumer",
   .block [.bind "__konst_am_builder", .bind "__konst_am_elem", .bind "__konst_am_elem", .hole "closure", .bind "__konst_am_mapped"]]

/-- `__array_map_by_val!`: `match $array { __konst_am_array => [match $v { __konst_pc_func =>] <byValBody> }` -/
def arrayMapByValSk (arm : ClosureArm) : Sk :=
  .block ([.hole "array", .bind "__konst_am_array", .hole "closure"] ++ fnArmBinders arm ++ byValBody)

/-- `__array_from_fn2!`: `{ let mut __konst_am_i = 0usize; let __konst_am_arr: $type = <byValBody over unit_array() with the
    body { let $pattern = __konst_am_i; __konst_am_i += 1; $mapper }>; __konst_am_arr }` -/
def arrayFromFnByValSk (arm : ClosureArm) : Sk :=
  .block ([.bind "__konst_am_i", .bind "__konst_am_arr", .hole "type", .hole "closure"] ++ fnArmBinders arm ++ byValBody)

/-- `iter_collect_const!($Item => $($rem)*)`: `{ const fn __func_zxe7hgbnjs<Ret_.., const CAP_..>(cmd: CollectorCmd<Ret_.., $Item, CAP_..>)
    -> Ret_.. { let mut array = uninit_array::<_, CAP_..>(); let mut length = 0; <__process_iter_args!: $rem> ; match cmd {..} }
    const __COUNT81608BFNA5: usize = ..; const __ARR81608BFNA5: [$Item; __COUNT81608BFNA5] = ..; __ARR81608BFNA5 }` -/
def collectConstSk : Sk :=
  .block [
    .item .val "__func_zxe7hgbnjs" [(.ty, "Ret_KO9Y329U2U"), (.val, "CAP_KO9Y329U2U")]
      [.garg "Ret_KO9Y329U2U", .hole "Item", .garg "CAP_KO9Y329U2U", .bind "cmd",
       .block [
         .bind "array", .garg "CAP_KO9Y329U2U", .bind "length",
         .hole "rem",
         .bind "iter", .bind "elem_phantom_ty", .bind "item", .bind "elem_", .bind "next_",
         .bind "item", .bind "teq",
         .bind "teq", .bind "teq", .bind "array"]],
    .item .val "__COUNT81608BFNA5" [] [],
    .item .val "__ARR81608BFNA5" [] [.hole "Item"]]

/-- what the caller declared under the name -/
inductive Decl where
  | var                 -- a local variable / closure parameter (hygienic: never meets the expansion's locals)
  | item (d : UserDecl) -- const | static | fn | tyAlias
  | ustruct             -- a unit struct (value namespace, cannot be shadowed by an identifier pattern)
  | mod                 -- a module (type namespace)
deriving DecidableEq, Repr

/-- the CONSTANTS (`const` items, const generic parameters) an expansion declares: a caller identifier PATTERN
    with such a name, pasted where the constant is in scope, is a constant pattern and not a binding -/
def constItems : List String := ["CAP_KO9Y329U2U", "__COUNT81608BFNA5", "__ARR81608BFNA5"]

/-- does the invocation still mean what the caller wrote (and compile)?  `frag` = the macro fragment in which the
    caller's argument MENTIONS the name (`none`: the item is only declared next to the invocation). A mention can be
    captured by a declaration of the expansion; a clash with an identifier pattern or with a bare generic argument
    of the expansion does not need a mention. -/
def transparentD (sk : Sk) (frag : Option String) : Decl → String → Bool
  | .var, n => frag.all fun f => !((holes f [] sk).any fun env => env.contains (.val, n) && constItems.contains n)
  | .item d, n => (frag.all fun f => !captured sk f d n) && !binderClash sk d n && !gargClash sk d n
  | .ustruct, n => (frag.all fun f => !captured sk f .const n) && !(binders sk).contains n
  | .mod, n => (frag.all fun f => !captured sk f .tyAlias n) && !gargClash sk .tyAlias n

/-- the identifier patterns of the four array expansions (all mangled since c6bef38); `__konst_pc_func` /
    `__konst_pc_x` only when the closure argument is not a closure literal -/
def arrayBinders (mac : String) (arm : ClosureArm) : List String :=
  (match mac with
   | "map" => ["__konst_am_array", "__konst_am_len", "__konst_am_out", "__konst_am_i"]
   | "from_fn" => ["__konst_am_input", "__konst_am_arr", "__konst_am_len", "__konst_am_out", "__konst_am_i"]
   | "map_" => ["__konst_am_array", "__konst_am_consumer", "__konst_am_builder", "__konst_am_elem", "__konst_am_mapped"]
   | _ => ["__konst_am_i", "__konst_am_arr", "__konst_am_consumer", "__konst_am_builder", "__konst_am_elem",
           "__konst_am_mapped"]) ++
  (match arm with | .literal => [] | .expr => ["__konst_pc_func", "__konst_pc_x"])

/-- can an identifier pattern shadow the caller's item? -/
def Decl.shadowable : Decl → Bool
  | .var => true
  | .item d => d.shadowable
  | .ustruct => false
  | .mod => true

/-! ### 4. method calls of the expansions -/

/-- the steps of rustc's method probing for `recv.name(..)`, in the order in which they are tried; at each step
    inherent methods win over trait methods -/
inductive Step where
  | byValue      -- methods taking `self` where `Self` = the receiver's type (for a receiver of type `&A`: also `&self` methods of `A`)
  | autoref      -- `&self` methods
  | autorefMut   -- `&mut self` methods
  | unsize       -- after the array-to-slice coercion `[T; N] -> [T]`
deriving DecidableEq, Repr

def Step.rank : Step → Nat
  | .byValue => 0 | .autoref => 1 | .autorefMut => 2 | .unsize => 3

/-- the method calls an expansion writes with METHOD syntax, with the step at which the INTENDED method is found.
    Since 76ed0a3 the four array macros write none: `$crate::__::array_len(&$array)`,
    `$crate::array::ArrayConsumer::next(&mut ..)`, `$crate::array::ArrayBuilder::{infer_length_from_consumer, push, build}(..)`
    are PATH calls, which no trait in scope can displace. `collect_const!`: `teq.to_right(..)` /
    `teq.reachability_hint(..)` are inherent methods taking `self`, found at the first step.
    (As found: `Konst.Legacy.ArrayEval.legacyMethodCalls`.) -/
def methodCalls : String → List (String × Step)
  | "cc" => [("reachability_hint", .byValue), ("to_right", .byValue)]
  | _ => []

/-- given the method calls of the expansions: a trait of the CALLER in scope at the call site has a method `name`
    that applies to the receiver at step `s` and is found before the intended method (traits in scope are those
    of the call site — method names are not hygienic) -/
def hijackedBy (mc : String → List (String × Step)) (mac name : String) (s : Step) : Bool :=
  (mc mac).any fun (n, intended) => n == name && s.rank < intended.rank

def hijacked (mac name : String) (s : Step) : Bool := hijackedBy methodCalls mac name s

/-! ### 5. the closure PARAMETER is pasted as the pattern of a `let` of the expansion

  `let $($pattern)* = <place>;` — with a binding mode in the pattern (`ref x`, `ref mut x`, also inside a tuple /
  struct pattern) the caller's variable is a REFERENCE to whatever place stands on the right. -/

/-- what stands on the right of `let <pattern> = ..` -/
inductive PatPlace where
  | temp            -- a block `{ i }`: a copy in a temporary (`from_fn!` since b7532cf)
  | behindShared    -- `array[i]` with `array: &[T; N]` (`map!`)
  | immLocal        -- a local of the expansion that is not declared `mut` (`map_!`: `__konst_am_elem`)
  | counterBumped   -- the loop counter, which the expansion increments right after the `let` (`from_fn_!`)
  | counter         -- the loop counter, incremented after the closure body (`from_fn!` as found, finding F11d)
deriving DecidableEq, Repr

/-- binding mode of the caller's variable -/
inductive BindMode where
  | move | mutMove | ref | refMut
deriving DecidableEq, Repr

inductive PatVerdict where
  | accept           -- compiles; the variable refers to the element / a copy of the index only
  | reject           -- a borrow-check error
  | aliasesCounter   -- compiles and the closure body holds `&mut` to the expansion's own loop counter
deriving DecidableEq, Repr

/-- `used`: the closure body mentions the variable (a reference nobody uses ends at once) -/
def patVerdict : PatPlace → BindMode → (used : Bool) → PatVerdict
  | _, .move, _ => .accept
  | _, .mutMove, _ => .accept
  | .temp, _, _ => .accept
  | .behindShared, .ref, _ => .accept
  | .behindShared, .refMut, _ => .reject           -- E0596 cannot borrow data in a `&` reference as mutable
  | .immLocal, .ref, _ => .accept
  | .immLocal, .refMut, _ => .reject               -- E0596 not declared as mutable
  | .counterBumped, _, true => .reject             -- E0503 / E0506: the counter is assigned while borrowed
  | .counterBumped, _, false => .accept
  | .counter, .ref, _ => .accept
  | .counter, .refMut, _ => .aliasesCounter

/-- `__array_map`: `let $pattern = $get_input;` with `$get_input` = `__konst_am_array[__konst_am_i]` (`map!`) /
    `{ __konst_am_i }` (`from_fn!`); `__array_map2__with_parsed_closure`: `let $pattern = __konst_am_elem;` (`map_!`);
    `__array_from_fn_with_parsed_closure`: `let $pattern = __konst_am_i; __konst_am_i += 1; $mapper` (`from_fn_!`) -/
def patPlace : String → PatPlace
  | "map" => .behindShared
  | "from_fn" => .temp
  | "map_" => .immLocal
  | _ => .counterBumped

end Konst.ArrayEval
