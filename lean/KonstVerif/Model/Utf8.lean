import KonstVerif.Model.Basic
import KonstVerif.Model.Slice
/-
  Model of konst's char-boundary tests and string slicing functions.
  A `&str`/`&[u8]` argument is its byte list (`List Nat`, bytes `< 256`); returned sub-strings
  are `View`s relative to the argument (as in `Model/Slice.lean`, whose functions the Rust code
  calls on `string.as_bytes()`).

  mirrors:
    konst_kernel/src/string.rs   byte_is_char_boundary!, __is_char_boundary_bytes, is_char_boundary,
                                 __is_char_boundary_forgiving, __find_next_char_boundary,
                                 __find_prev_char_boundary, str_up_to, str_from, str_range,
                                 non_char_boundary_panic
    konst/src/string.rs          get_up_to, get_from, get_range, split_at

  `__from_u8_subslice_of_str` is `from_utf8_unchecked` (identity on the bytes) when the `debug`
  feature is off, which is the configuration modelled here.
-/
namespace Konst.Utf8

open Konst

/-- `b as i8` for a byte `b : u8` -/
def asI8 (b : Nat) : Int := if b < 128 then (b : Int) else (b : Int) - 256

/-- `byte_is_char_boundary!`: `($b as i8) >= -0x40` -/
def byteIsCharBoundary (b : Nat) : Bool := decide (asI8 b ≥ -0x40)

/-- `__is_char_boundary_bytes` (strict):
    `position == bytes.len() || position < bytes.len() && byte_is_char_boundary!(bytes[position])`
    (`getD`'s default is never read: the index is guarded by the short-circuit `&&`). -/
def isCharBoundaryBytes (bytes : List Nat) (position : Nat) : Bool :=
  position == bytes.length ||
    (decide (position < bytes.length) && byteIsCharBoundary (bytes.getD position 0))

/-- `is_char_boundary(string, position)` -/
def isCharBoundary (string : List Nat) (position : Nat) : Bool := isCharBoundaryBytes string position

/-- `__is_char_boundary_forgiving`:
    `position >= bytes.len() || byte_is_char_boundary!(bytes[position])` -/
def isCharBoundaryForgiving (bytes : List Nat) (position : Nat) : Bool :=
  decide (position ≥ bytes.length) || byteIsCharBoundary (bytes.getD position 0)

/-- `__find_next_char_boundary`:
    `loop { position += 1; if __is_char_boundary_forgiving(bytes, position) { break position } }`
    (terminates because every `position ≥ len` passes the test; `position += 1` cannot overflow
    for `position < len ≤ isize::MAX`, and konst only calls it with `position = 0`). -/
def findNextCharBoundary (bytes : List Nat) (position : Nat) : Nat :=
  if _h : isCharBoundaryForgiving bytes (position + 1) = true then position + 1
  else findNextCharBoundary bytes (position + 1)
termination_by bytes.length - position
decreasing_by
  simp only [isCharBoundaryForgiving, Bool.or_eq_true, decide_eq_true_eq, not_or] at _h
  omega

/-- the `while` loop of `__find_prev_char_boundary`:
    `while !__is_char_boundary_forgiving(bytes, position) { position -= 1; }`
    `none` = `position -= 1` at `position == 0` (arithmetic underflow: a panic with overflow checks,
    a const-evaluation error in `const` context). -/
def findPrevLoop (bytes : List Nat) : Nat → Option Nat
  | 0 => if isCharBoundaryForgiving bytes 0 then some 0 else none
  | p + 1 => if isCharBoundaryForgiving bytes (p + 1) then some (p + 1) else findPrevLoop bytes p

/-- `__find_prev_char_boundary`: `position = position.saturating_sub(1);` then the loop -/
def findPrevCharBoundary (bytes : List Nat) (position : Nat) : Option Nat :=
  findPrevLoop bytes (position - 1)

/-- `non_char_boundary_panic(extreme, index)` (the message text is never observed) -/
structure Panic where
  extreme : String
  index : Nat
deriving Repr, DecidableEq, Inhabited

/-- `str_up_to` -/
def strUpTo (string : List Nat) (len : Nat) : Except Panic View :=
  if isCharBoundaryForgiving string len then .ok (Slice.sliceUpTo string.length len)
  else .error ⟨"index", len⟩

/-- `str_from` -/
def strFrom (string : List Nat) (start : Nat) : Except Panic View :=
  if isCharBoundaryForgiving string start then .ok (Slice.sliceFrom string.length start)
  else .error ⟨"start", start⟩

/-- `str_range` -/
def strRange (string : List Nat) (start end_ : Nat) : Except Panic View :=
  let startInbounds := isCharBoundaryForgiving string start
  if startInbounds && isCharBoundaryForgiving string end_ then
    .ok (Slice.sliceRange string.length start end_)
  else if startInbounds then .error ⟨"end", end_⟩
  else .error ⟨"start", start⟩

/-- `get_up_to`: `and_then!(slice::get_up_to(bytes, len), |x| if __is_char_boundary_bytes(bytes, len)
    { Some(x) } else { None })` -/
def getUpTo (string : List Nat) (len : Nat) : Option View :=
  match Slice.getUpTo string.length len with
  | none => none
  | some x => if isCharBoundaryBytes string len then some x else none

/-- `get_from` -/
def getFrom (string : List Nat) (from_ : Nat) : Option View :=
  match Slice.getFrom string.length from_ with
  | none => none
  | some x => if isCharBoundaryBytes string from_ then some x else none

/-- `get_range` -/
def getRange (string : List Nat) (start end_ : Nat) : Option View :=
  match Slice.getRange string.length start end_ with
  | none => none
  | some x =>
    if isCharBoundaryBytes string start && isCharBoundaryBytes string end_ then some x else none

/-- `split_at = (str_up_to(string, at), str_from(string, at))` (left operand evaluated first) -/
def splitAt (string : List Nat) (at_ : Nat) : Except Panic (View × View) := do
  let a ← strUpTo string at_
  let b ← strFrom string at_
  pure (a, b)

end Konst.Utf8
