import KonstVerif.Model.ArrayBuilder
import KonstVerif.Model.ArrayConsumer
/-
  Model of the array-building macros, import-free, structured like the code they EMIT:

    * `array::map!` / `array::from_fn!`   konst_kernel/src/macros/array_macros.rs  (`__array_map`)
    * `array::map_!` / `array::from_fn_!` konst/src/array/__array_macros_2.rs
                                          (`__array_map2__with_parsed_closure`, `__array_from_fn_with_parsed_closure`)
    * `iter::collect_const!`              konst_kernel/src/collect_const.rs (`__collect_const_iter_with`,
                                          `__iter_collect_const`)

  The user closure is inlined into the emitted loop as a block, so control flow inside it acts on the
  emitted loop.  A closure is therefore a function `call number → argument → Outcome`:
      value v | brk (`break`) | cont (`continue`) | ret (`return` / labelled break or continue to a
      label of the caller: control leaves the expansion) | panic.
  The call number makes stateful closures expressible (e.g. "`continue` the first time only").

  What each exit does in the real expansion was observed by compiling programs (rustc 1.95):
  every form compiles in a `fn`; `break` leaves the `while`, `continue` re-enters it WITHOUT `$i += 1`
  (map!/from_fn!: the same index is retried — possibly forever, modelled with fuel and `diverge`),
  `return` returns from the caller.  In a `const` item `return` is rejected (E0572), a panic is E0080
  and the `continue` loop never finishes compiling — `constVerdict`.
-/
namespace Konst.ArrayMacros
open Konst.ArrayBuilder (readInit Builder)
open Konst.ArrayConsumer (Consumer)

/-- what one evaluation of the inlined closure body does -/
inductive Outcome (β : Type) where
  | value (v : β)
  | brk | cont | ret | panic
deriving Repr, DecidableEq

/-- what the whole macro invocation does -/
inductive Res (β : Type) where
  | array (l : List β)
  | panic
  | diverge                    -- the emitted loop never ends (fuel exhausted)
  | returned                   -- control left the expansion: the caller returned (or jumped to its own label)
  | ub                         -- `assume_init` of an array with a never-written slot
deriving Repr, DecidableEq

variable {α β : Type}

/-- `array_assume_init(out)` -/
def assumeInit (out : List (Option β)) : Res β :=
  match readInit out with
  | some l => .array l
  | none => .ub

/-- after the `while`: `assert!($i == len)`, then `unsafe { array_assume_init(out) }` -/
def afterLoop (len i : Nat) (out : List (Option β)) : Res β :=
  if i == len then assumeInit out else .panic

/-- the `while $i < len { let pat = $get_input; out[$i] = MaybeUninit::new($mapper); $i += 1; }` loop of
    `__array_map`; `get i` is `$get_input` (`array[i]` for map!, `i` for from_fn!); `t` counts closure calls -/
def mapLoop (len : Nat) (get : Nat → Option α) (c : Nat → α → Outcome β) :
    Nat → Nat → Nat → List (Option β) → Res β
  | 0, _, _, _ => .diverge
  | fuel + 1, t, i, out =>
    if i < len then
      match get i with
      | none => .panic                       -- `array[i]` out of bounds (unreachable: `i < len`)
      | some a =>
        match c t a with
        | .value v => mapLoop len get c fuel (t + 1) (i + 1) (out.set i (some v))
        | .cont => mapLoop len get c fuel (t + 1) i out      -- `continue` skips `$i += 1`
        | .brk => afterLoop len i out
        | .ret => .returned
        | .panic => .panic
    else afterLoop len i out

/-- `array::map!(xs, c)`: `len = array.len()`, `out = uninit_array_of_len(&array)`, `$i = 0` -/
def arrayMap (fuel : Nat) (xs : List α) (c : Nat → α → Outcome β) : Res β :=
  mapLoop xs.length (fun i => xs[i]?) c fuel 0 0 (List.replicate xs.length none)

/-- `array::from_fn!(c)` for an array of length `n`: `__array_map` over `unit_array()` with `$get_input = i` -/
def arrayFromFn (fuel : Nat) (n : Nat) (c : Nat → Nat → Outcome β) : Res β :=
  mapLoop n (fun i => some i) c fuel 0 0 (List.replicate n none)

/-! ### by-value versions: `ArrayConsumer` + `ArrayBuilder` -/

/-- outcome of `map_!`/`from_fn_!` together with the ownership ledger of the run -/
structure ByVal (α β : Type) where
  res : Res β
  calls : List α               -- inputs handed to the closure, in order
  droppedOut : List β          -- outputs dropped with the builder (panic / return paths)
  droppedIn : List α           -- inputs dropped with the consumer (panic / return paths)
  leakedIn : List α            -- inputs still owned by the consumer when it is `mem::forget`-ed
deriving Repr

/-- `$crate::__::mem::forget(consumer); builder.build()` -/
def byValFinish (calls : List α) (cons : Consumer α) (bld : Builder β) : ByVal α β :=
  match ArrayConsumer.asSlice cons with
  | none => ⟨.ub, calls, [], [], []⟩
  | some leaked =>
    match ArrayBuilder.build bld with
    | .array l => ⟨.array l, calls, [], [], leaked⟩
    | .ub => ⟨.ub, calls, [], [], leaked⟩
    | .panic =>
      match ArrayBuilder.dropped bld with
      | some d => ⟨.panic, calls, d, [], leaked⟩
      | none => ⟨.ub, calls, [], [], leaked⟩

/-- leaving the expansion by unwinding or `return`: locals are dropped in reverse declaration order,
    `builder` first, then `consumer` -/
def byValUnwind (r : Res β) (calls : List α) (cons : Consumer α) (bld : Builder β) : ByVal α β :=
  match ArrayBuilder.dropped bld, ArrayConsumer.dropped cons with
  | some dout, some din => ⟨r, calls, dout, din, []⟩
  | _, _ => ⟨.ub, calls, [], [], []⟩

/-- `while let Some(elem) = consumer.next() { let pat = into_inner(elem); let mapped = $mapper;
    builder.push(mapped); }` -/
def byValLoop (c : Nat → α → Outcome β) :
    Nat → Nat → List α → Consumer α → Builder β → ByVal α β
  | 0, _, calls, _, _ => ⟨.diverge, calls, [], [], []⟩
  | fuel + 1, t, calls, cons, bld =>
    match ArrayConsumer.next cons with
    | .ub => ⟨.ub, calls, [], [], []⟩
    | .none => byValFinish calls cons bld
    | .some elem cons' =>
      match c t elem with
      | .value v =>
        match ArrayBuilder.push bld v with
        | .ok bld' => byValLoop c fuel (t + 1) (calls ++ [elem]) cons' bld'
        | .panic => byValUnwind .panic (calls ++ [elem]) cons' bld
      | .cont => byValLoop c fuel (t + 1) (calls ++ [elem]) cons' bld
      | .brk => byValFinish (calls ++ [elem]) cons' bld
      | .ret => byValUnwind .returned (calls ++ [elem]) cons' bld
      | .panic => byValUnwind .panic (calls ++ [elem]) cons' bld

/-- `array::map_!(xs, c)`: `ArrayConsumer::new($array)`, `ArrayBuilder::new()` of the same length -/
def arrayMapByVal (fuel : Nat) (xs : List α) (c : Nat → α → Outcome β) : ByVal α β :=
  byValLoop c fuel 0 [] (ArrayConsumer.new xs) (ArrayBuilder.new xs.length)

/-- `array::from_fn_!(c)`: `map_!` over `unit_array()` with the body `{ let pat = i; i += 1; $mapper }`:
    the index handed to the closure is the number of earlier calls -/
def arrayFromFnByVal (fuel : Nat) (n : Nat) (c : Nat → Nat → Outcome β) : ByVal Unit β :=
  arrayMapByVal fuel (List.replicate n ()) (fun t _ => c t t)

/-! ### `collect_const!` -/

/-- result of a `collect_const!` invocation (a `const` item: a panic is a compile error) -/
inductive CCRes (β : Type) where
  | array (l : List β)
  | constPanic                 -- E0080: evaluation panicked — the program does not compile
  | typeError                  -- `return` inside `__func_zxe7hgbnjs<Ret, CAP>`: rejected by rustc (E0069/E0308)
  | ub
deriving Repr, DecidableEq

/-- `CollectorCmd` -/
inductive Cmd where
  | computeLength | buildArray
deriving Repr, DecidableEq

/-- why the item loop stopped abnormally -/
inductive CCStop where
  | panic | typeError
deriving Repr, DecidableEq

/-- the emitted `'label: loop { <adapters with the closure inlined>; @each }` over the items the source
    yields; each item comes with the outcome of the closure body inlined into the loop for it.
    `@each`: `if let BuildArray(..) = cmd { array[length] = item }; length += 1` -/
def ccLoop (cmd : Cmd) : List (Outcome β) → List (Option β) → Nat → Except CCStop (List (Option β) × Nat)
  | [], arr, len => .ok (arr, len)
  | .value v :: r, arr, len =>
    match cmd with
    | .computeLength => ccLoop cmd r arr (len + 1)
    | .buildArray =>
      if len < arr.length then ccLoop cmd r (arr.set len (some v)) (len + 1)
      else .error .panic                     -- `array[length]` out of bounds
  | .cont :: r, arr, len => ccLoop cmd r arr len
  | .brk :: _, arr, len => .ok (arr, len)     -- an unlabelled `break` leaves the emitted `loop`
  | .ret :: _, _, _ => .error .typeError
  | .panic :: _, _, _ => .error .panic

/-- `__func_zxe7hgbnjs::<usize, 0>(ComputeLength)` -/
def ccCount (src : List (Outcome β)) : Except CCStop Nat :=
  (ccLoop .computeLength src [] 0).map (·.2)

/-- `__func_zxe7hgbnjs::<[T; CAP], CAP>(BuildArray)`: fill, `assert!(length == CAP)`, `array_assume_init` -/
def ccBuild (cap : Nat) (src : List (Outcome β)) : CCRes β :=
  match ccLoop .buildArray src (List.replicate cap none) 0 with
  | .error .panic => .constPanic
  | .error .typeError => .typeError
  | .ok (arr, len) =>
    if len == cap then
      match readInit arr with
      | some l => .array l
      | none => .ub
    else .constPanic

/-- the two constants `__COUNT… = func(MAKE)` and `__ARR…: [Item; __COUNT…] = func(MAKE)`, with the item
    streams of the two evaluations kept apart (`src1`, `src2`) so that their agreement is a theorem and
    not an assumption of the model -/
def collectConst2 (src1 src2 : List (Outcome β)) : CCRes β :=
  match ccCount src1 with
  | .error .panic => .constPanic
  | .error .typeError => .typeError
  | .ok cap => ccBuild cap src2

/-- `collect_const!`: both passes evaluate the same deterministic expression -/
def collectConst (src : List (Outcome β)) : CCRes β := collectConst2 src src

/-- rustc type-checks the inlined closure body before anything is evaluated: a `return` written anywhere
    in the chain is rejected (E0069) even if no item ever reaches it (observed) -/
def collectConstProgram (hasReturn : Bool) (src : List (Outcome β)) : CCRes β :=
  if hasReturn then .typeError else collectConst src

/-! ### verdicts for `const` contexts (observed, see header) -/

inductive Verdict (β : Type) where
  | value (l : List β)
  | doesNotCompile
  | timeout                    -- rustc never finishes evaluating the constant
deriving Repr, DecidableEq

/-- a macro invocation as the initialiser of a `const` item -/
def constVerdict : Res β → Verdict β
  | .array l => .value l
  | .panic => .doesNotCompile        -- E0080
  | .returned => .doesNotCompile     -- E0572 `return` outside of a function body
  | .diverge => .timeout
  | .ub => .doesNotCompile           -- unreachable (theorem); the const evaluator rejects uninit reads

end Konst.ArrayMacros
