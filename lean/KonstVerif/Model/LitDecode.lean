/-
  Model of the string-literal decoder of `konst_proc_macros` (what `parser_method!` matches against):
    konst_proc_macros/src/parsing.rs   parse_literal, parse_string, parse_raw_string, get_byte,
                                       parse_lstr (the `concat!` arm)

  The proc macro receives the literal token's SOURCE TEXT (`lit.to_string()`, quotes and escapes
  included) and re-implements rustc's unescaping.  The model works on that text as a `List Char`
  (a Lean `Char` is a Unicode scalar value, as a Rust `char`).  The Rust code slices the text by
  byte offsets; every offset it computes follows an ASCII character (`\`, the escape letter, hex
  digits, `}`), so char-level and byte-level slicing coincide on every text rustc's lexer lets
  through; where the Rust code would slice inside a multi-byte character (only possible on texts
  that are not valid literals) the model returns `panicked`.
-/
namespace Konst.Lit

inductive Err where
  | noTerminatingQuote
  | badHexEscape          -- `\x` not followed by two hex digits with value < 0x80
  | badUnicodeEscape      -- `\u{..}` malformed / not a scalar value
  | noClosingBrace
  | invalidEscape
  | rawNoOpeningQuote
  | rawNoClosingQuote
  | panicked              -- the Rust code would panic (slice out of range / not on a char boundary)
deriving Repr, DecidableEq, Inhabited

def hexDigitVal (c : Char) : Option Nat :=
  if '0' ≤ c ∧ c ≤ '9' then some (c.toNat - '0'.toNat)
  else if 'a' ≤ c ∧ c ≤ 'f' then some (c.toNat - 'a'.toNat + 10)
  else if 'A' ≤ c ∧ c ≤ 'F' then some (c.toNat - 'A'.toNat + 10)
  else none

/-- `u32::from_str_radix(digits, 16)` restricted to what can matter here: `none` for the empty
    string, a non-hex character, or a value that does not fit 32 bits
    (a leading `+` is accepted by from_str_radix; rustc never lets one through inside `\u{}`) -/
def fromStrRadix16 (ds : List Char) : Option Nat :=
  match ds with
  | [] => none
  | _ =>
    let rec go : List Char → Nat → Option Nat
      | [], acc => some acc
      | c :: r, acc =>
        match hexDigitVal c with
        | none => none
        | some d => if acc * 16 + d < 2 ^ 32 then go r (acc * 16 + d) else none
    go ds 0

/-- `std::char::from_u32` -/
def charOfNat? (n : Nat) : Option Char :=
  if h : n.isValidChar then some (Char.ofNatAux n h) else none

/-- the whitespace rustc skips after a line continuation: `' ' | '\t' | '\n' | '\r'` -/
def isContWs (c : Char) : Bool := c = ' ' || c = '\t' || c = '\n' || c = '\r'

/-- the main loop of `parse_string` on the text between the quotes; `fuel` bounds the number of
    turns (every turn consumes at least one character, so `rem.length + 1` suffices) -/
def unescape : Nat → List Char → List Char → Except Err (List Char)
  | 0, _, _ => .error .panicked
  | fuel + 1, rem, out =>
    -- `let end_copied = rem.find('\\').unwrap_or(rem.len()); out.push_str(&rem[..end_copied]);`
    let copied := rem.takeWhile (· ≠ '\\')
    let rem := rem.dropWhile (· ≠ '\\')
    let out := out ++ copied
    match rem with
    | [] => .ok out                                   -- `if rem.is_empty() { break }`
    | _bslash :: rest =>
      match rest with
      | [] => .error .invalidEscape                   -- `get_byte(rem, 1)` = 0, then `&rem[2..]` panics; unreachable for literals
      | b :: rem =>
        if b = 'x' then
          match rem with
          | h1 :: h2 :: rem' =>
            match fromStrRadix16 [h1, h2] with
            | some num => if num < 128 then unescape fuel rem' (out ++ [Char.ofNat num]) else .error .badHexEscape
            | none => .error .badHexEscape
          | _ => .error .badHexEscape
        else if b = 'u' then
          -- `rem.bytes().position(|b| b == b'}')`, digits = `rem[1..end_brace]` without `_`
          if rem.contains '}' then
            let inside := rem.takeWhile (· ≠ '}')
            let after := (rem.dropWhile (· ≠ '}')).drop 1
            match inside with
            | [] => .error .panicked                  -- `rem[1..0]`
            | _open :: ds =>
              let digits := ds.filter (· ≠ '_')
              match (fromStrRadix16 digits).bind charOfNat? with
              | some c => unescape fuel after (out ++ [c])
              | none => .error .badUnicodeEscape
          else .error .noClosingBrace
        else if b = 'n' then unescape fuel rem (out ++ ['\n'])
        else if b = 'r' then unescape fuel rem (out ++ ['\r'])
        else if b = 't' then unescape fuel rem (out ++ ['\t'])
        else if b = '\\' then unescape fuel rem (out ++ ['\\'])
        else if b = '0' then unescape fuel rem (out ++ ['\x00'])
        else if b = '\'' then unescape fuel rem (out ++ ['\''])
        else if b = '"' then unescape fuel rem (out ++ ['"'])
        else if b = '\r' ∨ b = '\n' then
          -- line continuation: `rem = rem.trim_start_matches(' ' | '\t' | '\n' | '\r'); continue`
          unescape fuel (rem.dropWhile isContWs) out
        else .error .invalidEscape

/-- `parse_string(input)`: `input` is the literal text including both quotes -/
def parseString (input : List Char) : Except Err (List Char) :=
  if input.getLast? ≠ some '"' then .error .noTerminatingQuote
  else
    match input with
    | [] | [_] => .error .panicked                    -- `&input[1..input.len() - 1]` with len < 2
    | _ :: r => unescape (r.length + 1) r.dropLast []

/-- `parse_raw_string(input)`: text `r##"…"##` -/
def parseRawString (input : List Char) : Except Err (List Char) :=
  let input := input.drop 1                            -- `&input[1..]` (the `r`)
  let hashes := input.takeWhile (· = '#')
  match input.drop hashes.length with
  | [] => .error .rawNoOpeningQuote
  | q :: _ =>
    if q ≠ '"' then .error .rawNoOpeningQuote
    else
      let hashCount := hashes.length
      -- position of the last non-`#` byte, which must be `"`
      let tailHashes := (input.reverse.takeWhile (· = '#')).length
      if tailHashes ≥ input.length then .error .rawNoClosingQuote
      else
        let endQuote := input.length - 1 - tailHashes
        if input[endQuote]? ≠ some '"' then .error .rawNoClosingQuote
        else if hashCount + 1 ≤ endQuote then .ok ((input.take endQuote).drop (hashCount + 1))
        else .error .panicked                          -- `input[hash_count + 1..end_quote]` with start > end

/-- `parse_literal`: dispatch on the first character of the token text -/
def parseLiteral (text : List Char) : Except Err (List Char) :=
  match text with
  | '"' :: _ => parseString text
  | 'r' :: _ => parseRawString text
  | _ => .error .invalidEscape

/-- `concat!(a, b, …)` of literals: concatenation of the decoded pieces -/
def parseConcat : List (List Char) → Except Err (List Char)
  | [] => .ok []
  | t :: r =>
    match parseLiteral t, parseConcat r with
    | .ok a, .ok b => .ok (a ++ b)
    | .error e, _ => .error e
    | _, .error e => .error e

end Konst.Lit
