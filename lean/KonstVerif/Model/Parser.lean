import KonstVerif.Model.Basic
import KonstVerif.Model.Utf8
import KonstVerif.Model.StrFns
import KonstVerif.Model.ParseInt
/-
  Model of `konst::parsing::Parser` (properties C13 and C14).  Core Lean only.

  mirrors (the code at /repo's HEAD, i.e. AFTER commit f0b3228 "Parser::trim/trim_matches add only
  the start trim to start_offset"; the pre-repair `parsing!{self, FromBoth; …}` form of
  `trim`/`trim_matches` lives in `KonstVerif/Legacy/ParserTrim.lean`):

    konst/src/parsing.rs                      struct Parser, split_terminator, rsplit_terminator, split,
                                              rsplit, split_keep, strip_prefix, strip_suffix, trim,
                                              trim_start, trim_end, trim_matches, trim_start_matches,
                                              trim_end_matches, find_skip, rfind_skip
    konst/src/parsing/non_parsing_methods.rs  new, with_start_offset, skip, skip_back, remainder,
                                              start_offset, end_offset, parse_direction, into_error,
                                              into_other_error, len, is_empty
    konst/src/parsing/parse_errors.rs         ParseError::new, other_error, offset, error_direction, kind
    konst/src/macros/parsing_macros.rs        try_parsing!, parsing!, throw_out! (= throw!),
                                              enable_if_start!
    konst/src/parsing/primitive_parsing.rs    parse_integer! / Parser::parse_u8 … parse_isize,
                                              Parser::parse_bool (bodies: `Model/ParseInt.lean`)

  Conventions
  * a `&str` is its byte list (`List Nat`); `Parser.str` is the CONTENT of the remainder.  Every
    method computes the new remainder as a `View` into the old one (through the models of the free
    functions of `konst::string`, `Model/StrFns.lean`, exactly where the Rust method delegates) and
    stores `view.apply old`.
  * `start_offset: u32` is a `Nat`.  The code computes `start_offset += (old_len - new_len) as u32`
    in `u32`; model and code agree as long as nothing wraps, i.e. under the EXPLICIT hypothesis
    `base + original.len() < 2^32` carried by the C13 theorems (`offsets_fit_u32` shows that under
    it every offset the model computes fits `u32`).  `copy.str.len() - self.str.len()` (a `usize`
    subtraction) is truncated subtraction here; the remainder never grows (`step_shrinks`), so it is
    exact.
  * pattern arguments (`&str`, `char`) are their UTF-8 bytes (`PatternNorm` is the identity on them).
  * a panic (`non_char_boundary_panic` inside `str_from`/`str_up_to`/`split_at`, the `pos -= 1`
    underflow of `skip_back`) is the explicit outcome `Res.panic`; `Props/C13.lean` proves it is
    unreachable from `Parser::new`/`with_start_offset` on `&str` (valid UTF-8) arguments.
-/
namespace Konst.Parser

open Konst

/-- `ParseDirection` -/
inductive ParseDirection where
  | fromStart | fromEnd | fromBoth
deriving Repr, DecidableEq, Inhabited

/-- `ErrorKind` -/
inductive ErrorKind where
  | parseInteger | parseBool | find | strip | splitExhausted | delimiterNotFound | other
deriving Repr, DecidableEq, Inhabited

/-- `struct Parser { parse_direction, yielded_last_split, start_offset: u32, str }` -/
structure Parser where
  dir : ParseDirection
  yieldedLastSplit : Bool
  startOffset : Nat
  str : List Nat
deriving Repr, DecidableEq, Inhabited

/-- `struct ParseError { start_offset, end_offset, direction, kind, .. }` -/
structure ParseError where
  startOffset : Nat
  endOffset : Nat
  dir : ParseDirection
  kind : ErrorKind
deriving Repr, DecidableEq, Inhabited

/-- `ParseError::new(parser, kind)` (and `other_error`, with `kind = Other`):
    `end_offset: parser.start_offset + parser.str.len() as u32` -/
def ParseError.new (parser : Parser) (kind : ErrorKind) : ParseError :=
  ⟨parser.startOffset, parser.startOffset + parser.str.length, parser.dir, kind⟩

/-- `ParseError::offset` -/
def ParseError.offset (e : ParseError) : Nat :=
  match e.dir with
  | .fromStart | .fromBoth => e.startOffset
  | .fromEnd => e.endOffset

/-- `ParseError::error_direction` -/
def ParseError.errorDirection (e : ParseError) : ParseDirection := e.dir

/-! ### constructors and accessors (`non_parsing_methods.rs`) -/

/-- `Parser::new` -/
def new (string : List Nat) : Parser := ⟨.fromStart, false, 0, string⟩

/-- `Parser::with_start_offset` (`start_offset as u32`: see the header) -/
def withStartOffset (string : List Nat) (startOffset : Nat) : Parser :=
  ⟨.fromStart, false, startOffset, string⟩

/-- `Parser::remainder` -/
def Parser.remainder (p : Parser) : List Nat := p.str
/-- `Parser::end_offset`: `self.start_offset as usize + self.str.len()` -/
def Parser.endOffset (p : Parser) : Nat := p.startOffset + p.str.length
/-- `Parser::len` / `Parser::is_empty` -/
def Parser.len (p : Parser) : Nat := p.str.length
def Parser.isEmpty (p : Parser) : Bool := p.str.isEmpty
/-- `Parser::into_error` -/
def Parser.intoError (p : Parser) (kind : ErrorKind) : ParseError := ParseError.new p kind
/-- `Parser::into_other_error` -/
def Parser.intoOtherError (p : Parser) : ParseError := ParseError.new p .other

/-! ### results -/

/-- the value a method returns next to the parser: nothing, a `&str` piece (as a view into the
    remainder the method was called on), an integer, a bool -/
inductive Value where
  | unit
  | piece (v : View)
  | int (n : Int)
  | bool (b : Bool)
deriving Repr, DecidableEq, Inhabited

/-- result of one method call: `Ok((value, parser))` / `Ok(parser)` / the returned `Self`;
    `Err(ParseError)`; or a panic -/
inductive Res where
  | ok (p : Parser) (v : Value)
  | err (e : ParseError)
  | panic
deriving Repr, DecidableEq, Inhabited

/-- how the code block inside `try_parsing!` ends: `throw!(kind)`, a panic, or normally with the
    block's value and the mutated `self` -/
inductive Body where
  | throw (k : ErrorKind)
  | panic
  | done (ret : Value) (self : Parser)
deriving Repr, Inhabited

/-! ### the macros (`parsing_macros.rs`) -/

/-- `enable_if_start!{$parse_direction, $parser.start_offset += (copy.str.len() - $parser.str.len()) as u32;}`:
    the tokens are kept for `FromStart` and `FromBoth`, dropped for `FromEnd` -/
def enableIfStartAdd (d : ParseDirection) (copy self : Parser) : Parser :=
  match d with
  | .fromEnd => self
  | .fromStart | .fromBoth =>
    { self with startOffset := self.startOffset + (copy.str.length - self.str.length) }

/-- `try_parsing!{self, $dir $(,ret)?; code}`:
    `self.parse_direction = $dir; let copy = self;` run the block (`throw!(k)` =
    `return Err(ParseError::new(copy, k))`), then the `enable_if_start!` update, `Ok((ret, self))` -/
def tryParsing (self : Parser) (d : ParseDirection) (code : Parser → Body) : Res :=
  let self := { self with dir := d }
  let copy := self
  match code self with
  | .throw k => .err (ParseError.new copy k)
  | .panic => .panic
  | .done ret self => .ok (enableIfStartAdd d copy self) ret

/-- `parsing!{self, $dir; code}` (infallible twin; the block only assigns `self.str`):
    `None` from the block = a panic inside it -/
def parsing (self : Parser) (d : ParseDirection) (code : Parser → Option Parser) : Res :=
  let self := { self with dir := d }
  let copy := self
  match code self with
  | none => .panic
  | some self => .ok (enableIfStartAdd d copy self) .unit

/-- `self.str = <view into self.str>` -/
def Parser.setStr (self : Parser) (v : View) : Parser := { self with str := v.apply self.str }

/-! ### the split family (`parsing.rs`) -/

/-- `Parser::split_terminator` -/
def splitTerminator (self : Parser) (delimiter : List Nat) : Res :=
  tryParsing self .fromStart fun self =>
    if self.str.isEmpty || self.yieldedLastSplit then
      .throw (if self.yieldedLastSplit then .splitExhausted else .delimiterNotFound)
    else
      match StrFns.splitOnce self.str delimiter with
      | .error _ => .panic
      | .ok (some (before, after)) =>
        -- `self.yielded_last_split = after.is_empty(); self.str = after; before`
        .done (.piece before)
          { self with yieldedLastSplit := (after.apply self.str).isEmpty, str := after.apply self.str }
      | .ok none => .throw .delimiterNotFound

/-- `Parser::rsplit_terminator`: `Some((after, before)) = rsplit_once(..)` — `after` is the part
    BEFORE the last delimiter (what stays in the parser), `before` the returned piece behind it -/
def rsplitTerminator (self : Parser) (delimiter : List Nat) : Res :=
  tryParsing self .fromEnd fun self =>
    if self.str.isEmpty || self.yieldedLastSplit then
      .throw (if self.yieldedLastSplit then .splitExhausted else .delimiterNotFound)
    else
      match StrFns.rsplitOnce self.str delimiter with
      | .error _ => .panic
      | .ok (some (after, before)) =>
        .done (.piece before)
          { self with yieldedLastSplit := (after.apply self.str).isEmpty, str := after.apply self.str }
      | .ok none => .throw .delimiterNotFound

/-- `Parser::split`: `None => { self.yielded_last_split = true; (self.str, str_from(self.str, self.str.len())) }` -/
def split (self : Parser) (delimiter : List Nat) : Res :=
  tryParsing self .fromStart fun self =>
    if self.yieldedLastSplit then .throw .splitExhausted
    else
      match StrFns.splitOnce self.str delimiter with
      | .error _ => .panic
      | .ok (some (before, after)) => .done (.piece before) (self.setStr after)
      | .ok none =>
        match Utf8.strFrom self.str self.str.length with
        | .error _ => .panic
        | .ok after =>
          .done (.piece ⟨0, self.str.length⟩) ({ self with yieldedLastSplit := true }.setStr after)

/-- `Parser::rsplit`: `None => { self.yielded_last_split = true; (str_up_to(self.str, 0), self.str) }` -/
def rsplit (self : Parser) (delimiter : List Nat) : Res :=
  tryParsing self .fromEnd fun self =>
    if self.yieldedLastSplit then .throw .splitExhausted
    else
      match StrFns.rsplitOnce self.str delimiter with
      | .error _ => .panic
      | .ok (some (after, before)) => .done (.piece before) (self.setStr after)
      | .ok none =>
        match Utf8.strUpTo self.str 0 with
        | .error _ => .panic
        | .ok after =>
          .done (.piece ⟨0, self.str.length⟩) ({ self with yieldedLastSplit := true }.setStr after)

/-- `Parser::split_keep`: `match string::find(self.str, delimiter) { Some(pos) => split_at(self.str, pos), None => … }` -/
def splitKeep (self : Parser) (delimiter : List Nat) : Res :=
  tryParsing self .fromStart fun self =>
    if self.yieldedLastSplit then .throw .splitExhausted
    else
      match StrFns.find self.str delimiter with
      | some pos =>
        match Utf8.splitAt self.str pos with
        | .error _ => .panic
        | .ok (before, after) => .done (.piece before) (self.setStr after)
      | none =>
        match Utf8.strFrom self.str self.str.length with
        | .error _ => .panic
        | .ok after =>
          .done (.piece ⟨0, self.str.length⟩) ({ self with yieldedLastSplit := true }.setStr after)

/-! ### strip / trim / find (`parsing.rs`) -/

/-- `Parser::strip_prefix` -/
def stripPrefix (self : Parser) (matched : List Nat) : Res :=
  tryParsing self .fromStart fun self =>
    match StrFns.stripPrefix self.str matched with
    | some x => .done .unit (self.setStr x)
    | none => .throw .strip

/-- `Parser::strip_suffix` -/
def stripSuffix (self : Parser) (matched : List Nat) : Res :=
  tryParsing self .fromEnd fun self =>
    match StrFns.stripSuffix self.str matched with
    | some x => .done .unit (self.setStr x)
    | none => .throw .strip

/-- `Parser::trim` (hand-written since f0b3228, no macro):
    `let trimmed_start = string::trim_start(self.str); self.parse_direction = FromBoth;`
    `self.start_offset += (self.str.len() - trimmed_start.len()) as u32;`
    `self.str = string::trim_end(trimmed_start); self` -/
def trim (self : Parser) : Res :=
  let trimmedStart := (StrFns.trimStart self.str).apply self.str
  let self1 := { self with dir := ParseDirection.fromBoth }
  let self2 := { self1 with startOffset := self1.startOffset + (self1.str.length - trimmedStart.length) }
  .ok { self2 with str := (StrFns.trimEnd trimmedStart).apply trimmedStart } .unit

/-- `Parser::trim_start` -/
def trimStart (self : Parser) : Res :=
  parsing self .fromStart fun self => some (self.setStr (StrFns.trimStart self.str))

/-- `Parser::trim_end` -/
def trimEnd (self : Parser) : Res :=
  parsing self .fromEnd fun self => some (self.setStr (StrFns.trimEnd self.str))

/-- `Parser::trim_matches` (hand-written since f0b3228, like `trim`) -/
def trimMatches (self : Parser) (needle : List Nat) : Res :=
  let trimmedStart := (StrFns.trimStartMatches self.str needle).apply self.str
  let self1 := { self with dir := ParseDirection.fromBoth }
  let self2 := { self1 with startOffset := self1.startOffset + (self1.str.length - trimmedStart.length) }
  .ok { self2 with str := (StrFns.trimEndMatches trimmedStart needle).apply trimmedStart } .unit

/-- `Parser::trim_start_matches` -/
def trimStartMatches (self : Parser) (needle : List Nat) : Res :=
  parsing self .fromStart fun self => some (self.setStr (StrFns.trimStartMatches self.str needle))

/-- `Parser::trim_end_matches` -/
def trimEndMatches (self : Parser) (needle : List Nat) : Res :=
  parsing self .fromEnd fun self => some (self.setStr (StrFns.trimEndMatches self.str needle))

/-- `Parser::find_skip` -/
def findSkip (self : Parser) (needle : List Nat) : Res :=
  tryParsing self .fromStart fun self =>
    match StrFns.findSkip self.str needle with
    | some x => .done .unit (self.setStr x)
    | none => .throw .find

/-- `Parser::rfind_skip` -/
def rfindSkip (self : Parser) (needle : List Nat) : Res :=
  tryParsing self .fromEnd fun self =>
    match StrFns.rfindSkip self.str needle with
    | some x => .done .unit (self.setStr x)
    | none => .throw .find

/-! ### skip / skip_back (`non_parsing_methods.rs`) -/

/-- `while !__is_char_boundary_bytes(bytes, byte_count) { byte_count += 1; }`
    (fuel = iterations; `skip` passes `len + 1`, which suffices because `len` passes the test) -/
def skipUp (bytes : List Nat) : Nat → Nat → Nat
  | 0, byteCount => byteCount
  | fuel + 1, byteCount =>
    if Utf8.isCharBoundaryBytes bytes byteCount then byteCount else skipUp bytes fuel (byteCount + 1)

/-- `Parser::skip`: clamp to the length, else round UP to a char boundary;
    `self.parse_direction = FromStart; self.start_offset += byte_count as u32;`
    `self.str = str_from(self.str, byte_count)` -/
def skip (self : Parser) (byteCount : Nat) : Res :=
  let bytes := self.str
  let byteCount :=
    if byteCount > bytes.length then bytes.length else skipUp bytes (bytes.length + 1) byteCount
  let self := { self with dir := ParseDirection.fromStart }
  let self := { self with startOffset := self.startOffset + byteCount }
  match Utf8.strFrom self.str byteCount with
  | .error _ => .panic
  | .ok v => .ok (self.setStr v) .unit

/-- `while !__is_char_boundary_bytes(bytes, pos) { pos -= 1; }`; `none` = `pos -= 1` at `pos == 0`
    (arithmetic underflow: a panic) -/
def skipDown (bytes : List Nat) : Nat → Option Nat
  | 0 => if Utf8.isCharBoundaryBytes bytes 0 then some 0 else none
  | pos + 1 =>
    if Utf8.isCharBoundaryBytes bytes (pos + 1) then some (pos + 1) else skipDown bytes pos

/-- `Parser::skip_back`: `pos = len.saturating_sub(byte_count)`, round DOWN to a char boundary;
    `self.parse_direction = FromEnd; self.str = str_up_to(self.str, pos)` -/
def skipBack (self : Parser) (byteCount : Nat) : Res :=
  let bytes := self.str
  match skipDown bytes (self.str.length - byteCount) with
  | none => .panic
  | some pos =>
    let self := { self with dir := ParseDirection.fromEnd }
    match Utf8.strUpTo self.str pos with
    | .error _ => .panic
    | .ok v => .ok (self.setStr v) .unit

/-! ### parse_* (`primitive_parsing.rs`; bodies from `Model/ParseInt.lean`) -/

/-- `Parser::parse_u8 … parse_isize` = `parse_integer!{signedness, (type, uns), self}`:
    `try_parsing!{self, FromStart, ret; … self.str = str_from(self.str, self.str.len() - bytes.len()); num}` -/
def parseInt (self : Parser) (signed : Bool) (bits : Nat) : Res :=
  tryParsing self .fromStart fun self =>
    match ParseInt.parseIntegerPrefix signed bits self.str with
    | none => .throw .parseInteger
    | some (num, consumed) =>
      match Utf8.strFrom self.str consumed with
      | .error _ => .panic
      | .ok v => .done (.int num) (self.setStr v)

/-- `Parser::parse_bool` (`str_from(self.str, 4)` / `str_from(self.str, 5)`) -/
def parseBool (self : Parser) : Res :=
  tryParsing self .fromStart fun self =>
    match ParseInt.parseBoolPrefix self.str with
    | none => .throw .parseBool
    | some (b, consumed) =>
      match Utf8.strFrom self.str consumed with
      | .error _ => .panic
      | .ok v => .done (.bool b) (self.setStr v)

/-! ### operations and histories -/

/-- one method call with its arguments (patterns as bytes, integer types as `(signed, bits)`) -/
inductive Op where
  | splitTerminator (delimiter : List Nat)
  | rsplitTerminator (delimiter : List Nat)
  | split (delimiter : List Nat)
  | rsplit (delimiter : List Nat)
  | splitKeep (delimiter : List Nat)
  | stripPrefix (matched : List Nat)
  | stripSuffix (matched : List Nat)
  | trim
  | trimStart
  | trimEnd
  | trimMatches (needle : List Nat)
  | trimStartMatches (needle : List Nat)
  | trimEndMatches (needle : List Nat)
  | findSkip (needle : List Nat)
  | rfindSkip (needle : List Nat)
  | skip (byteCount : Nat)
  | skipBack (byteCount : Nat)
  | parseInt (signed : Bool) (bits : Nat)
  | parseBool
deriving Repr, DecidableEq, Inhabited

/-- one step -/
def step (op : Op) (p : Parser) : Res :=
  match op with
  | .splitTerminator d => splitTerminator p d
  | .rsplitTerminator d => rsplitTerminator p d
  | .split d => split p d
  | .rsplit d => rsplit p d
  | .splitKeep d => splitKeep p d
  | .stripPrefix m => stripPrefix p m
  | .stripSuffix m => stripSuffix p m
  | .trim => trim p
  | .trimStart => trimStart p
  | .trimEnd => trimEnd p
  | .trimMatches n => trimMatches p n
  | .trimStartMatches n => trimStartMatches p n
  | .trimEndMatches n => trimEndMatches p n
  | .findSkip n => findSkip p n
  | .rfindSkip n => rfindSkip p n
  | .skip n => skip p n
  | .skipBack n => skipBack p n
  | .parseInt s b => parseInt p s b
  | .parseBool => parseBool p

/-- the end an operation works from (`$parse_direction` of its macro call; `trim`/`trim_matches`
    set `FromBoth`) -/
def Op.direction : Op → ParseDirection
  | .splitTerminator _ | .split _ | .splitKeep _ | .stripPrefix _ | .trimStart
  | .trimStartMatches _ | .findSkip _ | .skip _ | .parseInt _ _ | .parseBool => .fromStart
  | .rsplitTerminator _ | .rsplit _ | .stripSuffix _ | .trimEnd | .trimEndMatches _
  | .rfindSkip _ | .skipBack _ => .fromEnd
  | .trim | .trimMatches _ => .fromBoth

/-- the pattern argument of an operation, if it has one -/
def Op.pattern : Op → Option (List Nat)
  | .splitTerminator d | .rsplitTerminator d | .split d | .rsplit d | .splitKeep d => some d
  | .stripPrefix m | .stripSuffix m => some m
  | .trimMatches n | .trimStartMatches n | .trimEndMatches n | .findSkip n | .rfindSkip n => some n
  | _ => none

/-- the parser a caller holds after a step: the returned one, or (the type is `Copy`) the one the
    failing method was called on; nothing after a panic -/
def Res.next (r : Res) (p : Parser) : Option Parser :=
  match r with
  | .ok p' _ => some p'
  | .err _ => some p
  | .panic => none

/-- the result of every step of a history (a failing step leaves the caller with its copy;
    a panic ends the run) -/
def trace : Parser → List Op → List Res
  | _, [] => []
  | p, op :: ops =>
    let r := step op p
    r :: (match r.next p with
          | some p' => trace p' ops
          | none => [])

/-- the parser held after a history (`none` after a panic) -/
def final : Parser → List Op → Option Parser
  | p, [] => some p
  | p, op :: ops =>
    match (step op p).next p with
    | some p' => final p' ops
    | none => none

/-- repeat one piece-returning method (`split`, `rsplit`, `split_terminator`, `rsplit_terminator`
    with a fixed delimiter) until it fails, as a caller's loop does: the pieces handed out (their
    contents) and the kind of the final error (`none`: fuel ran out, a panic, or no piece value) -/
def iterate (op : Op) : Nat → Parser → List (List Nat) × Option ErrorKind
  | 0, _ => ([], none)
  | fuel + 1, p =>
    match step op p with
    | .ok p' (.piece v) =>
      let (pieces, k) := iterate op fuel p'
      (v.apply p.str :: pieces, k)
    | .ok _ _ => ([], none)
    | .err e => ([], some e.kind)
    | .panic => ([], none)

/-! ### the delegation table (C14): which free function of `konst::string` a method calls on the remainder -/

/-- result of the free function on a remainder: the remainder it computes, "nothing found", a panic -/
inductive FnRes where
  | found (rem : List Nat)
  | notFound
  | panic
deriving Repr, DecidableEq, Inhabited

def FnRes.ofOptView (s : List Nat) : Option View → FnRes
  | some v => .found (v.apply s)
  | none => .notFound

/-- `freeFn op s`: the free function that `op`'s method delegates to, applied to the remainder `s`:
    `string::strip_prefix/strip_suffix/trim*/trim_*matches/find_skip/rfind_skip`, `split_once`
    (the part behind the first delimiter) / `rsplit_once` (the part before the last one) for the
    split family, `find_keep` for `split_keep`, the prefix parsers of `primitive_parsing.rs` for
    `parse_*`.  `none`: `skip`/`skip_back` have no counterpart among the free string functions. -/
def freeFn (op : Op) (s : List Nat) : Option FnRes :=
  match op with
  | .stripPrefix m => some (.ofOptView s (StrFns.stripPrefix s m))
  | .stripSuffix m => some (.ofOptView s (StrFns.stripSuffix s m))
  | .trim => some (.found ((StrFns.trim s).apply s))
  | .trimStart => some (.found ((StrFns.trimStart s).apply s))
  | .trimEnd => some (.found ((StrFns.trimEnd s).apply s))
  | .trimMatches n => some (.found ((StrFns.trimMatches s n).apply s))
  | .trimStartMatches n => some (.found ((StrFns.trimStartMatches s n).apply s))
  | .trimEndMatches n => some (.found ((StrFns.trimEndMatches s n).apply s))
  | .findSkip n => some (.ofOptView s (StrFns.findSkip s n))
  | .rfindSkip n => some (.ofOptView s (StrFns.rfindSkip s n))
  | .split d | .splitTerminator d =>
    some (match StrFns.splitOnce s d with
      | .error _ => .panic
      | .ok none => .notFound
      | .ok (some (_, after)) => .found (after.apply s))
  | .rsplit d | .rsplitTerminator d =>
    some (match StrFns.rsplitOnce s d with
      | .error _ => .panic
      | .ok none => .notFound
      | .ok (some (before, _)) => .found (before.apply s))
  | .splitKeep d => some (.ofOptView s (StrFns.findKeep s d))
  | .parseInt signed bits =>
    some (match ParseInt.parseIntegerPrefix signed bits s with
      | none => .notFound
      | some (_, consumed) => .found (s.drop consumed))
  | .parseBool =>
    some (match ParseInt.parseBoolPrefix s with
      | none => .notFound
      | some (_, consumed) => .found (s.drop consumed))
  | .skip _ | .skipBack _ => none

/-- the methods that hand out pieces and use the one-shot flag -/
def Op.isSplitFamily : Op → Bool
  | .split _ | .rsplit _ | .splitKeep _ | .splitTerminator _ | .rsplitTerminator _ => true
  | _ => false

/-- the split methods that succeed (once) without finding the delimiter -/
def Op.yieldsRest : Op → Bool
  | .split _ | .rsplit _ | .splitKeep _ => true
  | _ => false

end Konst.Parser
