import KonstVerif.Model.Trace
import KonstVerif.Model.OptRes
/-
  C19 — the option::/result:: macros, `try_!`, `try_opt!`, the rebind macros and `min!`/`max!`(`_by`(`_key`)) as
  functions of their argument EXPRESSIONS (computations that log, `Trace.Tr`), mirroring where the expansion places
  each `$fragment` (konst_kernel/src/macros/option_macros_.rs, result_macros_.rs, konst/src/macros/unwrapping.rs,
  parsing_macros.rs, minmax_macros.rs, konst_kernel/src/utils.rs `__parse_closure_1/2`).

  * `$e` (the Option/Result) stands in the scrutinee of ONE `match` — evaluated once, first.
  * the eager forms build the tuple `($e, $v)`: `$e`, then `$v`, both always.
  * a pseudo-closure body is pasted into the arm that "calls" it; a function argument `$f` is pasted as `$f(x)` into
    that arm: the function-VALUED expression `$f` is evaluated THERE (only when the arm is taken), not as a method
    argument would be.  `fx : Tr (α → Tr β)` is that expression; a closure literal / path / variable is `quiet f`.
  * `min_by!(l, r, f)` with a function argument expands to `match $f { func => match [$l, $r] { .. } }`: `$f` first.
  * `max_by_key!(l, r, ..)` passes `$r, $l` to `__minmax_by_key!`: `$r` is evaluated (and keyed) first.

  Second part: which caller ITEMS the identifier patterns of an expansion collide with (`binders`).
-/
namespace Konst.OptRes.Eval
open Konst.Trace

variable {α β ε φ κ : Type}

/-! ## option -/

/-- `opt_unwrap_or!`: `match ($e, $v) { (Some(x), _) => x, (None, value) => value }` -/
def optUnwrapOr (e : Tr (Option α)) (v : Tr α) : Tr α := do
  let o ← e
  let value ← v
  match o, value with
  | some x, _ => pure x
  | none, value => pure value

/-- `opt_ok_or!` -/
def optOkOr (e : Tr (Option α)) (v : Tr ε) : Tr (Except ε α) := do
  let o ← e
  let value ← v
  match o, value with
  | some x, _ => pure (.ok x)
  | none, value => pure (.error value)

/-- `opt_unwrap_or_else!`: `match $e { Some(x) => x, None => $v() }` (`|| body`: the body itself) -/
def optUnwrapOrElse (e : Tr (Option α)) (fx : Tr (Unit → Tr α)) : Tr α := do
  match (← e) with
  | some x => pure x
  | none => do let f ← fx; f ()

/-- `opt_ok_or_else!`: `None => Err($v())` -/
def optOkOrElse (e : Tr (Option α)) (fx : Tr (Unit → Tr ε)) : Tr (Except ε α) := do
  match (← e) with
  | some x => pure (.ok x)
  | none => do let f ← fx; let v ← f (); pure (.error v)

/-- `opt_map!`: `Some(x) => Some($function(x))` -/
def optMap (e : Tr (Option α)) (fx : Tr (α → Tr β)) : Tr (Option β) := do
  match (← e) with
  | some x => do let f ← fx; let y ← f x; pure (some y)
  | none => pure none

/-- `opt_and_then!` -/
def optAndThen (e : Tr (Option α)) (fx : Tr (α → Tr (Option β))) : Tr (Option β) := do
  match (← e) with
  | some x => do let f ← fx; f x
  | none => pure none

/-- `opt_or_else!` -/
def optOrElse (e : Tr (Option α)) (fx : Tr (Unit → Tr (Option α))) : Tr (Option α) := do
  match (← e) with
  | some x => pure (some x)
  | none => do let f ← fx; f ()

/-- `opt_filter!`: `Some(x) => if $function(&x) { Some(x) } else { None }, None => None` -/
def optFilter (e : Tr (Option α)) (fx : Tr (α → Tr Bool)) : Tr (Option α) := do
  match (← e) with
  | some x => do
    let f ← fx
    let keep ← f x
    if keep then pure (some x) else pure none
  | none => pure none

/-- `opt_flatten!` -/
def optFlatten (e : Tr (Option (Option α))) : Tr (Option α) := do
  match (← e) with
  | some x => pure x
  | none => pure none

/-- `konst::option::copied(arg)`: an ordinary function call -/
def optCopied (e : Tr (Option α)) : Tr (Option α) := do
  let o ← e
  pure (OptRes.optCopied o)

/-! ## result -/

/-- `res_unwrap_or!`: `match ($res, $v) { (Ok(x), _) => x, (Err(_), value) => value }` -/
def resUnwrapOr (e : Tr (Except ε α)) (v : Tr α) : Tr α := do
  let r ← e
  let value ← v
  match r, value with
  | .ok x, _ => pure x
  | .error _, value => pure value

def resUnwrapOrElse (e : Tr (Except ε α)) (fx : Tr (ε → Tr α)) : Tr α := do
  match (← e) with
  | .ok x => pure x
  | .error x => do let f ← fx; f x

def resUnwrapErrOrElse (e : Tr (Except ε α)) (fx : Tr (α → Tr ε)) : Tr ε := do
  match (← e) with
  | .ok x => do let f ← fx; f x
  | .error x => pure x

def resOk (e : Tr (Except ε α)) : Tr (Option α) := do
  let r ← e
  pure (OptRes.resOk r)

def resErr (e : Tr (Except ε α)) : Tr (Option ε) := do
  let r ← e
  pure (OptRes.resErr r)

def resMap (e : Tr (Except ε α)) (fx : Tr (α → Tr β)) : Tr (Except ε β) := do
  match (← e) with
  | .ok x => do let f ← fx; let y ← f x; pure (.ok y)
  | .error x => pure (.error x)

def resMapErr (e : Tr (Except ε α)) (fx : Tr (ε → Tr φ)) : Tr (Except φ α) := do
  match (← e) with
  | .ok x => pure (.ok x)
  | .error x => do let f ← fx; let y ← f x; pure (.error y)

def resAndThen (e : Tr (Except ε α)) (fx : Tr (α → Tr (Except ε β))) : Tr (Except ε β) := do
  match (← e) with
  | .ok x => do let f ← fx; f x
  | .error x => pure (.error x)

def resOrElse (e : Tr (Except ε α)) (fx : Tr (ε → Tr (Except φ α))) : Tr (Except φ α) := do
  match (← e) with
  | .ok x => pure (.ok x)
  | .error x => do let f ← fx; f x

/-! ## try_! / try_opt! / rebind: the argument is the scrutinee of one `match` / `if let` -/

def try_ (e : Tr (Except ε α)) : Tr (OptRes.Flow (Except ε β) α) := do
  let r ← e
  pure (OptRes.try_ r)

/-- `try_!($e, map_err = |pat| $v)`: `Err{0: pat, ..} => return Err($v)` — the body is pasted in the `Err` arm -/
def tryMapErr (e : Tr (Except ε α)) (f : ε → Tr φ) : Tr (OptRes.Flow (Except φ β) α) := do
  match (← e) with
  | .ok x => pure (.value x)
  | .error x => do let y ← f x; pure (.ret (.error y))

def tryOpt (e : Tr (Option α)) : Tr (OptRes.Flow (Option β) α) := do
  let o ← e
  pure (OptRes.tryOpt o)

def tryRebind (u : OptRes.UserPat) (n : Nat) (annot : Bool) (e : Tr (Except Int (List Int))) : Tr OptRes.RebindOut := do
  let r ← e
  pure (OptRes.tryRebind u n annot r)

def rebindIfOk (u : OptRes.UserPat) (n : Nat) (annot : Bool) (e : Tr (Except Int (List Int))) : Tr OptRes.RebindOut := do
  let r ← e
  pure (OptRes.rebindIfOk u n annot r)

/-! ## min / max -/

/-- `min!`: `match ($left, $right) { (left, right) => .. const_cmp!(left, right) .. }` -/
def min (cmp : α → α → Ordering) (l r : Tr α) : Tr α := do
  let left ← l
  let right ← r
  pure (OptRes.minBy cmp left right)

def max (cmp : α → α → Ordering) (l r : Tr α) : Tr α := do
  let left ← l
  let right ← r
  pure (OptRes.maxBy cmp left right)

/-- `__min_by!` with a pseudo-closure: `match [$left, $right] { [left, right] => { let (l, r) = (&left, &right);
    if let Greater = body {right} else {left} } }` -/
def minBy (l r : Tr α) (cmp : α → α → Tr Ordering) : Tr α := do
  let left ← l
  let right ← r
  let c ← cmp left right
  pure (if c = .gt then right else left)

def maxBy (l r : Tr α) (cmp : α → α → Tr Ordering) : Tr α := do
  let left ← l
  let right ← r
  let c ← cmp left right
  pure (if c = .gt then left else right)

/-- `min_by!(l, r, f)` with a function argument: `match $f { func => __min_by!{$l, $r, ((__x, __y)) -> _ {func(__x, __y)}} }` -/
def minByFn (l r : Tr α) (fx : Tr (α → α → Tr Ordering)) : Tr α := do
  let func ← fx
  minBy l r func

def maxByFn (l r : Tr α) (fx : Tr (α → α → Tr Ordering)) : Tr α := do
  let func ← fx
  maxBy l r func

/-- `__minmax_by_key!($left, $right, $ord, key)`: both values, then the key of `left`, then of `right` -/
def minmaxByKey (ord : Ordering) (cmpK : κ → κ → Ordering) (l r : Tr α) (key : α → Tr κ) : Tr α := do
  let left ← l
  let right ← r
  let leftKey ← key left
  let rightKey ← key right
  pure (if cmpK leftKey rightKey = ord then right else left)

def minByKey (cmpK : κ → κ → Ordering) (a b : Tr α) (key : α → Tr κ) : Tr α := minmaxByKey .gt cmpK a b key
/-- `max_by_key!(a, b, f)` = `__minmax_by_key!(b, a, Less, f)` -/
def maxByKey (cmpK : κ → κ → Ordering) (a b : Tr α) (key : α → Tr κ) : Tr α := minmaxByKey .lt cmpK b a key

def minByKeyFn (cmpK : κ → κ → Ordering) (a b : Tr α) (fx : Tr (α → Tr κ)) : Tr α := do
  let func ← fx
  minByKey cmpK a b func

def maxByKeyFn (cmpK : κ → κ → Ordering) (a b : Tr α) (fx : Tr (α → Tr κ)) : Tr α := do
  let func ← fx
  maxByKey cmpK a b func

/-! ## identifier patterns of the expansions vs caller items

  `macro_rules!` hygiene protects LOCAL variables only.  An identifier pattern (`Some(x)`, `(left, right)`,
  `let tuple = ..`) whose name is a `const`, `static` or unit struct visible at the call site is not a binding but a
  reference to that item.  Every identifier pattern of the family stands in an EXHAUSTIVE `match` or an irrefutable
  `let` / closure-parameter position, where a constant pattern is a compile error (E0004 / E0005 / E0530 / E0308).
  (Before a6790b3 `opt_filter!` — `Some(x) if .. => .., _ => None` — and `rebind_if_ok!` — `if let Ok(tuple) = ..` —
  had their binder where a pattern may fail, and a caller constant compiled to a different value: defect F19, kept
  in `Legacy/OptResCapture.lean`.)  The function arms of the min/max macros go through `__parse_closure_1/2`, whose
  binders are mangled since c6bef38 (`__konst_pc_func`, `__konst_pc_x`, `__konst_pc_y`; formerly `func`, `__x`, `__y`). -/

/-- the identifier patterns of one macro arm (`form`: cl = pseudo-closure arm, fn = function arm, else the only arm) -/
def binders (mac form : String) : List String :=
  match mac, form with
  | "opt.unwrap_or", _ | "opt.ok_or", _ | "res.unwrap_or", _ => ["x", "value"]
  | "opt.map", "cl" | "opt.and_then", "cl" => []          -- `Some($param) => ..`: only the user's pattern
  | "res.map", "fn" | "res.and_then", "fn" => ["param", "x"]
  | "try.try_", "plain" => ["x", "e"]
  | "try.try_", _ | "try.try_opt", _ => ["x"]
  | "rebind.try_rebind", _ => ["tuple", "_e"]
  | "rebind.rebind_if_ok", _ | "rebind.rebind_if_ok_nc", _ => ["tuple"]
  | "mm.min", _ | "mm.max", _ => ["left", "right"]
  | "mm.min_by", "fn" | "mm.max_by", "fn" => ["left", "right", "__konst_pc_func", "__konst_pc_x", "__konst_pc_y"]
  | "mm.min_by", _ | "mm.max_by", _ => ["left", "right"]
  | "mm.min_by_key", "fn" | "mm.max_by_key", "fn" => ["left", "right", "left_key", "right_key", "__konst_pc_func", "__konst_pc_x"]
  | "mm.min_by_key", _ | "mm.max_by_key", _ => ["left", "right", "left_key", "right_key"]
  | _, _ => ["x"]                                          -- every other option:: / result:: arm: `Some(x)` / `Ok(x)` / `Err(x)`

/-- does the macro's matcher take a trailing comma?  `min!`/`max!` are `($left:expr, $right:expr)` without `$(,)?`;
    every other C19 macro ends in `$(,)?` / `$(,)*` or hands the rest to `__parse_closure_*` (`$v:expr $(, ..)?`) -/
def trailingCommaOk (mac : String) : Bool := mac != "mm.min" && mac != "mm.max"

/-- kinds of caller items -/
inductive Decl where
  | const_ | static_ | unitStruct | fn_ | local_
deriving DecidableEq, Repr

inductive Verdict where
  | transparent     -- the expansion means what it means without the item
  | reject          -- does not compile
deriving DecidableEq, Repr

def verdict (mac form : String) (d : Decl) (name : String) : Verdict :=
  if d = .fn_ ∨ d = .local_ then .transparent                      -- shadowed by / invisible to the hygienic binding
  else if name ∈ binders mac form then .reject
  else .transparent

end Konst.OptRes.Eval
