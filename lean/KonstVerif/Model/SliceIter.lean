import KonstVerif.Model.Slice
/-
  Model of konst's by-value, double-ended slice iterators.

  mirrors:
    konst_kernel/src/macros/into_iter_macros.rs   iterator_shared!  (copy, rev, next, next_back and
                                                  the `__choose!($is_forward ..)` switch)
    konst_kernel/src/into_iter/slice_into_iter.rs iter, Iter/IterRev, iter_copied, IterCopied/IterCopiedRev
    konst/src/slice/slice_iter_methods.rs         some_if_nonempty, windows, array_chunks, chunks, rchunks,
                                                  chunks_exact, rchunks_exact and their `*_shared!` macros
    konst/src/slice/slice_as_chunks.rs            as_chunks (through `Slice.asChunks`)

  A slice held by an iterator is modelled by the list of its elements (a sub-list of the slice the
  iterator was created from; with the base slice `List.range len` the elements ARE the positions).
  The slice functions the Rust code calls (`slice_up_to`, `slice_from`, `split_at`, `as_chunks`) are
  the C02 models of Model/Slice.lean applied to that list.

  `usize` arithmetic that can fail (`a - b`, `a / b`, `a % b`; overflow checks are on in const
  evaluation and in the harness build) is modelled by checked operations; a failed operation is the
  explicit outcome `Step.panic` (or `none` from a constructor, like the constructors' `assert!`).
  Multiplications `x / n * n` cannot overflow (the product is at most `x`).
-/
namespace Konst.SliceIter

open Konst Konst.Slice

variable {α : Type}

/-! ### shared vocabulary -/

/-- result of one `next(self)` / `next_back(self)` call: `Option<(Item, Self)>` or a panic -/
inductive Step (ι σ : Type) where
  | panic
  | none
  | some (x : ι) (s : σ)
deriving Repr

def Step.mapState {ι σ τ : Type} (f : σ → τ) : Step ι σ → Step ι τ
  | .panic => .panic
  | .none => .none
  | .some x s => .some x (f s)

/-- `a - b` on `usize` (`none` = "attempt to subtract with overflow") -/
def checkedSub (a b : Nat) : Option Nat := if b ≤ a then some (a - b) else none
/-- `a / b` on `usize` (`none` = "attempt to divide by zero") -/
def checkedDiv (a b : Nat) : Option Nat := if b = 0 then none else some (a / b)
/-- `a % b` on `usize` (`none` = division by zero) -/
def checkedRem (a b : Nat) : Option Nat := if b = 0 then none else some (a % b)

/-- `slice::slice_up_to(s, n)` on the elements -/
def sliceUpToL (s : List α) (n : Nat) : List α := (sliceUpTo s.length n).apply s
/-- `slice::slice_from(s, n)` on the elements -/
def sliceFromL (s : List α) (n : Nat) : List α := (sliceFrom s.length n).apply s
/-- `slice::split_at(s, at)` on the elements -/
def splitAtL (s : List α) (at_ : Nat) : List α × List α :=
  let (a, b) := splitAt s.length at_
  (a.apply s, b.apply s)

/-- `some_if_nonempty`: `if let [] = slice { None } else { Some(slice) }` -/
def someIfNonempty (s : List α) : Option (List α) :=
  match s with
  | [] => none
  | _ :: _ => some s

/-! ### `iterator_shared!` -/

/-- the `next($self) $next_block` and `next_back $next_back_block` arguments of one
    `iterator_shared!` invocation, as functions of the `fields` -/
structure Blocks (σ ι : Type) where
  nextBlock : σ → Step ι σ
  nextBackBlock : σ → Step ι σ

/-- an iterator value: which of the two struct types it is (`fwd = true`: `$Self` = the forward
    type, e.g. `Chunks`; `fwd = false`: the `*Rev` type) and its fields (both types have the same) -/
structure It (σ : Type) where
  fwd : Bool
  fields : σ
deriving Repr

/-- `pub const fn next(mut self)`: `__choose!{$is_forward $next_block $next_back_block}` -/
def It.next {σ ι : Type} (B : Blocks σ ι) (it : It σ) : Step ι (It σ) :=
  (if it.fwd then B.nextBlock it.fields else B.nextBackBlock it.fields).mapState fun s => ⟨it.fwd, s⟩

/-- `pub const fn next_back(mut self)`: `__choose!{$is_forward $next_back_block $next_block}` -/
def It.nextBack {σ ι : Type} (B : Blocks σ ι) (it : It σ) : Step ι (It σ) :=
  (if it.fwd then B.nextBackBlock it.fields else B.nextBlock it.fields).mapState fun s => ⟨it.fwd, s⟩

/-- `pub const fn rev(self)`: `let Self $fields = self; <the other type> $fields` -/
def It.rev {σ : Type} (it : It σ) : It σ := ⟨!it.fwd, it.fields⟩

/-- `pub const fn copy(&self) -> Self`: `let Self $fields = *self; Self $fields` -/
def It.copy {σ : Type} (it : It σ) : It σ := ⟨it.fwd, it.fields⟩

def It.step {σ ι : Type} (B : Blocks σ ι) : Dir → It σ → Step ι (It σ)
  | .f => It.next B
  | .b => It.nextBack B

/-- a history of `next`/`next_back` calls: the results and the final iterator; `none` = some call
    panicked.  After a `None` the caller still has the iterator it called `next` on (it has to
    `copy()` it first, `next` takes `self` by value), so the state is unchanged. -/
def It.run {σ ι : Type} (B : Blocks σ ι) : It σ → List Dir → Option (List (Option ι) × It σ)
  | it, [] => some ([], it)
  | it, d :: h =>
    match It.step B d it with
    | .panic => none
    | .none => (It.run B it h).map fun r => (none :: r.1, r.2)
    | .some x it' => (It.run B it' h).map fun r => (some x :: r.1, r.2)

/-- histories with `.rev()` calls between the steps: `some d` = a step at end `d`, `none` = `.rev()` -/
def It.runX {σ ι : Type} (B : Blocks σ ι) : It σ → List (Option Dir) → Option (List (Option ι) × It σ)
  | it, [] => some ([], it)
  | it, none :: h => It.runX B it.rev h
  | it, some d :: h =>
    match It.step B d it with
    | .panic => none
    | .none => (It.runX B it h).map fun r => (none :: r.1, r.2)
    | .some x it' => (It.runX B it' h).map fun r => (some x :: r.1, r.2)

/-! ### `Iter` / `IterRev`  (`fields = {slice}`) -/

structure Iter (α : Type) where
  slice : List α
deriving Repr

/-- `if let [elem, rem @ ..] = self.slice { self.slice = rem; Some((elem, self)) } else { None }` -/
def Iter.nextBlock (s : Iter α) : Step α (Iter α) :=
  match s.slice with
  | elem :: rem => .some elem { s with slice := rem }
  | [] => .none

/-- `if let [rem @ .., elem] = self.slice { self.slice = rem; Some((elem, self)) } else { None }` -/
def Iter.nextBackBlock (s : Iter α) : Step α (Iter α) :=
  if h : s.slice = [] then .none
  else .some (s.slice.getLast h) { s with slice := s.slice.dropLast }

def Iter.blocks : Blocks (Iter α) α := ⟨Iter.nextBlock, Iter.nextBackBlock⟩

/-- `pub const fn iter<T>(slice: &[T]) -> Iter<'_, T> { Iter { slice } }`; likewise
    `IntoIterWrapper<&[T] | &&[T] | &[T; N] | &&[T; N], IsStdKind>::const_into_iter` (what `into_iter!`
    calls): `Iter { slice: <the slice / the array as a slice> }` -/
def iter (l : List α) : It (Iter α) := ⟨true, ⟨l⟩⟩

/-- `pub const fn as_slice(&self) -> &'a [T] { self.slice }` (both `Iter` and `IterRev`) -/
def Iter.asSlice (it : It (Iter α)) : List α := it.fields.slice

/-! ### `IterCopied` / `IterCopiedRev`  (`fields = {slice}`) -/

structure IterCopied (α : Type) where
  slice : List α
deriving Repr

/-- `if let [elem, rem @ ..] = self.slice { self.slice = rem; Some((*elem, self)) } else { None }` -/
def IterCopied.nextBlock (s : IterCopied α) : Step α (IterCopied α) :=
  match s.slice with
  | elem :: rem => .some elem { s with slice := rem }
  | [] => .none

/-- `if let [rem @ .., elem] = self.slice { self.slice = rem; Some((*elem, self)) } else { None }` -/
def IterCopied.nextBackBlock (s : IterCopied α) : Step α (IterCopied α) :=
  if h : s.slice = [] then .none
  else .some (s.slice.getLast h) { s with slice := s.slice.dropLast }

def IterCopied.blocks : Blocks (IterCopied α) α := ⟨IterCopied.nextBlock, IterCopied.nextBackBlock⟩

/-- `iter_copied(slice) = IterCopied { slice }` -/
def iterCopied (l : List α) : It (IterCopied α) := ⟨true, ⟨l⟩⟩

def IterCopied.asSlice (it : It (IterCopied α)) : List α := it.fields.slice

/-! ### `Windows` / `WindowsRev`  (`fields = {slice, size}`) -/

structure Windows (α : Type) where
  slice : List α
  size : Nat
deriving Repr

/-- ```
    if self.slice.len() < self.size { None } else {
        let up_to = slice::slice_up_to(self.slice, self.size);
        self.slice = slice::slice_from(self.slice, 1);
        Some((up_to, self)) }
    ``` -/
def Windows.nextBlock (w : Windows α) : Step (List α) (Windows α) :=
  if w.slice.length < w.size then .none
  else
    let upTo := sliceUpToL w.slice w.size
    .some upTo { w with slice := sliceFromL w.slice 1 }

/-- ```
    let len = self.slice.len();
    if len < self.size { None } else {
        let up_to = slice::slice_from(self.slice, len - self.size);
        self.slice = slice::slice_up_to(self.slice, len - 1);
        Some((up_to, self)) }
    ``` -/
def Windows.nextBackBlock (w : Windows α) : Step (List α) (Windows α) :=
  let len := w.slice.length
  if len < w.size then .none
  else
    match checkedSub len w.size, checkedSub len 1 with
    | some a, some b =>
      let upTo := sliceFromL w.slice a
      .some upTo { w with slice := sliceUpToL w.slice b }
    | _, _ => .panic

def Windows.blocks : Blocks (Windows α) (List α) := ⟨Windows.nextBlock, Windows.nextBackBlock⟩

/-- `windows(slice, size)`: `assert!(size != 0)` (`none` = the panic), then `Windows { slice, size }` -/
def windows (l : List α) (size : Nat) : Option (It (Windows α)) :=
  if size = 0 then none else some ⟨true, ⟨l, size⟩⟩

/-! ### `Chunks` / `ChunksRev`  (`fields = {slice, chunk_size}`, `slice: Option<&[T]>`) -/

structure Chunks (α : Type) where
  slice : Option (List α)
  chunkSize : Nat
deriving Repr

/-- ```
    option::map!(self.slice, |slice| {
        let (ret, next) = slice::split_at(slice, self.chunk_size);
        self.slice = some_if_nonempty(next);
        (ret, self) })
    ``` -/
def Chunks.nextBlock (c : Chunks α) : Step (List α) (Chunks α) :=
  match c.slice with
  | none => .none
  | some slice =>
    let (ret, next) := splitAtL slice c.chunkSize
    .some ret { c with slice := someIfNonempty next }

/-- ```
    option::map!(self.slice, |slice| {
        let at = (slice.len() - 1) / self.chunk_size * self.chunk_size;
        let (next, ret) = slice::split_at(slice, at);
        self.slice = some_if_nonempty(next);
        (ret, self) })
    ``` -/
def Chunks.nextBackBlock (c : Chunks α) : Step (List α) (Chunks α) :=
  match c.slice with
  | none => .none
  | some slice =>
    match (checkedSub slice.length 1).bind (checkedDiv · c.chunkSize) with
    | none => .panic
    | some q =>
      let at_ := q * c.chunkSize
      let (next, ret) := splitAtL slice at_
      .some ret { c with slice := someIfNonempty next }

def Chunks.blocks : Blocks (Chunks α) (List α) := ⟨Chunks.nextBlock, Chunks.nextBackBlock⟩

/-- `chunks(slice, chunk_size)`: `assert!(chunk_size != 0)`, then
    `Chunks { slice: some_if_nonempty(slice), chunk_size }` -/
def chunks (l : List α) (n : Nat) : Option (It (Chunks α)) :=
  if n = 0 then none else some ⟨true, ⟨someIfNonempty l, n⟩⟩

/-! ### `RChunks` / `RChunksRev`  (`fields = {slice, chunk_size}`) -/

structure RChunks (α : Type) where
  slice : Option (List α)
  chunkSize : Nat
deriving Repr

/-- ```
    option::map!(self.slice, |slice| {
        let at = slice.len().saturating_sub(self.chunk_size);
        let (next, ret) = slice::split_at(slice, at);
        self.slice = some_if_nonempty(next);
        (ret, self) })
    ``` -/
def RChunks.nextBlock (c : RChunks α) : Step (List α) (RChunks α) :=
  match c.slice with
  | none => .none
  | some slice =>
    let at_ := slice.length - c.chunkSize   -- saturating_sub = truncated subtraction on Nat
    let (next, ret) := splitAtL slice at_
    .some ret { c with slice := someIfNonempty next }

/-- ```
    option::map!(self.slice, |slice| {
        let rem = slice.len() % self.chunk_size;
        let at = if rem == 0 { self.chunk_size } else { rem };
        let (ret, next) = slice::split_at(slice, at);
        self.slice = some_if_nonempty(next);
        (ret, self) })
    ``` -/
def RChunks.nextBackBlock (c : RChunks α) : Step (List α) (RChunks α) :=
  match c.slice with
  | none => .none
  | some slice =>
    match checkedRem slice.length c.chunkSize with
    | none => .panic
    | some rem =>
      let at_ := if rem = 0 then c.chunkSize else rem
      let (ret, next) := splitAtL slice at_
      .some ret { c with slice := someIfNonempty next }

def RChunks.blocks : Blocks (RChunks α) (List α) := ⟨RChunks.nextBlock, RChunks.nextBackBlock⟩

/-- `rchunks(slice, chunk_size)` -/
def rchunks (l : List α) (n : Nat) : Option (It (RChunks α)) :=
  if n = 0 then none else some ⟨true, ⟨someIfNonempty l, n⟩⟩

/-! ### `ChunksExact` / `ChunksExactRev`  (`fields = {slice, rem, chunk_size}`) -/

structure ChunksExact (α : Type) where
  slice : List α
  rem : List α
  chunkSize : Nat
deriving Repr

/-- ```
    if self.slice.is_empty() { None } else {
        let (ret, next) = slice::split_at(self.slice, self.chunk_size);
        self.slice = next;
        Some((ret, self)) }
    ``` -/
def ChunksExact.nextBlock (c : ChunksExact α) : Step (List α) (ChunksExact α) :=
  if c.slice.isEmpty then .none
  else
    let (ret, next) := splitAtL c.slice c.chunkSize
    .some ret { c with slice := next }

/-- ```
    if self.slice.is_empty() { None } else {
        let at = self.slice.len() - self.chunk_size;
        let (next, ret) = slice::split_at(self.slice, at);
        self.slice = next;
        Some((ret, self)) }
    ``` -/
def ChunksExact.nextBackBlock (c : ChunksExact α) : Step (List α) (ChunksExact α) :=
  if c.slice.isEmpty then .none
  else
    match checkedSub c.slice.length c.chunkSize with
    | none => .panic
    | some at_ =>
      let (next, ret) := splitAtL c.slice at_
      .some ret { c with slice := next }

def ChunksExact.blocks : Blocks (ChunksExact α) (List α) :=
  ⟨ChunksExact.nextBlock, ChunksExact.nextBackBlock⟩

/-- ```
    assert!(chunk_size != 0, ..);
    let at = slice.len() - slice.len() % chunk_size;
    let (slice, rem) = slice::split_at(slice, at);
    ChunksExact { slice, rem, chunk_size }
    ``` -/
def chunksExact (l : List α) (n : Nat) : Option (It (ChunksExact α)) :=
  if n = 0 then none
  else
    match (checkedRem l.length n).bind (checkedSub l.length ·) with
    | none => none
    | some at_ =>
      let (slice, rem) := splitAtL l at_
      some ⟨true, ⟨slice, rem, n⟩⟩

/-- `pub const fn remainder(&self) -> &'a [T] { self.rem }` (`ChunksExact` and `ChunksExactRev`) -/
def ChunksExact.remainder (it : It (ChunksExact α)) : List α := it.fields.rem

/-! ### `RChunksExact` / `RChunksExactRev`  (`fields = {slice, rem, chunk_size}`) -/

structure RChunksExact (α : Type) where
  slice : List α
  rem : List α
  chunkSize : Nat
deriving Repr

/-- ```
    if self.slice.is_empty() { None } else {
        let at = self.slice.len() - self.chunk_size;
        let (next, ret) = slice::split_at(self.slice, at);
        self.slice = next;
        Some((ret, self)) }
    ``` -/
def RChunksExact.nextBlock (c : RChunksExact α) : Step (List α) (RChunksExact α) :=
  if c.slice.isEmpty then .none
  else
    match checkedSub c.slice.length c.chunkSize with
    | none => .panic
    | some at_ =>
      let (next, ret) := splitAtL c.slice at_
      .some ret { c with slice := next }

/-- ```
    if self.slice.is_empty() { None } else {
        let (ret, next) = slice::split_at(self.slice, self.chunk_size);
        self.slice = next;
        Some((ret, self)) }
    ``` -/
def RChunksExact.nextBackBlock (c : RChunksExact α) : Step (List α) (RChunksExact α) :=
  if c.slice.isEmpty then .none
  else
    let (ret, next) := splitAtL c.slice c.chunkSize
    .some ret { c with slice := next }

def RChunksExact.blocks : Blocks (RChunksExact α) (List α) :=
  ⟨RChunksExact.nextBlock, RChunksExact.nextBackBlock⟩

/-- ```
    assert!(chunk_size != 0, ..);
    let (rem, slice) = slice::split_at(slice, slice.len() % chunk_size);
    RChunksExact { slice, rem, chunk_size }
    ``` -/
def rchunksExact (l : List α) (n : Nat) : Option (It (RChunksExact α)) :=
  if n = 0 then none
  else
    match checkedRem l.length n with
    | none => none
    | some r =>
      let (rem, slice) := splitAtL l r
      some ⟨true, ⟨slice, rem, n⟩⟩

def RChunksExact.remainder (it : It (RChunksExact α)) : List α := it.fields.rem

/-! ### `ArrayChunks` / `ArrayChunksRev`  (`fields = {arrays, rem}`, `arrays: &[[T; N]]`) -/

/-- `from_raw_parts(arrs_in.as_ptr() as *const [T; N], arrs_len)`: a run of elements re-typed as
    `count` arrays of `n` elements; array `i` occupies elements `i*n .. (i+1)*n` (layout of `[T; N]`) -/
def retype (n count : Nat) (flat : List α) : List (List α) :=
  (List.range count).map fun i => (flat.drop (i * n)).take n

structure ArrayChunks (α : Type) where
  arrays : List (List α)
  rem : List α
deriving Repr

/-- ```
    match self.arrays {
        [elem, arrays @ ..] => Some((elem, Self {arrays, rem: self.rem})),
        [] => None, }
    ``` -/
def ArrayChunks.nextBlock (s : ArrayChunks α) : Step (List α) (ArrayChunks α) :=
  match s.arrays with
  | elem :: arrays => .some elem ⟨arrays, s.rem⟩
  | [] => .none

/-- ```
    match self.arrays {
        [arrays @ .., elem] => Some((elem, Self {arrays, rem: self.rem})),
        [] => None, }
    ``` -/
def ArrayChunks.nextBackBlock (s : ArrayChunks α) : Step (List α) (ArrayChunks α) :=
  if h : s.arrays = [] then .none
  else .some (s.arrays.getLast h) ⟨s.arrays.dropLast, s.rem⟩

def ArrayChunks.blocks : Blocks (ArrayChunks α) (List α) :=
  ⟨ArrayChunks.nextBlock, ArrayChunks.nextBackBlock⟩

/-- `array_chunks::<T, N>(slice)`: `let (arrays, rem) = slice::as_chunks(slice); ArrayChunks { arrays, rem }`
    (`none` = the `assert!(N != 0)` of `as_chunks`) -/
def arrayChunks (l : List α) (n : Nat) : Option (It (ArrayChunks α)) :=
  match asChunks l.length n with
  | none => none
  | some (arrsIn, arrsLen, rem) =>
    some ⟨true, ⟨retype n arrsLen (arrsIn.apply l), rem.apply l⟩⟩

/-- `pub const fn remainder(&self) -> &'a [T] { self.rem }` (only on `ArrayChunks`, not on the Rev type) -/
def ArrayChunks.remainder (it : It (ArrayChunks α)) : List α := it.fields.rem

end Konst.SliceIter
