import KonstVerif.Model.Basic
import KonstVerif.Model.Slice
import KonstVerif.Model.Utf8
import KonstVerif.Model.StrFns
/-
  Model of konst's string split iterators (namespace `Konst.Split`).

  mirrors:
    konst/src/string/splitting.rs               split, rsplit, State, EmptyState, split_shared!
                                                (next_from_empty, next_back_from_empty, the `next`
                                                and `next_back` blocks), Split/RSplit::remainder
    konst/src/string/split_terminator_items.rs  split_terminator, rsplit_terminator, State,
                                                SplitTerminator::next, RSplitTerminator::next,
                                                remainder
    konst_kernel/src/macros/into_iter_macros.rs iterator_shared! (`copy`, `rev`, and the
                                                `__choose!{$is_forward A B}` that decides which
                                                block becomes `next` and which `next_back`)

  A `&'a str` that the iterator holds or yields is a `Str`: the bytes it denotes together with
  its byte offset inside the ORIGINAL haystack (so that pieces and `remainder()` are checkable by
  position).  Cutting a `Str` with `str_from`/`str_up_to`/`split_at` (the C03 model, `Konst.Utf8`,
  which returns a `View` relative to its argument and an explicit `Panic`) gives
  `Str.cut`: offset advanced by the view's offset, bytes = the view applied.  The string literal
  `""` that the code stores / yields in three places is `Str.lit` (offset 0, no bytes: the address
  of an empty `&str` is not observable).
  `string::find` / `string::rfind` are the C04 model (`Konst.StrFns.find/rfind`); the delimiter
  is the bytes of `PatternNorm::new(delim).as_str()` (`&str` -> itself, `char` -> its UTF-8
  encoding, modelled by C07).
-/
namespace Konst.Split

open Konst Konst.Utf8

/-- a `&'a str` pointing into the original haystack: byte offset there, and its bytes -/
structure Str where
  off : Nat
  bytes : List Nat
deriving Repr, DecidableEq, Inhabited

/-- the string literal `""` (not a sub-string of the haystack) -/
def Str.lit : Str := ⟨0, []⟩

/-- the sub-string of `x` denoted by a view relative to `x` (what `str_from(x, ..)`,
    `str_up_to(x, ..)` hand back) -/
def Str.cut (x : Str) (v : View) : Str := ⟨x.off + v.off, v.apply x.bytes⟩

/-- position and length inside the original haystack -/
def Str.view (x : Str) : View := ⟨x.off, x.bytes.length⟩

/-- what can be observed of a `&str` through its pointer and length: the offset of an empty string
    is not observable -/
def Str.norm (x : Str) : Str := if x.bytes.isEmpty then Str.lit else x

/-- `enum EmptyState { Start, Continue }` -/
inductive EmptyState where
  | start | cont
deriving Repr, DecidableEq, Inhabited

/-- `enum State { Normal{delim}, Empty(EmptyState), Finished }` of splitting.rs -/
inductive State where
  | normal (delim : List Nat)
  | empty (es : EmptyState)
  | finished
deriving Repr, DecidableEq, Inhabited

/-- `Split<'a,'p,P>` / `RSplit<'a,'p,P>`: the two struct types have the same fields `{this, state}`;
    which of them a value is (the `is_forward` token given to `split_shared!`) is the flag `fwd`:
    `true` = `Split`, `false` = `RSplit`. -/
structure Iter where
  fwd : Bool
  this : Str
  state : State
deriving Repr, DecidableEq, Inhabited

abbrev E := Except Utf8.Panic

/-- `position -= 1` at `position == 0` inside `__find_prev_char_boundary` (arithmetic underflow) -/
def underflow : Utf8.Panic := ⟨"underflow", 0⟩

/-- `string::split_at(x, at)` on a `Str` -/
def splitAtStr (x : Str) (at_ : Nat) : E (Str × Str) := do
  let (a, b) ← Utf8.splitAt x.bytes at_
  pure (x.cut a, x.cut b)

/-- `split`: `State::Empty(Start)` for an empty delimiter, else `State::Normal{delim}` -/
def split (this delim : List Nat) : Iter :=
  { fwd := true, this := ⟨0, this⟩,
    state := if delim.isEmpty then .empty .start else .normal delim }

/-- `rev`: re-types the same fields as the other struct -/
def Iter.rev (self : Iter) : Iter := { self with fwd := !self.fwd }

/-- `rsplit = split(this, delim).rev()` -/
def rsplit (this delim : List Nat) : Iter := (split this delim).rev

/-- `copy` -/
def Iter.copy (self : Iter) : Iter := self

/-- `remainder`: `self.this` -/
def Iter.remainder (self : Iter) : Str := self.this

/-- `next_from_empty` -/
def nextFromEmpty (self : Iter) : EmptyState → E (Option (Str × Iter))
  | .start => .ok (some (Str.lit, { self with state := .empty .cont }))
  | .cont => do
    let this := self.this
    let self := if this.bytes.isEmpty then { self with state := State.finished } else self
    let nextChar := findNextCharBoundary this.bytes 0
    let (nextChar, rem) ← splitAtStr this nextChar
    pure (some (nextChar, { self with this := rem }))

/-- `next_back_from_empty` -/
def nextBackFromEmpty (self : Iter) : EmptyState → E (Option (Str × Iter))
  | .start => .ok (some (Str.lit, { self with state := .empty .cont }))
  | .cont => do
    let this := self.this
    let self := if this.bytes.isEmpty then { self with state := State.finished } else self
    match findPrevCharBoundary this.bytes this.bytes.length with
    | none => .error underflow
    | some nextChar =>
      let (rem, nextChar) ← splitAtStr this nextChar
      pure (some (nextChar, { self with this := rem }))

/-- the `next(self){…}` block given to `iterator_shared!` by `split_shared!` -/
def nextBlock (self : Iter) : E (Option (Str × Iter)) :=
  let this := self.this
  match self.state with
  | .normal delim =>
    match StrFns.find this.bytes delim with
    | some pos => do
      let newThis ← strFrom this.bytes (pos + delim.length)
      let piece ← strUpTo this.bytes pos
      pure (some (this.cut piece, { self with this := this.cut newThis }))
    | none => .ok (some (this, { self with this := Str.lit, state := .finished }))
  | .empty es => nextFromEmpty self es
  | .finished => .ok none

/-- the `next_back{…}` block -/
def nextBackBlock (self : Iter) : E (Option (Str × Iter)) :=
  let this := self.this
  match self.state with
  | .normal delim =>
    match StrFns.rfind this.bytes delim with
    | some pos => do
      let newThis ← strUpTo this.bytes pos
      let piece ← strFrom this.bytes (pos + delim.length)
      pure (some (this.cut piece, { self with this := this.cut newThis }))
    | none => .ok (some (this, { self with this := Str.lit, state := .finished }))
  | .empty es => nextBackFromEmpty self es
  | .finished => .ok none

/-- `iterator_shared!`: `next` is `__choose!{$is_forward $next_block $next_back_block}` -/
def Iter.next (self : Iter) : E (Option (Str × Iter)) :=
  if self.fwd then nextBlock self else nextBackBlock self

/-- `next_back` is `__choose!{$is_forward $next_back_block $next_block}` -/
def Iter.nextBack (self : Iter) : E (Option (Str × Iter)) :=
  if self.fwd then nextBackBlock self else nextBlock self

/-! ### split_terminator_items.rs -/

/-- `enum State { Normal{delim}, Empty(EmptyState) }` of split_terminator_items.rs (no `Finished`) -/
inductive TState where
  | normal (delim : List Nat)
  | empty (es : EmptyState)
deriving Repr, DecidableEq, Inhabited

/-- `SplitTerminator` / `RSplitTerminator` (`{this, state}`; they are not reversible) -/
structure TIter where
  this : Str
  state : TState
deriving Repr, DecidableEq, Inhabited

/-- `split_terminator` -/
def splitTerminator (this delim : List Nat) : TIter :=
  { this := ⟨0, this⟩, state := if delim.isEmpty then .empty .start else .normal delim }

/-- `rsplit_terminator`: the fields of `split_terminator(this, delim)` re-typed -/
def rsplitTerminator (this delim : List Nat) : TIter := splitTerminator this delim

def TIter.remainder (self : TIter) : Str := self.this

/-- `SplitTerminator::next` -/
def TIter.next (self : TIter) : E (Option (Str × TIter)) :=
  let this := self.this
  match self.state with
  | .empty .start => .ok (some (Str.lit, { self with state := .empty .cont }))
  | st =>
    if this.bytes.isEmpty then .ok none
    else match st with
    | .normal delim =>
      let (next, ret) := match StrFns.find this.bytes delim with
        | some pos => (pos + delim.length, pos)
        | none => (this.bytes.length, this.bytes.length)
      do
        let newThis ← strFrom this.bytes next
        let piece ← strUpTo this.bytes ret
        pure (some (this.cut piece, { self with this := this.cut newThis }))
    | .empty _ => do
      let nextChar := findNextCharBoundary this.bytes 0
      let (nextChar, rem) ← splitAtStr this nextChar
      pure (some (nextChar, { self with this := rem }))

/-- `RSplitTerminator::next` -/
def TIter.rnext (self : TIter) : E (Option (Str × TIter)) :=
  let this := self.this
  match self.state with
  | .empty .start => .ok (some (Str.lit, { self with state := .empty .cont }))
  | st =>
    if this.bytes.isEmpty then .ok none
    else match st with
    | .normal delim =>
      let (next, ret) := match StrFns.rfind this.bytes delim with
        | some pos => (pos, pos + delim.length)
        | none => (0, 0)
      do
        let newThis ← strUpTo this.bytes next
        let piece ← strFrom this.bytes ret
        pure (some (this.cut piece, { self with this := this.cut newThis }))
    | .empty _ =>
      match findPrevCharBoundary this.bytes this.bytes.length with
      | none => .error underflow
      | some nextChar => do
        let (rem, nextChar) ← splitAtStr this nextChar
        pure (some (nextChar, { self with this := rem }))

/-! ### driving an iterator (what the harness does through the public API) -/

/-- result of iterating to exhaustion -/
inductive Run where
  /-- per `Some` step: (piece, `remainder()` of the returned iterator), then `None` was returned -/
  | done (l : List (Str × Str))
  | panic
  /-- `None` not reached within the given number of calls -/
  | fuel
deriving Repr, DecidableEq, Inhabited

/-- call `next` up to `n` times, until it returns `None`; record each piece and the remainder
    after it as observed (`Str.norm`) -/
def collect {σ : Type} (next : σ → E (Option (Str × σ))) (rem : σ → Str) : Nat → σ → Run
  | 0, _ => .fuel
  | n + 1, st =>
    match next st with
    | .error _ => .panic
    | .ok none => .done []
    | .ok (some (p, st')) =>
      match collect next rem n st' with
      | .done l => .done ((p.norm, (rem st').norm) :: l)
      | r => r

/-- the byte strings yielded (`none` unless `None` was reached without a panic) -/
def Run.pieces : Run → Option (List (List Nat))
  | .done l => some (l.map fun x => x.1.bytes)
  | _ => none

/-- one observation of a front/back history -/
inductive Obs where
  | item (piece rem : Str)
  | none (rem : Str)
  | panic
deriving Repr, DecidableEq, Inhabited

/-- run a front/back history (`f` = `next`, `b` = `next_back`), each step on a `copy()`; `None`
    leaves the iterator as it is; a panic ends the run -/
def runHist : Iter → List Dir → List Obs
  | _, [] => []
  | it, d :: h =>
    match (match d with | .f => it.copy.next | .b => it.copy.nextBack) with
    | .error _ => [.panic]
    | .ok none => .none it.remainder.norm :: runHist it h
    | .ok (some (p, it')) => .item p.norm it'.remainder.norm :: runHist it' h

end Konst.Split
