import KonstVerif.Model.Basic
import KonstVerif.Model.Slice
/-
  Model of konst's byte-slice pattern functions (the code at /repo's HEAD, i.e. AFTER the
  repairs 116b24e "window-by-window search" and cebbc85 "form feed is whitespace"; the
  pre-repair matcher lives in `KonstVerif/Legacy/Find.lean`).

  A byte slice is a `List Nat`.  The loops are modelled on lists ("`L`" functions, returning the
  remaining list exactly as the Rust loop variable `this`/`left` ends up); the public functions
  return `View`s relative to the haystack argument:
    * a loop that only ever executes `this = rem` for `[b, rem @ ..]` hands back a *suffix* of its
      argument, whose pointer offset is the number of dropped bytes      -> `suffixView`
    * a loop that only ever executes `this = rem` for `[rem @ .., b]` hands back a *prefix*
      (same pointer, shorter length)                                      -> `prefixView`
  (Lemmas/Bytes.lean proves that the `L` results are suffixes/prefixes, so `View.apply` of the
   returned view is the `L` result.)

  mirrors:
    konst/src/macros/bytes_fn_macros.rs      impl_bytes_function!{strip_prefix|strip_suffix}
    konst/src/slice/slice_const_methods.rs   __bytes_strip_prefix, __bytes_strip_suffix,
        __bytes_start_with, __bytes_end_with, __bytes_find, __bytes_contain, __bytes_rfind,
        __bytes_rcontain, matches_space!, bytes_trim, bytes_trim_start, bytes_trim_end,
        __bytes_trim_matches, __bytes_trim_start_matches, __bytes_trim_end_matches,
        __bytes_find_skip, __bytes_find_keep, __bytes_rfind_skip, __bytes_rfind_keep
    konst/src/slice/bytes_pattern.rs         PatternNorm::new / as_bytes  (identity on the
        pattern's bytes: `str` -> `as_bytes`, `[u8]`, `[u8;N]` -> the slice, `char` -> the bytes
        of `chr::encode_utf8`, which another property models; the request carries the bytes)
-/
namespace Konst.Bytes

open Konst

/-- view of a suffix `r` of `h` (what a front-consuming loop returns) -/
def suffixView (h r : List Nat) : View := ⟨h.length - r.length, r.length⟩
/-- view of a prefix `r` of `h` (what a back-consuming loop returns) -/
def prefixView (r : List Nat) : View := ⟨0, r.length⟩

/-- `slice_from(left, i)` on a byte list, literally through the C02 model -/
def sliceFromL (l : List Nat) (i : Nat) : List Nat := (Slice.sliceFrom l.length i).apply l
/-- `slice_up_to(left, n)` on a byte list, literally through the C02 model -/
def sliceUpToL (l : List Nat) (n : Nat) : List Nat := (Slice.sliceUpTo l.length n).apply l

/-! ### `impl_bytes_function!` -/

/-- the `loop { match ($left, $right) { … } }` of the `strip_prefix` arm:
    `([lb, rem_slice @ ..], [rb, rem_matched @ ..]) => { …; if *lb != *rb { $on_error } }`,
    `(rem, _) => { $left = rem; break }`.  `none` = `$on_error` (= `return None`). -/
def stripPrefixLoop : List Nat → List Nat → Option (List Nat)
  | lb :: remSlice, rb :: remMatched =>
      if lb != rb then none else stripPrefixLoop remSlice remMatched
  | rem, _ => some rem

/-- `__bytes_strip_prefix`: `if left.len() < prefix.len() { return None }`, the loop, `Some(left)` -/
def stripPrefixL (left pre : List Nat) : Option (List Nat) :=
  if left.length < pre.length then none else stripPrefixLoop left pre

/-- the loop of the `strip_suffix` arm: `([rem_slice @ .., lb], [rem_matched @ .., rb])`.
    The slice patterns peel the LAST elements (`getLast?`/`dropLast`); fuel = number of
    iterations allowed (`stripSuffixL` passes `left.len() + 1`, which always suffices). -/
def stripSuffixLoop : Nat → List Nat → List Nat → Option (List Nat)
  | 0, left, _ => some left
  | fuel + 1, left, right =>
    match left.getLast?, right.getLast? with
    | some lb, some rb =>
        if lb != rb then none else stripSuffixLoop fuel left.dropLast right.dropLast
    | _, _ => some left

/-- `__bytes_strip_suffix` -/
def stripSuffixL (left suf : List Nat) : Option (List Nat) :=
  if left.length < suf.length then none else stripSuffixLoop (left.length + 1) left suf

/-- `__bytes_strip_prefix` as a view into `left` -/
def stripPrefix (left pre : List Nat) : Option View := (stripPrefixL left pre).map (suffixView left)
/-- `__bytes_strip_suffix` as a view into `left` -/
def stripSuffix (left suf : List Nat) : Option View := (stripSuffixL left suf).map prefixView

/-- `__bytes_start_with`: `matches!(__bytes_strip_prefix(left, pattern), Some(_))` -/
def startsWith (left pat : List Nat) : Bool := (stripPrefixL left pat).isSome
/-- `__bytes_end_with`: `matches!(__bytes_strip_suffix(left, pattern), Some(_))` -/
def endsWith (left pat : List Nat) : Bool := (stripSuffixL left pat).isSome

/-! ### search -/

/-- the `while i + pattern.len() <= left.len()` loop of `__bytes_find`
    (`fuel` bounds the number of iterations; `bytesFind` passes `left.len() + 1`) -/
def findLoop (left pat : List Nat) : Nat → Nat → Option Nat
  | 0, _ => none
  | fuel + 1, i =>
    if i + pat.length ≤ left.length then
      if startsWith (sliceFromL left i) pat then some i
      else findLoop left pat fuel (i + 1)
    else none

/-- `__bytes_find` -/
def bytesFind (left pat : List Nat) : Option Nat := findLoop left pat (left.length + 1) 0

/-- `__bytes_contain`: `matches!(__bytes_find(left, pattern), Some(_))` -/
def bytesContain (left pat : List Nat) : Bool := (bytesFind left pat).isSome

/-- the `while i != 0 { i -= 1; … }` loop of `__bytes_rfind` (argument = `i` at the loop head) -/
def rfindLoop (left pat : List Nat) : Nat → Option Nat
  | 0 => none
  | i + 1 => if startsWith (sliceFromL left i) pat then some i else rfindLoop left pat i

/-- `__bytes_rfind`; NB the empty-pattern result `left.len().saturating_sub(1)` is what the code
    returns (pinned by a konst test; std returns `len`) — outside C04's statement. -/
def bytesRfind (left pat : List Nat) : Option Nat :=
  if pat.isEmpty then some (left.length - 1)
  else if pat.length > left.length then none
  else rfindLoop left pat (left.length - pat.length + 1)

/-- `__bytes_rcontain`: `matches!(bytes_rfind(left, pattern), Some(_))` -/
def bytesRcontain (left pat : List Nat) : Bool := (bytesRfind left pat).isSome

/-- `__bytes_find_skip`: `Some(this)` for an empty needle, else
    `slice_from(this, pos + needle.len())` at the found position -/
def findSkip (this needle : List Nat) : Option View :=
  if needle.isEmpty then some ⟨0, this.length⟩
  else match bytesFind this needle with
    | some pos => some (Slice.sliceFrom this.length (pos + needle.length))
    | none => none

/-- `__bytes_find_keep`: `slice_from(this, pos)` -/
def findKeep (this needle : List Nat) : Option View :=
  if needle.isEmpty then some ⟨0, this.length⟩
  else match bytesFind this needle with
    | some pos => some (Slice.sliceFrom this.length pos)
    | none => none

/-- `__bytes_rfind_skip`: `slice_up_to(this, pos)` -/
def rfindSkip (this needle : List Nat) : Option View :=
  if needle.isEmpty then some ⟨0, this.length⟩
  else match bytesRfind this needle with
    | some pos => some (Slice.sliceUpTo this.length pos)
    | none => none

/-- `__bytes_rfind_keep`: `slice_up_to(this, pos + needle.len())` -/
def rfindKeep (this needle : List Nat) : Option View :=
  if needle.isEmpty then some ⟨0, this.length⟩
  else match bytesRfind this needle with
    | some pos => some (Slice.sliceUpTo this.length (pos + needle.length))
    | none => none

/-! ### whitespace trimming -/

/-- `matches_space!`: `matches!(b, b'\t' | b'\n' | b'\x0C' | b'\r' | b' ')` -/
def matchesSpace (b : Nat) : Bool := b == 9 || b == 10 || b == 12 || b == 13 || b == 32

/-- `bytes_trim_start`: `loop { match this { [b, rem @ ..] if matches_space!(b) => this = rem, _ => return this } }` -/
def bytesTrimStartL : List Nat → List Nat
  | b :: rem => if matchesSpace b then bytesTrimStartL rem else b :: rem
  | [] => []

/-- `bytes_trim_end`: `[rem @ .., b] if matches_space!(b) => this = rem`
    (fuel = iterations; `bytesTrimEndL` passes `this.len() + 1`) -/
def bytesTrimEndLoop : Nat → List Nat → List Nat
  | 0, this => this
  | fuel + 1, this =>
    match this.getLast? with
    | some b => if matchesSpace b then bytesTrimEndLoop fuel this.dropLast else this
    | none => this

def bytesTrimEndL (this : List Nat) : List Nat := bytesTrimEndLoop (this.length + 1) this

/-- `bytes_trim_start` as a view -/
def bytesTrimStart (this : List Nat) : View := suffixView this (bytesTrimStartL this)
/-- `bytes_trim_end` as a view -/
def bytesTrimEnd (this : List Nat) : View := prefixView (bytesTrimEndL this)
/-- `bytes_trim`: `bytes_trim_start(bytes_trim_end(this))` -/
def bytesTrim (this : List Nat) : View :=
  let e := bytesTrimEndL this
  (prefixView e).comp (suffixView e (bytesTrimStartL e))

/-! ### pattern trimming -/

/-- the `'inner` loop of `__bytes_trim_start_matches`:
    `none` = `return at_start`, `some this` = `break 'inner` (needle fully matched) -/
def trimStartInner : List Nat → List Nat → Option (List Nat)
  | [], _ :: _ => none                                   -- `([], [_, ..]) => return at_start`
  | b :: rem, bm :: remm =>                              -- `([b, rem @ ..], [bm, remm @ ..])`
      if b == bm then trimStartInner rem remm else none
  | this, [] => some this                                -- `_ => break 'inner`

/-- the outer `loop` of `__bytes_trim_start_matches`; one unit of fuel = one iteration
    (first-byte arm, `'inner`, `matched = needle`) -/
def trimStartLoop (needle : List Nat) : Nat → List Nat → List Nat
  | 0, this => this
  | fuel + 1, this =>
    -- `let at_start = this;`
    match this, needle with
    | b :: rem, bm :: remm =>
      if b == bm then
        match trimStartInner rem remm with
        | none => this                                   -- `return at_start`
        | some this' => trimStartLoop needle fuel this'
      else this                                          -- `_ => return this`
    | _, _ => this                                       -- `_ => return this`

/-- `__bytes_trim_start_matches` (`if needle.is_empty() { return this }`) -/
def trimStartMatchesL (this needle : List Nat) : List Nat :=
  if needle.isEmpty then this else trimStartLoop needle (this.length + 1) this

/-- the `'inner` loop of `__bytes_trim_end_matches` (`[rem @ .., b]`, `[remm @ .., bm]`) -/
def trimEndInner : Nat → List Nat → List Nat → Option (List Nat)
  | 0, this, _ => some this
  | fuel + 1, this, matched =>
    match this.getLast?, matched.getLast? with
    | none, some _ => none                               -- `([], [.., _]) => return at_start`
    | some b, some bm =>
        if b == bm then trimEndInner fuel this.dropLast matched.dropLast else none
    | _, none => some this                               -- `_ => break 'inner`

/-- the outer `loop` of `__bytes_trim_end_matches` -/
def trimEndLoop (needle : List Nat) : Nat → List Nat → List Nat
  | 0, this => this
  | fuel + 1, this =>
    match this.getLast?, needle.getLast? with
    | some b, some bm =>
      if b == bm then
        match trimEndInner (needle.length + 1) this.dropLast needle.dropLast with
        | none => this
        | some this' => trimEndLoop needle fuel this'
      else this
    | _, _ => this

/-- `__bytes_trim_end_matches` -/
def trimEndMatchesL (this needle : List Nat) : List Nat :=
  if needle.isEmpty then this else trimEndLoop needle (this.length + 1) this

/-- `__bytes_trim_start_matches` as a view -/
def trimStartMatches (this needle : List Nat) : View := suffixView this (trimStartMatchesL this needle)
/-- `__bytes_trim_end_matches` as a view -/
def trimEndMatches (this needle : List Nat) : View := prefixView (trimEndMatchesL this needle)
/-- `__bytes_trim_matches`: `let ltrim = start_matches(this, needle); end_matches(ltrim, needle)` -/
def trimMatches (this needle : List Nat) : View :=
  let ltrim := trimStartMatchesL this needle
  (suffixView this ltrim).comp (prefixView (trimEndMatchesL ltrim needle))

end Konst.Bytes
