import KonstVerif.Spec.Utf8
/-
  Reference semantics of the std operations C20 compares against (independent of the model):
  `<[&str]>::concat`, `<[&str]>::join`, `String::from_iter`, `<[&[T]]>::concat`,
  `core::str::from_utf8`, and `core::ffi::CStr` (constructors and conversions).
  A `&str` is its byte list, a `char` its scalar value, a `&CStr` the byte list *including* the
  terminating nul.
-/
namespace Konst.Spec.Concat
open Konst.Spec

/-- `<[&str]>::concat` / `<[&[T]]>::concat` -/
def stdConcat {α : Type} (pieces : List (List α)) : List α := pieces.flatten

/-- `<[&str]>::join(sep)` -/
def stdJoin {α : Type} (sep : List α) (pieces : List (List α)) : List α := List.intercalate sep pieces

/-- `String::from_iter` / `collect::<String>()` over `char`s -/
def stdCollectChars (cs : List Nat) : List Nat := Utf8.encs cs

/-- `String::from_iter` over `&str`s -/
def stdCollectStrs (ss : List (List Nat)) : List Nat := ss.flatten

/-! ### `core::str::from_utf8` -/

/-- walk over whole characters; `pos` = bytes accepted so far; stops at the first byte sequence that
    is not a complete well-formed character (`Utf8Error::valid_up_to`) -/
def utf8Scan : Nat → List Nat → Nat → Option Nat
  | _, [], _ => none
  | 0, _ :: _, pos => some pos
  | fuel + 1, s@(_ :: _), pos =>
    match Utf8.decodeOne s with
    | none => some pos
    | some (_, r) => utf8Scan fuel r (pos + (s.length - r.length))

/-- `core::str::from_utf8(bs)`: `ok bs`, or `error valid_up_to` -/
def stdFromUtf8 (bs : List Nat) : Except Nat (List Nat) :=
  match utf8Scan bs.length bs 0 with
  | none => .ok bs
  | some p => .error p

/-! ### `core::ffi::CStr` -/

/-- the first index holding a `0` byte ("least `i` with `bs[i] = 0`", see `firstNul_spec`) -/
def firstNul : List Nat → Option Nat
  | [] => none
  | b :: r => if b = 0 then some 0 else (firstNul r).map (· + 1)

/-- `FromBytesWithNulError` -/
inductive NulError where
  | interiorNul (position : Nat)
  | notNulTerminated
deriving DecidableEq, Repr

/-- `CStr::from_bytes_until_nul`: the prefix up to and including the first nul -/
def stdFromBytesUntilNul (bs : List Nat) : Option (List Nat) :=
  (firstNul bs).map fun i => bs.take (i + 1)

/-- `CStr::from_bytes_with_nul`: ok iff the first nul is the last byte -/
def stdFromBytesWithNul (bs : List Nat) : Except NulError (List Nat) :=
  match firstNul bs with
  | some i => if i + 1 = bs.length then .ok bs else .error (.interiorNul i)
  | none => .error .notNulTerminated

/-- the invariant of a `&CStr`: non-empty, last byte nul, no other nul -/
def IsCStr (c : List Nat) : Prop := firstNul c = some (c.length - 1) ∧ c ≠ []

/-- `CStr::to_bytes_with_nul` -/
def stdToBytesWithNul (c : List Nat) : List Nat := c
/-- `CStr::to_bytes` -/
def stdToBytes (c : List Nat) : List Nat := c.dropLast
/-- `CStr::to_str` -/
def stdToStr (c : List Nat) : Except Nat (List Nat) := stdFromUtf8 c.dropLast

end Konst.Spec.Concat
