import KonstVerif.Model.LitDecode
/-
  Reference semantics of Rust string literals (The Rust Reference, "String literals" /
  "Character escapes"), grammar-directed and independent of the scanner structure of the model:
  a literal body is a sequence of segments `text \escape`, followed by a final text run.
  (imports the model only for `hexDigitVal`/`charOfNat?`/`isContWs`.)
-/
namespace Konst.Lit.Spec
open Konst.Lit

/-- the escapes of a (non-raw, non-byte) string literal -/
inductive Esc where
  | n | r | t | bslash | zero | squote | dquote     -- \n \r \t \\ \0 \' \"
  | hex (h l : Char)                                -- \xHL   (7-bit)
  | uni (ds : List Char)                            -- \u{ds} (hex digits, `_` allowed)
  | cont (nl : Char) (ws : List Char)               -- `\` newline + following whitespace
deriving Repr

/-- source text of the escape after the backslash -/
def Esc.text : Esc → List Char
  | .n => ['n'] | .r => ['r'] | .t => ['t'] | .bslash => ['\\'] | .zero => ['0']
  | .squote => ['\''] | .dquote => ['"']
  | .hex h l => ['x', h, l]
  | .uni ds => 'u' :: '{' :: ds ++ ['}']
  | .cont nl ws => nl :: ws

def hexValue (ds : List Char) : Option Nat :=
  ds.foldl (fun acc c => match acc, hexDigitVal c with
                         | some a, some d => some (a * 16 + d)
                         | _, _ => none) (some 0)

/-- the characters the escape denotes -/
def Esc.meaning : Esc → List Char
  | .n => ['\n'] | .r => ['\r'] | .t => ['\t'] | .bslash => ['\\'] | .zero => ['\x00']
  | .squote => ['\''] | .dquote => ['"']
  | .hex h l => match hexValue [h, l] with | some v => [Char.ofNat v] | none => []
  | .uni ds => match (hexValue (ds.filter (· ≠ '_'))).bind charOfNat? with | some c => [c] | none => []
  | .cont _ _ => []

/-- well-formedness per the Reference -/
def Esc.WF : Esc → Prop
  | .hex h l => ∃ v, hexValue [h, l] = some v ∧ v < 128
  | .uni ds => (∀ c ∈ ds, c ≠ '}') ∧ ds.filter (· ≠ '_') ≠ [] ∧ (ds.filter (· ≠ '_')).length ≤ 6 ∧
      ∃ v c, hexValue (ds.filter (· ≠ '_')) = some v ∧ charOfNat? v = some c
  | .cont nl ws => (nl = '\n' ∨ nl = '\r') ∧ ∀ c ∈ ws, isContWs c = true
  | _ => True

structure Body where
  segs : List (List Char × Esc)
  tail : List Char

/-- what follows a segment: the next segment's text, or the tail -/
def nextText : List (List Char × Esc) → List Char → List Char
  | [], tail => tail
  | (t, _) :: _, _ => if t = [] then ['\\'] else t

def segsWF : List (List Char × Esc) → List Char → Prop
  | [], tail => ∀ c ∈ tail, c ≠ '\\'
  | (t, e) :: r, tail =>
    (∀ c ∈ t, c ≠ '\\') ∧ e.WF ∧
    (match e with
     | .cont _ _ => ∀ c, (nextText r tail).head? = some c → isContWs c = false   -- maximal munch
     | _ => True) ∧ segsWF r tail

def Body.WF (b : Body) : Prop := segsWF b.segs b.tail

def renderSegs : List (List Char × Esc) → List Char → List Char
  | [], tail => tail
  | (t, e) :: r, tail => t ++ '\\' :: e.text ++ renderSegs r tail

def meaningSegs : List (List Char × Esc) → List Char → List Char
  | [], tail => tail
  | (t, e) :: r, tail => t ++ e.meaning ++ meaningSegs r tail

/-- the token text of the literal -/
def Body.render (b : Body) : List Char := '"' :: renderSegs b.segs b.tail ++ ['"']
/-- the string it denotes -/
def Body.meaning (b : Body) : List Char := meaningSegs b.segs b.tail

/-- raw string literal `r#…#"content"#…#` with `k` hashes -/
def renderRaw (k : Nat) (content : List Char) : List Char :=
  'r' :: (List.replicate k '#' ++ '"' :: (content ++ '"' :: List.replicate k '#'))

end Konst.Lit.Spec
