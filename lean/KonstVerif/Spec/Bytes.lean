/-
  Reference semantics of std's pattern search / strip / trim on byte strings (and on `&str`,
  where a `&str`/`char` pattern matches byte-wise).  Independent of the model; import-free.
-/
namespace Konst.Spec.Bytes

/-- "`p` occurs in `h` at byte offset `i`" -/
def occursAt (h p : List Nat) (i : Nat) : Bool := p.isPrefixOf (h.drop i)

/-- `str::find` / windowed search: the least offset `i ∈ 0..=len` at which `p` occurs -/
def findSpec (h p : List Nat) : Option Nat :=
  (List.range (h.length + 1)).find? (occursAt h p)

/-- `str::rfind`: the greatest such offset -/
def rfindSpec (h p : List Nat) : Option Nat :=
  (List.range (h.length + 1)).reverse.find? (occursAt h p)

/-- `str::contains` -/
def containsSpec (h p : List Nat) : Bool := (findSpec h p).isSome

/-- skip past the first occurrence: `&h[i + p.len()..]` -/
def findSkipSpec (h p : List Nat) : Option (List Nat) := (findSpec h p).map fun i => h.drop (i + p.length)
/-- keep from the first occurrence: `&h[i..]` -/
def findKeepSpec (h p : List Nat) : Option (List Nat) := (findSpec h p).map fun i => h.drop i
/-- truncate before the last occurrence: `&h[..i]` -/
def rfindSkipSpec (h p : List Nat) : Option (List Nat) := (rfindSpec h p).map fun i => h.take i
/-- truncate after the last occurrence: `&h[..i + p.len()]` -/
def rfindKeepSpec (h p : List Nat) : Option (List Nat) := (rfindSpec h p).map fun i => h.take (i + p.length)

/-- `str::split_once`: the parts before and after the first occurrence -/
def splitOnceSpec (h p : List Nat) : Option (List Nat × List Nat) :=
  (findSpec h p).map fun i => (h.take i, h.drop (i + p.length))

/-- `str::rsplit_once`: the parts before and after the last occurrence -/
def rsplitOnceSpec (h p : List Nat) : Option (List Nat × List Nat) :=
  (rfindSpec h p).map fun i => (h.take i, h.drop (i + p.length))

/-- `<[u8]>::starts_with`, `str::starts_with` -/
def startsWithSpec (h p : List Nat) : Bool := p.isPrefixOf h
/-- `<[u8]>::ends_with`, `str::ends_with` -/
def endsWithSpec (h p : List Nat) : Bool := p.isSuffixOf h

/-- `strip_prefix` -/
def stripPrefixSpec (h p : List Nat) : Option (List Nat) :=
  if p.isPrefixOf h then some (h.drop p.length) else none
/-- `strip_suffix` -/
def stripSuffixSpec (h p : List Nat) : Option (List Nat) :=
  if p.isSuffixOf h then some (h.take (h.length - p.length)) else none

set_option linter.unusedVariables false in
/-- `str::trim_start_matches(p)`: remove whole repetitions of a non-empty `p` while it is a prefix
    (an empty pattern removes nothing) -/
def trimStartSpec (p : List Nat) (h : List Nat) : List Nat :=
  if hp : p ≠ [] ∧ p.isPrefixOf h = true then trimStartSpec p (h.drop p.length) else h
termination_by h.length
decreasing_by
  have hne : 0 < p.length := List.length_pos_iff.mpr hp.1
  have hle := List.IsPrefix.length_le (List.isPrefixOf_iff_prefix.mp hp.2)
  simp only [List.length_drop]; omega

set_option linter.unusedVariables false in
/-- `str::trim_end_matches(p)` -/
def trimEndSpec (p : List Nat) (h : List Nat) : List Nat :=
  if hp : p ≠ [] ∧ p.isSuffixOf h = true then trimEndSpec p (h.take (h.length - p.length)) else h
termination_by h.length
decreasing_by
  have hne : 0 < p.length := List.length_pos_iff.mpr hp.1
  have hle := List.IsSuffix.length_le (List.isSuffixOf_iff_suffix.mp hp.2)
  simp only [List.length_take]; omega

/-- konst's documented `trim_matches`: trim the start, then the end
    (std has no `trim_matches` for `&str` patterns) -/
def trimMatchesSpec (p : List Nat) (h : List Nat) : List Nat := trimEndSpec p (trimStartSpec p h)

/-- `u8::is_ascii_whitespace`: `\t`, `\n`, form feed, `\r`, space -/
def isAsciiWhitespace (b : Nat) : Bool := [9, 10, 12, 13, 32].contains b

/-- `<[u8]>::trim_ascii_start` -/
def trimAsciiStartSpec (h : List Nat) : List Nat := h.dropWhile isAsciiWhitespace
/-- `<[u8]>::trim_ascii_end` -/
def trimAsciiEndSpec (h : List Nat) : List Nat := (h.reverse.dropWhile isAsciiWhitespace).reverse
/-- `<[u8]>::trim_ascii` -/
def trimAsciiSpec (h : List Nat) : List Nat := trimAsciiEndSpec (trimAsciiStartSpec h)

end Konst.Spec.Bytes
