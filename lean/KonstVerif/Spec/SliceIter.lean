import KonstVerif.Model.Basic
import KonstVerif.Spec.Slice
/-
  Reference semantics of std's double-ended slice iterators (independent of the model):
  the list of items each iterator yields front to back, the remainder of the exact variants,
  and a deque that is popped at either end (what `next` / `next_back` do to that list).
-/
namespace Konst.Spec

open Konst

variable {α : Type}

/-- `slice.iter()` / `slice.iter().copied()`: the elements in order -/
def iterSpec (l : List α) : List α := l

/-- `slice.windows(n)` (n ≥ 1): `&l[i .. i+n]` for every `i` with `i + n ≤ len`, in order -/
def windowsSpec (n : Nat) (l : List α) : List (List α) :=
  if n = 0 then [] else (List.range (l.length + 1 - n)).map fun i => (l.drop i).take n

/-- `slice.chunks(n)` (n ≥ 1): consecutive `n`-element pieces, the last one possibly shorter -/
def chunksSpec (n : Nat) (l : List α) : List (List α) :=
  if _h : l = [] ∨ n = 0 then [] else l.take n :: chunksSpec n (l.drop n)
termination_by l.length
decreasing_by
  have : l ≠ [] := fun e => _h (Or.inl e)
  have : 0 < l.length := List.length_pos_iff.mpr this
  simp only [List.length_drop]; omega

/-- `slice.rchunks(n)` (n ≥ 1): pieces cut from the END, yielded last piece first; the final item
    (the front of the slice) is possibly shorter -/
def rchunksSpec (n : Nat) (l : List α) : List (List α) :=
  if _h : l = [] ∨ n = 0 then [] else l.drop (l.length - n) :: rchunksSpec n (l.take (l.length - n))
termination_by l.length
decreasing_by
  have : l ≠ [] := fun e => _h (Or.inl e)
  have : 0 < l.length := List.length_pos_iff.mpr this
  simp only [List.length_take]; omega

/-- `slice.chunks_exact(n)` (n ≥ 1): only the full pieces (`Spec.chunksExact` of Spec/Slice.lean) -/
def chunksExactSpec (n : Nat) (l : List α) : List (List α) := chunksExact n l

/-- `ChunksExact::remainder()`: the `len % n` trailing elements (constant over the iteration) -/
def chunksExactRem (n : Nat) (l : List α) : List α := l.drop (l.length - l.length % n)

/-- `slice.rchunks_exact(n)` (n ≥ 1): full pieces cut from the end, last piece first -/
def rchunksExactSpec (n : Nat) (l : List α) : List (List α) :=
  if _h : n = 0 ∨ l.length < n then []
  else l.drop (l.length - n) :: rchunksExactSpec n (l.take (l.length - n))
termination_by l.length
decreasing_by simp only [List.length_take]; omega

/-- `RChunksExact::remainder()`: the `len % n` leading elements -/
def rchunksExactRem (n : Nat) (l : List α) : List α := l.take (l.length % n)

/-- `slice.array_chunks::<N>()` / `chunks_exact(N)` + `try_into`: the full pieces, as arrays -/
def arrayChunksSpec (n : Nat) (l : List α) : List (List α) := chunksExact n l

/-! ### a deque popped at either end -/

/-- `next()` on an iterator that still has to yield `q`: (item, what is left) -/
def popFront {ι : Type} : List ι → Option ι × List ι
  | [] => (none, [])
  | x :: xs => (some x, xs)

/-- `next_back()` -/
def popBack {ι : Type} (q : List ι) : Option ι × List ι :=
  match q.getLast? with
  | none => (none, [])
  | some x => (some x, q.dropLast)

def pop {ι : Type} : Dir → List ι → Option ι × List ι
  | .f => popFront
  | .b => popBack

/-- the results of a history of `next`/`next_back` calls (`none` for ever once empty) -/
def dequeRun {ι : Type} : List ι → List Dir → List (Option ι)
  | _, [] => []
  | q, d :: h => (pop d q).1 :: dequeRun (pop d q).2 h

/-- what is still to be yielded after a history -/
def dequeRest {ι : Type} : List ι → List Dir → List ι
  | q, [] => q
  | q, d :: h => dequeRest (pop d q).2 h

/-- histories that may also reverse the iterator between steps (`some d` = a step at end `d`,
    `none` = `.rev()`): `iter.rev()` yields the same items in the opposite order -/
def dequeRunX {ι : Type} : List ι → List (Option Dir) → List (Option ι)
  | _, [] => []
  | q, some d :: h => (pop d q).1 :: dequeRunX (pop d q).2 h
  | q, none :: h => dequeRunX q.reverse h

def dequeRestX {ι : Type} : List ι → List (Option Dir) → List ι
  | q, [] => q
  | q, some d :: h => dequeRestX (pop d q).2 h
  | q, none :: h => dequeRestX q.reverse h

end Konst.Spec
