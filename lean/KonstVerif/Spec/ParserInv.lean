import KonstVerif.Model.Parser
import KonstVerif.Spec.Utf8
/-
  The C13 invariant: a parser's offsets describe where its remainder sits in the original string.
  `cs` = the chars (scalar values) of the original `&str` (its bytes are `encs cs`), `base` = the
  offset given to `Parser::with_start_offset` (0 for `Parser::new`).
  Written with std's notions only: slicing (`drop`/`take`) and `IsBoundary` (= `str::is_char_boundary`,
  a prefix sum of character lengths).  Uses the model's `Parser` record as data, none of its functions.
-/
namespace Konst.Spec.ParserInv
open Konst.Parser Konst.Spec.Utf8

/-- `Inv cs base p`: with `lo = p.start_offset - base` and `hi = lo + p.str.len()` (= `end_offset - base`),
    `base ≤ start_offset`, the remainder is exactly `original[lo..hi]`, and `lo`, `hi` are char
    boundaries of the original (so `hi ≤ original.len()`). -/
structure Inv (cs : List Nat) (base : Nat) (p : Parser) : Prop where
  base_le : base ≤ p.startOffset
  str_eq : p.str = ((encs cs).drop (p.startOffset - base)).take p.str.length
  lo : IsBoundary cs (p.startOffset - base)
  hi : IsBoundary cs (p.startOffset - base + p.str.length)

end Konst.Spec.ParserInv
