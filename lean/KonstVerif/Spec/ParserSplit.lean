import KonstVerif.Spec.Bytes
/-
  Reference semantics of std's `str::split` / `str::rsplit` for a NON-EMPTY `&str`/`char` delimiter
  (byte-wise matching), written from `Spec/Bytes.findSpec` / `rfindSpec`; independent of the model.
  (Local to C13/C14: another property's `Spec/Split.lean` was not present when this was written.)

  * `splitSpec d h`   the pieces `h.split(d)` yields, front to back: cut at the FIRST occurrence,
                      continue behind it; the last piece is what is left when `d` no longer occurs
                      (so there is always at least one piece, and a trailing delimiter gives a final
                      empty piece)
  * `rsplitSpec d h`  the pieces `h.rsplit(d)` yields, back to front: cut at the LAST occurrence
  * `terminated l`    all pieces but the last: the pieces that are followed (for `rsplit`: preceded)
                      by a delimiter — what `Parser::split_terminator` / `rsplit_terminator` hand out
-/
namespace Konst.Spec.ParserSplit
open Konst.Spec.Bytes

/-- `str::split` with fuel (each cut removes at least `|d| ≥ 1` bytes; `splitSpec` passes `len + 1`) -/
def splitGo (d : List Nat) : Nat → List Nat → List (List Nat)
  | 0, h => [h]
  | fuel + 1, h =>
    match findSpec h d with
    | none => [h]
    | some i => h.take i :: splitGo d fuel (h.drop (i + d.length))

/-- `h.split(d).collect()` for a non-empty `d` -/
def splitSpec (d h : List Nat) : List (List Nat) := splitGo d (h.length + 1) h

/-- `str::rsplit` with fuel -/
def rsplitGo (d : List Nat) : Nat → List Nat → List (List Nat)
  | 0, h => [h]
  | fuel + 1, h =>
    match rfindSpec h d with
    | none => [h]
    | some i => h.drop (i + d.length) :: rsplitGo d fuel (h.take i)

/-- `h.rsplit(d).collect()` for a non-empty `d` -/
def rsplitSpec (d h : List Nat) : List (List Nat) := rsplitGo d (h.length + 1) h

/-- the pieces that are followed (preceded) by a delimiter: all but the last one yielded -/
def terminated (l : List (List Nat)) : List (List Nat) := l.dropLast

end Konst.Spec.ParserSplit
