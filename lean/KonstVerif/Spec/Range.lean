import KonstVerif.Model.Basic
/-
  What std's range iterators yield (C09) — written independently of the model.

  `core::ops::Range<T>`, `RangeInclusive<T>` (T an integer type or `char`) are double-ended
  iterators over the values between the bounds, in increasing order; for `char` these are the
  Unicode scalar values between the bounds (the surrogates 0xD800..=0xDFFF are not `char`s).
  A double-ended iterator answers a front/back history like a deque that is popped at either end,
  with `None` forever once it is empty.  `RangeFrom<T>` yields `start, start+1, …`; what happens
  when the maximum of the type is reached is documented as unspecified overflow behaviour.
-/
namespace Konst.Spec.Range
open Konst

/-- the values of `a..b` (integer types): none when `a ≥ b` -/
def rangeList (a b : Int) : List Int := (List.range (b - a).toNat).map fun (i : Nat) => a + (i : Int)

/-- the values of `a..=b` (integer types): none when `a > b` -/
def rangeIncList (a b : Int) : List Int := (List.range (b + 1 - a).toNat).map fun (i : Nat) => a + (i : Int)

/-- Unicode scalar value: what a `char` can hold -/
def isScalar (n : Nat) : Bool := n < 0xD800 || (0xE000 ≤ n && n ≤ 0x10FFFF)

/-- the chars of `a..b` as scalar values -/
def charRangeList (a b : Nat) : List Nat := (List.range' a (b - a)).filter isScalar

/-- the chars of `a..=b` as scalar values -/
def charRangeIncList (a b : Nat) : List Nat := (List.range' a (b + 1 - a)).filter isScalar

/-- the first `k` values of `a..` (integer types; in scope while they stay below the type's MAX) -/
def rangeFromList (a : Int) (k : Nat) : List Int := (List.range k).map fun (i : Nat) => a + (i : Int)

/-- the first `k` chars of `a..`: the first `k` of all the chars from `a` on -/
def charRangeFromList (a : Nat) (k : Nat) : List Nat := (charRangeList a 0x110000).take k

/-! ### `RangeFrom` driven to the type's maximum, in a build with overflow checks

`RangeFrom::next` is `let n = Step::forward(self.start, 1); Some(mem::replace(&mut self.start, n))`, and
`Step::forward` panics on overflow when overflow checks are on (always, for `char`).  So in the profile the
harness is built with, `a..` yields `a, …, MAX-1`, the step that would have to compute `MAX+1` panics, and
`None` is never returned.  A run of `k` steps is the values yielded and whether a step panicked. -/

/-- `k` steps of `a..` over an integer type with maximum `MAX` -/
def rangeFromChecked (MAX a : Int) (k : Nat) : List Int × Bool :=
  let d := (MAX - a).toNat
  (rangeFromList a (min k d), decide (d < k))

/-- `k` steps of `a..` over `char`: the first `k` chars from `a` on that are below `char::MAX` -/
def charRangeFromChecked (a k : Nat) : List Nat × Bool :=
  let l := (charRangeFromList a k).filter (· < 0x10FFFF)
  (l, decide (l.length < k))

/-- `Zip<RangeFrom, I>` where `I` has `k` items pulls `k + 1` items from the range before it stops -/
def zipOfRun {α : Type} (run : Nat → List α × Bool) (k : Nat) : List α × Bool :=
  let r := run (k + 1)
  if r.2 then r else (r.1.take k, false)

/-- `nth(n)`: the item with index `n` of `n + 1` steps (`none` = one of those steps panicked) -/
def nthOfRun {α : Type} (run : Nat → List α × Bool) (n : Nat) : Option α :=
  let r := run (n + 1)
  if r.2 then none else r.1[n]?

/-- `find(p)` with at most `limit` calls of `p`: `.inl x` found, `.inr true` a step panicked first,
    `.inr false` neither within the limit -/
def findOfRun {α : Type} (run : Nat → List α × Bool) (p : α → Bool) (limit : Nat) : α ⊕ Bool :=
  let r := run (limit + 1)
  match (r.1.take limit).find? p with
  | some x => .inl x
  | none => .inr r.2

/-- a double-ended iterator over the items `l`, asked the history `h`: one answer per call -/
def dequeRun {α : Type} : List α → List Dir → List (Option α)
  | _, [] => []
  | l, .f :: h => l.head? :: dequeRun l.tail h
  | l, .b :: h => l.getLast? :: dequeRun l.dropLast h

/-- the answers of `iter` (`rev = false`) or `iter.rev()` (`rev = true`) over the items `l` -/
def specRun {α : Type} (rev : Bool) (l : List α) (h : List Dir) : List (Option α) :=
  dequeRun (if rev then l.reverse else l) h

/-! ### evaluation shortcuts used by the driver

A range such as `i128::MIN..i128::MAX` cannot be materialised as a list.  A history of `d` steps
only ever looks at the first `d` and the last `d` items, so the driver evaluates `specRun` on the
two ends only.  Every shortcut below is proved equal to the plain definition above for all inputs
(`Props/C09.lean`: `dequeRunFast_eq`, `rangeSpec_shortcut`, … , `charRangeFrom_shortcut`); whether an end is
long enough is checked at run time, otherwise the plain definition is evaluated. -/

/-- `dequeRun` in linear time: the front is popped from `l`, the back from the reversed copy `r`, `cnt` items remain -/
def dequeRunFast.go {α : Type} : List α → List α → Nat → List Dir → List (Option α)
  | _, _, _, [] => []
  | l, r, 0, _ :: h => none :: go l r 0 h
  | l, r, cnt + 1, .f :: h => l.head? :: go l.tail r cnt h
  | l, r, cnt + 1, .b :: h => r.head? :: go l r.tail cnt h

def dequeRunFast {α : Type} (l : List α) (h : List Dir) : List (Option α) :=
  dequeRunFast.go l l.reverse l.length h

def specRunFast {α : Type} (rev : Bool) (l : List α) (h : List Dir) : List (Option α) :=
  dequeRunFast (if rev then l.reverse else l) h

/-- `specRun rev full h` when `full = l1 ++ (something) ++ l2` -/
def specRunEnds {α : Type} (rev : Bool) (l1 l2 : List α) (full : Unit → List α) (h : List Dir) : List (Option α) :=
  if h.length ≤ l1.length ∧ h.length ≤ l2.length then specRunFast rev (l1 ++ l2) h else specRunFast rev (full ()) h

def specAnswer {α : Type} (rev : Bool) (ends : Option (List α × List α)) (full : Unit → List α) (h : List Dir) :
    List (Option α) :=
  match ends with
  | some (l1, l2) => specRunEnds rev l1 l2 full h
  | none => specRunFast rev (full ()) h

/-- the first and the last `d` values of `a..b`, when there are more than `2 d` -/
def rangeEnds (a b : Int) (d : Nat) : Option (List Int × List Int) :=
  if b - a > 2 * (d : Int) then some (rangeList a (a + d), rangeList (b - d) b) else none

def rangeIncEnds (a b : Int) (d : Nat) : Option (List Int × List Int) :=
  if b - a > 2 * (d : Int) then some (rangeList a (a + d), rangeIncList (b - d) b) else none

/-- the chars in the first and the last `w` code points of `a..b` -/
def charRangeEndsW (a b : Nat) (w : Nat) : Option (List Nat × List Nat) :=
  if a + w + w ≤ b then some (charRangeList a (a + w), charRangeList (b - w) b) else none

def charRangeIncEndsW (a b : Nat) (w : Nat) : Option (List Nat × List Nat) :=
  if a + w + w ≤ b then some (charRangeList a (a + w), charRangeIncList (b - w) b) else none

/-- windows of `d + 2048` code points hold at least `d` chars unless they leave the code space -/
def charRangeEnds (a b : Nat) (d : Nat) : Option (List Nat × List Nat) := charRangeEndsW a b (d + 2048)

def charRangeIncEnds (a b : Nat) (d : Nat) : Option (List Nat × List Nat) := charRangeIncEndsW a b (d + 2048)

/-- `charRangeFromList a k` without listing every char up to `char::MAX` -/
def charRangeFromFast (a k : Nat) : List Nat :=
  let l := charRangeList a (min (a + k + 2048) 0x110000)
  if k ≤ l.length then l.take k else charRangeFromList a k

/-- `charRangeFromChecked` through `charRangeFromFast` -/
def charRangeFromCheckedFast (a k : Nat) : List Nat × Bool :=
  let l := (charRangeFromFast a k).filter (· < 0x10FFFF)
  (l, decide (l.length < k))

end Konst.Spec.Range
